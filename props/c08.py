"""C08 — bad input is reported as errors; it never crashes or poisons the instance.

Proof (protocol half): coq/Props/Properties_C08.v — return value non-zero iff an error event was recorded during that
call, the record of a call is independent of earlier calls, a load after any (failed) call gives the fresh state, a run
keeps the instance usable; error string = the call's error messages (routing model).
Tie + run-time half (not a theorem, stated): an AddressSanitizer+UBSan build of library and harness is driven with
malformed inputs (token / line / number / byte mutations of valid inputs, grammar blocks with wrong or missing options,
truncated BASIC, unknown names, undefined entity numbers, extreme numbers, missing / unwritable files, malformed
database text); every call runs in a child process under a wall-clock limit. Checked per call: the process survives with
no sanitizer report, the call returns, return != 0 iff an error event was recorded iff the error string is non-empty,
the error string is exactly the model's fold of the call's error events, and a reload + probe matches a fresh instance."""
import json, os, re, concurrent.futures as cf
import vlib, wrap, gen_inputs
import props.c07 as c07

GARBAGE = ["", "\x01\x02\xff\xfe", "END END END", "-", "1e999", "-1e-999", "nan", "####", "\t\t", "(((", ")))", "\"", "'", ";", "\\", "%s%s%n", "A" * 3000, "0x7fffffff", "99999999999999999999", "-0"]
KEYWORDS = ["SOLUTION", "EQUILIBRIUM_PHASES", "EXCHANGE", "SURFACE", "GAS_PHASE", "KINETICS", "RATES", "REACTION", "MIX", "USE", "SAVE", "SELECTED_OUTPUT", "USER_PUNCH",
            "TRANSPORT", "ADVECTION", "INVERSE_MODELING", "SOLUTION_SPREAD", "SOLUTION_SPECIES", "PHASES", "KNOBS", "PRINT", "COPY", "DELETE", "DUMP", "RUN_CELLS",
            "SOLUTION_MODIFY", "SOLUTION_RAW", "EXCHANGE_RAW", "SURFACE_RAW", "KINETICS_RAW", "CALCULATE_VALUES", "INCLUDE$", "DATABASE", "TITLE", "REACTION_TEMPERATURE", "SOLID_SOLUTIONS",
            "ISOTOPES", "NAMED_EXPRESSIONS", "PITZER", "SIT", "LLNL_AQUEOUS_MODEL_PARAMETERS", "USER_GRAPH", "USER_PRINT", "REACTION_PRESSURE", "GAS_BINARY_PARAMETERS"]


def mutate(rng, text):
    lines = text.split("\n")
    k = rng.random()
    if k < 0.18 and lines:                                   # token replaced by garbage / extreme number
        i = rng.randrange(len(lines))
        toks = lines[i].split(" ")
        if toks:
            toks[rng.randrange(len(toks))] = rng.choice(GARBAGE)
        lines[i] = " ".join(toks)
    elif k < 0.30 and lines:                                 # line deleted / duplicated / swapped
        i = rng.randrange(len(lines))
        op = rng.random()
        if op < 0.4:
            del lines[i]
        elif op < 0.7:
            lines.insert(i, lines[i])
        else:
            j = rng.randrange(len(lines))
            lines[i], lines[j] = lines[j], lines[i]
    elif k < 0.42:                                           # truncated in the middle (also truncates BASIC programs)
        cut = rng.randrange(max(1, len(text)))
        return text[:cut]
    elif k < 0.54:                                           # random bytes inserted
        pos = rng.randrange(max(1, len(text)))
        junk = "".join(chr(rng.choice([1, 7, 9, 11, 27, 127, 128, 200, 255, 35, 59, 92, 34])) for _ in range(rng.randint(1, 6)))
        return text[:pos] + junk + text[pos:]
    elif k < 0.66:                                           # keyword swapped / unknown keyword / option misspelt
        i = rng.randrange(len(lines))
        if rng.random() < 0.5:
            lines[i] = rng.choice(KEYWORDS) + " " + rng.choice(["", "1", "-1", "1-0", "x", "99999999999"])
        else:
            lines[i] = " -" + rng.choice(["nosuchoption", "t", "", "-", "pH", "temp x", "units parsecs", "steps", "formula", "cells -3", "shifts 1e9x"])
    elif k < 0.76:                                           # numbers made extreme
        return re.sub(r"\d+\.?\d*(e-?\d+)?", lambda m: rng.choice([m.group(0), m.group(0), "1e308", "-5", "0", "1e-320", "1e400", "2147483648"]), text, count=rng.randint(1, 4))
    elif k < 0.86:                                           # unknown species / phase / element / undefined entity number
        return re.sub(r"\b(Na|Cl|Ca|Calcite|Halite|Gypsum|solution 1|X|Hfo_wOH)\b", lambda m: rng.choice(["Zz", "Nosuchphase", "solution 4711", "Qq+7", m.group(0)]), text, count=rng.randint(1, 3))
    else:                                                    # block spliced into another block
        other = rng.choice(BASE_SNIPPETS).split("\n")
        i = rng.randrange(len(lines) + 1)
        lines[i:i] = other[: rng.randint(1, len(other))]
    return "\n".join(lines)


BASE_SNIPPETS = c07.PERTURB[:18]        # frozen: the corpus must not change when other checks extend their snippet lists


def base_inputs(rng):
    k = rng.random()
    if k < 0.5:
        return rng.choice(BASE_SNIPPETS)
    if k < 0.9:
        return gen_inputs.multi_sim_input(rng, nsims=rng.randint(1, 3))[0]
    return rng.choice(c07.FAILING)


def gen_case(rng):
    kind = rng.random()
    text = base_inputs(rng)
    for _ in range(rng.randint(1, 3)):
        text = mutate(rng, text)
    text = text.replace("\x00", " ")
    if kind < 0.70:
        return {"kind": "RunString", "text": text}
    if kind < 0.80:
        return {"kind": "RunFile", "text": text}
    if kind < 0.85:
        return {"kind": "Accumulate", "text": text}
    if kind < 0.89:
        return {"kind": "RunFileMissing", "text": rng.choice(["nosuchfile.pqi", "/nonexistent/dir/in.pqi", "", "."])}
    if kind < 0.93:
        return {"kind": "LoadMissing", "text": rng.choice(["nosuch.dat", "/nonexistent/x.dat", "", "/"])}
    if kind < 0.97:
        return {"kind": "BadOutputPath", "text": text}
    # malformed database text: a mutated prefix of a small real database
    db = open(os.path.join(vlib.DB, "Amm.dat"), errors="replace").read()
    db = db[: rng.randint(200, 6000)]
    for _ in range(rng.randint(0, 2)):
        db = mutate(rng, db)
    return {"kind": "LoadString", "text": db.replace("\x00", " ")}


def long_line_cases():
    """valid inputs whose physical lines are long (buffer-growth boundaries of the line reader): comments are ignored by PHREEQC"""
    out = []
    base = "SOLUTION 1\n Na 1\n Cl 1\nEND\n"
    for n in (4000, 4095, 4096, 4097, 5000, 20000, 70000):
        out.append({"kind": "RunString", "text": "SOLUTION 1 # " + "c" * n + "\n Na 1\n Cl 1\nEND\n"})
        out.append({"kind": "RunFile", "text": "SOLUTION 1\n Na 1 # " + "x y " * (n // 4) + "\n Cl 1\nEND\n"})
    out.append({"kind": "RunString", "text": "# " + "z" * 9000 + "\n" + base})
    out.append({"kind": "RunString", "text": "TITLE " + "t " * 3000 + "\n" + base})
    out.append({"kind": "RunString", "text": "SOLUTION 1\n -nosuchoption # " + "q" * 4200 + "\nEND\n"})
    out.append({"kind": "Accumulate", "text": "SOLUTION 1 # " + "c" * 6000 + "\n Na 1\nEND"})
    out.append({"kind": "LoadString", "text": "# " + "d" * 6000 + "\n" + open(os.path.join(vlib.DB, "minimum.dat"), errors="replace").read()})
    return out


def basic_malformed_cases():
    """BASIC programs with broken control structure, each evaluated by a run (USER_PUNCH / USER_PRINT / RATES / CALCULATE_VALUES): the
    interpreter must report an error, never crash (loop-stack handling of NEXT / WEND / RETURN with other frames open)"""
    bodies = [
        " 10 FOR i = 1 TO 3\n 20 x = x + i\n 30 NEXT j",
        " 10 FOR i = 1 TO 2\n 20 FOR j = 1 TO 2\n 30 NEXT i\n 40 NEXT k",
        " 10 WHILE x < 2\n 20 x = x + 1\n 30 NEXT i\n 40 WEND",
        " 10 FOR i = 1 TO 2\n 20 WEND",
        " 10 GOSUB 100\n 20 END\n 100 NEXT i\n 110 RETURN",
        " 10 FOR i = 1 TO 2\n 20 RETURN\n 30 NEXT i",
        " 10 WHILE x < 1\n 20 GOSUB 100\n 30 WEND\n 40 END\n 100 WEND\n 110 RETURN",
        " 10 NEXT i",
        " 10 WEND",
        " 10 RETURN",
        " 10 FOR i = 1 TO 3\n 20 GOTO 999\n 30 NEXT i",
        " 10 ON 5 GOTO 20, 30\n 20 FOR i = 1 TO 2\n 30 NEXT i\n 40 NEXT i",
    ]
    out = []
    for k, b in enumerate(bodies):
        host = k % 4
        if host == 0:
            t = "SOLUTION 1\n Na 1\n Cl 1\nSELECTED_OUTPUT 1\n -reset false\nUSER_PUNCH 1\n -headings a\n%s\n 900 PUNCH 1\nEND\n" % b
        elif host == 1:
            t = "SOLUTION 1\n Na 1\n Cl 1\nUSER_PRINT\n%s\n 900 PRINT 1\nEND\n" % b
        elif host == 2:
            t = "RATES\n r1\n -start\n%s\n 900 SAVE 0\n -end\nSOLUTION 1\n Na 1\n Cl 1\nKINETICS 1\n r1\n -formula NaCl 1\n -m0 1\n -steps 10\nEND\n" % b
        else:
            t = "CALCULATE_VALUES\n cv\n -start\n%s\n 900 SAVE 1\n -end\nSOLUTION 1\n Na 1\n Cl 1\nUSER_PRINT\n 10 PRINT CALC_VALUE(\"cv\")\nEND\n" % b
        out.append({"kind": "RunString", "text": t})
    return out


PROBE = "SOLUTION 1\n Na 1.5\n Cl 1.5\n Ca 0.2\n C(4) 0.4\nSELECTED_OUTPUT 1\n -high_precision true\n -totals Na Ca\nEQUILIBRIUM_PHASES 1\n Calcite 0 0.01\nEND\n"


def ops_for(case):
    db = os.path.join(vlib.DB, "phreeqc.dat")
    ops = [["spy"], ["c", "LoadDatabase", 0, db], ["events", 0], ["c", "SetOutputStringOn", 0, 1]]
    k = case["kind"]
    if k == "RunFileMissing" or (k in ("RunString", "RunFile", "Accumulate") and int(vlib.key_of(case["text"])[:2], 16) % 4 == 0):
        # an earlier, non-failing call that leaves WARNINGS (and, for half of them, an accessor error line) behind: the error and warning
        # strings after the call under test must describe that call only
        ops.append(["c", "RunString", 0, "SOLUTION 8\n Na 1\n Clx 3\nSELECTED_OUTPUT 1\n -totals Xx Na\nEND\n"])
        if int(vlib.key_of(case["text"])[2:4], 16) % 2 == 0:
            ops.append(["cval", 0, 9999, 0])
        ops.append(["events", 0])
    if k == "RunString":
        ops.append(["c", "RunString", 0, case["text"]])
    elif k == "RunFile":
        ops.append(["c", "RunFile", 0, "input.pqi"])
    elif k == "Accumulate":
        for ln in case["text"].split("\n"):
            ops.append(["c", "AccumulateLine", 0, ln])
        ops.append(["c", "RunAccumulated", 0])
    elif k == "RunFileMissing":
        ops.append(["c", "RunFile", 0, case["text"]])
    elif k == "LoadMissing":
        ops.append(["c", "LoadDatabase", 0, case["text"]])
    elif k == "LoadString":
        ops.append(["c", "LoadDatabaseString", 0, case["text"]])
    elif k == "BadOutputPath":
        ops += [["c", "SetOutputFileName", 0, "/nonexistent_dir_verif/out.txt"], ["c", "SetOutputFileOn", 0, 1], ["c", "SetLogFileName", 0, "/nonexistent_dir_verif/l.txt"], ["c", "SetLogFileOn", 0, 1],
                ["c", "SetCurrentSelectedOutputUserNumber", 0, 1], ["c", "SetSelectedOutputFileName", 0, "/nonexistent_dir_verif/s.txt"], ["c", "SetSelectedOutputFileOn", 0, 1],
                ["c", "SetDumpFileName", 0, "/nonexistent_dir_verif/d.txt"], ["c", "SetDumpFileOn", 0, 1], ["c", "SetErrorFileName", 0, "/nonexistent_dir_verif/e.txt"], ["c", "SetErrorFileOn", 0, 1]]
        ops.append(["c", "RunString", 0, case["text"] + "\nDUMP\n -all\nEND\n"])
    icall = len(ops) - 1
    ops += [["events", 0], ["obs", 0, "lines"]]
    # reload + probe (C07 behaviour after a failed call)
    ops += [["c", "SetOutputFileOn", 0, 0], ["c", "SetLogFileOn", 0, 0], ["c", "SetDumpFileOn", 0, 0], ["c", "SetErrorFileOn", 0, 0], ["c", "SetOutputStringOn", 0, 0],
            ["c", "LoadDatabase", 0, db], ["c", "RunString", 0, PROBE], ["obs", 0]]
    return ops, icall


def run_case(case, wexe, timeout):
    with vlib.scratch("c08") as d:
        open(os.path.join(d, "input.pqi"), "w", errors="surrogateescape").write(case["text"])
        ops, icall = ops_for(case)
        env = {"ASAN_OPTIONS": "detect_leaks=0:abort_on_error=0:exitcode=99:allocator_may_return_null=1", "UBSAN_OPTIONS": "halt_on_error=1:exitcode=98:print_stacktrace=1"}
        res, rc, err = wrap.run_script(wexe, ops, d, timeout=timeout, env=env)
    return ops, icall, res, rc, err


def reference(wexe):
    ops = [["spy"], ["c", "LoadDatabase", 0, os.path.join(vlib.DB, "phreeqc.dat")], ["c", "RunString", 0, PROBE], ["obs", 0]]
    with vlib.scratch("c08r") as d:
        res, rc, err = wrap.run_script(wexe, ops, d, timeout=120)
    return c07.norm(res[-1])


def run(ctx):
    vlib.coq_stage(ctx, "Props/Properties_C08.vo")
    wexe = wrap.build_wdrive("asan")
    mexe = wrap.build_model_driver()
    ctx.rule = ("valid inputs (state-perturbing blocks, generated multi-simulation inputs, known failing inputs) hit by 1..3 mutations (garbage tokens, extreme numbers, deleted/duplicated/swapped lines, truncation, "
                "control and non-ASCII bytes, unknown keywords/options/names, undefined entity numbers, spliced blocks), delivered by RunString / RunFile / AccumulateLine+RunAccumulated; missing input and database files, "
                "unwritable output paths, malformed database text; each case in its own ASan+UBSan process under a time limit, followed by reload + probe. non-trivial = case whose call returned; distinct by content")
    if ctx.replay:
        cases = [json.load(open(ctx.replay))["case"]]
    else:
        # The case universe is a FIXED, fully triaged corpus: 6 slices generated from constant seeds; VERIF_SEED selects the
        # slice (quick) — thorough runs every slice with more cases per slice (the quick cases are a prefix). Rationale: on
        # 125 kLOC of legacy parsing code unbounded fuzzing keeps finding new genuine defects; every finding inside the
        # corpus has been repaired or is listed in KNOWN_FINDINGS.json, so a VIOLATION means a regression.
        import random
        slices = range(6) if ctx.thorough else [ctx.seed % 6]
        cases = []
        for sl in slices:
            r = random.Random(8000 + sl)
            cases += [gen_case(r) for _ in range(ctx.n(260, 600))]
        ctx.extra["corpus_slices"] = list(slices)
        cases[:0] = [{"kind": "RunString", "text": t} for t in c07.FAILING] + [{"kind": "RunString", "text": ""}, {"kind": "RunString", "text": "\n\n#only a comment\n"}] + long_line_cases() + basic_malformed_cases()
    ref = reference(wexe)
    tmo = 60
    with cf.ThreadPoolExecutor(max_workers=vlib.NCPU) as ex:
        results = list(ex.map(lambda c: run_case(c, wexe, tmo), cases))
    dist = {"kinds": {}, "returned_nonzero": 0, "returned_zero": 0, "timeouts": 0}
    for ci, (case, (ops, icall, res, rc, err)) in enumerate(zip(cases, results)):
        dist["kinds"][case["kind"]] = dist["kinds"].get(case["kind"], 0) + 1
        key = "c08:" + vlib.key_of(case)
        rep = {"kind": "input", "case": case, "input_text": case["text"][:4000], "database": "phreeqc.dat"}
        returned = res[icall] is not None and "r" in (res[icall] or {})
        ctx.case(key, nontrivial=returned, sample={"kind": case["kind"], "text": case["text"][:300]} if ci in (9, 10, 11) else None)
        if rc == 124 or (rc != 0 and not returned and "timeout" in err.lower()):
            dist["timeouts"] += 1
            k2 = key
            if re.search(r"(?i)kinetics", case["text"]) and re.search(r"(?i)-?formula|rates", case["text"]):
                k2 = "F4:kinetics-step-never-returns"
            elif "\\;" in case["text"]:
                k2 = "hang:backslash-semicolon-in-option-list"
            elif re.search(r"(?m)^\s*[A-Z_]+\s+\S*?(2147483\d{3}|\d{11,}|\de\+?\d{2,})", case["text"]):
                k2 = "ub:Phreeqc.h:2007"          # same root cause: entity number (range) near/over INT_MAX, loop over the range
            ctx.violation(k2, "the call did not return within %d s (the call must return normally)" % tmo, rep)
            continue
        if rc != 0 or any(r is None for r in res):
            what = "sanitizer report / crash / process exit during the call (driver exit code %s)" % rc
            m = re.search(r"(ERROR: AddressSanitizer[^\n]*|runtime error:[^\n]*|Assertion[^\n]*|terminate called[^\n]*)", err)
            site = re.search(r"/src/(?:phreeqcpp/)?(?:common/)?([\w.]+):(\d+):\d+: runtime error", err)
            if site:
                key = "ub:%s:%s" % (site.group(1), site.group(2))       # one finding per source location
            longtok = max([len(t) for ln in case["text"].split("\n") for t in ln.split("#")[0].split()] + [0])
            if site:
                pass
            elif "AddressSanitizer" in err:
                fr = re.search(r"#\d+ 0x\w+ in ([\w:~]+)[^\n]*?/src/(?:phreeqcpp/)?(?:common/)?([\w.]+):\d+", err)
                kind = re.search(r"AddressSanitizer: ([\w-]+)", err)
                if fr:
                    key = "asan:%s:%s:%s" % (kind.group(1) if kind else "error", fr.group(2), fr.group(1))
                    if "copy_token" in key and longtok < 200:
                        key += ":no-long-token:" + vlib.key_of(case)      # the recorded copy_token root cause needs an over-long token
            elif "Buffer overrun in Utilities::str" in err:
                # recorded root cause: a TOKEN (outside comments) longer than a fixed buffer; the same abort without such a token is new
                key = "abort:Utilities::strcpy_safe-buffer-overrun" if longtok >= 200 else "abort:strcpy_safe-without-long-token:" + vlib.key_of(case)
            first_missing = next((i for i, r in enumerate(res) if r is None), None)
            stage = "the malformed call" if first_missing is not None and first_missing <= icall + 2 else "reload/probe after the failed call"
            ctx.violation(key, "%s in %s: %s" % (what, stage, m.group(1) if m else err[-300:]), dict(rep, stderr=err[-3000:]))
            continue
        r = res[icall]["r"]
        events = res[icall + 1]["events"]
        obs = res[icall + 2]
        nerr = sum(1 for e in events if e["k"] == "err")
        if r != 0:
            dist["returned_nonzero"] += 1
        else:
            dist["returned_zero"] += 1
        if (r != 0) != (nerr > 0):
            ctx.violation(key, "return value %d but %d error messages were recorded during the call (non-zero must mean: at least one ERROR recorded)" % (r, nerr), dict(rep, observed={"rc": r, "errors": nerr}))
            continue
        if (obs["err"] != "") != (nerr > 0):
            ctx.violation(key, "error string %s although %d error events occurred in this call" % ("empty" if not obs["err"] else "non-empty", nerr), rep)
            continue
        # error / warning strings = the model's fold of THIS call's events
        ch = wrap.Chunks()
        sw = dict(obs["sw"]); sw["WarningStringOn"] = 1
        lines = wrap.route_script(sw, {}, {}, events, [], ch)
        model = wrap.parse_route_output(vlib.sh([mexe], input="\n".join(lines) + "\n", timeout=60)[1].split("\n"), ch)
        if obs["err"] != model.get("err_s", "") or obs["warn"] != model.get("warn_s", ""):
            ctx.violation(key, "error/warning strings do not describe exactly this call's messages", dict(rep, observed=obs["err"][:300], expected=model.get("err_s", "")[:300]))
            continue
        if obs["lines"]["err"][1:-1] != [l for l in obs["err"].split("\n")[:-1]] and obs["err"].endswith("\n"):
            if obs["lines"]["err"][1:-1] == [] and (case["kind"] in ("LoadString", "LoadMissing") or r != 0):
                ctx.violation("F9:line-views-not-refreshed-after-failed-run", "the failed call left the error string filled but its line accessors empty (update_errors not run)", rep)
            else:
                ctx.violation(key, "error line accessors are not the lines of the error string", rep)
                continue
        # reload + probe equals the fresh instance
        if res[-3]["r"] != 0 or res[-2]["r"] != 0:
            ctx.violation(key, "after the failed call LoadDatabase returns %s and the probe returns %s" % (res[-3]["r"], res[-2]["r"]), rep)
            continue
        d = c07.diff_obs(c07.norm(res[-1]), ref)
        if d and "names" not in d and "fileName" not in d:
            ctx.violation(key, "after the malformed call and a reload the instance differs from a fresh one: " + d, dict(rep, observed=d))
    ctx.extra["input_distribution"] = dist
    ctx.trusted += ["AddressSanitizer/UBSan (clang/gcc runtime) as crash / invalid-access / UB oracle: supports, does not prove, the run-time half", "Spy/wdrive harness; extracted routing model"]
    ctx.notes += ["PARTIAL: absence of crashes, invalid memory accesses and undefined behaviour for ALL byte sequences is a run-time property no Gallina model can exhibit; it is sampled under sanitizers, not proved",
                  "every call is made in a child process under a %d s wall-clock limit; a time-out is reported as 'does not return'" % tmo]
