"""C16 — Activity-coefficient models follow their defining equations and Gibbs-Duhem.

Stages (see notes/C16.md):
  1. T-gen: translator/c16_gen.py regenerates coq/Gen/Gen_C16_gammas.v / Gen_C16_aw.v from the current /repo sources;
     Props/Properties_C16.v re-proves that every gflag right-hand side of Phreeqc::gammas is its textbook model, that
     dg is the derivative, the LLNL interpolation, LOG_10 = ln 10, AW = exp(-M_w phi sum m).
  2. translator validation: the regenerated expressions evaluated in binary64 at the reported MU, DH_A, DH_B ... must
     reproduce the reported LG (ties generated text to the compiled code).
  3. T-corr, ion association: for phreeqc.dat / wateq4f.dat / llnl.dat (+ iso.dat for -activity_water) random
     compositions 1e-4..6 molal, 0..100 C; for EVERY aqueous species the Coq-verified interval checker
     Checker.check_gamma compares the reported LG with the model the database text assigns (independent parser
     translator/c16_dbparse.py) at the reported MU, DH_A, DH_B (1e-9).
  4. T-corr, Pitzer/SIT: composition paths (scaling and mixing, steps <= 1 %) through pitzer.dat, sit.dat, frezchem.dat,
     ColdChem.dat, Concrete_PZ.dat; per step the exact-rational discrete Gibbs-Duhem checker (relative 1e-4), per
     solution the interval checker check_aw: a_w = exp(-M_w OSMOTIC sum m) (1e-5)."""
import json, math, os, re, sys
from fractions import Fraction
import vlib
sys.path.insert(0, vlib.VERIF)
from translator import leaf, c16_gen, c16_dbparse as dbp

TOL_G = 1e-9
LLNL_DAVIES_KEY = "gamma:llnl-type-database:davies-species:DH_A-never-set"
W = 55.50837

PUNCH = """SELECTED_OUTPUT 1
 -reset false
 -high_precision true
USER_PUNCH 1
 -headings MU DHA DHB BDOT TK TC LAW OSM AW N
 10 t = SYS("aq", n, n$, t$, c)
 20 PUNCH MU, DH_A, DH_B, DH_BDOT("Na+"), TK, TC, LA("H2O"), OSMOTIC, ACT("H2O"), n
 30 FOR i = 1 TO n
 40 PUNCH n$(i), LG(n$(i)), MOL(n$(i)), LA(n$(i))
 50 NEXT i
"""
NFIX = 10


def gen():
    c16_gen.generate()


# ------------------------------------------------------------------------------------------------ helpers
def master_elements(dbpath):
    """primary element names of SOLUTION_MASTER_SPECIES (independent, tiny parser)"""
    els, block = [], None
    for line in dbp.logical_lines(open(dbpath, errors="replace").read()):
        t = line.split()
        if t[0].upper() in dbp.KEYWORDS:
            block = t[0].upper()
            continue
        if block == "SOLUTION_MASTER_SPECIES" and len(t) >= 3:
            els.append(t[0].replace("(+", "("))
    return els


def parse_rows(res):
    """harness result -> list of solutions {mu,A,B,bdot,tk,tc,law,osm,aw, sp:{name:(lg,mol,la)}} with exact hex kept"""
    out = []
    tab = (res.get("tables") or {}).get("1")
    if not tab:
        return out
    for row in tab[1:]:
        v = [vlib.cell_value(c) for c in row]
        if len(v) < NFIX or not isinstance(v[NFIX - 1], float):
            continue
        d = dict(zip(("mu", "A", "B", "bdot", "tk", "tc", "law", "osm", "aw"), v[:NFIX - 1]))
        n = int(v[NFIX - 1])
        sp = {}
        for i in range(n):
            c = v[NFIX + 4 * i: NFIX + 4 * i + 4]
            if len(c) == 4 and isinstance(c[0], str) and all(isinstance(x, float) for x in c[1:]):
                sp[c[0]] = (c[1], c[2], c[3])
        d["sp"] = sp
        out.append(d)
    return out


def model_value(m, o):
    """binary64 value of the textbook model (python pre-check only; Coq's check_gamma is the authority)"""
    mu, A, B = o["mu"], o["A"], o["B"]
    sq = math.sqrt(mu)
    k = m[0]
    if k == "neutral":
        return float(m[1]) * mu
    if k == "davies":
        z = float(m[1])
        return -A * z * z * (sq / (1 + sq) - 0.3 * mu)
    if k == "extdh":
        z = float(m[1])
        return -A * z * z * sq / (1 + float(m[2]) * B * sq) + float(m[3]) * mu
    if k == "one":
        return 0.0
    if k == "bdot":
        z = float(m[1])
        A, B, bd = o.get("dbA", A), o.get("dbB", B), o.get("dbBdot", o["bdot"])     # database grid values when available
        return -A * z * z * sq / (1 + float(m[2]) * B * sq) + bd * mu
    if k == "co2":
        c = [float(x) for x in m[1:6]]
        tk = o["tk"]
        return ((c[0] + c[1] * tk + c[2] / tk) * mu - (c[3] + c[4] * tk) * (mu / (mu + 1))) / math.log(10)
    if k == "wateriso":
        return o["law"] + math.log10(0.018)
    return float("nan")


def coq_model(m):
    q = leaf.coq_Q
    k = m[0]
    if k == "neutral":
        return "(GNeutral %s)" % q(m[1])
    if k == "davies":
        return "(GDavies %s)" % q(m[1])
    if k == "extdh":
        return "(GExtDH %s %s %s)" % (q(m[1]), q(m[2]), q(m[3]))
    if k == "one":
        return "GOne"
    if k == "bdot":
        return "(GBdot %s %s)" % (q(m[1]), q(m[2]))
    if k == "co2":
        return "(GCO2 %s)" % " ".join(q(x) for x in m[1:6])
    if k == "wateriso":
        return "(GWaterIso (18 # 1000))"
    raise ValueError(k)


def coq_obs(lg, o):
    q = leaf.coq_Q
    return "(mkObs %s %s %s %s %s %s %s)" % (q(lg), q(o["mu"]), q(o["A"]), q(o["B"]), q(o["bdot"]), q(o["tk"]), q(o["law"]))


def attach_llnl(dbinfo, o):
    """LLNL-type database: bracket of the reported temperature in the database's own grid and the exactly interpolated
    A, B, Bdot (independent of the engine's a_llnl / b_llnl / bdot_llnl)"""
    ll = dbinfo.get("llnl")
    if not ll or not ll.get("temps") or not all(len(ll[k]) == len(ll["temps"]) for k in ("adh", "bdh", "bdot")):
        return
    T = ll["temps"]
    tc = Fraction(o["tc"])
    if tc < T[0] or tc > T[-1]:
        return
    for i in range(len(T) - 1):
        if T[i] <= tc <= T[i + 1] and T[i] != T[i + 1]:
            o["br"] = (T[i], T[i + 1], ll["adh"][i], ll["adh"][i + 1], ll["bdh"][i], ll["bdh"][i + 1], ll["bdot"][i], ll["bdot"][i + 1])
            f = (tc - T[i]) / (T[i + 1] - T[i])
            o["dbA"], o["dbB"], o["dbBdot"] = (float(ll[k][i] + (ll[k][i + 1] - ll[k][i]) * f) for k in ("adh", "bdh", "bdot"))
            o["on_grid"] = tc in (T[i], T[i + 1])
            return


def gamma_expr(m, lg, o):
    """Coq boolean for one species observation"""
    q = leaf.coq_Q
    if m[0] == "bdot" and o.get("br"):
        return "check_gamma_llnl %s %s %s %s %s %s (mkBr %s)" % (coq_model(m), q(lg), q(o["mu"]), q(o["tc"]), q(o["tk"]), q(o["law"]),
                                                                 " ".join(q(x) for x in o["br"]))
    return "check_gamma %s %s" % (coq_model(m), coq_obs(lg, o))


def coq_bools(prelude, exprs, chunk=350, timeout=900):
    """evaluate a list of Coq boolean expressions by vm_compute (sharded over a few coqc processes);
    returns list of True/False/None (None = evaluation failed)"""
    import concurrent.futures as cf
    if not exprs:
        return [], []
    chunks = [exprs[i:i + chunk] for i in range(0, len(exprs), chunk)]

    def one(ch):
        v = prelude + "Definition cases : list bool := [\n%s\n].\nEval vm_compute in cases.\n" % ";\n".join(ch)
        rc, out = vlib.coq_eval(v, timeout=timeout)
        m = re.search(r"=\s*\[(.*?)\]\s*:\s*list bool", out, flags=re.S)
        if rc != 0 or not m:
            return [None] * len(ch), out[-1500:]
        vals = [x.strip() == "true" for x in m.group(1).split(";")]
        if len(vals) != len(ch):
            return [None] * len(ch), "length mismatch"
        return vals, ""
    res, errs = [], []
    with cf.ThreadPoolExecutor(max_workers=min(6, max(1, vlib.NCPU // 3))) as ex:
        for vals, err in ex.map(one, chunks):
            res += vals
            if err:
                errs.append(err)
    return res, errs


PRELUDE = ("From Coq Require Import QArith List.\nFrom IPV Require Import Base.RExpr Base.IntervalEval C16.Checker.\n"
           "Import ListNotations.\n")


# ------------------------------------------------------------------------------------------------ ion association
IA_DBS = ["phreeqc.dat", "wateq4f.dat", "llnl.dat", "iso.dat"]
MAJ_CAT = ["Na", "K", "Mg", "Ca"]
MAJ_AN = ["Cl", "S(6)", "C(4)", "Br"]
SKIP_EL = {"H", "O", "E", "Alkalinity", "H(0)", "H(1)", "O(0)", "O(-2)"}


def ia_solution_text(n, tc, ph, comps):
    s = "SOLUTION %d\n temp %.6g\n pH %.4g\n pe 4\n units mol/kgw\n" % (n, tc, ph)
    for e, c in comps:
        s += " %s %.8g\n" % (e, c)
    return s


def ia_jobs(ctx, nsol, only_db=None):
    """random compositions: a major salt pair carrying the ionic strength (1e-4 .. 6 molal), a second pair at a random
    fraction, plus a rotating set of the database's other elements as minor constituents (so that over a run every
    element, hence every species, of the database is visited); random temperature 0..100 C, random pH 4..10"""
    jobs, meta = [], {}
    for db in IA_DBS:
        if only_db and db != only_db:
            continue
        path = os.path.join(vlib.DB, db)
        if not os.path.exists(path):
            continue
        prim = [e for e in master_elements(path) if "(" not in e and e not in SKIP_EL]
        iso = db == "iso.dat"
        minors = [e for e in prim if e not in ("Na", "K", "Mg", "Ca", "Cl", "Br", "S", "C") and not e.startswith("[")
                  and e not in ("D", "T")]
        ctx.rng.shuffle(minors)
        pos = 0
        nd = nsol if not iso else max(6, nsol // 5)
        per_job = 4
        for j0 in range(0, nd, per_job):
            txt, sols = "", []
            for k in range(j0, min(nd, j0 + per_job)):
                tot = 10 ** ctx.rng.uniform(-4, math.log10(6.0))
                # 15 % exactly on the LLNL grid temperatures (where the interpolation degenerates), the rest strictly between
                tc = ctx.rng.choice([0.01, 25.0, 60.0, 100.0]) if ctx.rng.random() < 0.15 else ctx.rng.uniform(0.5, 99.5)
                ph = ctx.rng.uniform(4.0, 10.0) if not iso else ctx.rng.uniform(6.0, 8.5)
                cat = ctx.rng.choice([c for c in MAJ_CAT if c in prim])
                an = ctx.rng.choice([a for a in MAJ_AN if a.split("(")[0] in prim])
                if an == "C(4)":
                    tot = min(tot, 1.0)
                zc = 2 if cat in ("Mg", "Ca") else 1
                za = 2 if an == "S(6)" else 1
                comps = {cat: tot * za / (zc + za), an: tot * zc / (zc + za)}
                c2 = ctx.rng.choice([c for c in MAJ_CAT if c in prim])
                a2 = ctx.rng.choice(["Cl", "S(6)"])
                fr = 10 ** ctx.rng.uniform(-2, 0)
                comps[c2] = comps.get(c2, 0) + tot * fr / 2
                comps[a2] = comps.get(a2, 0) + tot * fr / 2
                for _ in range(ctx.rng.randint(4, 9)):
                    if not minors:
                        break
                    e = minors[pos % len(minors)]
                    pos += 1
                    comps[e] = comps.get(e, 0) + min(tot, 0.05) * 10 ** ctx.rng.uniform(-3, -0.5)
                if iso:
                    # isotopes are given in permil / TU and are only speciated in a reaction step (RUN_CELLS below)
                    comps["D"] = ctx.rng.uniform(-100, 100)
                    comps["[18O]"] = ctx.rng.uniform(-20, 20)
                    if ctx.rng.random() < 0.5:
                        comps["T"] = ctx.rng.uniform(0, 20)
                txt += ia_solution_text(k - j0 + 1, tc, ph, sorted(comps.items())) + PUNCH + "END\n"
                if iso:
                    txt += "RUN_CELLS\n -cells %d\nEND\n" % (k - j0 + 1)
                sols.append({"tc": tc, "tot": tot, "elements": sorted(comps)})
            jid = "ia:%s:%d" % (db, j0)
            jobs.append({"id": jid, "db": db, "text": txt})
            meta[jid] = sols
    return jobs, meta


def run_ion_association(ctx, gen_leaves, boost=1):
    nsol = ctx.n(32, 320) * boost
    jobs, meta = ia_jobs(ctx, nsol)
    res = vlib.run_inputs(jobs, timeout_each=60, workers=min(8, vlib.NCPU))
    dbs = {}
    obs = []         # (db, species, model, lg, o, jobid)
    nerr = nsols = 0
    unknown = set()
    for j in jobs:
        r = res.get(j["id"], {})
        if r.get("timeout") or r.get("crash"):
            nerr += 1
            continue
        db = j["db"]
        if db not in dbs:
            dbs[db] = dbp.parse_db(os.path.join(vlib.DB, db))
        rows = parse_rows(r)
        if r.get("rc", 1) != 0:
            nerr += 1            # some simulation of the job ended with ERROR: outside the premises; rows before it are kept
        for o in rows:
            if not (o["mu"] > 0) or not all(math.isfinite(o[k]) for k in ("mu", "A", "B", "tk", "law")):
                continue
            nsols += 1
            attach_llnl(dbs[db], o)
            for name, (lg, mol, la) in o["sp"].items():
                sp = dbs[db]["species"].get(name)
                if sp is None:
                    unknown.add(db + ":" + name)
                    continue
                obs.append((db, name, sp["model"], lg, o, j["id"]))
    # --- translator validation (generated expressions, binary64) ---------------------------------
    bad_tr = []
    if gen_leaves:
        for (db, name, m, lg, o, jid) in obs:
            if dbs[db]["llnl"] and m[0] in ("davies", "extdh"):
                continue      # the A, B these cases use (DH_A, DH_B members) are not what BASIC DH_A/DH_B report for LLNL databases (a_llnl, b_llnl)
            v = gen_value(gen_leaves, m, o)
            if v is not None and not abs(v - lg) <= 1e-12 * max(1.0, abs(lg)):
                bad_tr.append("%s %s %s: generated expression gives %r, reported LG %r" % (db, name, m[0], v, lg))
                if len(bad_tr) > 5:
                    break
        ctx.obligation("translator-validation(generated gammas right-hand sides reproduce reported LG in binary64)", not bad_tr, "; ".join(bad_tr))
    # --- choose what goes to the verified checker ------------------------------------------------
    flagged, byspecies = [], {}
    for ob in obs:
        db, name, m, lg, o, jid = ob
        e = model_value(m, o)
        if not abs(lg - e) <= 1e-10:
            flagged.append(ob)
        else:
            byspecies.setdefault((db, name), []).append(ob)
    # priority: everything the float pre-check flags; one observation (highest MU) of every species of the three
    # databases the property names and of the -activity_water species; then a second observation (lowest MU) and further
    # random ones; the thousands of iso.dat isotopologues (same formulas as their parents) fill what is left of the budget
    keep = ctx.n(2, 6)
    first, second, isorest = [], [], []
    for key in sorted(byspecies):
        l = sorted(byspecies[key], key=lambda ob: ob[4]["mu"])
        if key[0] == "iso.dat" and l[0][2][0] != "wateriso":
            isorest.append(ctx.rng.choice(l))
            continue
        first.append(l[-1])
        extra, seen = [l[0]] + [ctx.rng.choice(l) for _ in range(max(0, keep - 2))], {id(l[-1])}
        for ob in extra:
            if id(ob) not in seen:
                seen.add(id(ob))
                second.append(ob)
    ctx.rng.shuffle(second)
    ctx.rng.shuffle(isorest)
    cap = ctx.n(3000, 24000) * boost
    chosen = (list(flagged[:600]) + first + second + isorest)[:max(cap, len(flagged[:600]) + len(first))]
    exprs = [gamma_expr(ob[2], ob[3], ob[4]) for ob in chosen]
    vals, errs = coq_bools(PRELUDE, exprs)
    if errs:
        ctx.obligation("verified-checker-run(ion association)", False, errs[0])
    nviol = 0
    reported = set()
    for ob, ok in zip(chosen, vals):
        db, name, m, lg, o, jid = ob
        ctx.case("g:%s:%s:%s:%.3g" % (db, name, m[0], o["mu"]),
                 sample={"db": db, "species": name, "model": [str(x) for x in m], "MU": o["mu"], "TC": o["tc"], "LG": lg, "accepted": ok})
        if ok is False:
            key = "gamma:%s:%s" % (db, m[0])
            extra = ""
            if dbs[db]["llnl"] and m[0] == "davies" and lg == 0.0:
                # genuine finding on the unchanged tree (notes/C16.md, F-C16-1): one stable key for all species it affects
                key = LLNL_DAVIES_KEY
                extra = (" [LLNL-type database: species without -llnl_gamma are given the Davies equation (gflag 1), but gammas() uses a = DH_A, "
                         "which calc_dielectrics never sets when LLNL_AQUEOUS_MODEL_PARAMETERS is present, so log gamma = -0 while DH_A reports a_llnl]")
            if m[0] == "bdot" and o.get("br"):
                extra = (" [A, B, Bdot interpolated from the database's LLNL_AQUEOUS_MODEL_PARAMETERS grid at the reported %.6g C (%s): "
                         "A=%.9g B=%.9g Bdot=%.9g; the engine reports DH_A=%.9g DH_B=%.9g DH_BDOT=%.9g]"
                         % (o["tc"], "on a grid temperature" if o.get("on_grid") else "strictly between two grid temperatures", o["dbA"], o["dbB"], o["dbBdot"], o["A"], o["B"], o["bdot"]))
            if key in reported:
                continue
            reported.add(key)
            nviol += 1
            job = [j for j in jobs if j["id"] == jid][0]
            ctx.violation(key if key == LLNL_DAVIES_KEY else key + ":" + name,
                          "reported log gamma of %s (%s, model %s) = %.12g differs from the model value %.12g at MU=%.6g, DH_A=%.6g, DH_B=%.6g (tolerance 1e-9; rejected by the verified checker)"
                          % (name, db, m[0], lg, model_value(m, o), o["mu"], o["A"], o["B"]) + extra,
                          {"kind": "input", "sub": "gamma", "database": db, "input_text": job["text"], "species": name,
                           "model": [str(x) for x in m], "observed": {"LG": lg, "MU": o["mu"], "DH_A": o["A"], "DH_B": o["B"], "DH_BDOT": o["bdot"], "TC": o["tc"],
                                                                      "database_A_B_Bdot": [o.get("dbA"), o.get("dbB"), o.get("dbBdot")]},
                           "expected": model_value(m, o)})
    llsol = [o for o in {id(ob[4]): ob[4] for ob in obs if dbs[ob[0]]["llnl"]}.values()]
    stats = {"llnl_solutions_on_grid_temperature": sum(1 for o in llsol if o.get("on_grid")),
             "llnl_solutions_between_grid_temperatures": sum(1 for o in llsol if o.get("br") and not o.get("on_grid")),
             "llnl_worst_|reported - database| (DH_A, DH_B, DH_BDOT)": [max([abs(o[a] - o[b]) for o in llsol if o.get("br")] or [0.0])
                                                                     for a, b in (("A", "dbA"), ("B", "dbB"), ("bdot", "dbBdot"))]}
    stats.update({"solutions": nsols, "species_observations": len(obs), "sent_to_verified_checker": len(chosen),
             "python_flagged": len(flagged), "jobs_with_error": nerr, "unknown_species": sorted(unknown)[:10],
             "distinct_species": len({(ob[0], ob[1]) for ob in obs}),
             "by_model": {k: sum(1 for ob in chosen if ob[2][0] == k) for k in ("neutral", "davies", "extdh", "one", "bdot", "co2", "wateriso")}})
    ctx.extra.setdefault("input_distribution", {})["ion_association"] = stats
    if unknown:
        ctx.notes.append("species reported by the engine but not found by the independent parser: %s" % ", ".join(sorted(unknown)[:10]))
    return stats


def gen_value(L, m, o):
    """binary64 value of the REGENERATED right-hand side for this species"""
    try:
        k = m[0]
        if k == "neutral":
            return L["g0_lg"].eval([float(m[1]), o["mu"]])
        if k == "davies":
            return L["g1_lg"].eval([float(m[1]), o["A"], o["mu"]])
        if k == "extdh":
            return L["g2_lg"].eval([float(m[1]), o["A"], o["B"], float(m[2]), float(m[3]), o["mu"]])
        if k == "one":
            return 0.0
        if k == "bdot":
            return L["g7_lg"].eval([float(m[1]), o["A"], o["B"], o["bdot"], float(m[2]), o["mu"]])
        if k == "co2":
            return L["g8_lg"].eval([float(x) for x in m[1:6]] + [o["tk"], o["mu"], math.log(10.0)])
        if k == "wateriso":
            return L["g9_lg"].eval([o["law"], math.log(10.0), 0.018])
    except Exception:
        return None
    return None


# ------------------------------------------------------------------------------------------------ Pitzer / SIT
PZ_DBS = [("pitzer.dat", 0, 100), ("sit.dat", 0, 100), ("frezchem.dat", 0, 25), ("ColdChem.dat", 0, 25), ("pitzer+Concrete_PZ", 0, 100)]
SALTS = {"NaCl": {"Na": 1, "Cl": 1}, "KCl": {"K": 1, "Cl": 1}, "MgCl2": {"Mg": 1, "Cl": 2}, "CaCl2": {"Ca": 1, "Cl": 2},
         "Na2SO4": {"Na": 2, "S(6)": 1}, "K2SO4": {"K": 2, "S(6)": 1}, "MgSO4": {"Mg": 1, "S(6)": 1}, "NaBr": {"Na": 1, "Br": 1},
         "KBr": {"K": 1, "Br": 1}, "NaHCO3": {"Na": 1, "C(4)": 1}, "NaAl(OH)4": {"Na": 1, "Al": 1},
         # dissolved NEUTRAL solutes (no counter-ion; `pH 7 charge` lets the pH settle where they stay neutral): they exercise the
         # neutral-ion LAMBDA / ZETA terms of the Pitzer databases, which pure strong-electrolyte paths never touch
         "CO2": {"C(4)": 1}, "B(OH)3": {"B": 1}, "H4SiO4": {"Si": 1}}
NEUTRALS = ["CO2", "B(OH)3", "H4SiO4"]
SALT_MAX = {"NaCl": 6, "KCl": 4.5, "MgCl2": 5, "CaCl2": 6, "Na2SO4": 1.8, "K2SO4": 0.65, "MgSO4": 3, "NaBr": 6, "KBr": 5, "NaHCO3": 1.0, "NaAl(OH)4": 0.5, "CO2": 0.8, "B(OH)3": 0.8, "H4SiO4": 0.004}


def pz_text(n, tc, comps):
    s = "SOLUTION %d\n temp %.6g\n pH 7 charge\n units mol/kgw\n" % (n, tc)
    for e, c in sorted(comps.items()):
        s += " %s %.15g\n" % (e, c)
    return s


def salts_to_elements(sm):
    c = {}
    for s, m in sm.items():
        for e, k in SALTS[s].items():
            c[e] = c.get(e, 0.0) + k * m
    return c


def combined_concrete_db():
    """Concrete_PZ.dat is an add-on meant to be INCLUDEd after pitzer.dat: build the combined database text (cache dir)"""
    a, b = os.path.join(vlib.DB, "pitzer.dat"), os.path.join(vlib.DB, "Concrete_PZ.dat")
    if not (os.path.exists(a) and os.path.exists(b)):
        return None
    txt = open(a, errors="replace").read() + "\n" + open(b, errors="replace").read().replace("PRINT; -reset false", "") + "\n"
    out = os.path.join(vlib.CACHE, "c16" + vlib.REPO_TAG, "pitzer_Concrete_PZ.dat")
    vlib.write_if_changed(out, txt)
    return out


def pz_paths(ctx, npaths, nsteps):
    jobs = []
    for db, t0, t1 in PZ_DBS:
        path = combined_concrete_db() if db == "pitzer+Concrete_PZ" else os.path.join(vlib.DB, db)
        if not path or not os.path.exists(path):
            continue
        els = set(master_elements(path))
        have = lambda e: e in els or e.split("(")[0] in els
        salts = [s for s in SALTS if all(have(e) for e in SALTS[s])]
        if db == "pitzer+Concrete_PZ":
            salts = [s for s in salts if s in ("NaCl", "KCl", "NaAl(OH)4")]
        if not salts:
            continue
        for p in range(npaths):
            kind = "scale" if p % 3 != 2 else "mix"
            tc = ctx.rng.choice([25.0, float(t0), float(t1)]) if ctx.rng.random() < 0.3 else ctx.rng.uniform(t0, t1)
            if p == 0 and db != "pitzer+Concrete_PZ":
                chosen = [ctx.rng.choice(salts)]              # a single salt
            else:
                chosen = ctx.rng.sample(salts, min(len(salts), ctx.rng.randint(2, 5)))
            neut = [s for s in salts if s in NEUTRALS]
            chosen = [s for s in chosen if s not in NEUTRALS] or [ctx.rng.choice([s for s in salts if s not in NEUTRALS])]
            weights = {s: (1.0 if i == 0 else 10 ** ctx.rng.uniform(-2, 0)) for i, s in enumerate(chosen)}
            # paths 1 and 2 (concentrated mixture, scaling resp. mixing) always carry a neutral solute in a noticeable amount when
            # the database has one; elsewhere with probability 0.3
            if neut and (p in (1, 2) or (p > 0 and ctx.rng.random() < 0.3)):
                nsp = ctx.rng.choice(neut) if (p not in (1, 2) or "CO2" not in neut or ctx.rng.random() < 0.4) else "CO2"
                weights[nsp] = 10 ** ctx.rng.uniform(-1.3, -0.3) if nsp != "H4SiO4" else 10 ** ctx.rng.uniform(-3.5, -3)
                chosen = chosen + [nsp]
            h = 0.01 if p % 2 == 0 else ctx.rng.uniform(0.002, 0.01)
            span = (1 + h) ** nsteps
            # molality of the leading salt at the concentrated end: paths 0-2 are concentrated (that is where the
            # interaction terms matter), then alternately dilute / anywhere in 1e-4 .. 6 molal
            cap = min(SALT_MAX[s] / weights[s] for s in chosen) / max(1.0, sum(weights.values()) / 2)
            cap = min(cap, 6.0 / max(weights.values()))
            if p < 3:
                hi = cap * 10 ** ctx.rng.uniform(-0.5, 0)
            elif p % 2 == 1:
                hi = 10 ** ctx.rng.uniform(math.log10(1.2e-4 * span), -2)
            else:
                hi = 10 ** ctx.rng.uniform(math.log10(1.2e-4 * span), math.log10(cap))
            lo = max(hi / span, 1e-4)
            A = {s: w * lo for s, w in weights.items()}
            if kind == "scale":
                comps = [salts_to_elements({s: m * (1 + h) ** k for s, m in A.items()}) for k in range(nsteps + 1)]
            else:
                mid = math.sqrt(lo * hi)
                A = {s: w * mid for s, w in weights.items()}
                rmax = 1.0095 ** nsteps
                ratio = {s: math.exp(ctx.rng.uniform(-1, 1) * math.log(rmax)) for s in chosen}
                comps = [salts_to_elements({s: m * ratio[s] ** (k / float(nsteps)) for s, m in A.items()}) for k in range(nsteps + 1)]
            txt = "".join(pz_text(k + 1, tc, c) + PUNCH + "END\n" for k, c in enumerate(comps))
            jobs.append({"id": "pz:%s:%d" % (db, p), "db": path if db == "pitzer+Concrete_PZ" else db, "dbname": db, "text": txt, "kind": kind, "tc": tc, "salts": weights, "h": h, "lo": lo})
    return jobs


def gd_step_py(a, b):
    terms = []
    for name, (lg0, m0, l0) in a["sp"].items():
        if name == "H2O" or name not in b["sp"]:
            continue
        lg1, m1, l1 = b["sp"][name]
        terms.append((m0 + m1) / 2 * (l1 - l0))
    wt = W * (b["law"] - a["law"])
    res = sum(terms) + wt
    scale = (sum(abs(t) for t in terms) + abs(wt)) / 2
    return res, scale


def coq_gd(a, b):
    q = leaf.coq_Q
    sp = []
    for name, (lg0, m0, l0) in a["sp"].items():
        if name == "H2O" or name not in b["sp"]:
            continue
        lg1, m1, l1 = b["sp"][name]
        sp.append("(%s, %s, %s, %s)" % (q(m0), q(m1), q(l0), q(l1)))
    return "gd_check [%s] %s %s (1 # 10000)" % ("; ".join(sp), q(a["law"]), q(b["law"]))


def run_pitzer(ctx, boost=1):
    npaths = ctx.n(5, 14) * boost
    nsteps = ctx.n(16, 40)
    jobs = pz_paths(ctx, npaths, nsteps)
    res = vlib.run_inputs(jobs, timeout_each=180, workers=min(8, vlib.NCPU))
    exprs, info = [], []
    nerr = nstep = naw = nskip = 0
    worst_gd = worst_aw = 0.0
    for j in jobs:
        r = res.get(j["id"], {})
        if r.get("timeout") or r.get("crash"):
            nerr += 1
            continue
        rows = parse_rows(r)
        if r.get("rc", 1) != 0 or len(rows) < 2:
            nerr += 1                      # a solution of the path did not converge / ERROR: outside the premises
            if r.get("rc", 1) != 0:
                continue                   # rows can no longer be matched to path positions
        for k in range(len(rows) - 1):
            a, b = rows[k], rows[k + 1]
            if not a["sp"] or not b["sp"] or a["law"] == b["law"]:
                continue
            # premise of the discrete check: steps of at most ~1 % in every molality that matters
            summ = sum(m for n, (lg, m, la) in a["sp"].items() if n != "H2O")
            big = [abs(b["sp"][n][1] / m - 1) for n, (lg, m, la) in a["sp"].items() if n in b["sp"] and n != "H2O" and m > 0.02 * summ]
            if big and max(big) > 0.05:
                # the path itself is built with <= 1 % composition steps; a major SPECIES jumping by more than 5 % means a
                # non-smooth event (e.g. the charge-balancing pH switching regime): outside the premises, counted
                nskip += 1
                continue
            res_, scale = gd_step_py(a, b)
            worst_gd = max(worst_gd, abs(res_) / scale if scale > 0 else 0)
            exprs.append(coq_gd(a, b))
            info.append(("gd", j, k, a, b, abs(res_) / scale if scale > 0 else 0))
            nstep += 1
        for k, a in enumerate(rows):
            summ = sum(m for n, (lg, m, la) in a["sp"].items() if n != "H2O")
            e = math.exp(-a["osm"] * summ / W)
            worst_aw = max(worst_aw, abs(a["aw"] - e))
            if k % 2 == 0 or abs(a["aw"] - e) > 1e-7:
                # exact sum of the reported molalities as a rational
                sq = sum((Fraction(m) for n, (lg, m, la) in a["sp"].items() if n != "H2O"), Fraction(0))
                exprs.append("check_aw %s %s %s" % (leaf.coq_Q(a["aw"]), leaf.coq_Q(a["osm"]), leaf.coq_Q(sq)))
                info.append(("aw", j, k, a, None, abs(a["aw"] - e)))
                naw += 1
    vals, errs = coq_bools(PRELUDE, exprs, chunk=120)
    if errs:
        ctx.obligation("verified-checker-run(Pitzer/SIT)", False, errs[0])
    reported = set()
    for (what, j, k, a, b, dev), ok in zip(info, vals):
        ctx.case("%s:%s:%d" % (what, j["id"], k),
                 sample={"db": j["dbname"], "check": what, "path": j["kind"], "salts": j["salts"], "TC": j["tc"], "step": k, "MU": a["mu"], "deviation": dev, "accepted": ok})
        if ok is False:
            key = "%s:%s" % ("gibbs-duhem" if what == "gd" else "water-activity", j["dbname"])
            if key in reported:
                continue
            reported.add(key)
            if what == "gd":
                msg = ("discrete Gibbs-Duhem residual along a %s path in %s (salts %s, %.4g C, step %d, MU %.5g -> %.5g) is %.3g relative (tolerance 1e-4)"
                       % (j["kind"], j["dbname"], ",".join(j["salts"]), j["tc"], k, a["mu"], b["mu"], dev))
            else:
                msg = ("water activity %.12g differs from exp(-M_w*OSMOTIC*sum m) by %.3g (tolerance 1e-5) in %s, salts %s, %.4g C, MU %.5g"
                       % (a["aw"], dev, j["dbname"], ",".join(j["salts"]), j["tc"], a["mu"]))
            ctx.violation(key + ":" + ",".join(sorted(j["salts"])), msg,
                          {"kind": "input", "sub": what, "database": j["dbname"], "input_text": j["text"], "step": k,
                           "observed": {"deviation": dev, "MU": a["mu"], "AW": a["aw"], "OSMOTIC": a["osm"]}, "expected": "relative residual <= 1e-4" if what == "gd" else "|aw - exp(-M_w phi sum m)| <= 1e-5"})
    ctx.extra.setdefault("input_distribution", {})["pitzer_sit"] = {
        "paths": len(jobs), "paths_with_error_or_nonconvergence": nerr, "gibbs_duhem_steps_checked": nstep, "steps_skipped(major species jumped by more than 5 %)": nskip, "water_activity_checks": naw,
        "worst_relative_gd_residual(binary64)": worst_gd, "worst_|aw-exp(-Mw phi sum m)|(binary64)": worst_aw,
        "databases": sorted({j["dbname"] for j in jobs})}
    return nstep, naw


# ------------------------------------------------------------------------------------------------ replay
def replay(ctx):
    rp = json.load(open(ctx.replay))
    if rp.get("kind") != "input":
        # an obligation replay: just rebuild the proofs
        vlib.coq_stage(ctx, "Props/Properties_C16.vo", gen=gen, extra_targets=["C16/Checker.vo"])
        return
    vlib.coq_make(["C16/Checker.vo"])
    db = rp["database"]
    dbfile = combined_concrete_db() if db == "pitzer+Concrete_PZ" else db
    r = vlib.run_inputs([{"id": "r", "db": dbfile, "text": rp["input_text"]}], timeout_each=180)["r"]
    rows = parse_rows(r)
    exprs, info = [], []
    if rp.get("sub") == "gamma":
        d = dbp.parse_db(os.path.join(vlib.DB, db))
        for o in rows:
            attach_llnl(d, o)
            for name, (lg, mol, la) in o["sp"].items():
                sp = d["species"].get(name)
                if sp and (name == rp.get("species") or True):
                    exprs.append(gamma_expr(sp["model"], lg, o))
                    info.append((name, sp["model"], lg, o))
        vals, errs = coq_bools(PRELUDE, exprs)
        for (name, m, lg, o), ok in zip(info, vals):
            ctx.case("replay:%s:%.3g" % (name, o["mu"]), sample={"species": name, "LG": lg, "accepted": ok})
            if ok is False:
                key = "gamma:%s:%s:%s" % (db, m[0], name)
                if d["llnl"] and m[0] == "davies" and lg == 0.0:
                    key = LLNL_DAVIES_KEY
                ctx.violation(key,
                              "replay: reported log gamma of %s = %.12g differs from the model value %.12g (1e-9)" % (name, lg, model_value(m, o)),
                              dict(rp, key=key, observed={"LG": lg, "MU": o["mu"]}, expected=model_value(m, o)))
    else:
        for k in range(len(rows) - 1):
            exprs.append(coq_gd(rows[k], rows[k + 1]))
            info.append(("gd", k))
        for k, a in enumerate(rows):
            sq = sum((Fraction(m) for n, (lg, m, la) in a["sp"].items() if n != "H2O"), Fraction(0))
            exprs.append("check_aw %s %s %s" % (leaf.coq_Q(a["aw"]), leaf.coq_Q(a["osm"]), leaf.coq_Q(sq)))
            info.append(("aw", k))
        vals, errs = coq_bools(PRELUDE, exprs, chunk=120)
        for (what, k), ok in zip(info, vals):
            ctx.case("replay:%s:%d" % (what, k), sample={"check": what, "step": k, "accepted": ok})
            if ok is False and what == rp.get("sub"):
                ctx.violation(rp.get("key", "replay"), "replay: %s check rejected at step %d" % (what, k), dict(rp))
                break
    ctx.rule = "replay of " + ctx.replay


# ------------------------------------------------------------------------------------------------ per-theorem failure attribution
PROOF_FILES = ["GammaProofs", "GammaDeriv", "GammaLLNL", "GammaAW", "PitzerTerms"]   # proofs about generated definitions


def attribute_failures(ctx):
    """When one lemma about a regenerated definition no longer proves, its file does not compile and `make` reports every
    theorem of Props/Properties_C16.v as failed.  Here the proof files are replayed through `coqtop` (which continues after
    an error) as modules of ONE stream: a lemma whose proof fails stays undefined, so exactly the theorems that (transitively)
    use it fail.  Returns ({theorem: bool}, [names of lemmas whose own proof failed]) or None if the replay is unusable.
    (Same technique as props/c20.py.)"""
    def strip_imports(txt, defined):
        def fix(m):
            sent = m.group(0)
            mine = [x for x in PROOF_FILES if re.search(r"\bC16\.%s\b" % x, sent)]
            for x in mine:
                sent = re.sub(r"\s*\bC16\.%s\b" % x, "", sent)
            return sent + "".join("\nImport %s." % x for x in mine if x in defined)
        return re.sub(r"From IPV Require Import[^.]*(?:\.[A-Za-z_][^.]*)*\.(?=\s)", fix, txt)
    out, defined, lemmas = [], [], []
    for f in PROOF_FILES:
        txt = open(os.path.join(vlib.COQ, "C16", f + ".v")).read()
        txt = re.sub(r"\(\*.*?\*\)", "", txt, flags=re.S)
        lemmas += [(f, x) for x in re.findall(r"^\s*(?:Lemma|Theorem)\s+([\w']+)", txt, flags=re.M)]
        txt = strip_imports(txt, defined)
        txt = re.sub(r"\bQed\.", "Qed. Abort All.", txt)
        out.append("Module %s.\n%s\nEnd %s.\n" % (f, txt, f))
        defined.append(f)
    props = open(os.path.join(vlib.COQ, "Props", "Properties_C16.v")).read()
    props = re.sub(r"\(\*.*?\*\)", "", props, flags=re.S)
    thms = re.findall(r"^\s*Theorem\s+([\w']+)", props, flags=re.M)
    props = strip_imports(props, defined)
    props = re.sub(r"^\s*Print Assumptions [^\n]*\n", "", props, flags=re.M)
    props = re.sub(r"\bQed\.", "Qed. Abort All.", props)
    out.append("Module Props.\n" + props + "\nEnd Props.\n")
    out.append("Definition attr_marker (n : nat) := n.\n")
    names = ["Props." + t for t in thms] + ["%s.%s" % fl for fl in lemmas]
    for i, t in enumerate(names):
        out.append("Check (attr_marker %d).\nCheck %s.\n" % (i, t))
    out.append("Check (attr_marker %d).\n" % len(names))
    with vlib.scratch("attr16") as d:
        pth = os.path.join(d, "all.v")
        open(pth, "w").write("\n".join(out))
        rc, so, se = vlib.sh("coqtop -Q %s IPV -w -all < %s 2>&1" % (vlib.COQ, pth), cwd=d, timeout=900)
    parts = re.split(r"attr_marker (\d+)\s*\n\s*: nat", so)
    if len(parts) < 2 * len(names) + 1:
        return None
    okmap = {}
    for i, t in enumerate(names):
        seg = parts[2 * i + 2]
        okmap[t] = ("Error" not in seg) and (t.split(".")[-1] in seg)
    status = {t: okmap["Props." + t] for t in thms}
    broken = ["%s.%s" % fl for fl in lemmas if not okmap["%s.%s" % fl]]
    return status, broken


def checker_fresh():
    """C16/Checker.vo (and what it imports) is newer than all of its sources"""
    try:
        need = ["Base/RExpr", "Base/IntervalEval", "C16/Spec", "C16/Checker"]
        t = None
        for f in need:            # dependency order: every .vo newer than its .v and than the previous .vo
            v, vo = os.path.join(vlib.COQ, f + ".v"), os.path.join(vlib.COQ, f + ".vo")
            if not os.path.exists(vo) or os.path.getmtime(vo) < os.path.getmtime(v):
                return False
            if f.startswith("C16") and t is not None and os.path.getmtime(vo) < t:
                return False
            if f.startswith("Base"):
                t = max(t or 0, os.path.getmtime(vo))
        return True
    except OSError:
        return False


def localise(ctx):
    """name the lemma (hence the code region) behind each failing file:line reported by make"""
    seen = set()
    for name, ok, detail in list(ctx.obligations):
        if ok:
            continue
        for m in re.finditer(r"((?:C16|Gen|Base)/[\w]+\.v):(\d+)", detail or ""):
            f, ln = m.group(1), int(m.group(2))
            if (f, ln) in seen:
                continue
            seen.add((f, ln))
            try:
                lines = open(os.path.join(vlib.COQ, f)).read().split("\n")
            except OSError:
                continue
            lemma = "?"
            for k in range(min(ln, len(lines)) - 1, -1, -1):
                mm = re.match(r"\s*(?:Lemma|Theorem|Example|Definition)\s+([\w']+)", lines[k])
                if mm:
                    lemma = mm.group(1)
                    break
            ctx.notes.append("broken obligation localised: %s line %d, lemma %s (regenerated right-hand side it mentions = code region)" % (f, ln, lemma))
            ctx.obligation("localised:%s:%s" % (f, lemma), False, "first error at line %d" % ln)


# ------------------------------------------------------------------------------------------------ entry
def run(ctx):
    if ctx.replay:
        return replay(ctx)
    import threading
    leaves = {}
    # stage 2: regenerate (a refusal is a failed translator obligation, as in vlib.coq_stage)
    try:
        leaves.update(c16_gen.generate())
        ctx.obligation("translator(C16)", True)
    except Exception as ex:
        ctx.obligation("translator(C16)", False, repr(ex))
    # the verified checkers do not depend on the generated files: build them first, then prove the theorems (stage 3) while
    # the correspondence (stage 4) is already running
    if not checker_fresh():      # (vlib.coq_make takes the global coq lock: skip it when nothing has to be rebuilt)
        vlib.coq_make(["C16/Checker.vo"])
    if not checker_fresh():
        vlib.coq_stage(ctx, "Props/Properties_C16.vo", extra_targets=["C16/Checker.vo"])
        return
    box = {}

    def stage():
        try:
            box["ok"] = vlib.coq_stage(ctx, "Props/Properties_C16.vo", extra_targets=["C16/Checker.vo"])
        except Exception as ex:      # infrastructure trouble inside the thread must not be lost
            box["ok"] = False
            ctx.obligation("coq-stage", False, repr(ex))
    th = threading.Thread(target=stage)
    th.start()
    run_ion_association(ctx, leaves, 1)
    run_pitzer(ctx, 1)
    th.join()
    if not box.get("ok"):
        # a broken obligation: name the region and search harder for a concrete failing input (second, larger round)
        localise(ctx)
        try:
            att = attribute_failures(ctx)
        except Exception as ex:
            att = None
            ctx.notes.append("per-theorem attribution failed: %r" % ex)
        if att and not all(att[0].values()):      # only trust the replay if it reproduces a failure
            st, broken = att
            ctx.obligations = [(n, (True if st.get(n) else okk) if n in st else okk,
                                ("" if st.get(n) else det) if n in st else det) for n, okk, det in ctx.obligations]
            ctx.notes.append("failure attributed by coqtop replay to theorem(s): " + ", ".join(n for n, v in st.items() if not v)
                             + "; lemma(s) that no longer prove: " + ", ".join(broken))
        if not [v for v in ctx.violations if v[3]]:
            run_ion_association(ctx, {}, 2)
            run_pitzer(ctx, 2)
    ctx.rule = ("ion association: random compositions (major salt pair 1e-4..6 molal + rotating minor elements of the database, 0..100 C, pH 4..10) "
                "in phreeqc.dat/wateq4f.dat/llnl.dat/iso.dat; every aqueous species of every solution is compared by the Coq-verified interval "
                "checker check_gamma (1e-9) with the model the database text assigns; a case = (database, species, model, MU). "
                "Pitzer/SIT: scaling and mixing paths with steps <= 1 % in pitzer.dat/sit.dat/frezchem.dat/ColdChem.dat/Concrete_PZ.dat; a case = one "
                "path step through the exact-rational Gibbs-Duhem checker (1e-4) or one solution through check_aw (1e-5).")
    ctx.trusted += ["translator/leaf.py + clang 14 JSON AST (validated each run: generated expressions reproduce reported LG in binary64)",
                    "translator/c16_dbparse.py (independent database parser: species charge and -gamma/-llnl_gamma options)",
                    "Interval 4.x (BigZ floats) as used by IPV.Base.IntervalEval; Coquelicot (is_derive, auto_derive)",
                    "BASIC read-outs LG, MOL, LA, MU, DH_A, DH_B, DH_BDOT, TK, OSMOTIC, ACT report the engine's final state (harness/runsel.cpp)"]
    ctx.notes += ["floating-point rounding inside gammas is not modelled; its effect (<= 2e-15 observed) is covered by the 1e-9 tolerance",
                  "Gibbs-Duhem for the general Pitzer/SIT sums is checked on the implementation only (discrete, partial): the sums are not formalised",
                  "trapezoid discretisation error of a 1 % step is 8.3e-6 relative (ideal term m d ln m), inside the 1e-4 tolerance"]
