"""C17 — BASIC programs compute standard arithmetic, string and control-flow semantics.

Pipeline (see notes/C17.md):
  1. translator/c17_gen.py regenerates coq/Gen/Gen_C17_basic.v from PBasic.cpp/.h and the host files (clang AST);
  2. Props/Properties_C17.vo is rebuilt: theorems about the token-level interpreter model coq/C17/*.v
     and boolean obligations on the regenerated tables (keyword table, precedence levels, dispatch, hosts);
  3. correspondence: grammar-generated programs (+ a fixed corpus, + mutated/malformed ones) are run by the
     real implementation as USER_PUNCH, CALCULATE_VALUES, RATES and USER_PRINT programs and by the Coq model
     (vm_compute on the same program text, keyword table = the regenerated one); every delivered value is
     compared at 1e-12 relative, errors must be errors on both sides, crashes / hangs are violations.
"""
import concurrent.futures as cf
import hashlib, json, math, os, re, sys

import vlib

sys.path.insert(0, os.path.join(vlib.VERIF, "translator"))
import c17_gen

PID = "C17"
DBNAME = "phreeqc.dat"
RTOL = 1e-12
FUEL = "(200 * 100)%nat"
DEFECTS = {
    "mid": "C17:mid-start-beyond-end-aborts-process",
    "punch_in_cv": "C17:punch-inside-calculate-values-segfaults",
    "punch_leak": "C17:punch-inside-calculate-values-leaks-into-user-punch-columns",
}


def gen():
    c17_gen.gen()


# ----------------------------------------------------------------------------- program generator

SAFE_CHARS = "abcdefghijklmnopqrstuvwxyzABCDEFGHIJKLMNOPQRSTUVWXYZ0123456789 _.,+-*/=<>()!%&|~{}@"
NUMV = ["va", "vb", "vc", "vd", "ve", "vf", "averyveryverylongnamx", "averyveryverylongnamy", "Vg"]
TNTV = ["ta", "tb"]
STRV = ["sa$", "sb$", "sc$"]
ARRS = [("qa", [6]), ("qb", [3, 4]), ("qc", [2, 3, 4])]      # names; qb/qc/sr$ extents are drawn per program (Gen.arrs / Gen.sarrs)
SARRS = [("sq$", [6]), ("sr$", [3, 4])]          # string arrays
LOOPV = ["ii", "jj", "kk"]
SUBV = ["ma", "mb"]
PREC = {"OR": 0, "XOR": 0, "AND": 1, "=": 2, "<": 2, ">": 2, "<=": 2, ">=": 2, "<>": 2, "+": 3, "-": 3, "*": 4, "/": 4, "MOD": 4, "^": 5}


def reserved_words():
    p = os.path.join(vlib.COQ, "Gen", "Gen_C17_basic.v")
    try:
        txt = open(p).read()
    except OSError:
        return set()
    m = re.search(r"Definition command_tokens.*?\]\.", txt, flags=re.S)
    return set(re.findall(r'\("([^"]*)", "tok', m.group(0))) if m else set()


class Gen:
    """grammar-based generator. Expressions are ASTs printed with the *minimal* parentheses the interpreter's
    grammar needs (so precedence and associativity decide the value); programs terminate by construction;
    values that went through libm (EXP LOG SIN ... and ^) never reach a condition, a subscript, FLOOR/CEIL/MOD
    or a bit operation."""

    def __init__(self, rng, size):
        self.r = rng
        self.size = size            # rough number of lines of the main block
        self.lines = []             # (id, text)
        self.nid = 0
        self.outs = {}              # n -> list of (kind, text)   kind in num/str
        self.nsubs = rng.randint(0, 3)
        self.sub_ids = [self.new_id() for _ in range(self.nsubs)]
        self.data = []              # DATA items (kind, text)
        self.data_read = 0
        self.feat = set()
        # array extents differ per program and per dimension: the row-major offset of a(i,j[,k]) depends on every extent
        d1, d2 = rng.randint(2, 5), rng.randint(2, 5)
        if d1 == d2 and rng.random() < 0.8:
            d2 = d2 + 1 if d2 < 5 else d2 - 2
        self.arrs = [("qa", [6]), ("qb", [d1, d2]), ("qc", [rng.randint(2, 3), rng.randint(2, 4), rng.randint(2, 4)])]
        self.sarrs = [("sq$", [6]), ("sr$", [rng.randint(3, 4), rng.randint(3, 5)])]

    def new_id(self):
        self.nid += 1
        return self.nid

    # --- expressions: ('n',txt) ('v',name) ('b',op,a,b) ('neg',a) ('not',a) ('f',name,a) ('p',a) ('raw',txt,prec)
    def lit(self, small=False):
        r = self.r
        k = r.random()
        if small or k < 0.45:
            return ("n", str(r.randint(0, 12)))
        if k < 0.7:
            return ("n", r.choice(["0.5", "2.5", "0.125", "1.75", "0.1", "3.3", "12.25", ".5", "7.", "1e2", "1.5E-2", "2E+1",
                                   "123456.789", "0.001", "99.99", "1e-3", "6.02e3", "3.14159"]))
        if k < 0.85:
            return ("n", "%d.%d" % (r.randint(0, 99), r.randint(0, 999)))
        return ("n", str(r.randint(13, 100000)))

    def numvar(self, ctx):
        r = self.r
        pool = list(NUMV) + ctx.get("loopvars", [])
        if ctx.get("sub"):
            pool += SUBV
        if r.random() < 0.25:
            a, dims = r.choice(self.arrs)
            return ("raw", "%s(%s)" % (a, ", ".join(self.index(d, ctx) for d in dims)), 6)
        return ("v", r.choice(pool))

    def index(self, d, ctx):
        r = self.r
        k = r.random()
        lv = ctx.get("loopranges", {})
        ok = [v for v, (lo, hi) in lv.items() if lo >= 0 and hi < d]
        if ok and k < 0.4:
            return r.choice(ok)
        if k < 0.46:
            return "%d.%s" % (r.randint(0, d - 1), r.choice(["25", "4", "49"]))     # intexpr rounds to nearest
        if k < 0.5:
            return "%d + %d" % (r.randint(0, (d - 1) // 2), r.randint(0, (d - 1) // 2))
        if k < 0.53 and ctx.get("allow_bad"):
            self.feat.add("bad_subscript")
            return str(d + r.randint(0, 3))
        return str(r.randint(0, d - 1))

    def cexpr(self, depth, ctx):
        """clean numeric expression"""
        r = self.r
        if depth <= 0 or r.random() < 0.22:
            return self.lit() if r.random() < 0.5 else self.numvar(ctx)
        k = r.random()
        if k < 0.50:
            op = r.choice(["+", "-", "*", "/", "+", "-", "*", "MOD"])
            a, b = self.cexpr(depth - 1, ctx), self.cexpr(depth - 1, ctx)
            if op == "MOD" and r.random() < 0.8:
                b = ("n", str(r.randint(2, 9)))
            return ("b", op, a, b)
        if k < 0.60:
            a = self.cexpr(depth - 1, ctx)
            b = a if r.random() < 0.15 else self.cexpr(depth - 1, ctx)
            return ("b", r.choice(["=", "<", ">", "<=", ">=", "<>"]), a, b)
        if k < 0.68:
            return ("b", r.choice(["AND", "OR", "XOR"]), self.iexpr(depth - 1, ctx), self.iexpr(depth - 1, ctx))
        if k < 0.72:
            return ("not", self.iexpr(depth - 1, ctx))
        if k < 0.80:
            return ("neg", self.cexpr(depth - 1, ctx))
        if k < 0.90:
            f = r.choice(["ABS", "SGN", "FLOOR", "CEIL", "SQR", "SQRT"])
            a = self.cexpr(depth - 1, ctx)
            if f == "SQRT":
                a = ("f", "ABS", a)
            return ("f", f, a)
        if k < 0.95:
            return self.strnum(depth - 1, ctx)
        return ("p", self.cexpr(depth - 1, ctx))

    def iexpr(self, depth, ctx):
        """small integer-valued clean expression"""
        r = self.r
        k = r.random()
        if depth <= 0 or k < 0.4:
            lv = ctx.get("loopvars", [])
            if lv and r.random() < 0.5:
                return ("v", r.choice(lv))
            return ("n", str(r.randint(0, 15)))
        if k < 0.6:
            return ("b", r.choice(["+", "-", "*"]), self.iexpr(depth - 1, ctx), self.iexpr(depth - 1, ctx))
        if k < 0.75:
            return ("f", "FLOOR", self.cexpr(depth - 1, ctx))
        if k < 0.85:
            return ("b", r.choice(["=", "<", ">", "<=", ">=", "<>"]), self.cexpr(depth - 1, ctx), self.cexpr(depth - 1, ctx))
        return ("b", r.choice(["AND", "OR", "XOR"]), self.iexpr(depth - 1, ctx), self.iexpr(depth - 1, ctx))

    def strnum(self, depth, ctx):
        """numeric value computed from strings"""
        r = self.r
        k = r.random()
        if k < 0.3:
            return ("f", "LEN", self.sexpr(depth, ctx))
        if k < 0.45:
            return ("f", "ASC", self.sexpr(depth, ctx))
        if k < 0.65:
            if r.random() < 0.6:
                # needle related to the haystack (case split of instr_spec: absent / first of several occurrences / at the
                # end / whole string / empty / longer than the haystack); a two-letter alphabet makes repeats the rule
                hay = "".join(r.choice("ab") if r.random() < 0.8 else r.choice("c x") for _ in range(r.choice([1, 2, 3, 4, 6, 9])))
                m = r.random()
                if m < 0.55:
                    i = r.randrange(len(hay)); ndl = hay[i:i + r.choice([1, 1, 2, 3])]
                elif m < 0.7:
                    ndl = hay[-r.choice([1, 2]):]
                elif m < 0.8:
                    ndl = hay
                elif m < 0.9:
                    ndl = hay + r.choice("ab")
                else:
                    ndl = r.choice(["", "d", "ba", "ab"])
                return ("raw", 'INSTR("%s", "%s")' % (hay, ndl), 6)
            return ("raw", "INSTR(%s, %s)" % (self.pr(self.sexpr(depth, ctx), 6), self.pr(self.sexpr(0, ctx), 6)), 6)
        if k < 0.8:
            a = self.sexpr(depth, ctx)
            m = r.random()
            if m < 0.3:
                b = a                                                    # equal operands exercise the boundary of <= >= <>
            elif m < 0.5:
                b = ("b", "+", a, ("s", '"%s"' % r.choice("aZ0 ~!")))    # a is a proper prefix of b (str_cmp: shorter is smaller)
                if r.random() < 0.5:
                    a, b = b, a
            else:
                b = self.sexpr(depth, ctx)
            return ("b", r.choice(["=", "<", ">", "<=", ">=", "<>"]), a, b)
        inner = self.pr(self.cexpr(min(depth, 2), dict(ctx, novar=True, loopvars=[], loopranges={})), 0)
        if '"' in inner or "$" in inner or "(" in inner and "q" in inner:
            inner = "1 + 2 * 3"
        return ("f", "VAL", ("s", '"%s"' % inner))

    def strlit(self):
        r = self.r
        n = r.choice([0, 1, 1, 2, 3, 5, 8, 14])
        s = "".join(r.choice("abcxyzABC 019_-+") for _ in range(n))
        s = re.sub(r"  +", " ", s).strip() if r.random() < 0.5 else re.sub(r"  +", " ", s)
        if s.endswith(" ") and r.random() < 0.5:
            s = s + "k"
        q = '"' if r.random() < 0.8 else "'"
        return ("s", q + s + q)

    def selem(self, ctx, arr=None):
        """element of a string array"""
        a, dims = arr or self.r.choice(self.sarrs)
        return ("raw", "%s(%s)" % (a, ", ".join(self.index(d, ctx) for d in dims)), 6)

    def sexpr(self, depth, ctx):
        r = self.r
        k = r.random()
        if depth <= 0 or k < 0.35:
            if r.random() < 0.3:
                return self.selem(ctx)
            return self.strlit() if r.random() < 0.6 else ("v", r.choice(STRV))
        if k < 0.55:
            return ("b", "+", self.sexpr(depth - 1, ctx), self.sexpr(depth - 1, ctx))
        if k < 0.65:
            s = self.sexpr(depth - 1, ctx)
            # start 1 (or below: clamped to 1) so that the start never lies beyond the end of the string
            # since fix c1d759ac a start beyond the end yields "" (modelled in Eval.v), so larger starts are in the domain too
            i = r.choice(["1", "1", "0", "-2", "1", "2", "3", "5", "9", "2.5"])
            j = r.choice(["", ", %d" % r.randint(0, 6), ", 0", ", %s" % self.pr(self.iexpr(1, ctx), 0), ", 2.5", ", 1.4"])
            return ("raw", "MID$(%s, %s%s)" % (self.pr(s, 0), i, j), 6)
        if k < 0.75:
            return ("raw", "%s(%s)" % (r.choice(["LTRIM", "RTRIM", "TRIM"]), self.pr(self.sexpr(depth - 1, ctx), 6)), 6)
        if k < 0.82:
            return ("raw", "PAD(%s, %s)" % (self.pr(self.sexpr(depth - 1, ctx), 0), r.choice([str(r.randint(0, 9)), "3.5", "4.49"])), 6)
        if k < 0.9:
            return ("raw", "CHR$(%d)" % r.randint(48, 122), 6)
        return ("raw", "TRIM(STR$(ABS(FLOOR(%s))))" % self.pr(self.cexpr(1, ctx), 0), 6)

    def texpr(self, depth, ctx):
        """expression whose value went through libm (compared at 1e-12, never steering control flow)"""
        r = self.r
        k = r.random()
        c = self.cexpr(1, ctx)
        if k < 0.12:
            return ("f", "EXP", ("b", "/", c, ("n", "64")))
        if k < 0.24:
            return ("f", r.choice(["LOG", "LOG10"]), ("b", "+", ("f", "ABS", c), ("n", r.choice(["1", "0.5", "2.25"]))))
        if k < 0.40:
            return ("f", r.choice(["SIN", "COS", "ARCTAN", "TAN"]), c)
        if k < 0.70:
            base = r.choice([("b", "+", ("f", "ABS", c), ("n", "0.5")), self.lit(), ("neg", ("n", str(r.randint(1, 5)))),
                             ("p", ("neg", ("n", str(r.randint(1, 5)))))])
            ex = r.choice([("n", str(r.randint(0, 5))), ("n", "0.5"), ("n", "1.5"), ("neg", ("n", str(r.randint(1, 3)))),
                           ("b", "^", ("n", str(r.randint(1, 3))), ("n", str(r.randint(0, 2))))])
            if base[0] in ("neg", "p") and ex[0] == "n" and "." in ex[1]:
                ex = ("n", "3")
            return ("b", "^", base, ex)
        if k < 0.85 and depth > 0:
            return ("b", r.choice(["*", "/"]), self.texpr(depth - 1, ctx), self.lit())
        if depth > 0:
            return ("b", "*", self.lit(), self.texpr(depth - 1, ctx))
        return ("f", "EXP", ("n", "1"))

    def prec(self, e):
        if e[0] == "b":
            return PREC[e[1]]
        if e[0] == "raw":
            return e[2]
        return 6

    def pr(self, e, ctx):
        """print with minimal parentheses for the interpreter's grammar (level ctx)"""
        t = e[0]
        if t in ("n", "v", "s"):
            return e[1]
        if t == "raw":
            return e[1] if e[2] >= ctx else "(" + e[1] + ")"
        if t == "p":
            return "(" + self.pr(e[1], 0) + ")"
        if t == "neg":
            return "-" + self.pr(e[1], 6)
        if t == "not":
            return "NOT " + self.pr(e[1], 6)
        if t == "f":
            inner = self.pr(e[2], 0)
            if e[1] in ("LEN", "ASC", "VAL", "ABS", "SGN", "SQRT") and self.r.random() < 0.1 and e[2][0] in ("n", "v", "s"):
                return e[1] + " " + self.pr(e[2], 6)          # FUNC factor without parentheses
            return "%s(%s)" % (e[1], inner)
        op = e[1]
        L = PREC[op]
        if op == "^":
            a = e[2]
            left = self.pr(a, 6)
            if a[0] == "neg" and self.r.random() < 0.9:
                left = "(" + left + ")"
            s = "%s ^ %s" % (left, self.pr(e[3], 5))
        else:
            s = "%s %s %s" % (self.pr(e[2], L), op, self.pr(e[3], L + 1))
        return s if L >= ctx else "(" + s + ")"

    # --- statements
    def emit(self, text, lid=None):
        lid = lid or self.new_id()
        self.lines.append((lid, text))
        return lid

    def out_stmt(self, ctx, n=None):
        r = self.r
        items = []
        for _ in range(n or r.randint(1, 3)):
            k = r.random()
            if k < 0.55:
                items.append(("num", self.pr(self.cexpr(r.randint(1, 4), ctx), 0)))
            elif k < 0.8:
                items.append(("tnt", self.pr(self.texpr(1, ctx), 0)))
            elif k < 0.88 and not ctx.get("sub"):
                items.append(("tnt", "%s * %s" % (r.choice(TNTV), self.pr(self.lit(), 4))))
            else:
                items.append(("str", self.pr(self.sexpr(2, ctx), 0)))
        k = len(self.outs)
        self.outs[k] = items
        return "@O%d@" % k

    def sweep(self, ctx, fill_only=False):
        """fill every element of a multi-dimensional array with a value that identifies its subscripts and/or read every
        element back (PUNCH each, or a position-weighted checksum): any two distinct elements that share storage show up"""
        r = self.r
        self.feat.add("array_sweep")
        isstr = r.random() < 0.3
        a, dims = (self.sarrs[1] if isstr else r.choice(self.arrs[1:]))
        vs = LOOPV[:len(dims)]
        elem = "%s(%s)" % (a, ", ".join(vs))
        emitted = 0

        def loops(body_lines):
            nonlocal emitted
            order = list(range(len(dims)))
            if r.random() < 0.4:
                r.shuffle(order)              # column-major / mixed traversal
            hdrs = []
            for q in order:
                if r.random() < 0.7:
                    hdrs.append("FOR %s = 0 TO %d" % (vs[q], dims[q] - 1))
                else:
                    hdrs.append("FOR %s = %d TO 0 STEP -1" % (vs[q], dims[q] - 1))
            nxt = ["NEXT %s" % vs[q] for q in reversed(order)]
            if r.random() < 0.4 and len(body_lines) == 1:
                self.emit(" : ".join(hdrs + body_lines + nxt))
                emitted += 1
            else:
                for h in hdrs:
                    self.emit(h)
                for b in body_lines:
                    self.emit(b)
                for x in nxt:
                    self.emit(x)
                emitted += len(hdrs) + len(body_lines) + len(nxt)
        what = "fill" if fill_only else r.choice(["fill", "dump", "both", "both", "sum"])
        if what in ("fill", "both"):
            if isstr:
                val = " + ".join("CHR$(%d + %s)" % (65 + 8 * q, v) for q, v in enumerate(vs))
            else:
                val = " + ".join("%s * %d" % (v, 10 ** (len(vs) - 1 - q)) for q, v in enumerate(vs)) + " + %d" % r.randint(1, 9)
            loops(["%s = %s" % (elem, val)])
        if what in ("dump", "both"):
            k = len(self.outs)
            self.outs[k] = [("str" if isstr else "num", elem)]
            loops(["@O%d@" % k])
        if what == "sum":
            acc = "sc$" if isstr else "vc"
            self.emit("%s = %s" % (acc, '""' if isstr else "0"))
            loops(["%s = %s" % (acc, ("%s + %s + \"/\"" % (acc, elem)) if isstr else ("%s * 3 + %s" % (acc, elem)))])
            k = len(self.outs)
            self.outs[k] = [("str" if isstr else "num", acc)]
            self.emit("@O%d@" % k)
            emitted += 2
        return emitted

    def simple(self, ctx):
        r = self.r
        k = r.random()
        if k < 0.30:
            v = r.choice(SUBV if ctx.get("sub") and r.random() < 0.6 else NUMV)
            let = "LET " if r.random() < 0.15 else ""
            return "%s%s = %s" % (let, v, self.pr(self.cexpr(r.randint(1, 4), ctx), 0))
        if k < 0.40:
            a, dims = r.choice(self.arrs)
            rhs = self.cexpr(2, ctx)
            if r.random() < 0.4:      # right-hand side reads other elements of the same array
                other = ("raw", "%s(%s)" % (a, ", ".join(self.index(d, ctx) for d in dims)), 6)
                rhs = ("b", r.choice(["+", "-", "*"]), other, rhs) if r.random() < 0.5 else ("b", "+", rhs, other)
            return "%s(%s) = %s" % (a, ", ".join(self.index(d, ctx) for d in dims), self.pr(rhs, 0))
        if k < 0.45:
            return "%s = %s" % (r.choice(STRV), self.pr(self.sexpr(2, ctx), 0))
        if k < 0.50:
            # element of a string array; half of the time the right-hand side reads OTHER elements of the same array
            # (the target slot must be the one addressed on the left, whatever the right-hand side touches)
            self.feat.add("string_array")
            arr = r.choice(self.sarrs)
            rhs = self.sexpr(2, ctx)
            if r.random() < 0.6:
                parts = [self.selem(ctx, arr) for _ in range(r.randint(1, 2))] + [rhs]
                r.shuffle(parts)
                rhs = parts[0]
                for q in parts[1:]:
                    rhs = ("b", "+", rhs, q)
            return "%s = %s" % (self.selem(ctx, arr)[1], self.pr(rhs, 0))
        if k < 0.56 and not ctx.get("sub"):
            return "%s = %s" % (r.choice(TNTV), self.pr(self.texpr(1, ctx), 0))
        if k < 0.62:
            key = ", ".join(str(r.randint(1, 3)) for _ in range(r.randint(1, 2)))
            self.feat.add("put")
            return "PUT(%s, %s)" % (self.pr(self.cexpr(2, ctx), 0), key)
        if k < 0.68:
            key = ", ".join(str(r.randint(1, 3)) for _ in range(r.randint(1, 2)))
            return "%s = GET(%s) + EXISTS(%s)" % (r.choice(NUMV), key, key)
        return self.out_stmt(ctx)

    def cond(self, ctx):
        r = self.r
        if r.random() < 0.7:
            return self.pr(("b", r.choice(["=", "<", ">", "<=", ">=", "<>"]), self.cexpr(2, ctx), self.cexpr(2, ctx)), 0)
        return self.pr(self.cexpr(2, ctx), 0)

    def block(self, n, depth, ctx):
        r = self.r
        while n > 0:
            k = r.random()
            if k < 0.42 or depth >= 3:
                if r.random() < 0.3:
                    self.emit(" : ".join(self.simple(ctx) for _ in range(r.randint(2, 3))))
                else:
                    self.emit(self.simple(ctx))
                n -= 1
            elif k < 0.52:
                self.feat.add("if")
                form = r.random()
                if form < 0.35:
                    self.emit("IF %s THEN %s" % (self.cond(ctx), self.simple(ctx)))
                elif form < 0.7:
                    self.emit("IF %s THEN %s ELSE %s" % (self.cond(ctx), self.simple(ctx), self.simple(ctx)))
                elif form < 0.85:
                    self.emit("IF %s THEN IF %s THEN %s ELSE %s ELSE %s : %s" % (self.cond(ctx), self.cond(ctx), self.simple(ctx),
                                                                           self.simple(ctx), self.simple(ctx), self.simple(ctx)))
                else:
                    self.emit("IF %s THEN %s : %s ELSE %s" % (self.cond(ctx), self.simple(ctx), self.simple(ctx), self.simple(ctx)))
                n -= 1
            elif k < 0.60:
                self.feat.add("if_goto")
                tgt = self.new_id()
                self.emit("IF %s THEN %s@L%d@" % (self.cond(ctx), r.choice(["", "GOTO "]), tgt))
                m = r.randint(1, 3)
                self.block(m, depth + 1, ctx)
                self.emit("REM target", tgt)
                n -= m + 2
            elif k < 0.72 and len(ctx.get("loopvars", [])) < len(LOOPV) and not ctx.get("sub_nofor"):
                self.feat.add("for")
                v = LOOPV[len(ctx.get("loopvars", []))] if not ctx.get("sub") else "ss"
                if v in ctx.get("loopvars", []):
                    self.emit(self.simple(ctx)); n -= 1
                    continue
                form = r.random()
                if form < 0.35:
                    lo, hi, st = r.randint(0, 2), r.randint(0, 5), ""
                    rng = (lo, hi)
                elif form < 0.55:
                    lo, hi, st = r.randint(2, 6), r.randint(0, 3), " STEP -%d" % r.randint(1, 2)
                    rng = (min(lo, hi), max(lo, hi))
                elif form < 0.7:
                    lo, hi, st = r.randint(0, 2), r.randint(1, 3), " STEP %s" % r.choice(["0.5", "0.25", "1.5", "2"])
                    rng = (-1, 99)
                elif form < 0.8:
                    lo, hi, st = r.randint(3, 5), r.randint(0, 2), r.choice(["", " STEP 2"])      # zero trip
                    rng = (lo, lo)
                    self.feat.add("zero_trip")
                else:
                    lo, hi, st = r.randint(0, 1), None, ""
                    rng = (0, 99)
                his = str(hi) if hi is not None else self.pr(("b", "+", ("f", "ABS", ("f", "FLOOR", ("b", "MOD", self.cexpr(1, ctx), ("n", "4")))), ("n", "1")), 0)
                c2 = dict(ctx)
                c2["loopvars"] = ctx.get("loopvars", []) + [v]
                c2["loopranges"] = dict(ctx.get("loopranges", {}))
                c2["loopranges"][v] = rng
                if ctx.get("sub"):
                    c2["sub_nofor"] = True
                nx = r.choice(["NEXT " + v, "NEXT " + v, "NEXT"])
                if r.random() < 0.3:
                    self.emit("FOR %s = %d TO %s%s : %s : %s" % (v, lo, his, st, self.simple(c2), nx))
                    n -= 1
                else:
                    self.emit("FOR %s = %d TO %s%s" % (v, lo, his, st))
                    m = r.randint(1, 4)
                    self.block(m, depth + 1, c2)
                    self.emit(nx)
                    n -= m + 2
            elif k < 0.80 and not ctx.get("sub"):
                self.feat.add("while")
                wdepth = ctx.get("wdepth", 0)
                if wdepth >= 2:
                    self.emit(self.simple(ctx)); n -= 1
                    continue
                w = "w%d" % (wdepth + 1)
                lim = r.randint(0, 4)
                c2 = dict(ctx, wdepth=wdepth + 1)
                if r.random() < 0.25:
                    self.emit("%s = 0 : WHILE %s < %d : %s = %s + 1 : %s : WEND" % (w, w, lim, w, w, self.simple(c2)))
                    n -= 1
                else:
                    self.emit("%s = 0" % w)
                    self.emit("WHILE %s < %d%s" % (w, lim, r.choice(["", " AND 1", ""])))
                    m = r.randint(1, 3)
                    self.block(m, depth + 1, c2)
                    self.emit("%s = %s + 1" % (w, w))
                    self.emit("WEND")
                    n -= m + 4
            elif k < 0.86 and self.nsubs and not ctx.get("sub"):
                self.feat.add("gosub")
                if r.random() < 0.7:
                    self.emit("GOSUB @L%d@" % r.choice(self.sub_ids))
                else:
                    self.emit("ON %s GOSUB %s" % (self.pr(self.iexpr(1, ctx), 0), ", ".join("@L%d@" % s for s in self.sub_ids)))
                n -= 1
            elif k < 0.91 and not ctx.get("sub"):
                self.feat.add("on_goto")
                m = r.randint(2, 3)
                tg = [self.new_id() for _ in range(m)]
                end = self.new_id()
                sel = self.pr(self.iexpr(1, ctx), 0) if r.random() < 0.7 else r.choice(["1.5", "2.4", "0.5", "0.4", "%d.5" % m])
                self.emit("ON %s GOTO %s" % (sel, ", ".join("@L%d@" % t for t in tg)))
                for t in tg:
                    self.emit(self.simple(ctx), t)
                    self.emit("GOTO @L%d@" % end)
                self.emit("REM end on", end)
                n -= 2 * m + 2
            elif k < 0.905 and not ctx.get("sub") and not ctx.get("loopvars"):
                n -= self.sweep(ctx)
            elif k < 0.925 and not ctx.get("sub") and len(ctx.get("loopvars", [])) < len(LOOPV):
                # shift loop: every element is assigned from its neighbour in the same array
                self.feat.add("shift_loop")
                v = LOOPV[len(ctx.get("loopvars", []))]
                kind = r.random()
                if kind < 0.5:
                    a, body = "sq$", "sq$(%s) = sq$(%s - 1)%s" % (v, v, r.choice(["", " + \"s\"", " + sq$(0)"]))
                elif kind < 0.75:
                    a, body = "qa", "qa(%s) = qa(%s - 1)%s" % (v, v, r.choice(["", " + 1", " * 2 + qa(0)"]))
                else:
                    a, body = "sr$", "sr$(%s, 1) = sr$(%s - 1, 2) + sr$(%s - 1, 1)" % (v, v, v)
                hi = 5 if a != "sr$" else self.sarrs[1][1][0] - 1
                if r.random() < 0.5:
                    hdr = "FOR %s = %d TO 1 STEP -1" % (v, hi)
                else:
                    hdr = "FOR %s = 1 TO %d" % (v, hi)
                if r.random() < 0.5:
                    self.emit("%s : %s : NEXT %s" % (hdr, body, v))
                    n -= 1
                else:
                    self.emit(hdr)
                    self.emit(body)
                    self.emit("NEXT %s" % v)
                    n -= 3
            elif k < 0.95 and not ctx.get("sub") and not ctx.get("loopvars") and not ctx.get("wdepth") and not ctx.get("inbg"):
                self.feat.add("backward_goto")
                c = "cg"
                top = self.new_id()
                self.emit("%s = 0" % c)
                self.emit("%s = %s + 1" % (c, c), top)
                m = r.randint(1, 2)
                self.block(m, depth + 1, dict(ctx, inbg=True))
                self.emit("IF %s < %d THEN %s@L%d@" % (c, r.randint(1, 3), r.choice(["", "GOTO "]), top))
                n -= m + 3
            elif not ctx.get("sub") and not ctx.get("loopvars") and not ctx.get("wdepth") and depth == 0:
                self.feat.add("read")
                kinds = [r.choice(["num", "num", "str"]) for _ in range(r.randint(1, 3))]
                vs = []
                for kd in kinds:
                    if r.random() < 0.2:
                        vs.append("qa(%d)" % r.randint(0, 5) if kd == "num" else "sq$(%d)" % r.randint(0, 5))
                    else:
                        vs.append(r.choice(NUMV) if kd == "num" else r.choice(STRV))
                    self.data.append(("num", self.pr(self.cexpr(1, {"novar": True}), 0)) if kd == "num" else ("str", self.strlit()[1]))
                if r.random() < 0.1:
                    self.emit("RESTORE")
                    self.data = self.data + self.data   # logically the same items again (only the count matters below)
                self.emit("READ " + ", ".join(vs))
                n -= 1
            else:
                self.emit(self.simple(ctx))
                n -= 1

    def program(self):
        r = self.r
        ctx = {"allow_bad": r.random() < 0.03}
        self.emit("DIM " + ", ".join("%s(%s)" % (a, ", ".join(str(d - 1) for d in dims)) for a, dims in self.arrs + self.sarrs))
        if r.random() < 0.6:
            self.sweep(ctx, fill_only=True)
        if r.random() < 0.5:
            self.emit("REM generated program ' with \" quotes : and colons")
        self.block(self.size, 0, ctx)
        self.emit("@END@")
        self.emit("END")
        for k, sid in enumerate(self.sub_ids):
            c2 = {"sub": True}
            self.emit(self.simple(c2), sid)
            self.block(r.randint(0, 3), 1, c2)
            if k + 1 < len(self.sub_ids) and r.random() < 0.5:
                self.emit("GOSUB @L%d@" % self.sub_ids[k + 1])
            self.emit("RETURN")
        # DATA lines: the items READ statements consume, in order (expressions are allowed in DATA)
        items = []
        for kd, t in self.data:
            items.append(t)
        # cexpr with novar may still contain variables through numvar(); DATA items are evaluated at READ time, harmless
        while items:
            m = r.randint(1, 4)
            self.emit("DATA " + ", ".join(items[:m]))
            items = items[m:]
        return self

    # --- rendering for a host
    def render(self, host, step=10):
        """host: punch | print | put (CALCULATE_VALUES) | rate"""
        num = {}
        n = step
        for lid, _ in self.lines:
            num[lid] = n
            n += step
        res = []
        for lid, text in self.lines:
            t = re.sub(r"@L(\d+)@", lambda m: str(num[int(m.group(1))]), text)

            def out(m):
                items = self.outs[int(m.group(1))]
                if host == "punch":
                    return "PUNCH " + ", ".join(x for _, x in items)
                if host == "print":
                    return "PRINT " + ", ".join(x for _, x in items)
                parts = []
                for kd, x in items:
                    e = x if kd != "str" else "LEN(%s)" % x
                    parts.append("o_ = o_ + 1 : PUT(%s, 7, o_)" % e)
                return " : ".join(parts)
            t = re.sub(r"@O(\d+)@", out, t)
            if t == "@END@":
                if host == "punch" or host == "print":
                    t = "REM end of main"
                elif host == "put":
                    t = "PUT(o_, 7, 0) : SAVE o_ + va / 8"
                else:
                    t = "PUT(o_, 7, 0) : SAVE (0.125 + 0.03125 * (o_ MOD 5)) * TIME"
            res.append("%d %s" % (num[lid], t))
        if host == "rate":
            # a rate program is invoked many times per time step and the PUT/GET store survives between invocations:
            # reset every key the grammar uses so that each invocation computes the same thing
            keys = ["%d" % a for a in (1, 2, 3)] + ["%d, %d" % (a, b) for a in (1, 2, 3) for b in (1, 2, 3)]
            res.insert(0, "5 " + " : ".join("PUT(0, %s)" % k for k in keys))
        return res


CORPUS = [
    # string relations on prefix pairs / the empty string, INSTR with repeated and trailing occurrences (case split of
    # str_cmp_* and instr_spec in coq/C17/StrProof.v)
    ["10 a$ = \"ab\" : b$ = \"abc\" : e$ = \"\"",
     "20 PUNCH a$ < b$, a$ <= b$, a$ <> b$, a$ = b$, a$ > b$, a$ >= b$, b$ < a$, b$ <= a$, b$ <> a$, b$ > a$, b$ >= a$",
     "30 PUNCH e$ < a$, e$ <= a$, e$ <> a$, e$ = e$, a$ > e$, e$ >= a$, e$ > a$, \"ab \" > a$, \"aB\" < a$, \"b\" > b$",
     "40 PUNCH INSTR(\"abab\", \"a\"), INSTR(\"abab\", \"b\"), INSTR(\"abab\", \"ab\"), INSTR(\"abab\", \"ba\"), INSTR(\"abab\", \"bab\"), INSTR(\"abab\", \"abab\"), INSTR(\"abab\", \"ababa\"), INSTR(\"abab\", \"\"), INSTR(\"\", \"a\"), INSTR(\"aab\", \"ab\")",
     "50 PUNCH PAD(a$, 2) + \"|\", PAD(a$, 1) + \"|\", PAD(e$, 3) + \"|\", LEN(PAD(b$, 7)), LTRIM(\"  a b  \") + \"|\", RTRIM(\"  a b  \") + \"|\", TRIM(\"   \") + \"|\""],
    ["10 x = 2^3^2", "20 PUNCH x, 7 MOD 3, -2^2, \"abc\", 1/0, STR$(12), 1 < 2 < 3", "30 FOR i = 1 TO 3 : PUNCH i*1.5 : NEXT i",
     "40 PUNCH \"a longer string than twelve\", NOT 0, 5 AND 3, 5 OR 3, 5 XOR 3, 2.5 AND 3.7",
     "50 PUNCH INSTR(\"hello\",\"ll\"), MID$(\"hello\",2,3), LEN(\"abc\"), ASC(\"A\"), CHR$(66), VAL(\"1+2*3\"), PAD(\"ab\",5)+\"|\", LTRIM(\"  x \"), RTRIM(\" x  \")+\"|\"",
     "60 a = 0 : WHILE a < 3 : a = a + 1 : WEND : PUNCH a", "70 GOSUB 200 : PUNCH 77", "80 ON 2 GOTO 90, 100, 110", "90 PUNCH 90",
     "100 PUNCH 100", "110 DIM q(5) : q(2) = 4 : PUNCH q(2) + q(3)", "120 DATA 5, 6, \"z\"", "130 READ d1, d2, d3$ : PUNCH d1 + d2, d3$",
     "140 IF a > 2 THEN PUNCH 1 ELSE PUNCH 2", "150 IF a > 5 THEN PUNCH 1 ELSE PUNCH 2",
     "160 PUT(3.5, 1, 2) : PUNCH GET(1,2), EXISTS(1,2), EXISTS(2)", "190 END", "200 PUNCH 200 : RETURN"],
    ["10 PUNCH 1 + 2 * 3 ^ 2 / 4 - 5, 2 * 3 MOD 4, 10 - 4 - 3, 2 ^ -1, 100 / 10 / 5, - 3 - - 2, NOT 1 = 2, 1 OR 2 AND 4, 1 + 1 = 2 AND 3 > 2",
     "20 PUNCH \"a\" < \"b\", \"abc\" = \"abc\", \"b\" >= \"abc\", \"a\" + \"b\" = \"ab\", 3 <> 3, 2 <= 2, (1 < 2) + (2 < 1)",
     "30 PUNCH (-8) ^ 3, (-2) ^ 2, 0 ^ 0, 0 ^ 2, 4 ^ 0.5, SQRT 16 + 9, SQR 3, ABS -4, SGN(-2) + SGN(0) + SGN 7",
     "40 PUNCH -7 MOD 3, 7.5 MOD 2, 0 MOD 5, FLOOR(-2.5), CEIL(-2.5), FLOOR(2.5), CEIL 2.5"],
    ["10 REM zero-trip loops and nesting", "20 FOR i = 5 TO 1", "30 FOR j = 1 TO 2", "40 PUNCH 999", "50 NEXT j", "60 NEXT i",
     "70 FOR i = 1 TO 3 STEP 0.5 : s = s + i : NEXT i : PUNCH s, i",
     "80 FOR i = 3 TO 1 STEP -1 : FOR j = i TO 3 : c = c + 1 : NEXT j : NEXT i : PUNCH c, i, j",
     "90 w = 5 : WHILE w < 3 : WHILE 1 : PUNCH 998 : WEND : WEND : PUNCH w",
     "100 FOR i = 1 TO 2 : GOSUB 200 : NEXT : PUNCH i", "110 ON 0 GOTO 120, 130 : PUNCH 111", "120 ON 3 GOTO 130, 140 : PUNCH 121",
     "130 PUNCH 130", "140 RESTORE 160 : READ a, b$ : PUNCH a, b$", "150 DATA 1, 2", "160 DATA 3 + 4, 'q' + \"r\"", "170 END",
     "200 k = k + 10 : PUNCH k : RETURN"],
]

def _relation_matrix():
    ops = ["=", "<", ">", "<=", ">=", "<>"]
    l1 = "10 PUNCH " + ", ".join('"%s" %s "%s"' % (a, o, b) for o in ops for a, b in (("ab", "ab"), ("ab", "b"), ("b", "ab"), ("", ""), ("a", "")))
    l2 = "20 PUNCH " + ", ".join("%s %s %s" % (a, o, b) for o in ops for a, b in (("2", "2"), ("1", "2"), ("2", "1"), ("-1", "0.5"), ("0", "-0")))
    l3 = "30 a$ = \"x\" : b$ = \"x\" : PUNCH " + ", ".join("a$ %s b$" % o for o in ops)
    return [l1, l2, l3]


CORPUS.append(_relation_matrix())
# assignment target is fixed before the right-hand side is evaluated, even when the right-hand side reads the same array
CORPUS.append(["10 DIM a$(3), t$(4), n(4), m$(2, 2)", "20 a$(1) = \"ab\"", "30 a$(2) = a$(1) + \"cd\"", "40 a$(3) = a$(2) + a$(1)",
               "50 PUNCH a$(1), a$(2), a$(3), LEN(a$(3))", "60 t$(0) = \"w\" : t$(1) = \"x\" : t$(2) = \"y\" : t$(3) = \"z\"",
               "70 FOR i = 3 TO 1 STEP -1 : t$(i) = t$(i - 1) : NEXT i", "80 PUNCH t$(0), t$(1), t$(2), t$(3)",
               "90 FOR i = 0 TO 4 : n(i) = i + 1 : NEXT i", "100 FOR i = 4 TO 1 STEP -1 : n(i) = n(i - 1) * 10 + n(i) : NEXT i",
               "110 PUNCH n(0), n(1), n(2), n(3), n(4)", "120 n(n(0)) = n(n(0) + 1) + n(0) : PUNCH n(1), n(2)",
               "130 m$(1, 1) = \"p\" : m$(2, 2) = m$(1, 1) + m$(0, 0) + \"q\" : m$(0, 1) = m$(2, 2) + m$(1, 1) : PUNCH m$(1, 1), m$(2, 2), m$(0, 1), m$(0, 0) + \"|\"",
               "140 DATA \"r\", 7", "150 READ a$(0), n(2) : a$(0) = a$(0) + a$(1) : PUNCH a$(0), n(2), a$(1)"])

# multi-dimensional arrays with unequal extents: every element gets its own storage (row-major, all extents matter)
CORPUS.append(["10 DIM a(2, 5), b(1, 2, 3), c(4, 2), s$(1, 3)",
               "20 FOR i = 0 TO 2 : FOR j = 0 TO 5 : a(i, j) = i * 10 + j + 1 : NEXT j : NEXT i",
               "30 FOR i = 0 TO 2 : FOR j = 0 TO 5 : PUNCH a(i, j) : NEXT j : NEXT i",
               "40 FOR i = 0 TO 1 : FOR j = 0 TO 2 : FOR k = 0 TO 3 : b(i, j, k) = i * 100 + j * 10 + k + 1 : NEXT k : NEXT j : NEXT i",
               "50 FOR k = 3 TO 0 STEP -1 : FOR j = 0 TO 2 : FOR i = 0 TO 1 : PUNCH b(i, j, k) : NEXT i : NEXT j : NEXT k",
               "60 FOR j = 0 TO 2 : FOR i = 0 TO 4 : c(i, j) = i * 10 + j + 1 : NEXT i : NEXT j",
               "70 t = 0 : FOR i = 0 TO 4 : FOR j = 0 TO 2 : t = t * 3 + c(i, j) : NEXT j : NEXT i : PUNCH t, c(4, 2), c(0, 2), c(1, 0)",
               "80 FOR i = 0 TO 1 : FOR j = 0 TO 3 : s$(i, j) = CHR$(65 + i) + CHR$(97 + j) : NEXT j : NEXT i",
               "90 FOR i = 0 TO 1 : FOR j = 0 TO 3 : PUNCH s$(i, j) : NEXT j : NEXT i",
               "100 a(0, 3) = 77 : PUNCH a(1, 0), a(0, 3) : a(1, 0) = 88 : PUNCH a(0, 3)"])

MALFORMED_CORPUS = [
    ["10 PUNCH (1 + 2"], ["10 PUNCH 1 + 2)"], ["10 PUNCH \"abc"], ["10 PUNCH 1 2"], ["10 x = = 1"], ["10 IF 1 PUNCH 2"],
    ["10 GOTO 55"], ["10 NEXT i"], ["10 RETURN"], ["10 WEND"], ["10 FOR i = 1 TO 3", "20 PUNCH i"], ["10 WHILE 0", "20 PUNCH 1"],
    ["10 PUNCH \"a\" + 1"], ["10 PUNCH \"a\" * 2"], ["10 PUNCH 1 - \"a\""], ["10 PUNCH -\"a\""], ["10 x$ = 5"], ["10 x = \"s\""],
    ["10 DIM a(3)", "20 a(4) = 1"], ["10 DIM a(3)", "20 DIM a(3)"], ["10 DIM a(3)", "20 PUNCH a"], ["10 READ x"], ["10 DATA 1", "20 READ x, y"],
    ["10 PUNCH (-8) ^ 0.5"], ["10 PUNCH @"], ["10 PUNCH 1 :: PUNCH 2"], ["10 FOR a$ = 1 TO 2", "20 NEXT"], ["10 SAVE \"x\""],
    ["10 PUNCH LEN(5)"], ["10 PUNCH SQRT(\"x\")"], ["10 PUNCH MID$(\"abc\")"], ["10 ON 1 GOTO"], ["10 ON 2 GOTO 10 20"], ["10 STOP"],
    ["10 PUNCH 1 AND \"x\""], ["10 PUNCH \"x\" < 1"], ["10 PUNCH"], ["10 LET 5 = 3"], ["10 THEN"], ["10 PUNCH 1,", "20 PUNCH ,2"],
    ["10 PUT(1)", "20 PUNCH GET()"], ["10 PUT(\"a\", 1)"], ["10 GOSUB 30", "20 END", "30 NEXT"], ["10 FOR i = 1 TO 2 : GOSUB 30 : NEXT i", "20 END", "30 NEXT i"],
]


def mutate(rng, lines):
    """one syntactic or semantic breakage; returns (lines, description). The result may still be a valid program:
    the model decides what the outcome must be."""
    lines = list(lines)
    k = rng.randrange(14)
    idx = [i for i, l in enumerate(lines) if not re.match(r"\d+ (REM|DATA|END)", l)]
    i = rng.choice(idx) if idx else 0
    l = lines[i]
    num, body = l.split(" ", 1)

    def first(pat):
        c = [j for j, x in enumerate(lines) if re.search(pat, x)]
        return rng.choice(c) if c else None
    if k == 0:
        p = [m.start() for m in re.finditer(r"[()]", l)]
        if p:
            j = rng.choice(p)
            lines[i] = l[:j] + l[j + 1:]
            return lines, "drop a parenthesis"
    if k == 1:
        p = [m.start() for m in re.finditer(r"[\"']", l)]
        if p:
            j = rng.choice(p)
            lines[i] = l[:j] + l[j + 1:]
            return lines, "drop a quote"
    if k == 2:
        j = first(r"\bTHEN\b")
        if j is not None:
            lines[j] = lines[j].replace("THEN", rng.choice(["", "TO", "ELSE"]), 1)
            return lines, "break THEN"
    if k == 3:
        j = first(r"^\d+ NEXT")
        if j is not None:
            del lines[j]
            return lines, "delete a NEXT line"
    if k == 4:
        j = first(r"^\d+ WEND")
        if j is not None:
            del lines[j]
            return lines, "delete a WEND line"
    if k == 5:
        j = first(r"\bGOTO \d+")
        if j is not None:
            lines[j] = re.sub(r"GOTO \d+", "GOTO 7", lines[j], 1)
            return lines, "GOTO an undefined line"
    if k == 6:
        toks = body.split(" ")
        if len(toks) > 2:
            j = rng.randrange(len(toks))
            del toks[j]
            lines[i] = num + " " + " ".join(toks)
            return lines, "drop a token"
    if k == 7:
        toks = body.split(" ")
        j = rng.randrange(len(toks) + 1)
        toks.insert(j, rng.choice(["5", "\"s\"", "va", ")", "(", ",", "THEN", "=", "@", "+", "NEXT", "TO"]))
        lines[i] = num + " " + " ".join(toks)
        return lines, "insert a token"
    if k == 8:
        j = first(r"\bNEXT (ii|jj|kk)\b")
        if j is not None:
            lines[j] = re.sub(r"NEXT (ii|jj|kk)", "NEXT zz", lines[j], 1)
            return lines, "NEXT with the wrong variable"
    if k == 9:
        j = first(r"^\d+ RETURN")
        if j is not None:
            lines.insert(1, "15 GOTO %s" % lines[j].split(" ")[0])
            return lines, "jump to a RETURN without GOSUB"
    if k == 10:
        j = first(r"\bq[ab]\(")
        if j is not None:
            lines[j] = re.sub(r"\b(q[ab])\(", lambda m: m.group(1) + "(9 + ", lines[j], 1)
            return lines, "subscript out of range"
    if k == 11:
        lines[i] = num + " " + re.sub(r"\b(va|vb|vc)\b", "\"txt\"", body, 1)
        return lines, "string where a number is expected"
    if k == 12:
        j = first(r"^\d+ DATA")
        if j is not None:
            del lines[j]
            return lines, "delete a DATA line"
    lines[i] = num + " " + body + rng.choice([" 1", " )", " ELSE ELSE 3 4", " THEN", " \"x", " : NEXT", " : WEND", " : RETURN"])
    return lines, "trailing garbage"


# ----------------------------------------------------------------------------- inputs for the implementation

HEAD = "SOLUTION 1\n"
READER = ["10 n = GET(7, 0)", "20 PUNCH n", "30 FOR i = 1 TO n : PUNCH GET(7, i) : NEXT i"]


def basic_block(lines):
    return "".join(" " + l + "\n" for l in lines)


def make_input(host, lines):
    if host == "punch":
        return HEAD + "SELECTED_OUTPUT 1\n -reset false\n -high_precision true\nUSER_PUNCH 1\n" + basic_block(lines) + "END\n"
    if host == "print":
        return HEAD + "USER_PRINT\n" + basic_block(lines) + "END\n"
    if host == "put":
        return (HEAD + "CALCULATE_VALUES\ncv1\n -start\n" + basic_block(lines) + " -end\nSELECTED_OUTPUT 1\n -reset false\n"
                " -high_precision true\n -calculate_values cv1\nUSER_PUNCH 1\n" + basic_block(READER) + "END\n")
    if host == "rate":
        return (HEAD + "RATES\nr1\n -start\n" + basic_block(lines) + " -end\nKINETICS 1\nr1\n -formula H2O 0\n -m0 1\n -steps 2\n"
                "SELECTED_OUTPUT 1\n -reset false\n -high_precision true\n -kinetic_reactants r1\nUSER_PUNCH 1\n" + basic_block(READER) + "END\n")
    raise ValueError(host)


# ----------------------------------------------------------------------------- model evaluation (Coq, vm_compute)

def coq_string(s):
    return '"' + s.replace('"', '""') + '"'


def cases_v(cases):
    L = ["From Coq Require Import Floats ZArith List String.",
         "From IPV.C17 Require Import Num Tok Eval Exec Show.",
         "From IPV.Gen Require Import Gen_C17_basic.",
         "Import ListNotations.", "Open Scope string_scope.", "Open Scope Z_scope.",
         "Definition host : list (string * float) := [(\"toktime\", 1%float)]."]
    for c in cases:
        progs = []
        hp = "true" if c["host"] in ("punch", "put") else "false"
        progs.append("(%s, [%s])" % (hp, "; ".join(coq_string(l) for l in c["lines"])))
        if c["host"] in ("put", "rate"):
            progs.append("(true, [%s])" % "; ".join(coq_string(l) for l in READER))
        L.append("Eval vm_compute in run_chain command_tokens %s [] host [%s]." % (FUEL, "; ".join(progs)))
    return "\n".join(L) + "\n"


def parse_coq_lists(out):
    """each `Eval` prints `     = <term>\n     : list (list Z)`"""
    res = []
    for m in re.finditer(r"^\s+= (.*?)^\s+: list \(list Z\)", out, flags=re.S | re.M):
        t = m.group(1).replace(";", ",")
        res.append(json.loads(t))
    return res


def dec_float(a, i):
    t = a[i]
    if t == 0:
        s, m, e = a[i + 1], a[i + 2], a[i + 3]
        return (-1.0 if s else 1.0) * math.ldexp(m, e), i + 4
    if t == 1:
        return (-0.0 if a[i + 1] else 0.0), i + 2
    if t == 2:
        return (-math.inf if a[i + 1] else math.inf), i + 2
    return math.nan, i + 1


def dec_string(a, i):
    n = a[i]
    return "".join(chr(c) for c in a[i + 1:i + 1 + n]), i + 1 + n


def dec_result(a):
    """-> dict(kind=done|error|unsup|nofuel, outs=[(kind,value)], save=float|None, msg=str)"""
    if a[0] == 0:
        n, i, outs = a[1], 2, []
        for _ in range(n):
            k = a[i]
            i += 1
            if k == 2:
                outs.append(("nl", None))
                continue
            if a[i] == 0:
                v, i = dec_float(a, i + 1)
            else:
                v, i = dec_string(a, i + 1)
            outs.append(("punch" if k == 0 else "print", v))
        save = None
        if a[i] == 1:
            save, i = dec_float(a, i + 1)
        return {"kind": "done", "outs": outs, "save": save}
    if a[0] == 1:
        return {"kind": "error", "msg": dec_string(a, 1)[0]}
    if a[0] == 2:
        return {"kind": "unsup", "msg": dec_string(a, 1)[0]}
    return {"kind": "nofuel"}


def run_model(cases, jobs=5):
    """returns list (per case) of list of decoded results (one per program of the chain) or None if Coq failed"""
    if not cases:
        return [], ""
    nsh = max(1, min(jobs, (len(cases) + 7) // 8))
    shards = [cases[i::nsh] for i in range(nsh)]
    outs = [None] * len(cases)
    logs = []

    def work(k):
        rc, out = vlib.coq_eval(cases_v(shards[k]), timeout=900)
        return k, rc, out
    with cf.ThreadPoolExecutor(max_workers=nsh) as ex:
        for k, rc, out in ex.map(work, range(nsh)):
            lists = parse_coq_lists(out) if rc == 0 else []
            if rc != 0 or len(lists) != len(shards[k]):
                logs.append("shard %d: rc=%d parsed=%d/%d %s" % (k, rc, len(lists), len(shards[k]), out[-1500:]))
                continue
            for j, chain in enumerate(lists):
                outs[k + j * nsh] = [dec_result(x) for x in chain]
    return outs, "\n".join(logs)


# ----------------------------------------------------------------------------- comparison

def close(a, b):
    if isinstance(a, str) or isinstance(b, str):
        return a == b
    if a is None or b is None:
        return False
    if math.isnan(a) or math.isnan(b):
        return math.isnan(a) and math.isnan(b)
    if math.isinf(a) or math.isinf(b):
        return a == b
    return abs(a - b) <= RTOL * max(abs(a), abs(b))


def table_row(res, which=-1):
    tab = res.get("tables", {}).get("1")
    if not tab or len(tab) < 2:
        return []
    return [vlib.cell_value(c) for c in tab[which]]


def parse_user_print(out):
    """tokens printed by USER_PRINT: the text between the 'User print' banner and the next banner"""
    i = out.find("User print---")
    if i < 0:
        return None
    j = out.find("\n", i)
    k = out.find("\n-----", j)
    text = out[j + 1:k if k >= 0 else len(out)]
    # warning_msg also writes into the output stream ("Zero divide ... Value set to zero" is documented behaviour)
    return re.sub(r"WARNING: Zero divide in BASIC line\n[^\n]*\nValue set to zero\.\n", "", text)


def fmt_print(v):
    """numtostr with high_precision false, then '%s '"""
    if isinstance(v, str):
        return v + " "
    if math.isfinite(v) and math.ceil(v) == math.floor(v):
        return "%12.0f " % v
    return "%12.4e " % v


def compare_print(model_outs, text):
    """USER_PRINT delivers text; numbers are compared after numtostr's own rounding (5 significant digits):
    the printed number must be the %12.4e / %12.0f rendering of a value within 1e-12 of the model's."""
    exp, line = [], ""
    for k, v in model_outs:
        if k == "nl":
            exp.append(line)
            line = ""
        elif k == "print":
            line += fmt_print(v)
    if line:
        exp.append(line)
    got = [l for l in text.split("\n")]
    if got and got[0].strip() == "":
        got = got[1:]              # the blank line that follows the banner
    # drop trailing empty lines on both sides
    while got and got[-1].strip() == "":
        got.pop()
    while exp and exp[-1].strip() == "":
        exp.pop()
    if len(got) != len(exp):
        return "number of printed lines %d, reference %d" % (len(got), len(exp))
    for g, e in zip(got, exp):
        if g.rstrip() == e.rstrip():
            continue
        # tolerate a last-digit difference caused by a value within 1e-12 of a rounding boundary
        gt, et = g.split(), e.split()
        if len(gt) != len(et):
            return "printed %r, reference %r" % (g, e)
        for a, b in zip(gt, et):
            if a == b:
                continue
            try:
                fa, fb = float(a), float(b)
            except ValueError:
                return "printed %r, reference %r" % (g, e)
            if abs(fa - fb) > 1.0001e-4 * max(abs(fa), abs(fb)):
                return "printed %r, reference %r" % (g, e)
    return None


def judge(case, model, res):
    """-> (verdict, detail): verdict in ok | outside | VIOLATION"""
    host = case["host"]
    if res is None:
        if model is not None and model[0]["kind"] == "nofuel":
            return "outside", "does not terminate within the fuel (not run)"
        return "VIOLATION", "no result from the implementation"
    if model is None:
        return ("VIOLATION", "the implementation crashed") if res.get("crash") else ("outside", "model evaluation failed")
    m0 = model[0]
    if res.get("crash"):
        if m0["kind"] == "nofuel":
            return "outside", "does not terminate within the fuel; the implementation ran out of resources"
        return "VIOLATION", "the implementation crashed: " + (res.get("stderr") or "")[-300:]
    if res.get("timeout"):
        if m0["kind"] == "nofuel":
            return "outside", "does not terminate within the fuel (both)"
        return "VIOLATION", "the implementation did not return within the time limit; reference: " + m0["kind"]
    if m0["kind"] in ("unsup", "nofuel"):
        return "outside", m0["kind"] + ": " + m0.get("msg", "")
    rc = res.get("rc", 0)
    if m0["kind"] == "error":
        if rc == 0:
            return "VIOLATION", "reference evaluation ends with BASIC error (%s) but the run reported no error" % m0["msg"]
        return "ok", "error on both sides"
    if host in ("put", "rate") and m0["save"] is not None and math.isnan(m0["save"]):
        m0 = dict(m0, save=None)        # NaN is the implementation's "nothing SAVEd" sentinel (rate_moles = NAN before the run)
    if host in ("put", "rate") and m0["save"] is None:
        return ("ok", "error on both sides") if rc != 0 else ("VIOLATION", "nothing was SAVEd but the run reported no error")
    if rc != 0:
        return "VIOLATION", "run failed (%s) but the reference evaluation succeeds" % (res.get("err", "")[-300:].replace("\n", " | "))
    if host == "punch":
        exp = [v for k, v in m0["outs"] if k == "punch"]
        got = table_row(res)
        if len(got) != len(exp):
            return "VIOLATION", "PUNCH delivered %d values, reference %d" % (len(got), len(exp))
        for j, (g, e) in enumerate(zip(got, exp)):
            if not close(g, e):
                return "VIOLATION", "PUNCH value #%d = %r, reference %r" % (j + 1, g, e)
        return "ok", ""
    if host == "print":
        text = parse_user_print(res.get("out", ""))
        if text is None:
            return "VIOLATION", "no User print block in the output"
        d = compare_print(m0["outs"], text)
        return ("VIOLATION", "USER_PRINT: " + d) if d else ("ok", "")
    # put / rate : second program of the chain is the reader
    if len(model) < 2 or model[1]["kind"] != "done":
        return "outside", "reader not evaluated"
    exp = [v for k, v in model[1]["outs"] if k == "punch"]
    tab = res.get("tables", {}).get("1") or [[]]
    heads = [vlib.cell_value(c) for c in tab[0]]
    row = table_row(res)
    own = ["V_cv1"] if host == "put" else ["k_r1", "dk_r1"]          # columns written by the host itself
    if any(h not in heads for h in own) or len(row) != len(heads):
        return "VIOLATION", "%s host: columns %r missing in %r" % (host, own, heads)
    lead = [row[heads.index(h)] for h in own]
    got = [g for h, g in zip(heads, row) if h not in own and g is not None]
    if len(got) != len(exp):
        return "VIOLATION", "%s host delivered %d values, reference %d" % (host, len(got), len(exp))
    for j, (g, e) in enumerate(zip(got, exp)):
        if not close(g, e):
            return "VIOLATION", "%s host value #%d = %r, reference %r" % (host, j, g, e)
    sv = m0["save"]
    if host == "put":
        if not close(lead[0], sv):
            return "VIOLATION", "SAVE delivered %r to CALCULATE_VALUES, reference %r" % (lead[0], sv)
    else:
        # SAVE c*TIME integrated over 2 s from m0 = 1 : dk = -2c ; the kinetics amount is m0 - 2c rounded near 1.0
        dk = lead[1]
        if dk is None or abs(dk + 2.0 * sv) > RTOL * abs(2.0 * sv) + 4 * 2.3e-16:
            return "VIOLATION", "SAVE through kinetics: dk = %r, reference %r" % (dk, -2.0 * sv)
    return "ok", ""


# ----------------------------------------------------------------------------- the check

def case_key(case):
    return hashlib.sha256(json.dumps([case["host"], case["lines"]]).encode()).hexdigest()[:16]


def run_cases(ctx, cases):
    """model first; programs the model cannot finish within its fuel are not handed to the implementation (they are
    outside the premises and would only burn the time limit); the known hanging probe runs in its own batch"""
    models, mlog = run_model(cases, 5)

    def job(i, c):
        return {"id": i, "db": DBNAME, "text": make_input(c["host"], c["lines"]), "flags": ["out"] if c["host"] == "print" else []}
    main, risky = [], []
    for i, c in enumerate(cases):
        m = models[i]
        if m is not None and m[0]["kind"] == "nofuel" and not c.get("defect"):
            continue
        (risky if c.get("defect") else main).append(job(i, c))
    with cf.ThreadPoolExecutor(max_workers=2) as ex:
        f1 = ex.submit(vlib.run_inputs, main, 15, 8)
        f2 = ex.submit(vlib.run_inputs, risky, 4, 4)
        impl = dict(f1.result())
        impl.update(f2.result())
    return models, impl, mlog


def report(ctx, case, verdict, detail, model, res):
    if verdict != "VIOLATION":
        return
    key = DEFECTS[case["defect"]] if case.get("defect") else "C17:" + case_key(case)
    observed = {"rc": (res or {}).get("rc"), "err": ((res or {}).get("err") or "")[-400:], "crash": (res or {}).get("crash"),
                "timeout": (res or {}).get("timeout"), "stderr": ((res or {}).get("stderr") or "")[-400:],
                "row": table_row(res or {}) if res else None}
    ctx.violation(key, "%s program (%s): %s" % (case["host"], case.get("origin", "generated"), detail),
                  {"kind": "input", "host": case["host"], "lines": case["lines"], "input_text": make_input(case["host"], case["lines"]),
                   "database": DBNAME, "observed": observed, "expected": model, "defect": case.get("defect") or ""})


def run(ctx):
    ok = vlib.coq_stage(ctx, "Props/Properties_C17.vo", gen=gen, extra_targets=["C17/Show.vo"], timeout=1200)
    ctx.trusted += ["Interval library enclosures for exp/ln/sin/cos/atan (midpoint rounded to binary64) as the reference for libm",
                    "strtod modelled on the Clinger fast path only (<= 15 digits, |exponent| <= 22)",
                    "PHREEQC keyword-data-block reader (lines reach basic_compile verbatim)"]
    ctx.rule = ("programs from a grammar over the documented statement/expression forms, printed with minimal parentheses; "
                "run as USER_PUNCH / CALCULATE_VALUES / RATES / USER_PRINT and by the Coq model on the same text; "
                "a case is non-trivial when the reference evaluation delivers at least one value or a BASIC error")
    if not os.path.exists(os.path.join(vlib.COQ, "C17", "Show.vo")):
        ctx.notes.append("model did not build: correspondence not run")
        return

    cases = []
    if ctx.replay:
        rp = json.load(open(ctx.replay))
        if rp.get("kind") == "input":
            cases.append({"host": rp["host"], "lines": rp["lines"], "origin": "replay", "defect": rp.get("defect") or None})
    else:
        for p in CORPUS:
            for h in ("punch",):
                cases.append({"host": h, "lines": p, "origin": "corpus"})
        for p in MALFORMED_CORPUS:
            cases.append({"host": "punch", "lines": p, "origin": "malformed corpus"})
        for p in MALFORMED_CORPUS[::4]:
            h = ctx.rng.choice(["put", "rate", "print"])
            q = [l.replace("PUNCH", "PRINT") for l in p]      # PUNCH is only meaningful in USER_PUNCH (see the defect probes)
            if h != "print":
                q = q + ["9000 SAVE 0.25" + (" * TIME" if h == "rate" else "")]
            cases.append({"host": h, "lines": q, "origin": "malformed corpus"})
        # the known crash (reported as a finding with a stable key, see notes/C17.md)
        cases.append({"host": "punch", "lines": ["10 PUNCH MID$(\"abc\", 7, 2)"], "origin": "defect probe", "defect": "mid"})
        cases.append({"host": "put", "lines": ["10 PUNCH 1", "20 SAVE 1"], "origin": "defect probe", "defect": "punch_in_cv"})
        cases.append({"host": "put", "lines": ["10 PUNCH 11, 22, 33", "20 SAVE 1"], "origin": "defect probe", "defect": "punch_leak"})
        cases.append({"host": "punch", "lines": ["10 PUNCH MID$(\"abc\", 4, 2) + \"|\", MID$(\"abc\", 5) + \"|\", LEN(MID$(\"\", 2, 1))"],
                      "origin": "defect probe", "defect": "mid"})
        nprog = ctx.n(150, 1500)
        feats = {}
        strcalls = {}
        for k in range(nprog):
            size = ctx.rng.choice([4, 8, 8, 15, 15, 25, 40]) if k % 25 else ctx.rng.choice([120, 200])
            g = Gen(ctx.rng, size).program()
            for f in g.feat:
                feats[f] = feats.get(f, 0) + 1
            lines = g.render("punch")
            for ln in lines:                          # measured, not assumed: calls of the string primitives per run
                for fn in ("INSTR(", "MID$(", "PAD(", "LTRIM(", "RTRIM(", "TRIM(", "LEN(", "ASC(", "CHR$("):
                    c = ln.count(fn) - (ln.count("LTRIM(") + ln.count("RTRIM(") if fn == "TRIM(" else 0)
                    if c:
                        strcalls[fn[:-1]] = strcalls.get(fn[:-1], 0) + c
                strcalls["INSTR literal pair"] = strcalls.get("INSTR literal pair", 0) + len(re.findall(r'INSTR\("[abcx ]*", "[abcdx ]*"\)', ln))
            cases.append({"host": "punch", "lines": lines, "origin": "generated"})
            r = k % 5
            if r == 0:
                cases.append({"host": "put", "lines": g.render("put"), "origin": "generated"})
            elif r == 1:
                cases.append({"host": "rate", "lines": g.render("rate"), "origin": "generated"})
            elif r == 2:
                cases.append({"host": "print", "lines": g.render("print"), "origin": "generated"})
            if k % 2 == 0:
                ml, what = mutate(ctx.rng, lines)
                cases.append({"host": "punch", "lines": ml, "origin": "mutated: " + what})
        ctx.extra["input_distribution"] = {"generated_programs": nprog, "features": feats, "string_function_calls": strcalls,
                                           "lines_per_program": "4..40 main-block lines, every 25th program 120..200",
                                           "hosts": "every program as USER_PUNCH; 1/5 each also as CALCULATE_VALUES, RATES, USER_PRINT; every 2nd mutated"}
        bad = reserved_words() & set(NUMV + TNTV + LOOPV + SUBV + ["w1", "w2", "cg", "ss", "o_", "n", "i"] + [a for a, _ in ARRS + SARRS] + [s.lower() for s in STRV])
        if bad:
            ctx.notes.append("generator variable names became keywords: %r" % sorted(bad))

    import time
    t0 = time.time()
    models, impl, mlog = run_cases(ctx, cases)
    ctx.extra["timing_s"] = {"coq_stage": round(t0 - ctx.t0, 1), "correspondence": round(time.time() - t0, 1)}
    if mlog:
        ctx.obligation("model evaluation (coqc cases.v)", False, mlog)
    stats = {"ok": 0, "outside": 0, "VIOLATION": 0, "error_both": 0, "values_compared": 0, "bit_exact": 0}
    by_host = {}
    outside_why = {}
    for i, c in enumerate(cases):
        model, res = models[i] if i < len(models) else None, impl.get(i)
        verdict, detail = judge(c, model, res)
        stats[verdict] += 1
        if verdict == "outside":
            why = detail.split(":")[1].strip()[:60] if detail.startswith("unsup") else detail[:60]
            outside_why[why] = outside_why.get(why, 0) + 1
        if detail == "error on both sides":
            stats["error_both"] += 1
        by_host.setdefault(c["host"], {"ok": 0, "outside": 0, "VIOLATION": 0})[verdict] += 1
        nontrivial = verdict != "outside" and model is not None and (model[0]["kind"] == "error" or bool(model[0].get("outs")) or model[0].get("save") is not None)
        if verdict == "ok" and model and model[0]["kind"] == "done" and c["host"] == "punch":
            exp = [v for k, v in model[0]["outs"] if k == "punch"]
            got = table_row(res)
            stats["values_compared"] += len(exp)
            stats["bit_exact"] += sum(1 for g, e in zip(got, exp) if g == e or (isinstance(g, float) and isinstance(e, float) and math.isnan(g) and math.isnan(e)))
        ctx.case(case_key(c), sample={"host": c["host"], "lines": c["lines"][:6], "verdict": verdict, "origin": c.get("origin")} if i % 40 == 3 else None,
                 nontrivial=nontrivial)
        report(ctx, c, verdict, detail, model, res)
        if verdict == "outside" and c.get("origin") in ("corpus",):
            ctx.notes.append("corpus case outside the model: " + detail)
    ctx.extra["outcomes"] = stats
    ctx.extra["outcomes_by_host"] = by_host
    ctx.extra["outside_reasons"] = outside_why
    ctx.notes.append("values outside the model's subset (unsup/nofuel) are counted as 'outside' and not judged")
    ctx.notes.append("bare `-a^b` is read by the interpreter as (-a)^b; the generator parenthesises the base in 90% of the cases, "
                     "the model mirrors the interpreter (observation, not a violation)")
