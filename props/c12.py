"""C12 — kinetic reactions transfer exactly what they integrate, within tolerance.

Stage A (T-gen + proofs): translator/c12_gen.py regenerates coq/Gen/Gen_C12_Tableau.v (Phreeqc::rk_kinetics) and
  coq/Gen/Gen_C12_Step.v (cxxKinetics::Current_step) from vlib.REPO; Props/Properties_C12.v is rebuilt against them.
Stage B (T-corr, verified checker): KINETICS inputs whose rate laws have closed forms are run through the real
  library for several integrators / step divisions; every reported amount is checked by the Coq function
  Checker.check_closed (Interval arithmetic, proved sound) against the closed form built *in Coq* from the
  parameters (Closed.cf_*; proved to solve the rate law), within 100 x tol; amounts reached at the same time by
  different variants are compared pairwise by Checker.check_agree; the reported step times are compared with the
  regenerated g_current_step; element transfer (delta Na, Cl in solution = -formula * delta M) and M >= 0 are checked.
"""
import os, sys, json, math, hashlib
from fractions import Fraction
import concurrent.futures as cf
import vlib

sys.path.insert(0, os.path.join(vlib.VERIF, "translator"))

KEY_CVODE_TIME = "C12:cvode-rate-time-frozen"
KEY_RK1_TIME = "C12:rk1-shortcut-time-blind"
KEY_CVODE_LOW = "C12:cvode-low-order-global-error"


# ----------------------------------------------------------------------------------------- T-gen

GEN_STATE = {"step_ok": True, "tableau_ok": True, "restart_ok": True, "transport_ok": True, "bind_ok": True, "clamp_ok": True, "last_good_source": None}
KEY_RESTART_STATE = "C12:cvode-restart-state-from-failed-attempt"


def gen():
    import importlib
    import c12_gen
    importlib.reload(c12_gen)
    gdir = os.path.join(vlib.COQ, "Gen")
    errs = []
    for fname, fn, flag in (("Gen_C12_Tableau.v", c12_gen.gen_tableau, "tableau_ok"), ("Gen_C12_Step.v", c12_gen.gen_step, "step_ok"),
                            ("Gen_C12_Restart.v", c12_gen.gen_restart, "restart_ok"),
                            ("Gen_C12_Transport.v", c12_gen.gen_transport_time, "transport_ok"),
                            ("Gen_C12_Bind.v", c12_gen.gen_bind, "bind_ok"),
                            ("Gen_C12_Clamp.v", c12_gen.gen_clamp, "clamp_ok")):
        p = os.path.join(gdir, fname)
        try:
            vlib.write_if_changed(p, fn(vlib.REPO))
            GEN_STATE[flag] = True
        except c12_gen.Refuse as ex:
            # broken tie: a stale generated file must not keep the proofs green
            GEN_STATE[flag] = False
            vlib.write_if_changed(p, "(* translator refused: %s *)\nDefinition translator_refused := tt.\n" % str(ex).replace("*)", "* )"))
            errs.append("%s: %s" % (fname, ex))
    try:
        import re
        m = re.search(r"g_cv_last_good_source : nat := (\d+)", open(os.path.join(gdir, "Gen_C12_Restart.v")).read())
        GEN_STATE["last_good_source"] = int(m.group(1)) if m else None
    except Exception:
        GEN_STATE["last_good_source"] = None
    if errs:
        raise c12_gen.Refuse("; ".join(errs))


# ----------------------------------------------------------------------------------------- scenarios

def dec(x, sig=4):
    """decimal text with few significant digits (so that the text, the double and the rational agree to 1e-16)"""
    return "%.*g" % (sig, x)


def fr(txt):
    return Fraction(txt)


RATE_PROGRAMS = {
    # name -> BASIC lines (consumption of the reactant over TIME)
    "zero": ["10 rate = PARM(1)", "20 IF (M <= 0) THEN rate = 0", "30 SAVE rate * TIME"],
    "first": ["10 rate = PARM(1) * M", "20 SAVE rate * TIME"],
    "ramp": ["10 rate = PARM(1) + PARM(2) * TOTAL_TIME", "20 SAVE rate * TIME"],
    "revA": ["10 rate = PARM(1) * M - PARM(2) * KIN(\"Bb\")", "20 SAVE rate * TIME"],
    "revB": ["10 rate = PARM(2) * M - PARM(1) * KIN(\"Aa\")", "20 SAVE rate * TIME"],
    "chainB": ["10 rate = PARM(2) * M - PARM(1) * KIN(\"Aa\")", "20 SAVE rate * TIME"],
    # reads M0: must be the user-defined -m0 for the whole life of the reactant, whatever amount a step starts from
    "m0dep": ["10 rate = PARM(1) * M0 + PARM(2) * M", "20 SAVE rate * TIME"],
}


SHIPPED = {
    # rate programs shipped in phreeqc.dat (no closed form: only invariance under step division / integrator is checked)
    "calcite": dict(sol=[" pH 6 charge", " C(4) 1 CO2(g) -2.5", " Ca 0.1"], name="Calcite", formula=None,
                    m0=(2e-3, 1e-2), parms=lambda r: "%s 0.6" % dec(r.choice([20, 200, 2000]) * r.uniform(0.5, 1)), T=[2000, 20000, 86400]),
    "pyrite": dict(sol=[" pH 7", " O(0) 0.3", " Na 1", " Cl 1 charge"], name="Pyrite", formula=None,
                   m0=(5e-3, 2e-2), parms=lambda r: "%s 0.67 0.5 -0.11" % dec(r.uniform(0.3, 2.5)), T=[1e5, 1e6, 1e7]),
    "organic": dict(sol=[" pH 7", " O(0) 0.3", " N(5) 0.1", " S(6) 1", " Na 2.1 charge"], name="Organic_C", formula="CH2O 1",
                    m0=(0.1, 1.0), parms=lambda r: "", T=[1e6, 3e7, 3e8]),
    "kspar": dict(sol=[" pH 5", " Na 1", " Cl 1 charge", " C(4) 0.1"], name="K-feldspar", formula=None,
                  m0=(0.2, 1.0), parms=lambda r: "%s %s" % (dec(r.uniform(1, 10)), dec(r.uniform(0.1, 1.0))), T=[1e6, 1e7, 1e8]),
}


def shipped_scenario(rng, kind=None):
    kind = kind or rng.choice(sorted(SHIPPED))
    d = SHIPPED[kind]
    T = rng.choice(d["T"])
    sc = {"family": "shipped", "kind": kind, "tol": rng.choice(["1e-7", "1e-8", "1e-9", "1e-10"]),
          "m0": dec(rng.uniform(*d["m0"])), "parms": d["parms"](rng), "T": T}
    if kind == "pyrite":
        # the Williamson-Rimstidt law goes like sqrt(O2): dissolved oxygen would be exhausted in FINITE time (rate law not
        # Lipschitz there, no tolerance statement is meaningful).  Stay where at most ~30 % of the O2 is consumed.
        rate0 = 10 ** (float(sc["parms"].split()[0]) + math.log10(float(sc["m0"])) - 9.18)      # mol/s at the start
        T = float(dec(rng.uniform(0.05, 0.3) * 8e-5 / rate0, 2))
        sc["T"] = int(T) if T == int(T) else T
    n = rng.choice([2, 3, 4])
    cuts = sorted(rng.sample(range(1, 20), n - 1))
    incs = [Fraction(b - a, 20) * Fraction(T) for a, b in zip([0] + cuts, cuts + [20])]
    sc["incs"] = [str(float(x)) if float(x) != int(x) else str(int(x)) for x in incs]
    sc["nequal"] = rng.choice([2, 3, 4, 5])
    return sc


def scenario(rng, fam=None):
    """one rate-law instance: family, parameters, tolerance, total time"""
    fam = fam or rng.choice(["zero", "first", "m0dep", "rev", "chain", "ramp", "zero_exhaust", "shipped", "m0dep", "exh_first"])
    if fam == "shipped":
        return shipped_scenario(rng)
    tol = rng.choice(["1e-6", "1e-7", "1e-8", "1e-8", "1e-9", "1e-10", "1e-11"])
    T = rng.choice([10, 40, 100, 400, 1000, 3600, 86400, 1e6])
    sc = {"family": fam, "tol": tol}
    m0 = dec(rng.choice([1e-3, 2e-3, 5e-3, 1e-2, 2e-2, 5e-2]) * rng.uniform(0.5, 1.0))
    if fam == "zero":
        frac = rng.uniform(0.05, 0.9)                     # fraction consumed at T
        sc.update(m0=m0, r=dec(float(m0) * frac / T))
    elif fam == "zero_exhaust":
        frac = rng.uniform(1.3, 3.0)                      # exhausted before T
        sc.update(m0=m0, r=dec(float(m0) * frac / T))
    elif fam == "exh_first":
        # the zero-order reactant runs out at 0.35..0.8 T; the first-order one forces error-controlled sub-steps, so the
        # exhaustion happens in a LATER Runge-Kutta sub-step (clamp of calc_final_kinetic_reaction against the sub-step amount)
        sc.update(m0=m0, r=dec(float(m0) / (T * rng.uniform(0.35, 0.8))), b0=dec(float(m0) * rng.uniform(0.5, 2.0)), k=dec(rng.choice([2.0, 5.0, 9.0]) * rng.uniform(0.6, 1.0) / T))
    elif fam == "first":
        z = rng.choice([0.05, 0.3, 1.0, 3.0, 8.0]) * rng.uniform(0.5, 1.0)
        sc.update(m0=m0, k=dec(z / T))
    elif fam == "m0dep":
        # -m may differ from -m0 (reactant partly used up before); M stays positive: c = k0*m0/k1 = f*m, (1+f)exp(-z) > f
        m = dec(float(m0) * rng.choice([1.0, 0.8, 0.5, 0.3]))
        z = rng.choice([0.2, 0.6, 1.5]) * rng.uniform(0.6, 1.0)
        f = rng.uniform(0.02, 0.15)
        k1 = dec(z / T)
        sc.update(m0=m0, m=m, k1=k1, k0=dec(f * float(k1) * float(m) / float(m0)))
    elif fam == "ramp":
        f0 = rng.uniform(0.0, 0.4)
        f1 = rng.uniform(0.1, 0.5)
        sc.update(m0=m0, r0=dec(float(m0) * f0 / T), r1=dec(2 * float(m0) * f1 / T / T))
    elif fam == "rev":
        z1 = rng.choice([0.3, 1.0, 3.0]) * rng.uniform(0.5, 1.0)
        z2 = rng.choice([0.1, 1.0, 2.0]) * rng.uniform(0.5, 1.0)
        sc.update(a0=m0, b0=dec(float(m0) * rng.uniform(0.1, 1.0)), k1=dec(z1 / T), k2=dec(z2 / T))
    elif fam == "chain":
        z1 = rng.choice([0.3, 1.0, 3.0]) * rng.uniform(0.5, 1.0)
        z2 = z1 * rng.choice([0.2, 0.5, 2.0, 4.0])
        sc.update(a0=m0, b0=dec(float(m0) * rng.uniform(0.1, 1.0)), k1=dec(z1 / T), k2=dec(z2 / T))
        if fr(sc["k1"]) == fr(sc["k2"]):
            sc["k2"] = dec(float(sc["k2"]) * 1.5)
    # division of T: list of increments (few significant digits, exactly representable sums are not needed:
    # the times compared are the ones the implementation reports)
    n = rng.choice([2, 3, 4, 5])
    cuts = sorted(rng.sample(range(1, 20), n - 1))
    incs = [Fraction(b - a, 20) * Fraction(T) for a, b in zip([0] + cuts, cuts + [20])]
    sc["T"] = T
    sc["incs"] = [str(float(x)) if float(x) != int(x) else str(int(x)) for x in incs]
    sc["nequal"] = rng.choice([2, 3, 4, 5, 8])
    return sc


def reactants(sc):
    """[(name, rate program, m0, parms, formula)]"""
    f = sc["family"]
    if f == "shipped":
        return [(SHIPPED[sc["kind"]]["name"], None, sc["m0"], sc["parms"].split())]
    if f in ("zero", "zero_exhaust"):
        return [("Aa", "zero", sc["m0"], [sc["r"]])]
    if f == "first":
        return [("Aa", "first", sc["m0"], [sc["k"]])]
    if f == "exh_first":
        return [("Aa", "zero", sc["m0"], [sc["r"]]), ("Bb", "first", sc["b0"], [sc["k"]])]
    if f == "m0dep":
        return [("Aa", "m0dep", sc["m"], [sc["k0"], sc["k1"]])]      # third entry = amount the calculation starts from
    if f == "ramp":
        return [("Aa", "ramp", sc["m0"], [sc["r0"], sc["r1"]])]
    if f == "rev":
        return [("Aa", "revA", sc["a0"], [sc["k1"], sc["k2"]]), ("Bb", "revB", sc["b0"], [sc["k1"], sc["k2"]])]
    if f == "chain":
        return [("Aa", "first", sc["a0"], [sc["k1"]]), ("Bb", "chainB", sc["b0"], [sc["k1"], sc["k2"]])]
    raise ValueError(f)


def closed_forms_coq(sc):
    """{reactant: Coq term of type closed_form}, built in Coq from the parameters"""
    q = lambda s: vlib.coq_Q(fr(s))
    f = sc["family"]
    if f in ("zero", "zero_exhaust"):
        return {"Aa": "(cf_zero %s %s)" % (q(sc["m0"]), q(sc["r"]))}
    if f == "first":
        return {"Aa": "(cf_first %s %s)" % (q(sc["m0"]), q(sc["k"]))}
    if f == "exh_first":
        return {"Aa": "(cf_zero %s %s)" % (q(sc["m0"]), q(sc["r"])), "Bb": "(cf_first %s %s)" % (q(sc["b0"]), q(sc["k"]))}
    if f == "m0dep":
        return {"Aa": "(cf_m0dep %s %s %s %s)" % (q(sc["m0"]), q(sc["m"]), q(sc["k0"]), q(sc["k1"]))}
    if f == "ramp":
        return {"Aa": "(cf_ramp %s %s %s)" % (q(sc["m0"]), q(sc["r0"]), q(sc["r1"]))}
    if f == "rev":
        a = "%s %s %s %s" % (q(sc["a0"]), q(sc["b0"]), q(sc["k1"]), q(sc["k2"]))
        return {"Aa": "(cf_revA %s)" % a, "Bb": "(cf_revB %s)" % a}
    if f == "chain":
        a = "%s %s %s %s" % (q(sc["a0"]), q(sc["b0"]), q(sc["k1"]), q(sc["k2"]))
        return {"Aa": "(cf_first %s %s)" % (q(sc["a0"]), q(sc["k1"])), "Bb": "(cf_chainB %s)" % a}


def closed_forms_py(sc, t):
    """float evaluation (diagnostics only; the decision is taken by the Coq checker)"""
    f = sc["family"]
    g = lambda s: float(fr(s))
    if f in ("zero", "zero_exhaust"):
        return {"Aa": g(sc["m0"]) - g(sc["r"]) * t}
    if f == "first":
        return {"Aa": g(sc["m0"]) * math.exp(-g(sc["k"]) * t)}
    if f == "exh_first":
        return {"Aa": g(sc["m0"]) - g(sc["r"]) * t, "Bb": g(sc["b0"]) * math.exp(-g(sc["k"]) * t)}
    if f == "m0dep":
        c = g(sc["k0"]) * g(sc["m0"]) / g(sc["k1"])
        return {"Aa": (g(sc["m"]) + c) * math.exp(-g(sc["k1"]) * t) - c}
    if f == "ramp":
        return {"Aa": g(sc["m0"]) - g(sc["r0"]) * t - g(sc["r1"]) * t * t / 2}
    a0, b0, k1, k2 = g(sc["a0"]), g(sc["b0"]), g(sc["k1"]), g(sc["k2"])
    if f == "rev":
        s = k1 + k2
        aeq, beq = k2 * (a0 + b0) / s, k1 * (a0 + b0) / s
        return {"Aa": aeq + (a0 - aeq) * math.exp(-s * t), "Bb": beq + (b0 - beq) * math.exp(-s * t)}
    if f == "chain":
        gg = a0 * k1 / (k2 - k1)
        return {"Aa": a0 * math.exp(-k1 * t), "Bb": (b0 - gg) * math.exp(-k2 * t) + gg * math.exp(-k1 * t)}


def exhaustion_time(sc, name="Aa"):
    if sc["family"] in ("zero", "zero_exhaust") or (sc["family"] == "exh_first" and name == "Aa"):
        return float(fr(sc["m0"]) / fr(sc["r"]))
    return None


def variants(sc, rng, full):
    """integrator x step-division variants for one scenario"""
    T = sc["T"]
    Ts = str(int(T)) if float(T) == int(T) else repr(float(T))
    cum = []
    acc = Fraction(0)
    for s in sc["incs"]:
        acc += Fraction(s)
        cum.append(str(float(acc)) if float(acc) != int(acc) else str(int(acc)))
    divisions = [
        ("single", {"steps": Ts, "incr": False, "list": [Ts], "eq": False, "cnt": 1}),
        ("cum_list", {"steps": " ".join(cum), "incr": False, "list": cum, "eq": False, "cnt": 1}),
        ("inc_list", {"steps": " ".join(sc["incs"]), "incr": True, "list": sc["incs"], "eq": False, "cnt": 1}),
        ("cum_equal", {"steps": "%s in %d steps" % (Ts, sc["nequal"]), "incr": False, "list": [Ts], "eq": True, "cnt": sc["nequal"]}),
        ("inc_equal", {"steps": "%s in %d steps" % (Ts, sc["nequal"]), "incr": True, "list": [Ts], "eq": True, "cnt": sc["nequal"]}),
    ]
    integ = [("rk1", ["-runge_kutta 1"]), ("rk2", ["-runge_kutta 2"]), ("rk3", ["-runge_kutta 3"]), ("rk6", ["-runge_kutta 6"]),
             ("cvode", ["-cvode true"]),
             ("cvode_o3", ["-cvode true", "-cvode_order 3", "-cvode_steps 300"]),
             ("cvode_o2", ["-cvode true", "-cvode_order 2", "-cvode_steps 500"]),
             ("rk3_bad", ["-runge_kutta 3", "-bad_step_max 2000"]),
             ("rk6_div", ["-runge_kutta 6", "-step_divide 10"]),
             ]
    # small per-call step budgets: the budget runs out several times inside one kinetic step, so run_reactions has to
    # continue from cvode_last_good_y for the remaining time (RESTART loop).  Only when CVStep takes that state from the
    # accepted solution zn[0] (regenerated flag g_cv_last_good_source = 0); with the work vector y about one small-budget
    # run in six is wrong on the unchanged code (finding C12:cvode-restart-state-from-failed-attempt), then only the fixed
    # continuation corpus is run.  Every continuation restarts at order 1 and adds its own local error, so the error grows
    # with the number of continuations: budgets >= 12 for tol >= 1e-8, >= 20 for 1e-9, >= 25 below (observed max 30 tol).
    if GEN_STATE.get("last_good_source") == 0 and sc["family"] != "shipped":
        tv = float(sc["tol"])
        lo = 12 if tv >= 0.99e-8 else (20 if tv >= 0.99e-9 else 25)
        for _ in range(2):
            nb = rng.randint(lo, 40)
            integ.append(("cvode_b%d" % nb, ["-cvode true", "-cvode_steps %d" % nb, "-bad_step_max 5000"]))
    # sub-domain for low BDF orders (see notes/C12.md, finding C12:cvode-low-order-global-error): CVODE bounds the
    # LOCAL error by tol, the global error grows like (number of steps) x tol, unboundedly for low orders as tol -> 0
    tolv = float(sc["tol"])
    if tolv < 1e-7:
        integ = [i for i in integ if i[0] != "cvode_o2"]
    if tolv < 1e-9:
        integ = [i for i in integ if i[0] != "cvode_o3"]
    if sc["family"] == "ramp":
        # explicit time dependence: only the full Runge-Kutta passes see the time (KNOWN findings for rk1 / cvode)
        integ = [i for i in integ if i[0] in ("rk2", "rk3", "rk6", "rk3_bad", "rk6_div")]
    out = []
    if full:
        pairs = [(d, i) for d in divisions for i in integ]
    else:
        pairs = [(divisions[0], i) for i in integ[:5]] + [(d, rng.choice(integ)) for d in divisions[1:]]
        pairs += [(rng.choice(divisions), rng.choice(integ)) for _ in range(2)]
        small = [i for i in integ if i[0].startswith("cvode_b")]
        if small:
            pairs += [(divisions[0], small[0]), (rng.choice(divisions[1:]), small[-1])]
    if sc["family"] == "ramp":
        # explicit time dependence + INCREMENTAL steps: an early exit of -runge_kutta 2/3 with equal rates sets rk = 1 in the saved
        # KINETICS, so the LATER incremental steps run the time-blind rk = 1 shortcut (known finding C12:rk1-shortcut-time-blind,
        # fixed probe 'demoted' in known_probes).  Only -runge_kutta 6 is never demoted.
        rk6 = [i for i in integ if i[0].startswith("rk6")]
        pairs = [((dn, d), (i if (not d["incr"] or i[0].startswith("rk6")) else rng.choice(rk6))) for (dn, d), i in pairs]
    seen = set()
    for (dn, d), (iname, iopts) in pairs:
        if (dn, iname) in seen:
            continue
        seen.add((dn, iname))
        v = dict(d)
        v["name"] = dn + "/" + iname
        v["opts"] = iopts
        out.append(v)
    return out


SOLUTION_NA = "0.2"   # mol/kgw of NaCl in the batch solution (enough for every reactant that grows)


def shipped_text(sc, v):
    d = SHIPPED[sc["kind"]]
    L = ["SOLUTION 1", " units mmol/kgw", " temp 25"] + d["sol"]
    L.append("INCREMENTAL_REACTIONS %s" % ("true" if v["incr"] else "false"))
    L += ["KINETICS 1", " %s" % d["name"]]
    if d["formula"]:
        L.append("  -formula %s" % d["formula"])
    L += ["  -m0 %s" % sc["m0"], "  -m %s" % sc["m0"]]
    if sc["parms"]:
        L.append("  -parms %s" % sc["parms"])
    L += ["  -tol %s" % sc["tol"], " -steps %s" % v["steps"]] + [" " + o for o in v["opts"]]
    n = d["name"]
    L += ["SELECTED_OUTPUT 1", " -reset false", " -high_precision true", " -step true", " -time true", " -kinetic_reactants %s" % n,
          "USER_PUNCH 1", " -headings kin_time total_time water kin_%s dkin_%s" % (n, n),
          " 10 PUNCH KIN_TIME, TOTAL_TIME, TOT(\"water\"), KIN(\"%s\"), KIN_DELTA(\"%s\")" % (n, n), "END"]
    return "\n".join(L) + "\n"


def input_text(sc, v):
    if sc["family"] == "shipped":
        return shipped_text(sc, v)
    L = ["RATES"]
    used = set()
    for name, prog, m0, parms in reactants(sc):
        L.append(" %s" % name)
        L.append(" -start")
        L += ["  " + l for l in RATE_PROGRAMS[prog]]
        L.append(" -end")
    L += ["SOLUTION 1", " units mol/kgw", " Na %s" % SOLUTION_NA, " Cl %s" % SOLUTION_NA]
    if v["incr"]:
        L.append("INCREMENTAL_REACTIONS true")
    else:
        L.append("INCREMENTAL_REACTIONS false")
    L.append("KINETICS 1")
    for name, prog, m0, parms in reactants(sc):
        L += [" %s" % name, "  -formula NaCl 1", "  -m0 %s" % (sc["m0"] if sc["family"] == "m0dep" else m0), "  -m %s" % m0, "  -parms %s" % " ".join(parms), "  -tol %s" % sc["tol"]]
    L.append(" -steps %s" % v["steps"])
    L += [" " + o for o in v["opts"]]
    names = [r[0] for r in reactants(sc)]
    L += ["SELECTED_OUTPUT 1", " -reset false", " -high_precision true", " -step true", " -time true", " -totals Na Cl",
          " -kinetic_reactants %s" % " ".join(names),
          "USER_PUNCH 1", " -headings kin_time total_time water " + " ".join("kin_%s dkin_%s" % (n, n) for n in names),
          " 10 PUNCH KIN_TIME, TOTAL_TIME, TOT(\"water\")"]
    for k, n in enumerate(names):
        L.append(" %d PUNCH KIN(\"%s\"), KIN_DELTA(\"%s\")" % (20 + k, n, n))
    L.append("END")
    return "\n".join(L) + "\n"


# ----------------------------------------------------------------------------------------- Coq evaluation

PRELUDE_T = """From Coq Require Import QArith ZArith List Bool.
From IPV Require Import C12.MiniPrelude C12.Checker C12.Closed C12.Step %s.
Import ListNotations.
Open Scope Q_scope.
Definition step_ok (steps : list Q) (cnt : Z) (eq inc : bool) (n : Z) (reported : Q) : bool :=
  let e := %s steps cnt eq inc n in
  Qle_bool (Qabs.Qabs (e - reported)) ((1 # 1000000000000) * (Qabs.Qabs e)).
"""


def prelude():
    # normally the KIN_TIME reported by the implementation is compared with the REGENERATED Current_step (validates the
    # translator); if the translator refused the function, with its specification (what the property needs)
    if GEN_STATE["step_ok"]:
        return PRELUDE_T % ("Gen.Gen_C12_Step", "g_current_step")
    return PRELUDE_T % ("", "current_step_spec")


def coq_bools(exprs, chunk=120, timeout=600, workers=4, prelude=None):
    """evaluate Coq bool expressions; returns list of True/False/None (None = evaluation failed)"""
    res = [None] * len(exprs)
    chunks = [list(range(i, min(i + chunk, len(exprs)))) for i in range(0, len(exprs), chunk)]

    def one(ids):
        body = ";\n  ".join("(%d%%nat, %s)" % (k, exprs[i]) for k, i in enumerate(ids))
        v = (prelude or globals()["prelude"]()) + "Definition cases : list (nat * bool) := [\n  " + body + "\n].\n" \
            "Eval vm_compute in (map fst (filter (fun p => negb (snd p)) cases), length cases).\n"
        rc, out = vlib.coq_eval(v, timeout=timeout)
        return ids, rc, out

    with cf.ThreadPoolExecutor(max_workers=workers) as ex:
        for ids, rc, out in ex.map(one, chunks):
            import re
            m = re.search(r"=\s*\(\s*\[([^\]]*)\]\s*,\s*(\d+)\s*\)", out.replace("%nat", ""))
            if rc != 0 or not m or int(m.group(2)) != len(ids):
                vlib.log("[C12] coq evaluation failed: rc=%s %s" % (rc, out[-800:]))
                continue
            bad = set(int(x) for x in re.findall(r"\d+", m.group(1)))
            for k, i in enumerate(ids):
                res[i] = (k not in bad)
    return res


def coq_list_Q(xs):
    return "[" + "; ".join(vlib.coq_Q(fr(x)) for x in xs) + "]"


# ----------------------------------------------------------------------------------------- checks on one scenario

def rows_of(r):
    tab = r.get("tables", {}).get("1")
    if not tab:
        return []
    rows = vlib.table_dicts(tab)
    return [x for x in rows if isinstance(x.get("step"), int) and x["step"] >= 1]


def analyse(sc, vs, results, checks, info):
    """collect Coq checks for one scenario.  checks: list of (coq bool expr, descriptor dict)"""
    tol = fr(sc["tol"])
    bound = vlib.coq_Q(100 * tol)
    shipped = sc["family"] == "shipped"
    cfs = None if shipped else closed_forms_coq(sc)
    names = [r[0] for r in reactants(sc)]
    texh_of = (lambda n: None) if shipped else (lambda n: exhaustion_time(sc, n))
    reached = {}     # time (float) -> list of (variant name, {reactant: value})
    for v in vs:
        r = results.get(v["id"])
        base = {"scenario": sc, "variant": v["name"]}
        if r is None or r.get("timeout") or r.get("crash"):
            info["timeouts"] += 1
            # a run that does not return is outside "every KINETICS calculation that completes"; F4-like hangs are
            # not expected in this family, so it is reported in the evidence
            info["notes"].add(("run did not return (twice, 25 s / 60 s): %s %s %s" if (r or {}).get("timeout") else "run crashed: %s %s %s") % (sc["family"], v["name"], json.dumps({k: sc[k] for k in sc if k not in ("incs", "nequal")}, sort_keys=True)))
            continue
        if r.get("rc", 1) != 0:
            info["errors"] += 1
            info["error_kinds"][(r.get("err") or "").strip().split("\n")[0][:80]] = info["error_kinds"].get((r.get("err") or "").strip().split("\n")[0][:80], 0) + 1
            continue
        rows = rows_of(r)
        nexp = v["cnt"] if v["eq"] else len(v["list"])
        if len(rows) != nexp:
            checks.append(("false", dict(base, what="number of reaction steps reported", observed=len(rows), expected=nexp)))
            continue
        info["runs_ok"] += 1
        prev = {n: float(fr(dict((a, c) for a, b, c, d in reactants(sc))[n])) for n in names}
        prev_na = None
        for k, row in enumerate(rows, 1):
            t = row["time"]
            # (a) time bookkeeping: KIN_TIME is Current_step(incremental, k); time/TOTAL_TIME is the elapsed time
            checks.append(("step_ok %s %d%%Z %s %s %d%%Z %s" % (coq_list_Q(v["list"]), v["cnt"], "true" if v["eq"] else "false",
                                                               "true" if v["incr"] else "false", k, vlib.coq_Q(row["kin_time"])),
                           dict(base, what="KIN_TIME of step %d vs regenerated Current_step" % k, observed=row["kin_time"])))
            if v["incr"]:
                exp_t = sum(float(fr(x)) for x in v["list"][:k]) if not v["eq"] else float(fr(v["list"][0])) * k / v["cnt"]
            else:
                exp_t = float(fr(v["list"][k - 1])) if not v["eq"] else float(fr(v["list"][0])) * k / v["cnt"]
            if abs(t - exp_t) > 1e-9 * abs(exp_t) or abs(row["total_time"] - exp_t) > 1e-9 * abs(exp_t):
                checks.append(("false", dict(base, what="elapsed time after step %d" % k, observed=[t, row["total_time"]], expected=exp_t)))
            py = None if shipped else closed_forms_py(sc, t)
            vals = {}
            for n in names:
                m = row["k_" + n]
                vals[n] = m
                # (d) never negative; selected output and BASIC agree
                if not (m >= 0) or m != row["kin_" + n]:
                    checks.append(("false", dict(base, what="reactant %s negative or KIN() differs from -kinetic_reactants at t=%g" % (n, t),
                                                 observed=[m, row["kin_" + n]], expected=">= 0, equal")))
                if shipped:
                    continue
                # (b) closed form within 100 tol (verified checker)
                texh = texh_of(n)
                if texh is not None and t >= texh * (1 - 1e-9):
                    if t > texh * (1 + 1e-9):
                        checks.append(("check_agree %s 0 %s" % (vlib.coq_Q(m), bound),
                                       dict(base, what="%s exhausted at t=%g must be 0 within 100 tol" % (n, t), observed=m, expected=0.0)))
                else:
                    checks.append(("check_closed %s %s %s %s" % (cfs[n], vlib.coq_Q(t), vlib.coq_Q(m), bound),
                                   dict(base, what="%s(t=%g) vs closed form, 100*tol=%g" % (n, t, float(100 * tol)), observed=m, expected=py[n])))
                info["max_err_over_tol"] = max(info["max_err_over_tol"], abs(m - max(py[n], 0.0)) / float(tol))
                iname = v["name"].split("/")[1]
                info["err_by_integ"].setdefault("cvode_small_budget(12..40)" if iname.startswith("cvode_b") else iname, []).append(abs(m - max(py[n], 0.0)) / float(tol))
            if shipped:
                prev = vals
                reached.setdefault(round(t, 6), []).append((v["name"], vals))
                continue
            # (e) transfer: what left the reactants arrived in the solution (every formula is NaCl 1)
            na, cl, w = row["Na(mol/kgw)"] * row["water"], row["Cl(mol/kgw)"] * row["water"], row["water"]
            tot_m = sum(vals.values())
            for el, x in (("Na", na), ("Cl", cl)):
                inv = x + tot_m
                inv0 = float(SOLUTION_NA) + sum(float(fr(c)) for a, b, c, d in reactants(sc))
                if abs(inv - inv0) > 1e-6 * inv0:
                    checks.append(("false", dict(base, what="%s in solution + reactants after step %d (C02 tolerance 1e-6 of inventory)" % (el, k),
                                                 observed=inv, expected=inv0)))
            # KIN_DELTA is the change over this step (incremental) or since the start (cumulative)
            for n in names:
                ref = prev[n] if v["incr"] else float(fr(dict((a, c) for a, b, c, d in reactants(sc))[n]))
                if abs(row["dkin_" + n] - (vals[n] - ref)) > 1e-12 + 1e-9 * abs(ref):
                    checks.append(("false", dict(base, what="KIN_DELTA(%s) at step %d" % (n, k), observed=row["dkin_" + n], expected=vals[n] - ref)))
            prev = vals
            reached.setdefault(round(t, 6), []).append((v["name"], vals))
    # (c) same time reached by different variants: pairwise within 100 tol (compare everything with the first)
    for t, lst in reached.items():
        for n in names:
            ref_name, ref = lst[0]
            for vn, vals in lst[1:]:
                checks.append(("check_agree %s %s %s" % (vlib.coq_Q(vals[n]), vlib.coq_Q(ref[n]), bound),
                               dict(scenario=sc, variant=vn + " vs " + ref_name, what="%s at t=%g reached by two variants" % (n, t),
                                    observed=vals[n], expected=ref[n])))
    return checks


def run_scenarios(ctx, scs, full=False, label="gen"):
    jobs, per = [], []
    for si, sc in enumerate(scs):
        vs = variants(sc, ctx.rng, full)
        for vi, v in enumerate(vs):
            v["id"] = "%s-%d-%d" % (label, si, vi)
            v["text"] = input_text(sc, v)
            jobs.append({"id": v["id"], "db": "phreeqc.dat", "text": v["text"]})
        per.append((sc, vs))
    import time
    t0 = time.time()
    results = vlib.run_inputs(jobs, timeout_each=25, workers=min(6, vlib.NCPU))
    # a job reported as not returning / crashed inside a batch is re-run alone once (batch attribution is approximate)
    lost = [j for j in jobs if (results.get(j["id"]) or {}).get("timeout") or (results.get(j["id"]) or {}).get("crash") or j["id"] not in results]
    if lost:
        again = vlib.run_inputs([dict(id=j["id"], db=j["db"], text=j["text"]) for j in lost], timeout_each=60, workers=min(6, vlib.NCPU))
        for j in lost:
            r2 = again.get(j["id"])
            if r2 is not None and not r2.get("timeout") and not r2.get("crash"):
                ctx.notes.append("job %s did not return inside its batch but completed when run alone" % j["id"])
                results[j["id"]] = r2
            elif r2 is not None:
                results[j["id"]] = r2
    vlib.log("[C12] %d engine runs %.1fs" % (len(jobs), time.time() - t0)); t0 = time.time()
    info = ctx.extra.setdefault("_info", {"timeouts": 0, "errors": 0, "runs_ok": 0, "error_kinds": {}, "max_err_over_tol": 0.0,
                                          "notes": set(), "err_by_integ": {}})
    checks = []
    for sc, vs in per:
        analyse(sc, vs, results, checks, info)
    texts = {v["name"] + json.dumps(sc, sort_keys=True): v["text"] for sc, vs in per for v in vs}
    verdicts = coq_bools([c for c, _ in checks])
    vlib.log("[C12] %d coq checks %.1fs" % (len(checks), time.time() - t0))
    nfail = 0
    for (expr, d), ok in zip(checks, verdicts):
        sc = d["scenario"]
        ctx.case("%s:%s:%s" % (sc["family"], d["variant"], d["what"]),
                 sample={"family": sc["family"], "tol": sc["tol"], "variant": d["variant"], "check": d["what"],
                         "observed": d.get("observed"), "accepted": bool(ok)})
        if ok is None:
            ctx.obligation("coq-evaluation-of-correspondence-cases", False, "a cases.v chunk did not evaluate")
            continue
        if not ok:
            nfail += 1
            v1 = d["variant"].split(" vs ")[0]
            key = "C12:%s:%s:%s" % (sc["family"], d["variant"].split("/")[-1] if " vs " not in d["variant"] else "agree", vlib.key_of([sc, d["variant"], d["what"]]))
            ctx.violation(key, "%s [%s, tol %s, %s]: observed %r expected %r" % (d["what"], sc["family"], sc["tol"], d["variant"], d.get("observed"), d.get("expected")),
                          {"kind": "input", "database": "phreeqc.dat", "input_text": texts.get(v1 + json.dumps(sc, sort_keys=True), ""),
                           "scenario": sc, "variant": d["variant"], "check": d["what"], "coq_check": expr,
                           "observed": d.get("observed"), "expected": d.get("expected")})
    return nfail


# ----------------------------------------------------------------------------------------- kinetics inside ADVECTION / TRANSPORT

KEY_TR_TIME = "C12:transport-inflow-cell-reported-time"


def column_text(m):
    """first- or zero-order reactant in every cell of a column; all solutions (column and boundaries) identical"""
    n = m["cells"]
    if m["order"] == 1:
        prog = ["  10 rate = PARM(1) * M", "  20 SAVE rate * TIME"]
    elif m["order"] == 2:
        prog = ["  10 rate = PARM(1) * M0 + PARM(2) * M", "  20 SAVE rate * TIME"]
    else:
        prog = ["  10 rate = PARM(1)", "  20 IF (M <= 0) THEN rate = 0", "  30 SAVE rate * TIME"]
    L = ["RATES", " Aa", " -start"] + prog + [" -end",
         "SOLUTION 0-%d" % (n + 1), " units mol/kgw", " Na %s" % SOLUTION_NA, " Cl %s" % SOLUTION_NA,
         "KINETICS 1-%d" % n, " Aa", "  -formula NaCl 1", "  -m0 %s" % m["m0"], "  -m %s" % m["m0"], "  -parms %s" % m["k"], "  -tol %s" % m["tol"]] + [" " + o for o in m["opts"]]
    # no batch reaction of solution 0 with KINETICS 1 before the column calculation
    L += ["USE kinetics none", "END"]
    if m["mode"] == "adv":
        L += ["ADVECTION", " -cells %d" % n, " -shifts %d" % m["shifts"], " -time_step %s" % m["dt"], " -punch_cells 1-%d" % n, " -punch_frequency 1"]
    else:
        L += ["TRANSPORT", " -cells %d" % n, " -shifts %d" % m["shifts"], " -time_step %s" % m["dt"], " -flow_direction %s" % m["flow"],
              " -boundary_conditions %s" % m["bc"], " -lengths %s" % m["length"], " -dispersivities %s" % m["disp"],
              " -diffusion_coefficient %s" % m["diffc"], " -punch_cells 1-%d" % n, " -punch_frequency 1"]
    L += ["SELECTED_OUTPUT 1", " -reset false", " -high_precision true", " -step true", " -time true", " -solution true", " -kinetic_reactants Aa",
          "USER_PUNCH 1", " -headings total_time cell kin", " 10 PUNCH TOTAL_TIME, CELL_NO, KIN(\"Aa\")", "END"]
    return "\n".join(L) + "\n"


def column_case(rng, i):
    integ = [["-runge_kutta 1"], ["-runge_kutta 2"], ["-runge_kutta 3"], ["-runge_kutta 6"], ["-cvode true"]]
    dt = rng.choice([10, 100, 3600, 86400])
    shifts = rng.choice([2, 3, 4, 5])
    m = {"cells": rng.choice([2, 3, 4, 5]), "shifts": shifts, "dt": dt, "order": rng.choice([1, 2, 0, 2]),
         "m0": dec(rng.choice([1e-3, 1e-2, 5e-2]) * rng.uniform(0.5, 1.0)), "tol": rng.choice(["1e-7", "1e-8", "1e-9", "1e-10"]),
         "opts": rng.choice(integ)}
    if m["order"] == 1:
        m["k"] = dec(rng.choice([0.05, 0.5, 2.0]) * rng.uniform(0.5, 1.0) / (dt * shifts))
    elif m["order"] == 2:
        k1 = rng.choice([0.3, 0.8, 1.4]) * rng.uniform(0.6, 1.0) / (dt * shifts)
        m["k"] = "%s %s" % (dec(rng.uniform(0.02, 0.15) * k1), dec(k1))          # rate = k0*M0 + k1*M, M0 = -m0 in every shift
    else:
        m["k"] = dec(float(m["m0"]) * rng.uniform(0.1, 0.8) / (dt * shifts))
    kind = ["adv", "forward", "backward", "diffusion_only", "backward", "forward"][i % 6]
    if kind == "adv":
        m.update(mode="adv", flow="-", bc="-", disp="0", diffc="0", length="1")
        return m
    m["mode"] = "tr"
    m["flow"] = kind
    if kind == "diffusion_only":
        m["bc"] = rng.choice(["closed closed", "constant closed", "constant constant"])
        x = rng.choice([0.05, 0.8, 2.5])                      # diffc*dt/L^2: 1 .. ~10 mixruns per diffusion period
        m.update(disp="0", diffc="0.3e-9", length=dec(math.sqrt(0.3e-9 * dt / x)))
    else:
        m["bc"] = rng.choice(["flux flux", "constant constant", "closed closed", "flux constant", "constant flux"])
        c = rng.choice(["nomix", "disp", "disp", "diff"])
        if c == "nomix":
            m.update(disp="0", diffc="0", length="1")          # nmix = 0: pure advection
        elif c == "disp":
            m.update(disp=rng.choice(["0.1", "0.3", "0.6", "1.5"]), diffc="0.3e-9", length="1")
        else:
            m.update(disp="0", diffc="0.3e-9", length=dec(math.sqrt(0.3e-9 * dt / rng.choice([0.3, 1.5]))))
    return m


def column_sc(m):
    if m["order"] == 2:
        k0, k1 = m["k"].split()
        return {"family": "m0dep", "m0": m["m0"], "m": m["m0"], "k0": k0, "k1": k1, "tol": m["tol"]}
    if m["order"] == 1:
        return {"family": "first", "m0": m["m0"], "k": m["k"], "tol": m["tol"]}
    return {"family": "zero", "m0": m["m0"], "r": m["k"], "tol": m["tol"]}


def column_rows(r, m):
    return [x for x in vlib.table_dicts(r.get("tables", {}).get("1") or []) if isinstance(x.get("step"), int) and x["step"] >= 1
            and isinstance(x.get("soln"), int) and 1 <= x["soln"] <= m["cells"]]


def column_checks(m, rows):
    """-> list of (coq expr, what, row, expected M, known-key or None)"""
    out = []
    sc = column_sc(m)
    cf = closed_forms_coq(sc)["Aa"]
    for row in rows:
        t_exp = float(row["step"] * m["dt"])
        what = "%s%s cell %d of %d, shift %d" % (m["mode"], "" if m["mode"] == "adv" else "/" + m["flow"], row["soln"], m["cells"], row["step"])
        exp = closed_forms_py(sc, t_exp)["Aa"]
        key = None
        if abs(row["time"] - t_exp) > 1e-9 * t_exp or abs(row["total_time"] - t_exp) > 1e-9 * t_exp:
            # signature of the known reporting defect: pure advection (nmix = 0), inflow cell, time short by half a step
            inflow = 1 if m["flow"] == "forward" else m["cells"]
            if (m["mode"] == "tr" and m["flow"] in ("forward", "backward") and m["disp"] == "0" and m["diffc"] == "0" and m["cells"] > 1
                    and row["soln"] == inflow and abs(row["time"] - (t_exp - m["dt"] / 2.0)) <= 1e-9 * t_exp and abs(row["total_time"] - row["time"]) <= 1e-9 * t_exp):
                key = KEY_TR_TIME
            out.append(("false", what + ": reported time %r / TOTAL_TIME %r, expected %r" % (row["time"], row["total_time"], t_exp), row, exp, key))
        if not (row["k_Aa"] >= 0) or row["k_Aa"] != row["kin"]:
            out.append(("false", what + ": negative amount or KIN() differs", row, exp, None))
        out.append(("check_closed %s %s %s %s" % (cf, vlib.coq_Q(t_exp), vlib.coq_Q(row["k_Aa"]), vlib.coq_Q(100 * fr(m["tol"]))),
                    what + ": amount after %g s" % t_exp, row, exp, None))
    return out


def run_columns(ctx, n, cases=None):
    """a closed-form reactant in EVERY cell of a 2-5 cell column (all solutions identical, so the rate sees no chemistry change):
    ADVECTION, TRANSPORT forward / backward / diffusion_only, with and without dispersive mixing (nmix = 0 .. ~10), all boundary
    conditions: after s shifts of time_step dt every cell, the inflow and outflow cells included, must have integrated exactly s*dt"""
    rng = ctx.rng
    ms = cases if cases is not None else [column_case(rng, i) for i in range(n)]
    jobs = []
    for i, m in enumerate(ms):
        m["text"] = column_text(m)
        m["id"] = "col-%d" % i
        jobs.append({"id": m["id"], "db": "phreeqc.dat", "text": m["text"]})
    res = vlib.run_inputs(jobs, timeout_each=90, workers=min(6, vlib.NCPU))
    exprs, metas = [], []
    for m in ms:
        r = res.get(m["id"]) or {}
        mm = {k: v for k, v in m.items() if k not in ("text", "id")}
        if r.get("rc") != 0:
            ctx.notes.append("column run ended with rc=%s (%s): %s" % (r.get("rc"), (r.get("err") or "timeout" if r.get("timeout") else r.get("err") or "")[:80], json.dumps(mm)))
            continue
        rows = column_rows(r, m)
        if len(rows) != m["cells"] * m["shifts"]:
            ctx.violation("C12:column-rows:" + vlib.key_of(mm), "kinetics in a column (%s): %d rows for cells 1-%d, expected %d" % (json.dumps(mm), len(rows), m["cells"], m["cells"] * m["shifts"]),
                          {"kind": "input", "database": "phreeqc.dat", "input_text": m["text"], "observed": len(rows), "expected": m["cells"] * m["shifts"], "column": mm})
            continue
        for c in column_checks(m, rows):
            exprs.append(c[0])
            metas.append((m, mm) + c[1:])
    for (m, mm, what, row, exp, key), ok in zip(metas, coq_bools(exprs)):
        ctx.case("column:%s:%s:%s:%s" % (m["mode"], m.get("flow"), " ".join(m["opts"]), what),
                 sample={"column": mm, "check": what, "observed": row["k_Aa"], "expected": exp, "accepted": bool(ok)})
        if ok is None:
            ctx.obligation("coq-evaluation-of-column-cases", False, "column cases did not evaluate")
        elif not ok:
            ctx.violation(key or "C12:column:%s:%s" % (m["mode"], vlib.key_of([mm, what])),
                          "kinetics inside %s (%s, tol %s, cells %d, bc %s, disp %s, diffc %s, length %s): %s: M = %r (exact %r), reported time %r" %
                          (m["mode"] if m["mode"] == "adv" else "TRANSPORT " + m["flow"], " ".join(m["opts"]), m["tol"], m["cells"], m["bc"], m["disp"], m["diffc"], m["length"],
                           what, row["k_Aa"], exp, row["time"]),
                          {"kind": "input", "database": "phreeqc.dat", "input_text": m["text"], "observed": [row["k_Aa"], row["time"]], "expected": [exp, row["step"] * m["dt"]], "column": mm})


# fixed corpus: one case per transport mode (regression cases of the seeded change C12-c: backward flow, nmix = 0 and > 0)
COLUMN_CORPUS = [
    {"cells": 3, "shifts": 4, "dt": 100, "order": 2, "m0": "0.02", "k": "2e-4 2e-3", "tol": "1e-8", "opts": ["-runge_kutta 3"], "mode": "adv", "flow": "-", "bc": "-", "disp": "0", "diffc": "0", "length": "1"},
    {"cells": 3, "shifts": 4, "dt": 100, "order": 2, "m0": "0.02", "k": "2e-4 2e-3", "tol": "1e-8", "opts": ["-cvode true"], "mode": "tr", "flow": "forward", "bc": "flux flux", "disp": "0.3", "diffc": "0.3e-9", "length": "1"},
    {"cells": 3, "shifts": 5, "dt": 100, "order": 1, "m0": "0.01", "k": "0.001", "tol": "1e-8", "opts": ["-runge_kutta 3"], "mode": "tr", "flow": "backward", "bc": "flux flux", "disp": "0", "diffc": "0", "length": "1"},
    {"cells": 4, "shifts": 4, "dt": 100, "order": 1, "m0": "0.01", "k": "0.001", "tol": "1e-8", "opts": ["-cvode true"], "mode": "tr", "flow": "backward", "bc": "flux flux", "disp": "0.4", "diffc": "0.3e-9", "length": "1"},
    {"cells": 3, "shifts": 4, "dt": 100, "order": 0, "m0": "0.01", "k": "1e-5", "tol": "1e-8", "opts": ["-runge_kutta 6"], "mode": "tr", "flow": "forward", "bc": "constant constant", "disp": "0.4", "diffc": "0.3e-9", "length": "1"},
    {"cells": 3, "shifts": 4, "dt": 100, "order": 1, "m0": "0.01", "k": "0.001", "tol": "1e-8", "opts": ["-runge_kutta 3"], "mode": "tr", "flow": "forward", "bc": "flux flux", "disp": "0", "diffc": "0", "length": "1"},
    {"cells": 3, "shifts": 3, "dt": 100, "order": 1, "m0": "0.01", "k": "0.001", "tol": "1e-8", "opts": ["-runge_kutta 3"], "mode": "tr", "flow": "diffusion_only", "bc": "closed closed", "disp": "0", "diffc": "0.3e-9", "length": "0.0002"},
    {"cells": 2, "shifts": 3, "dt": 100, "order": 1, "m0": "0.01", "k": "0.001", "tol": "1e-8", "opts": ["-runge_kutta 3"], "mode": "tr", "flow": "backward", "bc": "closed closed", "disp": "1.5", "diffc": "0.3e-9", "length": "1"},
]


# ----------------------------------------------------------------------------------------- step-level correspondence

NREC = 13


def trace_text(lam, r1, m0, T, tol):
    heads = " ".join("m%d t%d h%d" % (i, i, i) for i in range(1, NREC + 1))
    return """RATES
 Aa
 -start
 10 n = GET(0) + 1
 20 PUT(n, 0)
 30 PUT(M, n, 1)
 40 PUT(TOTAL_TIME, n, 2)
 50 PUT(TIME, n, 3)
 60 rate = PARM(1) * M + PARM(2) * TOTAL_TIME
 70 SAVE rate * TIME
 -end
SOLUTION 1
 units mol/kgw
 Na %s
 Cl %s
KINETICS 1
 Aa
  -formula NaCl 1
  -m0 %s
  -parms %s %s
  -tol %s
 -steps %s
 -runge_kutta 6
SELECTED_OUTPUT 1
 -reset false
 -high_precision true
 -step true
USER_PUNCH 1
 -headings ncalls %s
 10 PUNCH GET(0)
 20 FOR i = 1 TO %d
 30 PUNCH GET(i,1), GET(i,2), GET(i,3)
 40 NEXT i
END
""" % (SOLUTION_NA, SOLUTION_NA, m0, lam, r1, tol, T, heads, NREC)


def run_traces(ctx, n):
    """the first rate evaluations of -runge_kutta 6 runs against the model instantiated with the regenerated scheme"""
    rng = ctx.rng
    jobs, meta = [], {}
    for i in range(n):
        T = rng.choice([10, 100, 400, 3600, 86400])
        m0 = dec(rng.choice([1e-3, 1e-2, 5e-2]) * rng.uniform(0.5, 1.0))
        z = rng.choice([0.01, 0.1, 0.5, 2.0, 6.0]) * rng.uniform(0.5, 1.0)
        lam = dec(z / T)
        r1 = dec(float(m0) * rng.uniform(0.0, 0.2) / T / T)
        tol = rng.choice(["1e-6", "1e-8", "1e-10"])
        Ts = str(T)
        jid = "trace-%d" % i
        txt = trace_text(lam, r1, m0, Ts, tol)
        jobs.append({"id": jid, "db": "phreeqc.dat", "text": txt})
        meta[jid] = (lam, r1, m0, Ts, tol, txt)
    res = vlib.run_inputs(jobs, timeout_each=25, workers=min(6, vlib.NCPU))
    exprs, metas = [], []
    for jid, (lam, r1, m0, Ts, tol, txt) in meta.items():
        r = res.get(jid) or {}
        if r.get("rc") != 0:
            continue
        rows = [x for x in vlib.table_dicts(r["tables"]["1"]) if isinstance(x.get("step"), int) and x["step"] >= 1]
        if not rows or rows[-1]["ncalls"] < 7:
            continue
        row = rows[-1]
        k = int(min(row["ncalls"], NREC))
        recs = "; ".join("(%s, %s, %s)" % (vlib.coq_Q(row["m%d" % i]), vlib.coq_Q(row["t%d" % i]), vlib.coq_Q(row["h%d" % i])) for i in range(1, k + 1))
        q = lambda t: vlib.coq_Q(fr(t))
        exprs.append("trace_ok %s %s %s %s %s [%s]" % (q(lam), q(r1), q(m0), q(Ts), q(tol), recs))
        metas.append((jid, lam, r1, m0, Ts, tol, txt, [row["m%d" % i] for i in range(1, k + 1)]))
    oks = coq_bools(exprs, chunk=4, prelude=PRELUDE_TRACE)
    for (jid, lam, r1, m0, Ts, tol, txt, ms), ok in zip(metas, oks):
        ctx.case("trace:%s:%s:%s:%s" % (lam, r1, m0, Ts), sample={"trace": {"lam": lam, "r1": r1, "m0": m0, "T": Ts, "tol": tol}, "first_states": ms[:6], "accepted": bool(ok)})
        if ok is None:
            ctx.obligation("coq-evaluation-of-trace-cases", False, "a trace cases.v chunk did not evaluate")
        elif not ok:
            # the model (regenerated scheme) and the implementation disagree about a single step: the tie is broken
            ctx.obligation("step-level correspondence (Trace.trace_ok) %s" % jid, False,
                           "rate evaluations recorded by the implementation differ from the model: lam=%s r1=%s m0=%s T=%s tol=%s states=%r" % (lam, r1, m0, Ts, tol, ms))
            ctx.extra.setdefault("trace_failures", []).append({"input_text": txt, "recorded_states": ms})


PRELUDE_TRACE = """From Coq Require Import QArith ZArith List Bool.
From IPV Require Import C12.Trace.
Import ListNotations.
Open Scope Q_scope.
"""

# ----------------------------------------------------------------------------------------- fixed probes (known findings)

RAMP_SC = {"family": "ramp", "tol": "1e-9", "m0": "0.05", "r0": "0", "r1": "1e-7", "T": 400, "incs": ["100", "100", "200"], "nequal": 4}


def known_probes(ctx):
    """two fixed inputs with an explicitly time-dependent rate (rate = 1e-7*TOTAL_TIME, exact M(400) = 0.042)"""
    sc = RAMP_SC
    v1 = {"name": "single/cvode", "steps": "400", "incr": False, "list": ["400"], "eq": False, "cnt": 1, "opts": ["-cvode true"], "id": "probe-cvode"}
    v2 = {"name": "inc_list/rk1", "steps": "100 100 200", "incr": True, "list": ["100", "100", "200"], "eq": False, "cnt": 1, "opts": ["-runge_kutta 1"], "id": "probe-rk1"}
    # the same shortcut reached from -runge_kutta 3: the first incremental step (5 s) leaves through the equal-rates exit, which sets
    # rk = 1 in the saved KINETICS; the later steps (15, 60, 5, 15 s) are then single Euler steps whose time-blind check always passes
    sc3 = {"family": "ramp", "tol": "1e-6", "m0": "0.001128", "r0": "4.457e-07", "r1": "9.253e-08", "T": 100, "incs": ["5", "15", "60", "5", "15"], "nequal": 8}
    v3 = {"name": "inc_list/rk3-demoted", "steps": "5 15 60 5 15", "incr": True, "list": ["5", "15", "60", "5", "15"], "eq": False, "cnt": 1, "opts": ["-runge_kutta 3"], "id": "probe-rk3-demoted"}
    jobs = []
    for v, s_ in ((v1, sc), (v2, sc), (v3, sc3)):
        v["text"] = input_text(s_, v)
        v["sc"] = s_
        jobs.append({"id": v["id"], "db": "phreeqc.dat", "text": v["text"]})
    res = vlib.run_inputs(jobs, timeout_each=60, workers=3)
    exprs, metas = [], []
    for v, key, why in ((v1, KEY_CVODE_TIME, "Phreeqc::f/Jac set rate_sim_time = cvode_rate_sim_time and ignore t"),
                        (v2, KEY_RK1_TIME, "the rk=1 shortcut re-evaluates the rate without advancing rate_sim_time"),
                        (v3, KEY_RK1_TIME, "-runge_kutta 3 demoted to rk = 1 by the equal-rates exit of the first incremental step; later steps use the time-blind rk=1 shortcut")):
        r = res.get(v["id"]) or {}
        rows = rows_of(r) if r.get("rc") == 0 else []
        if not rows:
            ctx.notes.append("probe %s did not produce rows (rc=%s)" % (v["name"], r.get("rc")))
            continue
        row = rows[-1]
        exprs.append("check_closed %s %s %s %s" % (closed_forms_coq(v["sc"])["Aa"], vlib.coq_Q(row["time"]), vlib.coq_Q(row["k_Aa"]), vlib.coq_Q(100 * fr(v["sc"]["tol"]))))
        metas.append((v, key, why, row))
    for (v, key, why, row), ok in zip(metas, coq_bools(exprs)):
        exact = closed_forms_py(v["sc"], row["time"])["Aa"]
        ctx.case("probe:" + v["name"], sample={"probe": v["name"], "M(T)": row["k_Aa"], "exact": exact, "accepted": bool(ok)})
        if ok is False:
            ctx.violation(key, "time-dependent rate r0 + r1*TOTAL_TIME, %s: M(%g) = %.9g, exact %.9g, 100*tol = %g (%s)" % (v["name"], row["time"], row["k_Aa"], exact, 100 * float(v["sc"]["tol"]), why),
                          {"kind": "input", "database": "phreeqc.dat", "input_text": v["text"], "observed": row["k_Aa"], "expected": exact, "scenario": v["sc"], "variant": v["name"]})
        elif ok is None:
            ctx.obligation("coq-evaluation-of-probe-cases", False, "probe cases did not evaluate")


CHAIN_SC = {"family": "chain", "tol": "1e-12", "a0": "0.02", "b0": "0.01", "k1": "0.005", "k2": "0.0025", "T": 400,
            "incs": ["100", "100", "200"], "nequal": 4}


def low_order_probe(ctx):
    """fixed input: chain A->B, tol 1e-12, -cvode_order 2: global error of several hundred tol"""
    sc = CHAIN_SC
    v = {"name": "single/cvode_o2", "steps": "400", "incr": False, "list": ["400"], "eq": False, "cnt": 1,
         "opts": ["-cvode true", "-cvode_order 2", "-cvode_steps 500"], "id": "probe-cvode-o2"}
    v["text"] = input_text(sc, v)
    res = vlib.run_inputs([{"id": v["id"], "db": "phreeqc.dat", "text": v["text"]}], timeout_each=60, workers=1)
    r = res.get(v["id"]) or {}
    rows = rows_of(r) if r.get("rc") == 0 else []
    if not rows:
        ctx.notes.append("probe %s did not produce rows (rc=%s)" % (v["name"], r.get("rc")))
        return
    row = rows[-1]
    cfs = closed_forms_coq(sc)
    py = closed_forms_py(sc, row["time"])
    exprs = ["check_closed %s %s %s %s" % (cfs[n], vlib.coq_Q(row["time"]), vlib.coq_Q(row["k_" + n]), vlib.coq_Q(100 * fr(sc["tol"]))) for n in ("Aa", "Bb")]
    oks = coq_bools(exprs)
    ctx.case("probe:" + v["name"], sample={"probe": v["name"], "A,B(400)": [row["k_Aa"], row["k_Bb"]], "exact": [py["Aa"], py["Bb"]], "accepted": oks})
    if None in oks:
        ctx.obligation("coq-evaluation-of-probe-cases", False, "probe cases did not evaluate")
    elif not all(oks):
        ctx.violation(KEY_CVODE_LOW, "chain A->B, tol 1e-12, -cvode_order 2: A(400) = %.14g (exact %.14g, %.0f tol), B(400) = %.14g (exact %.14g, %.0f tol); "
                      "CVODE bounds the local error only" % (row["k_Aa"], py["Aa"], abs(row["k_Aa"] - py["Aa"]) / 1e-12, row["k_Bb"], py["Bb"], abs(row["k_Bb"] - py["Bb"]) / 1e-12),
                      {"kind": "input", "database": "phreeqc.dat", "input_text": v["text"], "observed": [row["k_Aa"], row["k_Bb"]],
                       "expected": [py["Aa"], py["Bb"]], "scenario": sc, "variant": v["name"]})


CONT_SC = {"family": "chain", "tol": "1e-8", "a0": "0.01", "b0": "0.005", "k1": "0.001", "k2": "0.0005", "T": 3000,
           "incs": ["1000", "1000", "1000"], "nequal": 3}
# budgets for which the UNREPAIRED CVStep (restart state copied from the work vector y) integrates too far on CONT_SC
CONT_BAD_WITH_Y = (12, 14, 19, 22, 34)


def continuation_corpus(ctx):
    """fixed corpus: chain A->B over 3000 s, tol 1e-8, -cvode_steps 9..44: the step budget runs out 2..15 times inside the single
    kinetic step; every budget must give the closed form within 100 tol.  Budget 12 is the fixed probe of the finding
    'restart state from a failed attempt' (own stable key)."""
    sc = CONT_SC
    src_flag = GEN_STATE.get("last_good_source")
    budgets = [b for b in range(9, 45)]
    jobs, vs = [], {}
    for b in budgets:
        v = {"name": "single/cvode_b%d" % b, "steps": "3000", "incr": False, "list": ["3000"], "eq": False, "cnt": 1,
             "opts": ["-cvode true", "-cvode_steps %d" % b, "-bad_step_max 5000"], "id": "cont-%d" % b}
        v["text"] = input_text(sc, v)
        vs[b] = v
        jobs.append({"id": v["id"], "db": "phreeqc.dat", "text": v["text"]})
    res = vlib.run_inputs(jobs, timeout_each=60, workers=min(6, vlib.NCPU))
    cfs = closed_forms_coq(sc)
    exprs, metas = [], []
    for b in budgets:
        r = res.get(vs[b]["id"]) or {}
        rows = rows_of(r) if r.get("rc") == 0 else []
        if not rows:
            ctx.notes.append("continuation corpus: -cvode_steps %d gave no rows (rc=%s %s)" % (b, r.get("rc"), (r.get("err") or "")[:60]))
            continue
        row = rows[-1]
        py = closed_forms_py(sc, row["time"])
        for n in ("Aa", "Bb"):
            exprs.append("check_closed %s %s %s %s" % (cfs[n], vlib.coq_Q(row["time"]), vlib.coq_Q(row["k_" + n]), vlib.coq_Q(100 * fr(sc["tol"]))))
            metas.append((b, n, row["k_" + n], py[n]))
    bad = {}
    for (b, n, obs, exp), ok in zip(metas, coq_bools(exprs)):
        ctx.case("continuation:%d:%s" % (b, n), sample={"continuation corpus": "-cvode_steps %d" % b, "reactant": n, "observed": obs, "exact": exp, "accepted": bool(ok)})
        if ok is None:
            ctx.obligation("coq-evaluation-of-continuation-corpus", False, "corpus cases did not evaluate")
        elif not ok:
            bad.setdefault(b, []).append((n, obs, exp))
    for b, lst in sorted(bad.items()):
        what = "; ".join("%s(3000) = %.6e, exact %.6e (%.0f tol)" % (n, o, e, abs(o - e) / 1e-8) for n, o, e in lst)
        rp = {"kind": "input", "database": "phreeqc.dat", "input_text": vs[b]["text"], "scenario": sc, "variant": vs[b]["name"],
              "observed": [o for _, o, _ in lst], "expected": [e for _, _, e in lst]}
        if src_flag == 1 and b in CONT_BAD_WITH_Y:
            # the known defect of the unrepaired code (CVStep copies the restart state from the work vector y)
            ctx.violation(KEY_RESTART_STATE, "chain A->B, T 3000 s, tol 1e-8, -cvode true -cvode_steps %d -bad_step_max 5000: %s; the continuation after an "
                          "exhausted step budget starts from the rejected iterate of a failed step attempt but is credited only the time of the step start" % (b, what), rp)
        else:
            ctx.violation("C12:continuation:%d" % b, "CVODE continuation calls (-cvode_steps %d exhausted inside one kinetic step): %s" % (b, what), rp)
    if src_flag == 1:
        ctx.notes.append("CVStep copies cvode_last_good_y from the work vector y (g_cv_last_good_source = 1): random small -cvode_steps budgets are NOT generated, "
                         "only the fixed continuation corpus (budgets %s excluded from the verdict by the known finding)" % (CONT_BAD_WITH_Y,))


EXHAUST_CORPUS = [
    # zero-order reactant running out at 0.55 T; -step_divide / a stiff companion / > 0.1 mol per step split the time step, so the
    # reactant runs out in a later Runge-Kutta sub-step
    {"family": "zero_exhaust", "tol": "1e-8", "m0": "0.01", "r": "1.818e-05", "T": 1000, "incs": ["300", "300", "400"], "nequal": 4},
    {"family": "exh_first", "tol": "1e-9", "m0": "0.01", "r": "1.818e-05", "b0": "0.02", "k": "0.006", "T": 1000, "incs": ["300", "300", "400"], "nequal": 4},
    {"family": "zero_exhaust", "tol": "1e-8", "m0": "0.3", "r": "5.455e-04", "T": 1000, "incs": ["300", "300", "400"], "nequal": 4},
]


REUSE_SC = {"family": "m0dep", "tol": "1e-9", "m0": "0.02", "m": "0.016", "k0": "2e-5", "k1": "1e-3", "T": 300, "incs": ["100", "100", "100"], "nequal": 3}


def reuse_corpus(ctx):
    """fixed corpus: a reactant whose rate reads M0 (rate = k0*M0 + k1*M, -m0 0.02, -m 0.016) is integrated over 300 s, the saved
    KINETICS is re-USEd in a later simulation (another 300 s) and then advanced by two RUN_CELLS of 150 s: the amounts must follow
    ONE closed form with M0 = 0.02 at 300, 600, 750 and 900 s"""
    sc = REUSE_SC
    jobs, vs = [], {}
    for iname, opts in (("rk3", ["-runge_kutta 3"]), ("rk6", ["-runge_kutta 6"]), ("cvode", ["-cvode true"])):
        v = {"name": "single/" + iname, "steps": "300", "incr": False, "list": ["300"], "eq": False, "cnt": 1, "opts": opts}
        txt = input_text(sc, v).replace(" -step true", " -step true\n -simulation true")
        txt += "USE solution 1\nUSE kinetics 1\nEND\nRUN_CELLS\n -cells 1\n -time_step 150\nEND\nRUN_CELLS\n -cells 1\n -time_step 150\nEND\n"
        vs[iname] = txt
        jobs.append({"id": "reuse-" + iname, "db": "phreeqc.dat", "text": txt})
    res = vlib.run_inputs(jobs, timeout_each=90, workers=3)
    cf = closed_forms_coq(sc)["Aa"]
    exprs, metas = [], []
    for iname, txt in vs.items():
        r = res.get("reuse-" + iname) or {}
        rows = [x for x in vlib.table_dicts(r.get("tables", {}).get("1") or []) if isinstance(x.get("step"), int) and x["step"] >= 1] if r.get("rc") == 0 else []
        if len(rows) != 4:
            ctx.notes.append("reuse corpus %s: %d rows (rc=%s %s)" % (iname, len(rows), r.get("rc"), (r.get("err") or "")[:80]))
            continue
        for row, t, what in zip(rows, (300, 600, 750, 900), ("first calculation", "saved KINETICS re-USEd", "RUN_CELLS 1", "RUN_CELLS 2")):
            exprs.append("check_closed %s %s %s %s" % (cf, vlib.coq_Q(float(t)), vlib.coq_Q(row["k_Aa"]), vlib.coq_Q(100 * fr(sc["tol"]))))
            metas.append((iname, txt, what, t, row["k_Aa"], closed_forms_py(sc, float(t))["Aa"]))
    for (iname, txt, what, t, obs, exp), ok in zip(metas, coq_bools(exprs)):
        ctx.case("reuse:%s:%s" % (iname, what), sample={"reuse corpus": iname, "stage": what, "elapsed": t, "observed": obs, "exact": exp, "accepted": bool(ok)})
        if ok is None:
            ctx.obligation("coq-evaluation-of-reuse-corpus", False, "corpus cases did not evaluate")
        elif not ok:
            ctx.violation("C12:reuse:%s:%s" % (iname, what.replace(" ", "_")),
                          "rate reading M0 (k0*M0 + k1*M, -m0 0.02 -m 0.016), %s, %s after %d s in total: M = %r, exact %r (100 tol = 1e-7)" % (iname, what, t, obs, exp),
                          {"kind": "input", "database": "phreeqc.dat", "input_text": txt, "observed": obs, "expected": exp, "scenario": sc, "variant": "reuse/" + iname})


# ----------------------------------------------------------------------------------------- entry points

def finish_info(ctx):
    info = ctx.extra.pop("_info", None)
    if not info:
        return
    ebi = {k: {"n": len(v), "max_err_over_tol": round(max(v), 3), "median": round(sorted(v)[len(v) // 2], 4)} for k, v in info["err_by_integ"].items()}
    ctx.extra["input_distribution"] = {
        "runs_completed": info["runs_ok"], "runs_with_ERROR (outside premises, not flagged)": info["errors"], "error_kinds": info["error_kinds"],
        "runs_not_returning": info["timeouts"], "max |M - exact| / tol over all rows": round(info["max_err_over_tol"], 3),
        "error_over_tol_by_integrator": ebi}
    ctx.notes += sorted(info["notes"])


def replay_column(ctx, rp):
    run_columns(ctx, 0, cases=[dict(rp["column"])])


def replay(ctx):
    rp = json.load(open(ctx.replay))
    if rp.get("kind") == "obligation":
        ok = vlib.coq_stage(ctx, "Props/Properties_C12.vo", gen=gen, extra_targets=("C12/Trace.vo",))
        ctx.rule = "replay of a proof obligation: rebuild Props/Properties_C12.vo against regenerated Gen files"
        return
    key = rp.get("key", "")
    try:
        gen()          # sets the regenerated flags the generators depend on
    except Exception as ex:
        ctx.notes.append("translator refused during replay: %r" % (ex,))
    if key in (KEY_CVODE_TIME, KEY_RK1_TIME):
        known_probes(ctx)
    elif key == KEY_CVODE_LOW:
        low_order_probe(ctx)
    elif key == KEY_RESTART_STATE or key.startswith("C12:continuation:"):
        continuation_corpus(ctx)
    elif key.startswith("C12:reuse:"):
        reuse_corpus(ctx)
    elif "column" in rp:
        replay_column(ctx, rp)
    else:
        run_scenarios(ctx, [rp["scenario"]], full=True, label="replay")
    ctx.rule = "replay of " + ctx.replay
    finish_info(ctx)


def run(ctx):
    if ctx.replay:
        return replay(ctx)
    ok = vlib.coq_stage(ctx, "Props/Properties_C12.vo", gen=gen, extra_targets=("C12/Trace.vo",))
    ctx.trusted += ["translator/c12_gen.py (clang 14 JSON AST -> Gallina; validated by the KIN_TIME correspondence for Current_step)",
                    "closed-form solutions are unique solutions of their linear ODEs (Picard-Lindelof; existence/derivative is proved)",
                    "section variable pw (C pow): positive on positive arguments, <= 1 for x > 1, e < 0",
                    "oracle att of the controller model = outcome of the six rate evaluations + solver calls (not modelled)",
                    "IPV.Base.IntervalEval (Interval library, 80-bit floats) for exp"]
    # corpus first: the fixed probes, then generated scenarios
    import time
    t0 = time.time()
    vlib.log("[C12] coq stage %.1fs" % (t0 - ctx.t0))
    known_probes(ctx)
    low_order_probe(ctx)
    continuation_corpus(ctx)
    reuse_corpus(ctx)
    vlib.log("[C12] probes %.1fs" % (time.time() - t0)); t0 = time.time()
    run_traces(ctx, ctx.n(12, 120))
    vlib.log("[C12] traces %.1fs" % (time.time() - t0)); t0 = time.time()
    run_columns(ctx, 0, cases=[dict(c) for c in COLUMN_CORPUS])
    run_columns(ctx, ctx.n(18, 90))
    vlib.log("[C12] columns %.1fs" % (time.time() - t0)); t0 = time.time()
    n = ctx.n(17, 180)
    fams = ["zero", "first", "rev", "chain", "ramp", "zero_exhaust", "shipped", "shipped", "m0dep", "m0dep", "exh_first"]
    scs = [scenario(ctx.rng, fams[i] if i < len(fams) else None) for i in range(n)]
    run_scenarios(ctx, [dict(c) for c in EXHAUST_CORPUS], full=True, label="exh")
    if not ok:
        # broken obligation: search harder around the integrator: all variants for every scenario, plus scenarios with the
        # tightest tolerance and long integrations (a mis-scaled error test or a wrong weight shows there first)
        extra = []
        for f in ("first", "chain", "rev", "ramp", "first", "chain"):
            sc = scenario(ctx.rng, f)
            sc["tol"] = ctx.rng.choice(["1e-11", "1e-12"])
            extra.append(sc)
        run_scenarios(ctx, scs[:max(8, n // 2)] + extra, full=True)
    else:
        run_scenarios(ctx, scs, full=False)
        if ctx.thorough:
            run_scenarios(ctx, scs[:12], full=True, label="full")
    ctx.rule = ("closed-form families zero / zero_exhaust / first / reversible A<->B / chain A->B / ramp(TOTAL_TIME) / m0dep (rate k0*M0 + k1*M with -m <= -m0), m0 3e-4..5e-2 mol, and the shipped rates Calcite, Pyrite, Organic_C, K-feldspar of phreeqc.dat (invariance only), "
                "k*T 0.02..8, tol 1e-6..1e-11, T 10..1e6 s, each run with -runge_kutta 1/2/3/6, -cvode (orders 5/3/2, steps 100/300/500), "
                "(-cvode_order 2 only for tol >= 1e-7, order 3 for tol >= 1e-9: known finding), -bad_step_max, -step_divide, and T reached as one step / cumulative list / incremental list / 'T in N steps' cumulative / incremental; "
                "a case = one Coq-evaluated check (closed form within 100 tol by the verified interval checker, pairwise agreement, KIN_TIME vs regenerated Current_step, "
                "transfer, sign); non-trivial = distinct (family, variant, check)")
    finish_info(ctx)
