import os, re
ALL = sorted(f[:-3].upper() for f in os.listdir(os.path.dirname(__file__)) if re.match(r"c\d\d\.py$", f))
