"""C15 -- results are invariant under physically irrelevant changes of the input.

Pipeline (see notes/C15.md):
  1. gen(): translator/c15_cxx2coq.py transliterates Phreeqc::convert_units (prep.cpp),
     Phreeqc::add_solution and Phreeqc::add_mix (step.cpp) of the *current* tree into
     coq/Gen/Gen_C15_engine.v;
  2. coq_stage: Props/Properties_C15.vo is rebuilt; its theorems are statements about the
     regenerated code (symbolic execution in Coq, all inputs);
  3. correspondence: metamorphic pairs on the implementation (base input vs transformed input),
     every observable compared by the verified checker IPV.C15.Checker.cell_ok (exact Q arithmetic
     on the doubles the implementation reported, tolerance 1e-8 relative as the property states);
     plus a direct model-vs-code comparison: the Coq evaluation of the regenerated convert_units on
     the same constituent lines must reproduce the mole totals the engine reports.
"""
import json, math, os, re, sys
from fractions import Fraction
import vlib

sys.path.insert(0, os.path.join(vlib.VERIF, "translator"))
import c15_cxx2coq as tr

PID = "C15"
DBNAME = "phreeqc.dat"
TOL = Fraction(1, 10 ** 8)

SPECS = [("src/phreeqcpp/prep.cpp", "Phreeqc::convert_units", "gen_convert_units"),
         ("src/phreeqcpp/step.cpp", "Phreeqc::add_solution", "gen_add_solution"),
         ("src/phreeqcpp/step.cpp", "Phreeqc::add_mix", "gen_add_mix"),
         ("src/phreeqcpp/basicsubs.cpp", "Phreeqc::calc_dens", "gen_calc_dens"),
         ("src/phreeqcpp/ISolutionComp.cxx", "cxxISolutionComp::read", "gen_isc_read")]


def gen():
    text, notes = tr.generate(vlib.REPO, SPECS)
    vlib.write_if_changed(os.path.join(vlib.COQ, "Gen", "Gen_C15_engine.v"), text)
    return notes


# ----------------------------------------------------------------------------- database text

def parse_master(dbpath):
    """element -> gfw formula or number text (4th column of SOLUTION_MASTER_SPECIES), from the database text"""
    out = {}
    inside = False
    for line in open(dbpath, errors="replace"):
        s = line.split("#")[0].strip()
        if not s:
            continue
        if re.match(r"^[A-Z_]+$", s.split()[0]) and s.split()[0].isupper() and len(s.split()[0]) > 3:
            inside = s.split()[0] == "SOLUTION_MASTER_SPECIES"
            continue
        if inside:
            f = s.split()
            if len(f) >= 4:
                out[f[0].replace("+", "")] = f[3]
    return out


AS_OPTIONS = {"S(6)": ["SO4", "S"], "N(5)": ["NO3", "N"], "C(4)": ["HCO3", "CO3", "CO2"], "Si": ["SiO2", "Si", "H4SiO4"],
              "Alkalinity": ["CaCO3", "HCO3", "Ca0.5(CO3)0.5"], "Ca": ["Ca", "CaCO3"], "Na": ["Na", "NaCl"], "Cl": ["Cl"],
              "Mg": ["Mg"], "K": ["K"], "O(0)": ["O", "O2"]}


def query_gfw(formulas):
    """formula weights as the engine computes them (BASIC GFW = compute_gfw) from the database text"""
    fl = sorted(set(formulas))
    heads = " ".join("g%d" % i for i in range(len(fl)))
    lines = ["SOLUTION 1", "SELECTED_OUTPUT 1", " -reset false", " -high_precision true", "USER_PUNCH 1", " -headings " + heads]
    for i, f in enumerate(fl):
        lines.append(' %d PUNCH GFW("%s")' % (10 * (i + 1), f))
    lines.append("END")
    r = vlib.run_inputs([{"id": "gfw", "db": DBNAME, "text": "\n".join(lines) + "\n"}], timeout_each=30)["gfw"]
    if r.get("rc", 1) != 0 or "1" not in r.get("tables", {}):
        raise vlib.BuildError("gfw query failed: " + json.dumps(r)[:500])
    rows = vlib.table_dicts(r["tables"]["1"])
    return {f: rows[0]["g%d" % i] for i, f in enumerate(fl)}


# ----------------------------------------------------------------------------- systems

PREFIX = {"": 1, "m": 1000, "u": 1000000}
CATIONS = ["Na", "K", "Ca", "Mg"]
ANIONS = ["Cl", "S(6)", "N(5)"]
SPECIES_OF = {"Na": ["Na+", "NaSO4-"], "K": ["K+"], "Ca": ["Ca+2", "CaSO4", "CaHCO3+"], "Mg": ["Mg+2", "MgSO4"],
              "Cl": ["Cl-"], "S(6)": ["SO4-2", "HSO4-"], "N(5)": ["NO3-"], "C(4)": ["HCO3-", "CO3-2", "CO2"],
              "Alkalinity": ["HCO3-", "CO3-2", "CO2"], "Si": ["H4SiO4", "H3SiO4-"], "O(0)": ["O2"]}
TOTNAME = {"S(6)": "S(6)", "N(5)": "N(5)", "C(4)": "C(4)", "Alkalinity": "C(4)", "O(0)": "O(0)"}


def logu(rng, a, b):
    return math.exp(rng.uniform(math.log(a), math.log(b)))


def rnd_round(rng, x):
    """a value with a short decimal spelling most of the time"""
    if rng.random() < 0.7:
        return float("%.3g" % x)
    return x


def gen_solution(rng, n, redox_buffer=False):
    comps = []
    cats = rng.sample(CATIONS, rng.randint(2, 4))
    ans = rng.sample(ANIONS, rng.randint(1, 3))
    for e in cats + ans:
        comps.append([e, rnd_round(rng, logu(rng, 1e-5, 2e-2))])
    # solutions that go through a reaction step are carbonate-buffered: in an unbuffered solution pH is fixed by the
    # H/O balances alone, whose convergence criterion is relative to 111 + 2*55.5 mol (notes/C15.md, FA1)
    carb = rng.choice(["C(4)", "Alkalinity"] if redox_buffer else ["C(4)", "Alkalinity", None])
    if carb:
        comps.append([carb, rnd_round(rng, logu(rng, 1e-4, 5e-3))])
    if rng.random() < 0.3:
        comps.append(["Si", rnd_round(rng, logu(rng, 1e-5, 5e-4))])
    if redox_buffer:
        comps.append(["O(0)", rnd_round(rng, logu(rng, 1e-4, 5e-4))])
    return {"n": n, "temp": rng.choice([25.0, 25.0, 10.0, 40.0]), "pH": round(rng.uniform(5.5, 9.0), 2), "pe": rng.choice([4.0, 8.0, 2.0]),
            "water": rng.choice([1.0, 1.0, 0.5, 2.0, 1.25]), "comps": comps}


def gen_system(rng, family):
    S = gen_system0(rng, family)
    # a third of the bases are written per litre with `density 1.0 calculate` (density iteration of the initial solution)
    S["perlitre"] = family in ("speciation", "batch", "exchange", "kinetics", "mix", "gas") and rng.random() < 0.33
    return S


def gen_system0(rng, family):
    """A base system: solutions + reactant blocks + what to use in the reaction step."""
    S = {"family": family, "solutions": [], "blocks": [], "use": [], "rates": None}
    rb = family != "speciation"
    if family == "mix":
        ns = rng.choice([2, 3, 3])
        nums = rng.sample(range(1, 9), ns)
        temps = rng.sample([10.0, 25.0, 40.0, 60.0, 80.0], ns)
        waters = rng.sample([0.1, 0.5, 1.0, 1.25, 2.0, 4.0], ns)
        press = rng.sample([1.0, 5.0, 20.0, 50.0], ns) if rng.random() < 0.4 else [None] * ns
        for n, tc, w, pa in zip(nums, temps, waters, press):
            s = gen_solution(rng, n, True)
            # end members of unequal temperature AND unequal water mass (and sometimes pressure): the weights of the
            # intensive properties of the mixture (fraction x water) then differ from the bare fractions
            s["temp"], s["water"] = tc, w
            if pa:
                s["pressure"] = pa
            S["solutions"].append(s)
        fr = [rnd_round(rng, rng.uniform(0.1, 1.5)) for _ in nums]
        S["blocks"].append({"kind": "MIX", "n": rng.randint(1, 5), "items": [[n, f] for n, f in zip(nums, fr)]})
        S["use"] = [("mix", S["blocks"][0]["n"])]
        return S
    sol = gen_solution(rng, rng.randint(1, 5), rb)
    S["solutions"].append(sol)
    S["use"] = [("solution", sol["n"])]
    if family == "speciation":
        if rng.random() < 0.5:
            S["solutions"].append(gen_solution(rng, sol["n"] + rng.randint(1, 4), False))
        return S
    n = rng.randint(1, 6)
    if family == "batch":
        phases = rng.sample(["Calcite", "Gypsum", "Dolomite", "CO2(g)", "Quartz", "Fluorite"], rng.randint(1, 3))
        items = []
        for p in phases:
            si = round(rng.uniform(-3.5, -1.5), 2) if p == "CO2(g)" else 0.0
            items.append([p, si, rnd_round(rng, logu(rng, 1e-3, 1.0))])
        S["blocks"].append({"kind": "EQUILIBRIUM_PHASES", "n": n, "items": items})
        S["use"].append(("equilibrium_phases", n))
        if rng.random() < 0.5:
            m = rng.randint(1, 6)
            S["blocks"].append({"kind": "REACTION", "n": m, "items": [[rng.choice(["NaOH", "HCl", "NaCl", "CaCl2"]), 1.0]],
                                "amount": rnd_round(rng, logu(rng, 1e-4, 5e-3))})
            S["use"].append(("reaction", m))
    elif family == "exchange":
        items = [["NaX", rnd_round(rng, logu(rng, 1e-3, 5e-2))], ["CaX2", rnd_round(rng, logu(rng, 1e-3, 5e-2))]]
        if rng.random() < 0.5:
            items.append(["KX", rnd_round(rng, logu(rng, 1e-4, 1e-2))])
        S["blocks"].append({"kind": "EXCHANGE", "n": n, "items": items})
        S["use"].append(("exchange", n))
    elif family == "surface":
        S["blocks"].append({"kind": "SURFACE", "n": n, "equil": sol["n"],
                            "items": [["Hfo_w", rnd_round(rng, logu(rng, 1e-4, 2e-3)), 600.0, rnd_round(rng, logu(rng, 0.05, 1.0))],
                                      ["Hfo_s", rnd_round(rng, logu(rng, 5e-6, 5e-5))]]})
        S["use"].append(("surface", n))
        m = rng.randint(1, 6)
        S["blocks"].append({"kind": "REACTION", "n": m, "items": [[rng.choice(["NaOH", "HCl"]), 1.0]], "amount": rnd_round(rng, logu(rng, 1e-5, 1e-3))})
        S["use"].append(("reaction", m))
    elif family == "gas":
        S["blocks"].append({"kind": "GAS_PHASE", "n": n, "fixed": rng.choice(["pressure", "volume"]), "pressure": 1.0,
                            "volume": rnd_round(rng, logu(rng, 0.1, 5.0)), "temp": 25.0,
                            "items": [["CO2(g)", rnd_round(rng, logu(rng, 1e-3, 0.1))], ["N2(g)", rnd_round(rng, rng.uniform(0.3, 0.9))]]})
        S["use"].append(("gas_phase", n))
    elif family == "kinetics":
        S["rates"] = ["RATES", "  Dissolve_calcite", "  -start", '  10 rate = PARM(1) * M * (1 - SR("Calcite"))', "  20 moles = rate * TIME", "  30 SAVE moles", "  -end"]
        m0 = rnd_round(rng, logu(rng, 1e-3, 1e-1))
        steps = rng.choice([3600.0, 7200.0, 600.0])
        # amount transferred in the step is at most ~5e-5 mol/kgw: far from calcite saturation, non-stiff
        parm = rnd_round(rng, logu(rng, 1e-6, 5e-5) / (steps * m0))
        S["blocks"].append({"kind": "KINETICS", "n": n, "name": "Dissolve_calcite", "formula": "CaCO3", "m": m0, "m0": m0,
                            "parm": parm, "tol": 1e-13, "steps": steps})
        S["use"].append(("kinetics", n))
    return S


# ----------------------------------------------------------------------------- variants (transformations)

def base_variant():
    return {"units": {}, "defunits": {}, "k": 1.0, "perm": None, "renum": {}, "dup": [], "spread": False, "mixorder": None,
            "selfmix": None, "mixscale": 1.0, "rebatch": {}, "assoc": None, "spreadrng": None}


def fnum(x):
    r = repr(float(x))
    return r


class Renderer:
    def __init__(self, gfw, master):
        self.gfw = gfw          # formula -> engine gfw
        self.master = master    # element -> gfw formula / number text

    def elem_gfw(self, e):
        f = self.master[e.replace("+", "")]
        try:
            return float(f)
        except ValueError:
            return self.gfw[f]

    def comp_line(self, e, m, spec, defunit):
        """spec: dict(unit=None|'mg/kgw'.., asf=None|formula, gfw=None|number). Returns the text of the line and
        the exact description (for the model-vs-code comparison)."""
        unit = spec.get("unit") or defunit
        cu = canon_unit_any(unit)
        if cu is None:
            raise ValueError("generator produced an unknown unit " + unit)
        u = cu.split("/")[0]
        pre = u[0] if u[0] in "mu" and u not in ("mol",) else ""
        kind = u[len(pre):]
        val = m * PREFIX[pre]
        if kind == "g":
            if spec.get("gfw"):
                g = spec["gfw"]
            elif spec.get("asf"):
                g = self.gfw[spec["asf"]]
                if e == "Alkalinity" and spec["asf"] == "CaCO3":
                    g = g / 2.0
            else:
                g = self.elem_gfw(e)
            val = val * g
        txt = "    %-10s %s" % (e, fnum(val))
        if spec.get("unit"):
            txt += " " + spec["unit"]
        if spec.get("asf"):
            txt += " as " + spec["asf"]
        if spec.get("gfw"):
            txt += " gfw " + fnum(spec["gfw"])
        return txt, {"elem": e, "conc": float(fnum(val)), "unit": unit, "asf": spec.get("asf") or "", "gfw": float(spec.get("gfw") or 0.0)}

    def render(self, S, V, select):
        k = V["k"]
        rn = lambda kind, n: V["renum"].get((kind, n), n)
        prng = V["perm"]
        blocks = []
        lines_desc = {}
        spread_done = False
        sols = list(S["solutions"])
        if V["spread"]:
            blocks.append(self.render_spread(sols, V, rn, k, lines_desc))
        else:
            for s in sols:
                du = V["defunits"].get(s["n"], "mol/L" if S.get("perlitre") else "mol/kgw")
                L = ["SOLUTION %d" % rn("solution", s["n"]), "    temp %s" % fnum(s["temp"]), "    pH %s" % fnum(s["pH"]), "    pe %s" % fnum(s["pe"]),
                     "    units %s" % du, "    -water %s" % fnum(s["water"] * k * V.get("rebatch", {}).get(s["n"], 1.0))]
                if s.get("pressure"):
                    L.append("    pressure %s" % fnum(s["pressure"]))
                if S.get("perlitre"):
                    # per-litre input: the engine iterates the density (initial_solutions / calc_dens) to convert to mol/kgw
                    L.append("    density 1.0 calculate")
                cl = []
                descs = []
                for e, m in s["comps"]:
                    t, d = self.comp_line(e, m, V["units"].get((s["n"], e), {}), du)
                    cl.append(t)
                    descs.append(d)
                if prng:
                    # option lines (temp, pH, pe, units, water, pressure, density) and constituent lines in ANY order,
                    # interleaved: in particular `units` may follow constituent lines that rely on it (seeded C15-d)
                    body = L[1:] + cl
                    prng.shuffle(body)
                    L, cl = [L[0]] + body, []
                lines_desc[s["n"]] = {"water": float(fnum(s["water"] * k * V.get("rebatch", {}).get(s["n"], 1.0))), "defunit": du, "comps": descs}
                blocks.append("\n".join(L + cl))
        chained = None
        for b in S["blocks"]:
            rb_ = self.render_block(b, V, rn, k, prng)
            if isinstance(rb_, tuple):
                chained = rb_
                blocks.append(rb_[0])
            else:
                blocks.append(rb_)
        for i in V["dup"]:
            if i < len(blocks):
                blocks.append(blocks[i])
        if prng:
            prng.shuffle(blocks)
        # Solver noise must stay far below the property's 1e-8: every run (base and variant alike) asks for the tightest
        # workable convergence tolerance.  -high_precision already sets 1e-12; 1e-13 is the last value at which the
        # mass-of-oxygen criterion (0.01 * tol * 55.5 mol) is still above the rounding of 55.5 mol.  (notes/C15.md, FA1)
        out = [select, "KNOBS\n    -convergence_tolerance 1e-13\n    -iterations 300"]
        if S.get("rates"):
            out.append("\n".join(S["rates"]))
        out += blocks
        use = []
        for kind, n in S["use"]:
            use.append("USE %s %d" % (kind, rn(kind, n)))
        if prng:
            prng.shuffle(use)
        out += use
        if chained:
            out += ["SAVE solution %d" % chained[1], "END", chained[2]] + use
        out.append("END")
        return "\n".join(out) + "\n", lines_desc

    def render_spread(self, sols, V, rn, k, lines_desc):
        elems = []
        for s in sols:
            for e, _ in s["comps"]:
                if e not in elems:
                    elems.append(e)
        du = V["defunits"].get("spread", "mol/kgw")
        withp = any(s.get("pressure") for s in sols)
        head = ["Number", "temp", "pH", "pe", "water"] + (["pressure"] if withp else []) + elems
        sub = ["", "", "", "", ""] + ([""] if withp else [])
        colspec = {}
        for e in elems:
            sp = V["units"].get(("spread", e), {})
            colspec[e] = sp
            t = ""
            if sp.get("unit"):
                t += sp["unit"]
            if sp.get("asf"):
                t += " as " + sp["asf"]
            if sp.get("gfw"):
                t += " gfw " + fnum(sp["gfw"])
            sub.append(t)
        # column order is irrelevant; the block default units may also be given per row in a `units` column that can
        # stand anywhere, also to the right of the element columns it governs
        srng = V.get("spreadrng")
        rowunits = bool(srng) and srng.random() < 0.5
        cols = list(range(1, len(head)))
        if rowunits:
            head.append("units")
            sub.append("")
            cols.append(len(head) - 1)
        if srng:
            srng.shuffle(cols)
        cols = [0] + cols
        L = ["SOLUTION_SPREAD"] + ([] if rowunits else ["    -units %s" % du]) + ["\t".join(head[c] for c in cols)]
        if any(sub):
            L.append("\t".join(sub[c] for c in cols))
        for s in sols:
            wv = s["water"] * k * V.get("rebatch", {}).get(s["n"], 1.0)
            row = [str(rn("solution", s["n"])), fnum(s["temp"]), fnum(s["pH"]), fnum(s["pe"]), fnum(wv)]
            if withp:
                row.append(fnum(s.get("pressure") or 1.0))
            cm = dict((e, m) for e, m in s["comps"])
            descs = []
            for e in elems:
                if e in cm:
                    t, d = self.comp_line(e, cm[e], colspec[e], du)
                    row.append(t.split()[1])
                    descs.append(d)
                else:
                    row.append("")
            lines_desc[s["n"]] = {"water": float(fnum(wv)), "defunit": du, "comps": descs}
            if rowunits:
                row.append(du)
            L.append("\t".join(row[c] for c in cols))
        return "\n".join(L)

    def render_block(self, b, V, rn, k, prng):
        kind = b["kind"]
        n = rn(kind.lower(), b["n"])
        items = list(b.get("items", []))
        if kind == "MIX":
            if V["mixorder"]:
                V["mixorder"].shuffle(items)
            if prng:
                prng.shuffle(items)
            L = ["MIX %d" % n]
            items = [[sn, f * V.get("mixscale", 1.0) / V.get("rebatch", {}).get(sn, 1.0)] for sn, f in items]
            if V.get("assoc") and len(items) >= 3:
                # the same mixture made in two steps: first `inner` (saved as solution `tmp`), then tmp + the rest
                inner, tmp = V["assoc"]
                first = [it for it in items if it[0] in inner]
                rest = [it for it in items if it[0] not in inner]
                L1 = ["MIX %d" % n] + ["    %d %s" % (rn("solution", sn), fnum(f)) for sn, f in first]
                L2 = ["MIX %d" % n, "    %d 1.0" % tmp] + ["    %d %s" % (rn("solution", sn), fnum(f)) for sn, f in rest]
                return ("\n".join(L1), tmp, "\n".join(L2))
            for sn, f in items:
                if V["selfmix"] and V["selfmix"][0] == sn:
                    # the same solution listed twice, fractions adding up to the original one
                    f1 = V["selfmix"][1] * f
                    L.append("    %d %s" % (rn("solution", sn), fnum(f1)))
                    L.append("    %d %s" % (rn("solution", sn), fnum(f - f1)))
                else:
                    L.append("    %d %s" % (rn("solution", sn), fnum(f)))
            return "\n".join(L)
        if prng:
            prng.shuffle(items)
        if kind == "EQUILIBRIUM_PHASES":
            return "\n".join(["EQUILIBRIUM_PHASES %d" % n] + ["    %s %s %s" % (p, fnum(si), fnum(m * k)) for p, si, m in items])
        if kind == "REACTION":
            return "\n".join(["REACTION %d" % n] + ["    %s %s" % (f, fnum(c)) for f, c in items] + ["    %s moles in 1 step" % fnum(b["amount"] * k)])
        if kind == "EXCHANGE":
            return "\n".join(["EXCHANGE %d" % n] + ["    %s %s" % (f, fnum(m * k)) for f, m in items])
        if kind == "SURFACE":
            L = ["SURFACE %d" % n, "    -equilibrate %d" % rn("solution", b["equil"])]
            body = []
            for it in items:
                if len(it) == 4:
                    body.append("    %s %s %s %s" % (it[0], fnum(it[1] * k), fnum(it[2]), fnum(it[3] * k)))
                else:
                    body.append("    %s %s" % (it[0], fnum(it[1] * k)))
            # the site line that carries area and mass must come first for a binding-site family
            body.sort(key=lambda t: 0 if len(t.split()) == 4 else 1)
            return "\n".join(L + body)
        if kind == "GAS_PHASE":
            L = ["GAS_PHASE %d" % n, "    -fixed_%s" % b["fixed"], "    -pressure %s" % fnum(b["pressure"]), "    -volume %s" % fnum(b["volume"] * k),
                 "    -temperature %s" % fnum(b["temp"])]
            return "\n".join(L + ["    %s %s" % (g, fnum(p)) for g, p in items])
        if kind == "KINETICS":
            return "\n".join(["KINETICS %d" % n, "    %s" % b["name"], "    -formula %s 1" % b["formula"], "    -m %s" % fnum(b["m"] * k), "    -m0 %s" % fnum(b["m0"] * k),
                              "    -parms %s" % fnum(b["parm"]), "    -tol %s" % fnum(b["tol"] * k), "    -steps %s" % fnum(b["steps"]), "    -runge_kutta 6"])
        raise ValueError(kind)


def select_block(S):
    elems, species, phases, gases, kin = [], [], [], [], []
    for s in S["solutions"]:
        for e, _ in s["comps"]:
            t = TOTNAME.get(e, e)
            if t not in elems:
                elems.append(t)
            for sp in SPECIES_OF.get(e, []):
                if sp not in species:
                    species.append(sp)
    for b in S["blocks"]:
        if b["kind"] == "EQUILIBRIUM_PHASES":
            phases += [p for p, _, _ in b["items"]]
        if b["kind"] == "GAS_PHASE":
            gases += [g for g, _ in b["items"]]
        if b["kind"] == "KINETICS":
            kin.append(b["name"])
        if b["kind"] == "EXCHANGE":
            species += ["NaX", "CaX2", "KX"]
        if b["kind"] == "SURFACE":
            species += ["Hfo_wOH", "Hfo_wOH2+", "Hfo_sOH", "Hfo_wO-"]
    species += ["OH-", "H+"]
    si = ["Calcite", "Gypsum", "CO2(g)", "Halite", "Quartz"]
    L = ["SELECTED_OUTPUT 1", "    -reset false", "    -high_precision true", "    -state true", "    -solution true", "    -pH true", "    -pe true",
         "    -ionic_strength true", "    -water true", "    -temperature true",
         "    -totals " + " ".join(elems), "    -molalities " + " ".join(species), "    -activities " + " ".join(species[:4]),
         "    -saturation_indices " + " ".join(si)]
    if phases:
        L.append("    -equilibrium_phases " + " ".join(phases))
    if gases:
        L.append("    -gases " + " ".join(gases))
    if kin:
        L.append("    -kinetic_reactants " + " ".join(kin))
    L += ["USER_PUNCH 1", "    -headings " + " ".join("tm_" + e for e in elems) + " rho soln_vol sc"]
    for i, e in enumerate(elems):
        L.append('    %d PUNCH TOTMOLE("%s")' % (10 * (i + 1), e))
    # density and specific conductance are intensive, the solution volume is extensive (calc_dens, calc_SC)
    L.append("    %d PUNCH RHO, SOLN_VOL, SC" % (10 * (len(elems) + 1)))
    return "\n".join(L)


def classify(head):
    """'int' (intensive), 'ext' (scales with the water factor), None (not compared)"""
    if head in ("state", "soln", "sim", "step", "time", "dist_x"):
        return None
    if head.startswith(("d_", "dk_")):
        return None            # differences of extensive amounts: covered by the amounts themselves
    if head in ("mass_H2O", "total mol", "volume", "soln_vol") or head.startswith(("tm_", "k_", "g_")):
        return "ext"
    if head in ("pH", "pe", "mu", "temp", "Alk", "temp(C)", "Alk(eq/kgw)", "pressure", "rho", "sc"):
        return "int"
    if head.startswith(("la_", "si_")):
        return "log"           # logarithms of intensive quantities
    if head.startswith("m_"):
        return "int"
    if re.match(r"^[A-Z][a-z]?(\(-?\+?\d+\))?\(mol/kgw\)$", head) or re.match(r"^[A-Z][a-z]?(\(-?\+?\d+\))?$", head):
        return "int"           # -totals columns
    return "phase"             # -equilibrium_phases amount columns (extensive)


# After a reaction step pe and the O(0) total are obtained from the H and O mass balances (111 and 55.5 mol/kgw)
# by difference; the engine cannot deliver them to 1e-8 (see notes/C15.md, finding N1).  They are compared in the
# initial-solution rows, where they are inputs.
REDOX_DETERMINED = {"pe", "O(0)(mol/kgw)", "m_O2(mol/kgw)", "tm_O(0)", "la_O2",
                    # the `pressure` column of a fixed-volume gas phase is not recomputed from the converged gas moles:
                    # with moles and volume scaling to 1e-12 it still differs by ~2e-8 (finding N2); moles, volume and
                    # temperature, which determine the pressure, are compared instead
                    "pressure"}


def rows_by_key(tab, inv_renum):
    """(state, original solution number or None) -> row dict; the reaction row is ('react', None)"""
    out = {}
    for r in vlib.table_dicts(tab):
        st = r.get("state")
        if st == "i_soln":
            out[("i_soln", inv_renum.get(r.get("soln"), r.get("soln")))] = r
        elif st == "react":
            out[("react", None)] = r
    return out


LOG_TOL = Fraction(43429, 10 ** 13)


def cell_ok(cl, k, a, b):
    """exactly IPV.C15.Checker.cell_ok"""
    return pair_ok(k, a, b) or (cl == "log" and abs(Fraction(a) - Fraction(b)) <= LOG_TOL)


def pair_ok(k, a, b):
    """exactly IPV.C15.Checker.cell_ok on exact rationals: |a - k b| <= 1e-8 max(|a|,|k b|)"""
    a = Fraction(a)
    kb = Fraction(k) * Fraction(b)
    return abs(a - kb) <= TOL * max(abs(a), abs(kb))


# ----------------------------------------------------------------------------- the check

FAMILIES = ["speciation", "batch", "exchange", "surface", "gas", "kinetics", "mix"]
TRANSFORMS = ["units", "water", "perm", "renum", "dup", "spread", "mixorder", "selfmix", "mixscale", "rebatch", "combo"]
# "mixassoc" ((a+b) saved, then +c) is implemented in the renderer but not scheduled: the saved intermediate is weighted by
# its water mass *after* the first reaction step, which differs from the sum of the end members' water by ~1e-8 relative
# (water formed/consumed on re-equilibration), so the two routes agree only to 1-2e-8 on the unchanged engine -- it is
# not an exact equivalence of the engine's own model.

UNITS = ["mol/kgw", "mmol/kgw", "umol/kgw", "g/kgw", "mg/kgw", "ug/kgw"]
UNIT_SPELL = {"mol/kgw": ["mol/kgw", "Mol/kgw", "moles/kgw"], "mmol/kgw": ["mmol/kgw", "mMol/kgw", "millimol/kgw"], "umol/kgw": ["umol/kgw", "micromol/kgw"],
              "g/kgw": ["g/kgw", "gram/kgw"], "mg/kgw": ["mg/kgw", "milligrams/kgw"], "ug/kgw": ["ug/kgw", "microgram/kgw"]}


def rand_unit_spec(rng, e, allow_default=True, perlitre=False):
    sp = {}
    units, spell, eqs = (LUNITS, LUNIT_SPELL, ["eq/L", "meq/L", "ueq/l"]) if perlitre else (UNITS, UNIT_SPELL, ["eq/kgw", "meq/kgw", "ueq/kgw"])
    if perlitre:
        # Per-litre inputs are converted through the density iteration of initial_solutions, which stops when two
        # successive densities differ by less than 1e-8 (absolute, hard-coded).  Descriptions that change the solute-mass
        # estimate of the FIRST iterate (mass units, `as`, `gfw`) start that iteration elsewhere and end up to ~1.5e-8
        # apart (finding N5).  The per-litre family therefore only varies prefix and spelling of mole units, which
        # leaves every iterate identical in exact arithmetic.
        if allow_default and rng.random() < 0.25:
            return sp
        sp["unit"] = rng.choice(eqs) if (e == "Alkalinity" and rng.random() < 0.4) else rng.choice(spell[rng.choice(units[:3])])
        return sp
    r = rng.random()
    if allow_default and r < 0.25:
        pass                                   # default units of the solution
    else:
        if e == "Alkalinity" and rng.random() < 0.4:
            sp["unit"] = rng.choice(eqs)
        else:
            sp["unit"] = rng.choice(spell[rng.choice(units)])
    if e in AS_OPTIONS and rng.random() < 0.5:
        sp["asf"] = rng.choice(AS_OPTIONS[e])
    elif rng.random() < 0.2:
        sp["gfw"] = float("%.4g" % rng.uniform(10, 200))
    return sp


def make_variant(rng, S, t):
    V = base_variant()
    import random
    sub = lambda: random.Random(rng.getrandbits(48))
    ts = [t] if t != "combo" else rng.sample(["units", "water", "perm", "renum", "dup"], 3)
    for t in ts:
        if t in ("units", "spread"):
            if t == "spread":
                V["spread"] = True
                V["spreadrng"] = sub()
                V["defunits"]["spread"] = rng.choice(UNIT_SPELL[rng.choice(UNITS)])
                for s in S["solutions"]:
                    for e, _ in s["comps"]:
                        if ("spread", e) not in V["units"]:
                            V["units"][("spread", e)] = rand_unit_spec(rng, e)
            else:
                pl = bool(S.get("perlitre"))
                for s in S["solutions"]:
                    V["defunits"][s["n"]] = rng.choice((LUNIT_SPELL if pl else UNIT_SPELL)[rng.choice(LUNITS[:3] if pl else UNITS)])
                    for e, _ in s["comps"]:
                        V["units"][(s["n"], e)] = rand_unit_spec(rng, e, perlitre=pl)
        elif t == "water":
            V["k"] = rnd_round(rng, logu(rng, 1e-3, 1e3))
        elif t == "perm":
            V["perm"] = sub()
        elif t == "renum":
            kinds = {}
            for s in S["solutions"]:
                kinds.setdefault("solution", []).append(s["n"])
            for b in S["blocks"]:
                kinds.setdefault(b["kind"].lower(), []).append(b["n"])
            for kd, ns in kinds.items():
                new = rng.sample(range(1, 60), len(ns))
                for a, b_ in zip(ns, new):
                    V["renum"][(kd, a)] = b_
        elif t == "dup":
            nb = len(S["solutions"]) + len(S["blocks"])
            V["dup"] = [rng.randrange(nb) for _ in range(rng.randint(1, 2))]
        elif t == "mixorder":
            V["mixorder"] = sub()
        elif t == "mixscale":
            # all mixing fractions times a common factor: the mixture is the same system, c times as much of it
            V["mixscale"] = rnd_round(rng, logu(rng, 0.2, 5.0))
        elif t == "rebatch":
            # one or more end members described as a batch c times as large and mixed at 1/c of the fraction:
            # the same amount of the same water goes into the mixture
            mixes = [b for b in S["blocks"] if b["kind"] == "MIX"]
            if mixes:
                sns = [it[0] for it in mixes[0]["items"]]
                for sn in rng.sample(sns, rng.randint(1, max(1, len(sns) - 1))):
                    V["rebatch"][sn] = rng.choice([0.1, 0.25, 0.5, 2.0, 4.0, 10.0, rnd_round(rng, logu(rng, 0.05, 20.0))])
        elif t == "mixassoc":
            # (a + b) + c in two steps through SAVE instead of a + b + c in one MIX block
            mixes = [b for b in S["blocks"] if b["kind"] == "MIX"]
            if mixes and len(mixes[0]["items"]) >= 3:
                sns = [it[0] for it in mixes[0]["items"]]
                V["assoc"] = (set(rng.sample(sns, 2)), 90 + rng.randint(0, 9))
        elif t == "selfmix":
            mixes = [b for b in S["blocks"] if b["kind"] == "MIX"]
            if mixes:
                V["selfmix"] = (rng.choice(mixes[0]["items"])[0], round(rng.uniform(0.1, 0.9), 3))
    return V


def applicable(family, t):
    if t in ("mixorder", "selfmix", "mixscale", "rebatch", "mixassoc"):
        return family == "mix"
    if t == "spread":
        return family in ("speciation", "batch", "mix", "exchange")      # (not used for per-litre bases, see run)
    return True


def compare(S, V, rb, rv):
    """list of (key, head, kind, k, a, b, ok) for every compared cell; rb base result, rv variant result"""
    inv = {}
    for (kd, a), b in V["renum"].items():
        if kd == "solution":
            inv[b] = a
    tb = rows_by_key(rb["tables"].get("1", []), {})
    tv = rows_by_key(rv["tables"].get("1", []), inv)
    cells = []
    k = V["k"]
    for key in tb:
        if key not in tv:
            cells.append((key, "<row>", "row", 1.0, 0.0, 1.0, False))
            continue
        for h, b in tb[key].items():
            cl = classify(h)
            if cl is None:
                continue
            if key[0] == "react" and h in REDOX_DETERMINED:
                continue
            a = tv[key].get(h)
            if not isinstance(b, float) or not isinstance(a, float):
                if a != b:
                    cells.append((key, h, "type", 1.0, 0.0, 1.0, False))
                continue
            if math.isnan(a) or math.isnan(b) or math.isinf(a) or math.isinf(b):
                cells.append((key, h, "nan", 1.0, 0.0, 1.0, a == b))
                continue
            kk = (k * (V.get("mixscale", 1.0) if key[0] == "react" else V.get("rebatch", {}).get(key[1], 1.0))) if cl in ("ext", "phase") else 1.0
            cells.append((key, h, cl, kk, a, b, cell_ok(cl, kk, a, b)))
    return cells


def coq_D(x):
    """Coq term (IPV.C15.Checker.D m e) for the exact value m * 2^e of the double x"""
    m, e = math.frexp(x)
    mi = int(m * (1 << 53))
    ei = e - 53
    while mi and mi % 2 == 0:
        mi //= 2
        ei += 1
    if mi == 0:
        ei = 0
    return "(D (%d) (%d))" % (mi, ei)


def coq_check_cells(cells, nshards=4):
    """run the verified checker on every compared cell; returns list of booleans (None on infrastructure failure).
    Cells whose two values are the very same double with factor 1 satisfy the relation by reflexivity
    (Checker.pair_ok_refl) and are not shipped to Coq."""
    import concurrent.futures as cf
    idx = [i for i, c in enumerate(cells) if not (c[3] == 1.0 and c[4] == c[5])]
    verdicts = [True] * len(cells)
    if not idx:
        return verdicts, ""
    per = (len(idx) + nshards - 1) // nshards
    shards = [idx[i:i + per] for i in range(0, len(idx), per)]

    def one(sh):
        items = ";\n  ".join("(%s, %s, %s, %s)" % ("true" if cells[i][2] == "log" else "false", coq_D(cells[i][3]), coq_D(cells[i][4]), coq_D(cells[i][5])) for i in sh)
        v = ("From Coq Require Import QArith ZArith List.\nRequire Import IPV.C15.Checker.\nImport ListNotations.\nOpen Scope Z_scope.\n"
             "Definition cells : list (bool * Q * Q * Q) := [\n  %s\n].\n"
             "Definition verdicts := Eval vm_compute in (map (fun c => match c with (l, k, a, b) => cell_ok l k a b end) cells).\nPrint verdicts.\n" % items)
        rc, out = vlib.coq_eval(v, timeout=600)
        if rc != 0:
            return None, out[-1500:]
        m = re.search(r"verdicts\s*=\s*\[(.*?)\]\s*:", out, flags=re.S)
        if not m:
            return None, out[-1500:]
        vs = [x.strip() == "true" for x in m.group(1).replace("\n", " ").split(";")]
        if len(vs) != len(sh):
            return None, "verdict count mismatch"
        return vs, ""

    with cf.ThreadPoolExecutor(max_workers=nshards) as ex:
        outs = list(ex.map(one, shards))
    for sh, (vs, why) in zip(shards, outs):
        if vs is None:
            return None, why
        for i, x in zip(sh, vs):
            verdicts[i] = x
    return verdicts, ""


def model_vs_code(ctx, R, jobs_desc, results):
    """the Coq evaluation of the regenerated convert_units on the described constituent lines must give the mole
    totals the engine reports (TOTMOLE in the initial-solution row), relative 1e-8 (the engine's own convergence)."""
    UN = {"mol": "Mol", "mmol": "mMol", "umol": "uMol", "g": "g", "mg": "mg", "ug": "ug", "eq": "eq", "meq": "meq", "ueq": "ueq"}
    cases = []
    meta = []
    for jid, desc in jobs_desc:
        r = results.get(jid)
        if not r or r.get("rc", 1) != 0 or "1" not in r.get("tables", {}):
            continue
        rows = rows_by_key(r["tables"]["1"], desc["inv"])
        for sn, d in desc["lines"].items():
            row = rows.get(("i_soln", sn))
            if not row:
                continue
            comps = []
            exp = []
            ok = True
            for c in d["comps"]:
                canon = canon_unit(c["unit"])
                if canon is None:
                    ok = False
                    break
                e = c["elem"]
                mg = R.elem_gfw(e)
                comps.append('cline "%s" "%s" "%s" %s %s' % (e, canon, c["asf"], vlib.coq_Q(c["conc"]), vlib.coq_Q(c["gfw"])))
                if e == "Alkalinity":
                    continue      # fixes the alkalinity, not an element total
                t = TOTNAME.get(e, e)
                obs = row.get("tm_" + t)
                if not isinstance(obs, float):
                    ok = False
                    break
                exp.append('("%s", %s)' % (e, vlib.coq_Q(obs)))
            if not ok or not comps:
                continue
            # constituents that share a total (C(4) and Alkalinity never occur together in the generator)
            cases.append('(sol_case "%s" %s [%s], [%s])' % (canon_unit(d["defunit"]) or "Mol/kgw", vlib.coq_Q(d["water"]), "; ".join(comps), "; ".join(exp)))
            meta.append((jid, sn))
    cases, meta = cases[:ctx.n(120, 1500)], meta[:ctx.n(120, 1500)]
    if not cases:
        return 0
    forms = sorted(set(AS_OPTIONS_FLAT))
    gf = "; ".join('("%s", %s)' % (f, vlib.coq_Q(R.gfw[f])) for f in forms if f in R.gfw)
    ms = "; ".join('("%s", %s)' % (e, vlib.coq_Q(R.elem_gfw(e))) for e in sorted(R.master) if safe_gfw(R, e) is not None)
    v = ("From Coq Require Import QArith List String.\nRequire Import IPV.C15.Ir IPV.C15.Convert IPV.C15.Corr.\nImport ListNotations.\nOpen Scope string_scope.\nOpen Scope Q_scope.\n"
         "Definition gf : list (string * Q) := [%s].\nDefinition ms : list (string * Q) := [%s].\n"
         "Definition cases := [\n  %s\n].\n"
         "Definition verdicts := Eval vm_compute in (map (fun c => corr_ok gf ms (fst c) (snd c)) cases).\nPrint verdicts.\n" % (gf, ms, ";\n  ".join(cases)))
    rc, out = vlib.coq_eval(v, timeout=600)
    m = re.search(r"verdicts\s*=\s*\[(.*?)\]\s*:", out, flags=re.S) if rc == 0 else None
    if not m:
        ctx.obligation("model_vs_code(convert_units): Coq evaluation", False, out[-1500:])
        return 0
    vs = [x.strip() == "true" for x in m.group(1).replace("\n", " ").split(";")]
    bad = [meta[i] for i, x in enumerate(vs) if not x]
    ctx.obligation("model_vs_code(convert_units): regenerated code evaluated in Coq reproduces the engine's mole totals on %d solutions" % len(vs),
                   not bad, "disagreeing (job, solution): %s" % bad[:5])
    ctx.extra["model_vs_code_solutions"] = len(vs)
    return len(bad), bad


AS_OPTIONS_FLAT = sorted(set(f for v in AS_OPTIONS.values() for f in v))


def safe_gfw(R, e):
    try:
        return R.elem_gfw(e)
    except Exception:
        return None


LUNITS = ["mol/L", "mmol/L", "umol/L", "g/L", "mg/L", "ug/L"]
LUNIT_SPELL = {"mol/L": ["mol/L", "mol/l", "moles/liter"], "mmol/L": ["mmol/L", "mMol/l", "millimol/L"], "umol/L": ["umol/L", "micromol/l"],
               "g/L": ["g/L", "gram/l"], "mg/L": ["mg/L", "milligrams/liter"], "ug/L": ["ug/L", "microgram/L"]}


def canon_unit_any(u):
    """canonical spelling (Phreeqc::check_units) of a per-kgw or per-litre unit the generator uses"""
    c = canon_unit(u)
    if c:
        return c
    v = u.lower().replace("milli", "m").replace("micro", "u").replace("grams", "g").replace("gram", "g").replace("moles", "Mol").replace("mol", "Mol").replace("liter", "l")
    if v in ("Mol/l", "mMol/l", "uMol/l", "g/l", "mg/l", "ug/l", "eq/l", "meq/l", "ueq/l"):
        return v
    return None


def canon_unit(u):
    """canonical spelling produced by Phreeqc::check_units for the spellings the generator uses"""
    u = u.lower().replace("milli", "m").replace("micro", "u").replace("grams", "g").replace("gram", "g").replace("moles", "Mol").replace("mol", "Mol")
    if u in ("Mol/kgw", "mMol/kgw", "uMol/kgw", "g/kgw", "mg/kgw", "ug/kgw", "eq/kgw", "meq/kgw", "ueq/kgw"):
        return u
    return None


def rounding_floor_failure(err):
    """True when the run ended in a convergence ERROR whose reported residuals are all at the rounding level (<= 1e-11):
    a consequence of the 1e-13 convergence tolerance the generator requests, not a property of the input."""
    if "not converged" not in err and "failed to converge" not in err and "Numerical method failed" not in err:
        return False
    rs = [abs(float(x)) for x in re.findall(r"Residual:\s*([-+0-9.eE]+)", err)]
    return bool(rs) and max(rs) <= 1e-11


def attribute_failures(ctx):
    """The Props file did not build, so coq_stage marked every theorem as failed.  Re-check each theorem of
    Props/Properties_C15.v on its own (same statement, same `exact` proof) against the modules that did build:
    a theorem whose own check succeeds is discharged; only the ones that depend on a broken module stay failed."""
    import concurrent.futures as cf
    src = open(os.path.join(vlib.COQ, "Props", "Properties_C15.v")).read()
    m0 = re.search(r"^Require Import(.*?)\.\s*$", src, flags=re.S | re.M)
    mods = re.findall(r"IPV\.[\w.]+", m0.group(1)) if m0 else []
    avail = []
    gen_vo = os.path.join(vlib.COQ, "Gen", "Gen_C15_engine.vo")
    gen_t = os.path.getmtime(gen_vo) if os.path.exists(gen_vo) else float("inf")
    independent = {"IPV.C15.Ir", "IPV.C15.Units", "IPV.C15.UnitsProofs", "IPV.C15.Store", "IPV.C15.Mix", "IPV.C15.Checker",
                   "IPV.C15.ExecLemmas", "IPV.C15.Homog", "IPV.C15.Block"}       # do not import the generated file
    for md in mods:
        rel = md.split(".", 1)[1].replace(".", "/")
        vo = os.path.join(vlib.COQ, rel + ".vo")
        # a .vo left over from an earlier run against other generated code is not "built"
        if os.path.exists(vo) and vlib._vo_fresh(rel + ".vo") and (md in independent or os.path.getmtime(vo) >= gen_t):
            avail.append(md)
    head = src[:m0.start()] + "Require Import " + " ".join(avail) + ".\n" + src[m0.end():src.index("(* ----", m0.end())]
    chunks = re.findall(r"^((?:Theorem|Example)\s+([\w']+).*?\bQed\.)", src, flags=re.S | re.M)

    def one(ch):
        rc, out = vlib.coq_eval(head + "\n" + ch[0] + "\n", timeout=300)
        return ch[1], rc == 0, out[-600:]

    with cf.ThreadPoolExecutor(max_workers=4) as ex:
        res = list(ex.map(one, chunks))
    okset = {n for n, good, _ in res if good}
    why = {n: o for n, good, o in res if not good}
    missing = [md for md in mods if md not in avail]
    new = []
    for name, good, detail in ctx.obligations:
        if not good and name in okset:
            new.append((name, True, ""))
        elif not good and name in why:
            new.append((name, False, "depends on module(s) that no longer build: %s | %s" % (", ".join(missing), why[name][-300:])))
        else:
            new.append((name, good, detail))
    ctx.obligations[:] = new
    vlib.log("[C15] attribution: modules not built: %s; theorems still failing: %s" % (missing, sorted(why)))


def run(ctx):
    import time
    T0 = time.time()
    ok = vlib.coq_stage(ctx, "Props/Properties_C15.vo", gen=gen, extra_targets=["C15/Corr.vo"], timeout=1500)
    vlib.log("[C15] coq stage %.1fs" % (time.time() - T0))
    if not ok:
        try:
            attribute_failures(ctx)
        except Exception as ex:
            vlib.log("[C15] attribution of failed obligations skipped: %r" % (ex,))
    ctx.checker_cmd = "make -C /verif/coq -k Props/Properties_C15.vo  (after props.c15.gen() regenerated coq/Gen/Gen_C15_engine.v)"
    rng = ctx.rng
    master = parse_master(os.path.join(vlib.DB, DBNAME))
    formulas = set(AS_OPTIONS_FLAT)
    for e, f in master.items():
        try:
            float(f)
        except ValueError:
            formulas.add(f)
    gfw = query_gfw(formulas)
    R = Renderer(gfw, master)

    if ctx.replay:
        return replay(ctx, R)

    npairs = ctx.n(400, 3000)
    if not ok:
        npairs *= 2          # a proof obligation failed: search harder for a concrete failing input
    plan = []
    # every (family, applicable transformation) combination at least twice, then random combinations
    cover = [(fam, t) for fam in FAMILIES for t in TRANSFORMS if applicable(fam, t)] * 2
    for i in range(npairs):
        if i < len(cover):
            fam, t = cover[i]
        else:
            fam = rng.choice(FAMILIES + ["mix"])
            t = rng.choice([t for t in TRANSFORMS if applicable(fam, t)])
        S = gen_system(rng, fam)
        if t == "mixassoc" and len(S["solutions"]) < 3:
            t = "rebatch"
        if t == "spread" and S.get("perlitre"):
            t = "water"
        V = make_variant(rng, S, t)
        plan.append((fam, t, S, V))
    jobs, descs = [], []
    texts = {}
    for i, (fam, t, S, V) in enumerate(plan):
        sel = select_block(S)
        tb, lb = R.render(S, base_variant(), sel)
        tv, lv = R.render(S, V, sel)
        texts[i] = (tb, tv)
        jobs.append({"id": "b%d" % i, "db": DBNAME, "text": tb})
        jobs.append({"id": "v%d" % i, "db": DBNAME, "text": tv})
        inv = {b: a for (kd, a), b in V["renum"].items() if kd == "solution"}
        descs.append(("b%d" % i, {"lines": lb, "inv": {}}))
        descs.append(("v%d" % i, {"lines": lv, "inv": inv}))
    T1 = time.time()
    res = vlib.run_inputs(jobs, timeout_each=20, workers=min(6, vlib.NCPU))
    vlib.log("[C15] %d engine runs %.1fs" % (len(jobs), time.time() - T1))
    if os.environ.get("C15_DEBUG"):
        os.makedirs("/tmp/c15dbg", exist_ok=True)
        for k, j in enumerate(jobs):
            open("/tmp/c15dbg/%05d_%s.pqi" % (k, j["id"]), "w").write(j["text"])
        for j in jobs:
            r = res.get(j["id"])
            if r is None or "rc" not in r:
                vlib.log("[C15][debug] job %s -> %s" % (j["id"], json.dumps(r)[:600]))

    stats = {"pairs": 0, "error_runs": 0, "timeouts": 0, "cells": 0}
    # A job without a usable result (nothing returned, time-out, crash of the shared harness process, or the database
    # failing to load into the re-used instance) is re-run ALONE in a fresh process with ten times the time limit.
    # Only a job that does not return even then is reported, under its own key; it is never an "acceptance difference".
    no_result = lambda r: (r is None) or ("rc" not in r) or r.get("timeout") or r.get("crash") or ("dberr" in r)
    retry = [j for j in jobs if no_result(res.get(j["id"]))]
    if retry:
        stats["retried_alone"] = len(retry)
        stats["retry_reasons"] = sorted(set("missing" if res.get(j["id"]) is None else ("dberr" if "dberr" in res[j["id"]] else
                                            ("timeout" if res[j["id"]].get("timeout") else "crash")) for j in retry))
        vlib.log("[C15] %d job(s) without a result (%s): re-running each alone with a 200 s limit" % (len(retry), ", ".join(stats["retry_reasons"])))
        for c0 in range(0, len(retry), 6):
            part = [{"id": j["id"], "db": j["db"], "text": j["text"]} for j in retry[c0:c0 + 6]]
            # workers >= len(part)  =>  run_inputs puts every job into its own harness process
            for jid, r in vlib.run_inputs(part, timeout_each=200, workers=6).items():
                res[jid] = r
    all_cells, owners = [], []
    dist = {}
    worst = {}
    for i, (fam, t, S, V) in enumerate(plan):
        rb, rv = res.get("b%d" % i, {}), res.get("v%d" % i, {})
        if no_result(rb) or no_result(rv):
            # still nothing after the solitary re-run with a 200 s limit
            stats["timeouts"] += 1
            which = "base" if no_result(rb) else "variant"
            rr = rb if no_result(rb) else rv
            ctx.violation("noreturn:%s:%s" % (fam, t),
                          "the %s input of a %s/%s pair did not return a result even when run alone with a 200 s limit (%s)" % (
                              which, fam, t, json.dumps({k: rr.get(k) for k in ("timeout", "crash", "rc_proc", "dberr", "stderr") if rr and k in rr})[:300]),
                          {"kind": "input", "database": DBNAME, "input_text": texts[i][0 if which == "base" else 1], "family": fam, "transform": t,
                           "observed": "no result within 200 s (alone, fresh process)", "expected": "the run returns"})
            continue
        if rb.get("rc", 1) != 0 and rv.get("rc", 1) != 0:
            stats["error_runs"] += 1       # outside the premises: the base input itself is rejected
            continue
        if (rb.get("rc", 1) != 0 or rv.get("rc", 1) != 0) and rounding_floor_failure((rb.get("err") or "") + (rv.get("err") or "")):
            # the solver could not reach the tolerance the generator itself asked for (1e-13): residuals at the rounding
            # level, no result to compare -- outside the premises, counted
            stats["nonconverged_at_1e-13"] = stats.get("nonconverged_at_1e-13", 0) + 1
            continue
        if rb.get("rc", 1) != 0 or rv.get("rc", 1) != 0:
            # one description is accepted and the equivalent one is not
            key = "accept:%s:%s" % (fam, t)
            ctx.violation(key, "equivalent descriptions: one runs, the other ends in ERROR (%s / %s): %s" % (fam, t, (rb.get("err") or rv.get("err") or "")[:200]),
                          {"kind": "input", "database": DBNAME, "input_text": texts[i][1], "base_input_text": texts[i][0], "family": fam, "transform": t,
                           "k": V["k"], "mixscale": V.get("mixscale", 1.0), "rebatch": [[a, b] for a, b in V.get("rebatch", {}).items()],
                           "renum": [[kd, a, b] for (kd, a), b in V["renum"].items()],
                           "observed": {"base_rc": rb.get("rc"), "variant_rc": rv.get("rc"), "err": (rb.get("err") or "") + (rv.get("err") or "")}, "expected": "both run"})
            continue
        cells = compare(S, V, rb, rv)
        stats["pairs"] += 1
        stats["cells"] += len(cells)
        dist[(fam, t)] = dist.get((fam, t), 0) + 1
        ctx.case("%s/%s/%d" % (fam, t, i), sample={"family": fam, "transform": t, "cells": len(cells), "variant_input": texts[i][1][:600]},
                 nontrivial=texts[i][0] != texts[i][1] and len(cells) > 5)
        for c in cells:
            all_cells.append(c)
            owners.append(i)
    T2 = time.time()
    verdicts, why = coq_check_cells(all_cells)
    vlib.log("[C15] verified checker on %d cells %.1fs" % (len(all_cells), time.time() - T2))
    if verdicts is None:
        ctx.obligation("verified checker run (IPV.C15.Checker.cell_ok by vm_compute)", False, why)
        verdicts = [c[6] for c in all_cells]
    else:
        agree = all(v == c[6] for v, c in zip(verdicts, all_cells))
        ctx.obligation("verified checker run: %d cells of %d pairs judged by IPV.C15.Checker.cell_ok (and python mirror agrees)" % (len(all_cells), stats["pairs"]), agree,
                       "" if agree else "python/Coq verdicts differ")
    bad_pairs = {}
    for v, c, i in zip(verdicts, all_cells, owners):
        if not v:
            bad_pairs.setdefault(i, []).append(c)
    for i, cs in sorted(bad_pairs.items()):
        fam, t, S, V = plan[i]
        c = cs[0]
        heads = sorted(set(x[1] for x in cs))
        mx = max(abs(x[4] - x[3] * x[5]) / max(abs(x[4]), abs(x[3] * x[5]), 1e-300) for x in cs)
        # stable key: family / transformation / first differing observable class
        key = "meta:%s:%s:%s" % (fam, t, c[2])
        nph = sum(len(b["items"]) for b in S["blocks"] if b["kind"] == "EQUILIBRIUM_PHASES")
        if fam == "batch" and nph >= 2 and mx < 1e-5 and all(x[0][0] == "react" for x in cs):
            # finding N1b (notes/C15.md): with two or more pure phases the engine's reaction-step result is reproducible
            # only to ~1e-7..1e-6 relative in pH-dependent quantities, whatever the convergence tolerance.  Still a
            # violation of the property as stated; it gets its own stable key so that it can be triaged once.
            key = "N1b:multi-phase-assemblage-reaction-step-noise"
        what = "%s base, transformation %s (k=%r, max rel %.2e): %d observable(s) differ beyond 1e-8 relative, e.g. row %s column %s: transformed %r vs base %r (x%r)" % (
            fam, t, V["k"], mx, len(cs), c[0], c[1], c[4], c[5], c[3])
        ctx.violation(key, what, {"kind": "input", "database": DBNAME, "input_text": texts[i][1], "base_input_text": texts[i][0], "family": fam,
                                  "transform": t, "k": V["k"], "mixscale": V.get("mixscale", 1.0), "rebatch": [[a, b] for a, b in V.get("rebatch", {}).items()], "renum": [[kd, a, b] for (kd, a), b in V["renum"].items()],
                                  "observed": {"columns": heads[:20], "cell": [str(c[0]), c[1], c[4]]}, "expected": {"cell": [str(c[0]), c[1], c[5] * c[3]]}})
    T3 = time.time()
    mv = model_vs_code(ctx, R, descs, res)
    vlib.log("[C15] model_vs_code %.1fs" % (time.time() - T3))
    if mv and mv[0]:
        nb, bad = mv
        jid, sn = bad[0]
        i = int(jid[1:])
        ctx.violation("model_vs_code:convert_units", "mole totals reported by the engine differ from the regenerated convert_units evaluated in Coq (job %s solution %s)" % (jid, sn),
                      {"kind": "input", "database": DBNAME, "input_text": texts[i][0 if jid[0] == "b" else 1], "observed": "see evidence", "expected": "model totals"})
    ctx.rule = ("base system drawn from 7 families (speciation, batch EQUILIBRIUM_PHASES(+REACTION), exchange, surface, gas phase, kinetics, mix) on phreeqc.dat; "
                "one transformation from {units (default + per-element units in 6 mass/mole per-kgw units and spellings, eq units for alkalinity, `as` formulas, gfw overrides), "
                "water factor 1e-3..1e3 with all extensive amounts scaled, permutation of blocks/constituents/option lines, renumbering, repeated identical block, "
                "SOLUTION_SPREAD instead of SOLUTION, MIX reorder, self-mix, combination of three}; a pair is non-trivial when the two input texts differ and >5 observables are compared; "
                "every observable (pH, pe, mu, totals, molalities, activities, SI, phase/gas/kinetic amounts, TOTMOLE) of the initial-solution rows and the reaction row is judged by the verified checker")
    ctx.extra["input_distribution"] = {"%s/%s" % k: v for k, v in sorted(dist.items())}
    ctx.extra["stats"] = stats
    ctx.trusted += ["translator/c15_cxx2coq.py (clang 14 JSON AST -> IPV.C15.Ir terms); validated each run by model_vs_code",
                    "the engine's GFW() BASIC function and the database text for formula weights used by the generator",
                    "determinism of the solver (same totals -> same speciation): property C06; the Newton solver itself is not modelled",
                    "oracles of Ir.exec (compute_gfw, master_bsearch, master_bsearch_primary, Rxn_find) as Section variables / record fields"]
    ctx.notes += ["per-litre and per-kg-solution units go through the density iteration and are outside the proved family (metamorphic tests only cover per-kgw units)",
                  "batch bases carry dissolved O(0) so that pe is determined by a redox couple; without one pe is numerically undetermined (H/O mass balance cancellation) and is not an invariant the engine can deliver"]


def replay_sequence(ctx, rp):
    """inputs run one after the other in ONE harness process (one IPhreeqc instance, database re-loaded per input),
    with the path shapes vlib.run_inputs uses; reports when a job loses its result or the process dies"""
    import tempfile, shutil
    exe = vlib.build_harness("runsel", ["runsel.cpp"], "O1")
    d = tempfile.mkdtemp(prefix="runsel-", dir=os.environ.get("VERIF_TMP", "/tmp"))
    try:
        wd = os.path.join(d, "w12_1")
        os.makedirs(wd)
        jf = os.path.join(wd, "jobs.tsv")
        k0 = int(rp.get("first_index", 0))
        with open(jf, "w") as f:
            for k, txt in enumerate(rp["inputs"]):
                p = os.path.join(d, "in%05d.pqi" % (k0 + k))
                open(p, "w").write(txt)
                f.write("%s\t%s\t%s\t\n" % (k0 + k, os.path.join(vlib.DB, rp.get("database", DBNAME)), p))
        rc, so, se = vlib.sh([exe, jf], cwd=wd, timeout=60 * len(rp["inputs"]) + 60)
        good, lost = 0, []
        for line in so.split("\n"):
            if line.startswith("{"):
                try:
                    r = json.loads(line)
                except Exception:
                    continue
                if "rc" in r:
                    good += 1
                else:
                    lost.append(r.get("job"))
        ctx.case("replay-sequence", sample={"inputs": len(rp["inputs"]), "results": good, "lost": lost, "rc_proc": rc, "stderr": se[-200:]})
        if rc != 0 or lost or good != len(rp["inputs"]):
            ctx.violation(rp["key"], rp["what"], rp)
    finally:
        shutil.rmtree(d, ignore_errors=True)


def replay(ctx, R):
    rp = json.load(open(ctx.replay))
    no_result = lambda r: (r is None) or ("rc" not in r) or r.get("timeout") or r.get("crash") or ("dberr" in r)
    if rp.get("kind") == "sequence":
        return replay_sequence(ctx, rp)
    if rp.get("kind") == "input" and "base_input_text" not in rp and "input_text" in rp:
        # a single input that did not return (key noreturn:...): run it alone, 200 s
        r = vlib.run_inputs([{"id": "x", "db": DBNAME, "text": rp["input_text"]}], timeout_each=200, workers=1).get("x")
        ctx.case("replay", sample={"returned": not no_result(r)})
        if no_result(r):
            ctx.violation(rp["key"], rp["what"], rp)
        return
    if rp.get("kind") != "input" or "base_input_text" not in rp:
        ctx.notes.append("replay of kind %s: re-running the obligations only" % rp.get("kind"))
        return
    jobs = [{"id": "b0", "db": DBNAME, "text": rp["base_input_text"]}, {"id": "v0", "db": DBNAME, "text": rp["input_text"]}]
    # each of the two runs alone in its own process (workers >= jobs), generous limit
    res = vlib.run_inputs(jobs, timeout_each=200, workers=2)
    if no_result(res.get("b0")) or no_result(res.get("v0")):
        ctx.violation("noreturn:replay", "a run of the replayed pair did not return a result within 200 s when run alone", rp)
        return
    V = base_variant()
    V["k"] = rp.get("k", 1.0)
    V["mixscale"] = rp.get("mixscale", 1.0)
    V["rebatch"] = {a: b for a, b in rp.get("rebatch", [])}
    for kd, a, b in rp.get("renum", []):
        V["renum"][(kd, a)] = b
    rb, rv = res["b0"], res["v0"]
    if (rb.get("rc", 1) != 0) != (rv.get("rc", 1) != 0):
        if not rounding_floor_failure((rb.get("err") or "") + (rv.get("err") or "")):
            ctx.violation(rp["key"], rp["what"], rp)
        return
    if str(rp.get("key", "")).startswith(("accept:", "noreturn:")):
        # recorded as "one runs, the other does not": both run now, nothing else was claimed
        ctx.case("replay", sample={"both_run": True})
        return
    cells = compare(None, V, rb, rv)
    bad = [c for c in cells if not c[6]]
    ctx.case("replay", sample={"cells": len(cells), "bad": len(bad)})
    if bad:
        ctx.violation(rp["key"], rp["what"], rp)
