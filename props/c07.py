"""C07 — loading a database returns the instance to the fresh state.

Proof: coq/Props/Properties_C07.v: (a) protocol model: the post-load instance is a function of id, surviving settings and
database text only, for every history (failed calls included); (b) T-gen reset-coverage obligations over the inventory
regenerated from IPhreeqc.hpp/.cpp, Phreeqc.h, Phreeqc.cpp::init, structures.cpp::clean_up, mainsubs.cpp::initialize.
Tie (T-corr): histories (runs on several databases with state-perturbing blocks, setter calls, optionally one failing
call) followed by LoadDatabase and a probe input; every channel is compared with a fresh instance (separate process, same
id) that received the same surviving settings, the same load and the same probe."""
import json, os, re, concurrent.futures as cf
import vlib, wrap, gen_inputs
from translator import c07_inventory

PERTURB = [
    "KNOBS\n -iterations 150\n -convergence_tolerance 1e-10\n -step_size 50\n -pe_step_size 5\n -diagonal_scale true\nSOLUTION 1\n Na 1\n Cl 1\nEND\n",
    "PRINT\n -reset false\n -totals true\n -species false\n -saturation_indices false\n -echo_input false\n -headings false\nSOLUTION 1\n Ca 1\n C(4) 2\nEND\n",
    "INCREMENTAL_REACTIONS true\nSOLUTION 1\n Na 1\n Cl 1\nREACTION 1\n NaCl 1\n 0.01 moles in 3 steps\nEND\n",
    "SELECTED_OUTPUT 3\n -high_precision true\n -totals Na Cl\n -molalities Na+\nUSER_PUNCH 3\n -headings p1 p2\n 10 PUT(42.5, 1)\n 20 PUT(7, 2, 3)\n 30 PUNCH GET(1), GET(2, 3)\nSOLUTION 1\n Na 1\n Cl 1\nEND\n",
    "CALCULATE_VALUES\n myval\n -start\n 10 SAVE TOT(\"Na\") * 2\n -end\nUSER_PRINT\n 10 PRINT \"myval\", CALC_VALUE(\"myval\")\nSOLUTION 2\n Na 3\n Cl 3\nEND\n",
    "RATES\n slow\n -start\n 10 SAVE 1e-6 * TIME\n -end\nKINETICS 1\n slow\n -formula NaCl 1\n -m0 1\n -steps 100 in 2 steps\nSOLUTION 1\n Na 1\n Cl 1\nEND\n",
    "SOLUTION_MASTER_SPECIES\n Xx Xx+ 0 Xx 50\nSOLUTION_SPECIES\n Xx+ = Xx+\n log_k 0\n Xx+ + Cl- = XxCl\n log_k 1.5\nPHASES\n Xxite\n XxCl = Xx+ + Cl-\n log_k -2\nSOLUTION 1\n Xx 1\n Cl 1\nEND\n",
    "EXCHANGE 1\n X 0.1\n -equilibrate 1\nSOLUTION 1\n Na 10\n Ca 5\n Cl 20\nEND\n",
    "SURFACE 1\n Hfo_wOH 0.001 600 1\n -equilibrate 1\nSOLUTION 1\n Na 10\n Cl 10\n Zn 0.001\nEND\n",
    "SURFACE 2\n Hfo_wOH 0.001 600 1\n -equilibrate 1\n -diffuse_layer 1e-8\nSOLUTION 1\n Na 10\n Cl 10\nEND\n",
    "GAS_PHASE 1\n -fixed_pressure\n -pressure 1\n CO2(g) 0.1\n N2(g) 0.9\nSOLUTION 1\n Ca 1\n C(4) 2\nEND\nUSE solution 1\nUSE gas_phase 1\nEND\n",
    "SOLID_SOLUTIONS 1\n CaSr\n -comp Calcite 0.01\n -comp Strontianite 0.001\nSOLUTION 1\n Ca 1\n Sr 0.1\n C(4) 2\nEND\nUSE solution 1\nUSE solid_solution 1\nEND\n",
    "SOLUTION 0\n Na 1\n Cl 1\nSOLUTION 1-4\n K 1\n N(5) 1\nTRANSPORT\n -cells 4\n -shifts 3\n -time_step 100\n -multi_d true 1e-9 0.3 0.05 1\n -punch_cells 1-4\nEND\n",
    "SOLUTION 0\n Ca 1\n Cl 2\nSOLUTION 1-3\n Na 1\n Cl 1\nEXCHANGE 1-3\n X 0.01\n -equilibrate 1\nADVECTION\n -cells 3\n -shifts 4\nEND\n",
    "TITLE a title\nSOLUTION 1\n pH 7 charge\n Na 1\n Cl 2\n temp 80\n pressure 50\nREACTION_TEMPERATURE 1\n 20 90 in 3 steps\nUSE solution 1\nUSE reaction_temperature 1\nEND\n",
    "SOLUTION 1\n Na 1\n Cl 1\nSAVE solution 7\nEND\nUSE solution 7\nEQUILIBRIUM_PHASES 1\n Halite 0 10\nSAVE solution 8\nSAVE equilibrium_phases 1\nEND\n",
    "SELECTED_OUTPUT 1\n -reset false\n -pH true\nUSER_GRAPH 1\n -headings a\n 10 GRAPH_X 1\nSOLUTION 1\n Na 1\nEND\n",
    "ISOTOPES\n H\n -isotope D permil 155.76e-6\nSOLUTION 1\n Na 1\n Cl 1\nDUMP\n -all\nEND\n",
]
PERTURB += [
    # interpreter-level BASIC state (sticky output flags, DATA pointer, arrays, variables)
    "SELECTED_OUTPUT 1\n -reset false\nUSER_PUNCH 1\n -headings a\n 10 PUNCH 1\n 20 t$ = EOL_NOTAB$\nSOLUTION 1\n Na 1\nEND\n",
    "SELECTED_OUTPUT 1\n -reset false\nUSER_PUNCH 1\n -headings a\n 10 PUNCH 1\n 20 t$ = NO_NEWLINE$\nSOLUTION 1\n Na 1\nEND\n",
    "SELECTED_OUTPUT 1\n -reset false\nUSER_PUNCH 1\n -headings a b\n 10 DIM q(10)\n 20 q(3) = 17\n 30 DATA 5, 6, 7\n 40 READ x\n 50 zz = 99\n 60 PUNCH q(3), x\nUSER_PRINT\n 10 PRINT \"hello\", EOL_NOTAB$\nSOLUTION 1\n Na 1\nEND\n",
    "SELECTED_OUTPUT 1\n -reset false\nUSER_PUNCH 1\n -headings a\n 10 DIM a(2)\n 20 PUNCH NO_NEWLINE$ + STR$(a(5))\nSOLUTION 1\n Na 1\nEND\n",
]
PERTURB += [
    # numbered reactants of the kinds the other snippets do not define: they must not survive a load (final DUMP -all, RUN_CELLS of the probe)
    "SOLUTION 1\n Na 1\n Cl 1\nREACTION_PRESSURE 1\n 800\nREACTION_PRESSURE 4\n 10 20\nREACTION_TEMPERATURE 4\n 30\nREACTION 4\n NaCl 1\n 0.001\nMIX 4\n 1 1\nEND\n",
    "SOLUTION 1-3\n Na 1\n Cl 1\nREACTION_PRESSURE 1-3\n 500\nREACTION_TEMPERATURE 1-3\n 60\nREACTION 1-3\n NaCl 1\n 0.002\nMIX 2\n 1 0.5\n 3 0.5\nUSE solution none\nEND\n",
]
PERTURB += [
    # parameter tables defined in an INPUT (not only by the database)
    "GAS_BINARY_PARAMETERS\n CO2(g) CH4(g) 0.4\nMEAN_GAMMAS\n NaCl Na+ 1 Cl- 1\nSOLUTION 1\n Na 1\n Cl 1\nEND\n",
    "PITZER\n -APHI 0.45\nSOLUTION 1\n Na 1\n Cl 1\nEND\n",
    # dual-porosity settings of TRANSPORT (-stagnant) must not survive a load
    "SOLUTION 0-2\n Na 1\n Cl 1\nSOLUTION 4-5\n K 1\n Cl 1\nTRANSPORT\n -cells 2\n -shifts 1\n -time_step 100\n -stagnant 1 6.8e-6 0.3 0.1\nEND\n",
]
PERTURB += [
    # print gates that live outside the engine object (PHRQ_io::punch_on / log_on) must not survive a load
    "PRINT\n -selected_output false\nSELECTED_OUTPUT 1\n -reset false\n -pH true\nSOLUTION 1\n Na 1\n Cl 1\nEND\n",
    "KNOBS\n -logfile true\nSOLUTION 1\n Na 1\n Cl 1\nEND\n",
]
FAILING = [
    # requests that are carried out at the END of the simulation stay pending when the simulation stops on an input error
    "SOLUTION 1\n Na 1\n Cl 1\nCOPY solution 1 5\nSOLUTION 2\n pH 7 charge\n Na 1 charge\nEND\n",
    "SOLUTION_MIX 3\n 1 0.5\n 2 0.5\nSOLUTION 9\n pH 7 charge\n Na 1 charge\nEND\n",
    "EXCHANGE_MIX 4\n 1 0.5\nDELETE\n -solution 7\nSOLUTION 9\n pH 7 charge\n Na 1 charge\nEND\n",
    "SOLUTION 1\n Na 1\n Clx 3 charge\nEND\n",                 # input error
    "SOLUTION 1\n pH 7 charge\n Na 1 charge\nEND\n",            # two charge balances
    "SOLUTIONX 1\n Na 1\nEQUILIBRIUM_PHASES\n Nosuchphase 0 1\nEND\n",
    "SOLUTION 1\n Na 1\n Cl 1\nUSER_PUNCH\n 10 PUNCH 1 +\nSELECTED_OUTPUT\n -reset false\nEND\n",   # BASIC syntax error
    "SOLUTION 1\n Na 1e6\n Cl 1e6\n pH 7\nEQUILIBRIUM_PHASES\n Gibbsite 50 1\nEND\n",  # likely convergence trouble / error
    "USE solution 99\nREACTION\n NaCl 1\n 1\nEND\n",             # undefined entity
    "KINETICS 1\n norate\n -m0 1\nSOLUTION 1\n Na 1\nEND\n",     # rate not found
]
DBS = ["phreeqc.dat", "wateq4f.dat", "pitzer.dat", "sit.dat", "Amm.dat", "minteq.v4.dat", "phreeqc_rates.dat", "ColdChem.dat"]
PARAM_PROBES = [
    "SOLUTION 0\n Ca 1\n Cl 2\nSOLUTION 1-2\n Na 1\n Cl 1\nSOLUTION 4-5\n K 1\n Cl 1\nSELECTED_OUTPUT 1\n -reset false\n -solution true\n -high_precision true\n -totals Na Ca K\nTRANSPORT\n -cells 2\n -shifts 2\n -time_step 100\n -punch_cells 1-5\nEND\n",
    "SOLUTION 1\n Na 1\n Cl 1\nUSER_PRINT\n 10 PRINT \"meang\", MEANG(\"NaCl\")\nEND\n",
    "SOLUTION 1\n Na 1\n Cl 1\nUSER_PRINT\n 10 PRINT \"rate_pk\", RATE_PK(\"Albite\")\nEND\n",
    "SOLUTION 1\n Na 1\n Cl 1\nUSER_PRINT\n 10 PRINT \"rate_svd\", RATE_SVD(\"Albite\")\nEND\n",
    "SOLUTION 1\n temp 60\n Na 6000\n Cl 6000\n Ca 50\n S(6) 50\nUSER_PRINT\n 10 PRINT \"aphi\", APHI, SI(\"Gypsum\")\nEND\n",
    "SOLUTION 1\n temp 50\n pH 6\nGAS_PHASE 1\n -fixed_volume\n -volume 1\n -temperature 50\n CO2(g) 60\n CH4(g) 60\nUSER_PRINT\n 10 PRINT \"gas\", PRESSURE, PR_PHI(\"CO2(g)\")\nEND\n",
]
PROBE_EXTRA = ("USER_PUNCH 1\n -headings s1 s2 g1 g2 cv q3 x zz\n 10 PUNCH \"x\", \"y\", GET(1), GET(2, 3), MU\n 20 READ x\n 30 PUNCH x, zz\n 40 DATA 41, 42\nUSER_PRINT\n 10 PRINT \"probe\", MU\nSELECTED_OUTPUT 1\n -high_precision true\n -totals Na Cl\n"
               "SOLUTION 1\n Na 1.5\n Cl 1.5\n Ca 0.2\n C(4) 0.4\nREACTION 1\n NaCl 1\n 0.001 0.002\nEND\nUSE solution 1\nEQUILIBRIUM_PHASES 1\n Calcite 0 0.01\nEND\n")


def gen():
    vlib.write_if_changed(os.path.join(vlib.COQ, "Gen", "Gen_C07.v"), c07_inventory.generate(vlib.REPO))


def gen_case(rng, example_hist=None):
    hist = []
    ncalls = rng.randint(1, 5)
    db = rng.choice(DBS)
    hist.append(("load", db))
    for _ in range(ncalls):
        k = rng.random()
        if k < 0.12:
            db = rng.choice(DBS)
            hist.append(("load", db))
        elif k < 0.3:
            hist.append(("set", rng.choice(["OutputStringOn", "LogStringOn", "DumpStringOn", "ErrorStringOn", "OutputFileOn", "SelectedOutputStringOn", "SelectedOutputFileOn", "ErrorOn"]), rng.randint(0, 1)))
        elif k < 0.38:
            hist.append(("cur", rng.choice([1, 2, 3, 9])))
        elif k < 0.45:
            hist.append(("acc", rng.choice(PERTURB).split("\n")[0]))
        else:
            text = example_hist if (example_hist and rng.random() < 0.5) else rng.choice(PERTURB)
            if text.startswith("PITZER") and db != "pitzer.dat":
                db = "pitzer.dat"                     # a PITZER block is only valid input for a Pitzer database
                hist.append(("load", db))
            hist.append(("run", text))
    if rng.random() < 0.5:
        hist.append(("run", rng.choice(FAILING)))
    probe_db = rng.choice(["phreeqc.dat", "phreeqc.dat", "wateq4f.dat", "pitzer.dat"])
    if any((h[0] == "load" and h[1] in ("ColdChem.dat", "pitzer.dat")) or (h[0] == "run" and "-APHI" in h[1]) for h in hist) and rng.random() < 0.7:
        probe_db = "pitzer.dat"                       # Pitzer-model state of the history (A-phi, parameters) must not leak into a Pitzer probe
    probe, info = gen_inputs.multi_sim_input(rng, user_numbers=[1, 3], nsims=rng.randint(1, 3))
    if probe_db != "pitzer.dat":
        probe = PROBE_EXTRA + probe + "RUN_CELLS\n -cells 1-3\nEND\nCOPY solution 1 33\nEND\n"      # consults every surviving reactant numbered 1..3
    else:
        probe = "SOLUTION 1\n Na 1000\n Cl 1000\n Mg 50\n S(6) 50\nSELECTED_OUTPUT 1\n -high_precision true\n -totals Na Mg\n -activities Na+ H2O\nUSER_PUNCH 1\n -headings g osm\n 10 PUNCH GET(1), OSMOTIC\nEND\n"
    return {"hist": hist, "probe_db": probe_db, "probe": probe, "load_by": rng.choice(["file", "string"])}


def hist_ops(case, with_history):
    ops = [["spy"]]
    sw = {"OutputStringOn": 0, "LogStringOn": 0, "DumpStringOn": 0, "ErrorStringOn": 1, "OutputFileOn": 0, "ErrorOn": 1}
    for h in case["hist"]:
        if h[0] == "set" and h[1] in sw:
            sw[h[1]] = h[2]
        if with_history:
            if h[0] == "load":
                ops.append(["c", "LoadDatabase", 0, os.path.join(vlib.DB, h[1])])
            elif h[0] == "set":
                ops.append(["c", "Set" + h[1], 0, h[2]])
            elif h[0] == "cur":
                ops.append(["c", "SetCurrentSelectedOutputUserNumber", 0, h[1]])
            elif h[0] == "acc":
                ops.append(["c", "AccumulateLine", 0, h[1]])
            elif h[0] == "run":
                ops.append(["c", "RunString", 0, h[1]])
            if h[0] in ("run", "load"):
                ops.append(["iffail_skip"])      # the property's histories end at the first failing call
    ops.append(["resume"])
    if not with_history:
        for k, v in sw.items():                      # the surviving (global) switches
            ops.append(["c", "Set" + k, 0, v])
    # observation needs the string switches: set them identically on both sides (global switches survive a load anyway)
    for k in ("OutputStringOn", "LogStringOn", "DumpStringOn", "ErrorStringOn"):
        ops.append(["c", "Set" + k, 0, 1])
    ops.append(["c", "SetOutputFileOn", 0, 0])
    ops.append(["c", "SetErrorOn", 0, 1])
    if case["load_by"] == "file":
        ops.append(["c", "LoadDatabase", 0, os.path.join(vlib.DB, case["probe_db"])])
    else:
        ops.append(["c", "LoadDatabaseString", 0, open(os.path.join(vlib.DB, case["probe_db"]), errors="replace").read()])
    iload = len(ops) - 1
    ops.append(["obs", 0, "lines"])
    for n_ in (1, 3):          # per-user-number switches are reset by the load: switch the text sinks of the probe's numbers on, on both sides
        ops.append(["c", "SetCurrentSelectedOutputUserNumber", 0, n_])
        ops.append(["c", "SetSelectedOutputStringOn", 0, 1])
    ops.append(["c", "SetCurrentSelectedOutputUserNumber", 0, 1])
    ops.append(["c", "RunString", 0, case["probe"]])
    ops.append(["obs", 0, "lines"])
    ops.append(["c", "RunString", 0, "DUMP\n -all\nEND\n"])
    ops.append(["obs", 0])
    # parameter tables of the database (MEAN_GAMMAS, RATE_PARAMETERS_*, GAS_BINARY_PARAMETERS): consulted by name, one small run each
    # (a table that survives the load answers where the fresh instance reports "not found")
    for text in PARAM_PROBES:
        ops.append(["c", "RunString", 0, text])
        ops.append(["obs", 0])
    return ops, iload


def run_side(case, wexe, with_history):
    with vlib.scratch("c07") as d:
        ops, iload = hist_ops(case, with_history)
        res, rc, err = wrap.run_script(wexe, ops, d, timeout=240)
    if rc != 0 or any(r is None for r in res):
        return None, (rc, err[-300:])
    out = {"load_rc": res[iload]["r"], "after_load": res[iload + 1], "probe_rc": res[iload + 7]["r"], "after_probe": res[iload + 8], "final": res[iload + 10]}
    for k in range(len(PARAM_PROBES)):
        o = dict(res[iload + 12 + 2 * k])
        o["rc"] = res[iload + 11 + 2 * k]["r"]
        out["param_probe_%d" % k] = o
    return out, None


def norm(o):
    o = json.loads(json.dumps(o))
    # elapsed-time banner: the "End of Run after x Seconds." line and its dashed frame (length follows the digits)
    for k in ("out", "log"):
        if isinstance(o.get(k), str):
            o[k] = "\n".join(l for l in o[k].split("\n") if "econds" not in l and not re.match(r"^-+$", l))
    if "lines" in o:
        for k in ("out", "log"):
            o["lines"][k] = [l for l in o["lines"][k] if "econds" not in l and not re.match(r"^-+$", l)]
    if "nlines" in o:
        o["nlines"] = {k: v for k, v in o["nlines"].items() if k not in ("out", "log")}
    return o


def diff_obs(a, b, path=""):
    if type(a) != type(b):
        return "%s: %r vs %r" % (path, str(a)[:80], str(b)[:80])
    if isinstance(a, dict):
        for k in sorted(set(a) | set(b)):
            if k not in a or k not in b:
                return "%s/%s: present on one side only" % (path, k)
            d = diff_obs(a[k], b[k], path + "/" + k)
            if d:
                return d
        return None
    if isinstance(a, list):
        if len(a) != len(b):
            return "%s: lengths %d vs %d" % (path, len(a), len(b))
        for i, (x, y) in enumerate(zip(a, b)):
            d = diff_obs(x, y, "%s[%d]" % (path, i))
            if d:
                return d
        return None
    if a != b:
        if isinstance(a, str):
            for i, (x, y) in enumerate(zip(a.split("\n"), b.split("\n"))):
                if x != y:
                    return "%s line %d: %r vs %r" % (path, i, x[:100], y[:100])
        return "%s: %r vs %r" % (path, str(a)[:100], str(b)[:100])
    return None


def run(ctx):
    vlib.coq_stage(ctx, "Props/Properties_C07.vo", gen=gen)
    wexe = wrap.build_wdrive()
    ctx.rule = ("histories = load of one of 6 databases, then 1..5 of {run a state-perturbing block (KNOBS, PRINT, INCREMENTAL_REACTIONS, SELECTED_OUTPUT+USER_PUNCH with PUT, CALCULATE_VALUES, RATES/KINETICS, "
                "database additions, EXCHANGE, SURFACE, GAS_PHASE, SOLID_SOLUTIONS, TRANSPORT -multi_d, ADVECTION, ISOTOPES ...), load another database, setter, AccumulateLine}, optionally one failing call; then "
                "LoadDatabase/LoadDatabaseString and a probe input (GET of earlier PUTs, default KNOBS/PRINT, generated blocks). Every string, line, table, component list, per-number switch after the load and "
                "after the probe is compared with a fresh instance in a separate process. non-trivial = history with >= 1 successful run; distinct by content")
    if ctx.replay:
        cases = [json.load(open(ctx.replay))["case"]]
        for c in cases:
            c["hist"] = [tuple(h) for h in c["hist"]]
    else:
        exs = []
        if ctx.thorough:
            import props.c04 as c04
            exs = [t for (n, db, t) in c04.example_inputs() if db == "phreeqc.dat"]
        cases = [gen_case(ctx.rng, ctx.rng.choice(exs) if exs else None) for _ in range(ctx.n(48, 1200))]

    def do(case):
        a, ea = run_side(case, wexe, True)
        b, eb = run_side(case, wexe, False)
        return a, ea, b, eb
    with cf.ThreadPoolExecutor(max_workers=vlib.NCPU) as ex:
        results = list(ex.map(do, cases))
    dist = {"failing_last_call": 0, "load_by": {}, "probe_db": {}, "history_calls": 0}
    for ci, (case, (a, ea, b, eb)) in enumerate(zip(cases, results)):
        nrun = sum(1 for h in case["hist"] if h[0] == "run")
        dist["history_calls"] += len(case["hist"])
        dist["load_by"][case["load_by"]] = dist["load_by"].get(case["load_by"], 0) + 1
        dist["probe_db"][case["probe_db"]] = dist["probe_db"].get(case["probe_db"], 0) + 1
        if case["hist"] and case["hist"][-1][0] == "run" and case["hist"][-1][1] in FAILING:
            dist["failing_last_call"] += 1
        ctx.case("c07:" + vlib.key_of(case), nontrivial=nrun >= 1,
                 sample={"history": [(h[0], (h[1][:60] if isinstance(h[1], str) else h[1])) for h in case["hist"]], "probe_db": case["probe_db"]} if ci < 2 else None)
        key = "c07:" + vlib.key_of(case)
        if a is None or b is None:
            ctx.violation(key, "a call in the history / after the load did not return (driver died or timed out): %r %r" % (ea, eb), {"kind": "history", "case": case})
            continue
        if a["load_rc"] != 0 or b["load_rc"] != 0:
            if a["load_rc"] != b["load_rc"]:
                ctx.violation(key, "LoadDatabase returns %d after the history but %d on a fresh instance" % (a["load_rc"], b["load_rc"]), {"kind": "history", "case": case})
            continue
        dumped = any(h[0] == "run" and "DUMP" in h[1] for h in case["hist"])
        filed = any(h[0] == "run" and re.search(r"(?im)^\s*-fi", h[1]) for h in case["hist"])
        for stage in ("after_load", "after_probe", "final") + tuple("param_probe_%d" % k for k in range(len(PARAM_PROBES))):
            oa, ob = norm(a[stage]), norm(b[stage])
            # the DEFAULT file name selected_<n>.<id>.out that a run assigns to a user number it defines is the name a fresh instance will
            # assign as well once the number is defined: stored or not yet stored is not an observable difference
            for o in (oa, ob):
                for n_, v in o.get("sel", {}).items():
                    if isinstance(v, dict) and v.get("fileName") == "selected_%s.%s.out" % (n_, o.get("id", 0)):
                        v["fileName"] = ""
            if filed:
                # a selected-output file name given with -file in an earlier input is a user-set file name: it survives the load by design
                for o in (oa, ob):
                    for v in o.get("sel", {}).values():
                        v.pop("fileName", None)
            d = diff_obs(oa, ob)
            if d and dumped and ("/dump" in d or "dump" in d.split(":")[0]):
                ctx.violation("C07:dump_info-survives-load", "a DUMP request of an earlier run survives LoadDatabase (Phreeqc::dump_info is not reset by clean_up/init): the first runs after the load dump again (%s): %s" % (stage, d),
                              {"kind": "history", "case": case, "observed": d})
                break
            if d:
                ctx.violation(key, "after the load, the instance with a history differs from a fresh instance (%s): %s" % (stage, d),
                              {"kind": "history", "case": case, "observed": d, "expected": "identical observables"})
                break
        if a["probe_rc"] != b["probe_rc"]:
            ctx.violation(key, "probe return code %d with history, %d fresh" % (a["probe_rc"], b["probe_rc"]), {"kind": "history", "case": case})
    ctx.extra["input_distribution"] = dist
    ctx.trusted += ["translator/c07_inventory.py (token-level member and mention inventory)", "the reviewed allow-list reviewed_not_reset in coq/C07/Inventory.v (members the reset path never mentions)",
                    "that init() assigns the RIGHT value to each field is only checked differentially"]
