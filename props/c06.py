"""C06 — deterministic results; instances are isolated and usable from parallel threads.

Proof: coq/Props/Properties_C06.v: (a) for every set of thread programs and EVERY schedule the ids handed out are pairwise
distinct, the registry invariant holds, and each thread observes exactly what it observes running alone (isolation),
over the registry model whose steps are atomic; (b) T-gen obligations regenerated on every run: every access to
IPhreeqc::Instances / InstancesIndex in the current sources is made with map_lock held (this is what makes the model's
steps atomic), qsort is only reached through the locking macro, every variable with static storage emitted into the freshly
built library is guarded, init-only or the recorded finding F3, nothing result-producing reads the clock or rand;
(c) the lock-free variant is refuted (two-thread schedule with a duplicate id).
PARTIAL (stated): absence of data races inside the 125 kLOC engine and std:: containers is a run-time fact that no Gallina
model can exhibit: supported by a ThreadSanitizer build + byte comparison with a sequential reference, not proved."""
import json, os, re
import vlib
from translator import c06_inventory

SPEC = "SOLUTION 1\n temp 40\n pH 7.5\n Na 10\n Cl 10 charge\n Ca 2\n C(4) 3\n S(6) 1\nSELECTED_OUTPUT 1\n -high_precision true\n -totals Na Ca C(4)\n -molalities CaSO4 HCO3-\n -saturation_indices Calcite Gypsum\nEQUILIBRIUM_PHASES 1\n Calcite 0 0.01\nEND\n"
KIN = ("RATES\n decay\n -start\n 10 SAVE PARM(1) * M * TIME\n -end\nKINETICS 1\n decay\n -formula NaCl 1\n -m0 0.01\n -parms 0.001\n -tol 1e-9\n -steps 100 200 400\n"
       "SOLUTION 1\n Na 1\n Cl 1\nSELECTED_OUTPUT 2\n -high_precision true\n -kinetic_reactants decay\nEND\nKINETICS 2\n decay\n -formula NaCl 1\n -m0 0.01\n -parms 0.002\n -cvode true\n -steps 100 in 2 steps\nUSE solution 1\nEND\n")
BASIC = ("SOLUTION 1\n Na 1\n Cl 1\nSELECTED_OUTPUT 3\n -reset false\nUSER_PUNCH 3\n -headings a b c d\n 10 s = 0\n 20 FOR i = 1 TO 50\n 30 s = s + SQRT(i) * MU\n 40 NEXT i\n 50 DIM q(5)\n 60 q(3) = 7\n"
         " 70 PUNCH s, q(3), STR$(s), LG(\"Na+\")\nEND\n")
ADV = "SOLUTION 0\n Ca 1\n Cl 2\nSOLUTION 1-5\n Na 1\n Cl 1\nEXCHANGE 1-5\n X 0.01\n -equilibrate 1\nSELECTED_OUTPUT 1\n -high_precision true\n -totals Na Ca\nADVECTION\n -cells 5\n -shifts 6\n -punch_cells 5\nEND\n"
SURF = "SURFACE 1\n Hfo_wOH 0.001 600 1\n Hfo_sOH 0.00005\n -equilibrate 1\nSOLUTION 1\n pH 6\n Na 10\n Cl 10\n Zn 0.001\nSELECTED_OUTPUT 1\n -high_precision true\n -molalities Hfo_wOZn+ Zn+2\nEND\n"
TRN = "SOLUTION 0\n Na 1\n Cl 1\nSOLUTION 1-6\n K 1\n N(5) 1\nSELECTED_OUTPUT 1\n -high_precision true\n -totals Na K\nTRANSPORT\n -cells 6\n -shifts 5\n -time_step 3600\n -dispersivities 6*0.02\n -lengths 6*0.1\n -punch_cells 6\nEND\n"
TRN_MD = TRN.replace(" -punch_cells 6", " -multi_d true 1e-9 0.3 0.05 1\n -punch_cells 6")


INV2 = ("SOLUTION 1\n temp 25\n pH 7\n Na 1\n Cl 1\nSOLUTION 2\n temp 25\n pH 7\n Na 3.2\n Cl 3.2\n Ca 0.4\n S(6) 0.4\nSELECTED_OUTPUT 1\n -reset false\n -high_precision true\n -inverse_modeling true\n"
        "INVERSE_MODELING 1\n -solutions 1 2\n -uncertainty 0.03\n -phases\n  Halite\n  Gypsum\n  Anhydrite\n -range\n -mineral_water true\nEND\n")
PITZ = "SOLUTION 1\n temp 30\n pH 7\n Na 2000\n Cl 2000\n Mg 100\n S(6) 100\nSELECTED_OUTPUT 1\n -high_precision true\n -totals Na Mg\n -activities Na+ H2O\n -saturation_indices Halite Gypsum\nEQUILIBRIUM_PHASES 1\n Halite 0 0\nEND\n"
ISO_DBS = ["phreeqc.dat", "llnl.dat", "wateq4f.dat", "pitzer.dat", "sit.dat", "minteq.v4.dat", "Amm.dat"]


def iso_workloads():
    """(database, input) pairs for the sequential-isolation check: the same kinds of calculation under databases that differ in
    formula weights, activity models and master species"""
    out = []
    for db in ISO_DBS:
        out.append((db, INV2))
        out.append((db, PITZ if db in ("pitzer.dat",) else SPEC))
        out.append((db, KIN))
    out.append(("phreeqc.dat", TRN + TRN.replace(" -shifts 5", " -shifts 2") + TRN.replace(" -shifts 5", " -shifts 3")))
    out.append(("phreeqc.dat", TRN))
    out.append(("phreeqc.dat", ADV))
    out.append(("wateq4f.dat", TRN))
    return out


def run_iso(exe, pairs, timeout=300, recycle=False):
    with vlib.scratch("c06iso") as d:
        args = ["--recycle"] if recycle else []
        for k, (db, t) in enumerate(pairs):
            p = os.path.join(d, "i%d.pqi" % k)
            open(p, "w").write(t)
            args += [os.path.join(vlib.DB, db), p]
        rc, out, err = vlib.sh([exe] + args, cwd=d, timeout=timeout)
    for ln in out.split("\n"):
        if ln.startswith("{"):
            try:
                return json.loads(ln)["last"]
            except Exception:
                pass
    return None


def inverse_text():
    t = open(os.path.join(vlib.REPO, "phreeqc3-examples", "ex16")).read()
    return t.replace("INVERSE_MODELING 1", "SELECTED_OUTPUT 1\n -reset false\n -inverse_modeling true\nINVERSE_MODELING 1", 1)


def gen():
    lib = vlib.build_lib("O1")
    vlib.write_if_changed(os.path.join(vlib.COQ, "Gen", "Gen_C06.v"), c06_inventory.generate(vlib.REPO, lib))


def run_mt(exe, texts, nthreads, reps, timeout=600, env=None):
    with vlib.scratch("c06") as d:
        files = []
        for k, t in enumerate(texts):
            p = os.path.join(d, "w%d.pqi" % k)
            open(p, "w").write(t)
            files.append(p)
        rc, out, err = vlib.sh([exe, os.path.join(vlib.DB, "phreeqc.dat"), str(nthreads), str(reps)] + files, cwd=d, timeout=timeout, env=env)
    res = None
    for ln in out.split("\n"):
        if ln.startswith("{"):
            try:
                res = json.loads(ln)
            except Exception:
                pass
    return rc, res, err


def tsan_races(err):
    """-> list of (kind, detail) for every ThreadSanitizer report"""
    out = []
    for blk in err.split("WARNING: ThreadSanitizer:")[1:]:
        kind = blk.split("\n", 1)[0].strip()
        g = re.search(r"Location is global '([^'\[]+)", blk)
        fn = re.findall(r"#\d+ ([\w:~<>]+)[^\n]*?/src/(?:phreeqcpp/)?(?:common/)?([\w.]+):\d+", blk)[:16]
        out.append((kind, g.group(1) if g else None, fn))
    return out


F3 = set("F_Re3 tk_x2 dV_dcell find_current token dif_spec_names dif_els_names neg_moles els Ct2 l_tk_x2 A LU mixf mixf_stag mixf_comp_size current_cells sum_R sum_Rd ct cell_J_ij moles_added count_moles_added".split())


def run(ctx):
    vlib.coq_stage(ctx, "Props/Properties_C06.vo", gen=gen)
    ctx.rule = ("N threads x R repetitions, each creating its own instance through the C API, loading phreeqc.dat, running one of the workloads (speciation+phases, kinetics rk+cvode, BASIC loops/arrays, "
                "ADVECTION with exchange, surface complexation, inverse modelling ex16; TRANSPORT with and without -multi_d in a separate phase) and destroying it; every channel compared byte for byte with the sequential "
                "reference (elapsed-time banner masked); the same under ThreadSanitizer; repeated fresh processes compared by reference hash. non-trivial = (thread, repetition) pair that ran; distinct by (thread, rep, workload)")
    base = [SPEC, KIN, BASIC, ADV, SURF, inverse_text()]
    exe = vlib.build_harness("mtdrive", ["mtdrive.cpp"], "O1")
    nt, reps = ctx.n(8, 16), ctx.n(6, 40)
    hashes = []
    for rep in range(ctx.n(2, 5)):                       # repeated fresh processes
        rc, res, err = run_mt(exe, base, nt, reps)
        if rc != 0 or res is None:
            ctx.violation("mt:crash", "multi-threaded run died (exit %s): %s" % (rc, err[-300:]), {"kind": "schedule", "threads": nt, "reps": reps, "stderr": err[-2000:]})
            return
        for t in range(nt):
            for r in range(reps):
                ctx.case("mt:%d:%d:%d:%d" % (rep, t, r, (t + r) % len(base)), sample={"threads": nt, "reps": reps, "workloads": len(base)} if rep == 0 and t == 0 and r == 0 else None)
        hashes.append(res["ref_hash"])
        if res["duplicate_ids"]:
            ctx.violation("mt:duplicate-ids", "CreateIPhreeqc handed out the same id twice under %d threads: %s" % (nt, res["ids"][:40]), {"kind": "schedule", "observed": res["ids"]})
        if res["repeat_diff"] is not None:
            ctx.violation("det:repeat", "the same workload on two fresh instances of one process gives different results (workload %s)" % res["repeat_diff"], {"kind": "input", "input_text": base[int(res["repeat_diff"])]})
        for m in res["mismatches"][:3]:
            ctx.violation("mt:mismatch:w%s" % (m.get("workload") if isinstance(m, dict) else "?"), "a thread's results differ from the sequential reference: %s" % json.dumps(m)[:400],
                          {"kind": "schedule", "threads": nt, "reps": reps, "observed": m, "input_text": base[m["workload"]] if isinstance(m, dict) and "workload" in m else None})
    if any(h != hashes[0] for h in hashes):
        ctx.violation("det:process", "results differ between repeated fresh processes (reference hashes %s)" % hashes, {"kind": "input", "observed": hashes})
    # ---- sequential isolation across instances with DIFFERENT databases: what instance B computes may not depend on what another
    #      instance A of the same process loaded / computed before (process-wide caches, function-local statics ...)
    iexe = vlib.build_harness("isodrive", ["isodrive.cpp"], "O1")
    wl = iso_workloads()
    alone = {}
    npairs = ctx.n(24, 200)
    pairs = [(ctx.rng.choice(wl), ctx.rng.choice(wl)) for _ in range(npairs)]
    # make sure every inverse-modelling workload meets a neighbour with a different database that did the same kind of work
    pairs += [((da, INV2), (db, INV2)) for da in ("llnl.dat", "phreeqc.dat", "pitzer.dat") for db in ("phreeqc.dat", "llnl.dat", "sit.dat") if da != db]
    import concurrent.futures as cf

    trn = [w for w in wl if "TRANSPORT" in w[1] or "ADVECTION" in w[1]]
    recyc = {k: (k % 2 == 1) for k in range(len(pairs))}      # every other pair: predecessor destroyed before the successor is created
    for a in trn:
        for b in trn[1:]:
            for r in (False, True):
                recyc[len(pairs)] = r
                pairs.append((a, b))

    def iso(kpr):
        k, (a, b) = kpr
        if b not in alone:
            alone[b] = run_iso(iexe, [b])
        return run_iso(iexe, [a, b], recycle=recyc[k]), alone[b]
    with cf.ThreadPoolExecutor(max_workers=vlib.NCPU) as ex:
        isores = list(ex.map(iso, list(enumerate(pairs))))
    for (a, b), (both, ref) in zip(pairs, isores):
        ctx.case("iso:" + vlib.key_of([a, b]), nontrivial=a[0] != b[0], sample={"first": a[0], "then": b[0]} if len(ctx.samples) < 3 else None)
        if both is None or ref is None:
            ctx.violation("iso:crash:" + vlib.key_of([a, b]), "the isolation driver died / timed out (first %s, then %s)" % (a[0], b[0]), {"kind": "history", "first": {"database": a[0], "input_text": a[1]}, "then": {"database": b[0], "input_text": b[1]}})
        elif both != ref:
            k = 0
            while k < min(len(both), len(ref)) and both[k] == ref[k]:
                k += 1
            ctx.violation("iso:diff:" + vlib.key_of([a, b]), "an instance's results depend on what ANOTHER instance of the process did before: %s run after an instance with %s differs from the same run alone, at %r vs %r"
                          % (b[0], a[0], both[max(0, k - 30):k + 50], ref[max(0, k - 30):k + 50]),
                          {"kind": "history", "first": {"database": a[0], "input_text": a[1]}, "then": {"database": b[0], "input_text": b[1]}, "observed": both[max(0, k - 200):k + 200], "expected": ref[max(0, k - 200):k + 200]})
    # ---- ThreadSanitizer build
    texe = vlib.build_harness("mtdrive", ["mtdrive.cpp"], "tsan")
    env = {"TSAN_OPTIONS": "halt_on_error=0:report_signal_unsafe=0:history_size=4:exitcode=0"}
    rc, res, err = run_mt(texe, base, ctx.n(4, 16), ctx.n(3, 12), timeout=1500, env=env)
    races = tsan_races(err)
    ctx.extra["tsan_reports_non_transport_workloads"] = len(races)
    for kind, glob, fn in races[:5]:
        ctx.violation("tsan:%s:%s" % (glob or "?", fn[0][0] if fn else "?"), "ThreadSanitizer: %s on %s in %s while distinct instances run in different threads" % (kind, glob, fn[:3]),
                      {"kind": "schedule", "threads": 4, "stderr": err[-3000:]})
    if res is None:
        ctx.violation("tsan:crash", "TSan run died: %s" % err[-300:], {"kind": "schedule"})
    # ---- transport workloads (finding F3: file-scope globals of transport.cpp)
    rc, res, err = run_mt(texe, [TRN, TRN_MD], ctx.n(4, 8), ctx.n(2, 6), timeout=1500, env=env)
    races = tsan_races(err)
    ctx.extra["tsan_reports_transport_workloads"] = len(races)
    seen = set()
    for kind, glob, fn in races:
        infn = [f for f in fn if f[1] == "transport.cpp"]
        if (glob in F3) or (infn and (glob is None or glob in F3)):
            k = "F3:transport.cpp-file-scope-globals"
        else:
            k = "tsan:%s:%s" % (glob or "?", fn[0][0] if fn else "?")
        fn = fn[:4]
        if k in seen:
            continue
        seen.add(k)
        ctx.violation(k, "ThreadSanitizer: %s on global %s in %s while two instances run TRANSPORT in different threads" % (kind, glob, fn),
                      {"kind": "schedule", "threads": 4, "input_text": TRN_MD, "stderr": err[-2000:]})
    if res is not None and res["mismatches"] and "F3:transport.cpp-file-scope-globals" not in seen:
        ctx.violation("mt:mismatch:transport", "parallel TRANSPORT results differ from the sequential reference: %s" % json.dumps(res["mismatches"][0])[:300], {"kind": "schedule", "input_text": TRN_MD})
    elif res is not None and res["mismatches"]:
        ctx.violation("F3:transport.cpp-file-scope-globals", "parallel TRANSPORT results differ from the sequential reference (shared file-scope working state)", {"kind": "schedule", "input_text": TRN_MD})
    ctx.trusted += ["translator/c06_inventory.py (token-level lock inventory; `nm` of the fresh library for static storage)", "ThreadSanitizer as race oracle (supports, does not prove)",
                    "the classification lists guarded / init_only / f3_transport_globals in coq/C06/Statics.v were reviewed by hand"]
    ctx.notes += ["PARTIAL: data-race freedom inside the engine and std:: containers is a run-time fact; TSan + byte comparison support it, they are not a theorem",
                  "uninitialised-memory nondeterminism is only observable through the repeated-run comparison (MSan is unusable with the prebuilt libstdc++)"]
