"""C02 -- closed-system conservation of elements and charge in reaction steps.

Pipeline (see notes/C02.md):
  1. T-gen: translator/c02_step.py regenerates coq/Gen/Gen_C02_Step.v (step selection / unit factors /
     accumulation statements of step.cpp) from the current sources;
  2. Coq: Props/Properties_C02.vo (theorems about the model + generic obligations on the generated terms);
  3. T-corr: random one-cell systems are run through the real library (harness/runsel, DUMP -all -append
     after every simulation + USER_PUNCH SYS()/KIN() per step); the RAW dumps are parsed independently, the
     entities are handed to the Coq model (`assemble`, regenerated step table) and the verified checker
     `check_case` (exact Q) decides conservation / non-negativity.  Python repeats the same arithmetic with
     Fractions only to localise a failing case quickly; the verdict that counts is Coq's.
"""
import os, sys, re, json, math
from fractions import Fraction as F
import vlib

TOL = F(1, 10 ** 6)          # the property's tolerance: relative 1e-6 of the element's system inventory
ELEMENTS = ["H", "O", "C", "Ca", "Mg", "Na", "K", "Cl", "S", "Si", "Sr", "Ba", "Al", "Fe", "N", "Br", "F"]

# ------------------------------------------------------------------------------------------------ formulas

def parse_formula(f):
    """independent parser of a chemical formula -> {element: Fraction}; charge is dropped (returned separately)."""
    pos = 0
    n = len(f)

    def number():
        nonlocal pos
        m = re.match(r"\d+\.?\d*|\.\d+", f[pos:])
        if not m:
            return None
        pos += m.end()
        return F(m.group(0))

    def group(close):
        nonlocal pos
        out = {}
        while pos < n:
            c = f[pos]
            if c == "(":
                pos += 1
                sub = group(")")
                k = number() or F(1)
                for e, v in sub.items():
                    out[e] = out.get(e, 0) + v * k
            elif c == ")":
                if close == ")":
                    pos += 1
                    return out
                raise ValueError("unbalanced ) in " + f)
            elif c == "[":
                j = f.index("]", pos)
                e = f[pos:j + 1]
                pos = j + 1
                k = number() or F(1)
                out[e] = out.get(e, 0) + k
            elif c.isupper():
                m = re.match(r"[A-Z][a-z_]*", f[pos:])
                e = m.group(0)
                pos += m.end()
                k = number() or F(1)
                out[e] = out.get(e, 0) + k
            elif c == ":":
                pos += 1
                k = number() or F(1)
                sub = group(close)
                for e, v in sub.items():
                    out[e] = out.get(e, 0) + v * k
                return out
            elif c in "+-":
                # charge: ends the formula
                pos = n
                return out
            else:
                raise ValueError("cannot parse formula %r at %d" % (f, pos))
        if close:
            raise ValueError("unbalanced ( in " + f)
        return out

    return group(None)


_KEYWORD = re.compile(r"^[A-Z][A-Z_]+(\s|$)")


def parse_db_phases(path):
    """PHASES blocks of a database text -> {phase name: formula string} (formula = first token of the
    left-hand side of the dissolution equation)."""
    phases = {}
    inph = False
    name = None
    for raw in open(path, errors="replace"):
        line = raw.split("#")[0].strip()
        if not line:
            continue
        t0 = line.split()[0]
        if _KEYWORD.match(line) and "=" not in line and t0.upper() == t0 and len(t0) > 3 and t0 not in ("H2O",):
            # a keyword line (PHASES, SOLUTION_SPECIES, ...)
            kw = t0
            if kw in ("PHASES",):
                inph = True
                name = None
                continue
            if kw in ("SOLUTION_MASTER_SPECIES", "SOLUTION_SPECIES", "EXCHANGE_MASTER_SPECIES", "EXCHANGE_SPECIES",
                      "SURFACE_MASTER_SPECIES", "SURFACE_SPECIES", "RATES", "END", "PITZER", "SIT", "NAMED_EXPRESSIONS",
                      "ISOTOPES", "CALCULATE_VALUES", "ISOTOPE_RATIOS", "ISOTOPE_ALPHAS", "LLNL_AQUEOUS_MODEL_PARAMETERS",
                      "MEAN_GAMMAS", "KNOBS", "SELECTED_OUTPUT", "USER_PUNCH", "USER_PRINT", "SOLUTION", "MIX", "GAS_BINARY_PARAMETERS"):
                inph = False
                continue
        if not inph:
            continue
        if line.startswith("-") or re.match(r"^(log_k|delta_h|analytic|analytical_expression|Vm|T_c|P_c|Omega|gamma|no_check|check|add_logk|add_log_k|Millero|dw|erm_ddl|viscosity|vm|t_c|p_c|omega)\b", line, re.I):
            continue
        if "=" in line:
            if name is not None:
                lhs = line.split("=")[0].split()
                tok = lhs[0]
                if re.match(r"^\d+\.?\d*$", tok) and len(lhs) > 1:
                    tok = lhs[1]
                phases.setdefault(name, tok)
                name = None
            continue
        name = t0
    return phases


class Chem:
    def __init__(self, dbpath):
        self.phases = parse_db_phases(dbpath)

    def formula_of(self, name):
        """elements of one mole of `name`: a phase of the database, else a formula (as reaction_calc does)"""
        if name in self.phases:
            return parse_formula(self.phases[name])
        low = {k.lower(): k for k in self.phases}
        if name.lower() in low:
            return parse_formula(self.phases[low[name.lower()]])
        return parse_formula(name)


# ------------------------------------------------------------------------------------------------ RAW dump

def split_dumps(d):
    parts = d.split("USE reaction_pressure none\n")
    return [p for p in parts if "_RAW" in p]


def parse_dump(text):
    """-> {(KIND, n): [(option, args, [data line tokens])...]} ; independent of the library's reader."""
    ents = {}
    cur = None
    for line in text.split("\n"):
        if not line.strip():
            continue
        if not line[0].isspace():
            t = line.split()
            if t[0].endswith("_RAW"):
                cur = []
                ents[(t[0][:-4], int(t[1]))] = cur
            else:
                cur = None
            continue
        if cur is None:
            continue
        s = line.split("#")[0].strip()
        if not s:
            continue
        t = s.split()
        if t[0].startswith("-") and len(t[0]) > 1 and t[0][1].isalpha():
            cur.append((t[0][1:], t[1:], []))
        elif cur:
            cur[-1][2].append(t)
    return ents


def _nd(rows):
    return [(r[0], F(r[1])) for r in rows if len(r) >= 2]


def elt_of(key):
    """'C(4)' -> 'C' (primary element of a valence-state total)"""
    return key.split("(")[0]


def ent_solution(b):
    s = {"totals": [], "h": F(0), "o": F(0), "cb": F(0), "water": F(0)}
    for opt, args, rows in b:
        if opt == "totals":
            # H(0)/O(0) totals are part of total_h/total_o already (redox states of H and O)
            s["totals"] = [(elt_of(k), v) for k, v in _nd(rows) if elt_of(k) not in ("H", "O")]
        elif opt == "total_h":
            s["h"] = F(args[0])
        elif opt == "total_o":
            s["o"] = F(args[0])
        elif opt == "cb":
            s["cb"] = F(args[0])
        elif opt == "mass_water":
            s["water"] = F(args[0])
    return s


def ent_exchange(b):
    comps = []
    cur = None
    new_def = False
    for opt, args, rows in b:
        if opt == "component":
            cur = {"name": args[0], "totals": [], "cb": F(0)}
            comps.append(cur)
        elif opt == "totals" and cur is not None and rows:
            cur["totals"] = _nd(rows)
        elif opt == "charge_balance" and cur is not None:
            cur["cb"] = F(args[0])
        elif opt == "new_def":
            new_def = args[0] != "0"
            cur = None
        elif opt in ("solution_equilibria", "n_solution"):
            cur = None
    return {"comps": comps, "new_def": new_def}


def ent_surface(b):
    s = {"type": 0, "dl_type": 0, "comps": [], "charges": [], "new_def": False}
    cur = None
    kind = None
    for opt, args, rows in b:
        if opt == "type":
            s["type"] = int(args[0])
        elif opt == "dl_type":
            s["dl_type"] = int(args[0])
        elif opt == "component":
            cur = {"name": args[0], "totals": [], "cb": F(0)}
            kind = "c"
            s["comps"].append(cur)
        elif opt == "charge_component":
            cur = {"name": args[0], "cb": F(0), "dl": []}
            kind = "q"
            s["charges"].append(cur)
        elif opt == "totals" and kind == "c" and rows:
            cur["totals"] = _nd(rows)
        elif opt == "charge_balance" and cur is not None:
            cur["cb"] = F(args[0])
        elif opt == "diffuse_layer_totals" and kind == "q":
            cur["dl"] = _nd(rows)
        elif opt == "new_def":
            s["new_def"] = args[0] != "0"
            cur = None
            kind = None
    return s


def ent_named_moles(b, comp_opt="component", moles_opt="moles"):
    comps = []
    cur = None
    for opt, args, rows in b:
        if opt == comp_opt:
            cur = {"name": args[0], "moles": F(0), "add_formula": None}
            comps.append(cur)
        elif opt == moles_opt and cur is not None and args:
            cur["moles"] = F(args[0])
        elif opt == "add_formula" and cur is not None and args:
            cur["add_formula"] = args[0]
        elif opt in ("eltList", "new_def", "total_moles", "tk"):
            cur = None if opt != "total_moles" else cur
    return comps


def ent_gas(b):
    return ent_named_moles(b)


def ent_pp(b):
    return ent_named_moles(b)


def ent_ss(b):
    comps = []
    cur = None
    for opt, args, rows in b:
        if opt == "component":
            cur = {"name": args[0], "moles": F(0)}
            comps.append(cur)
        elif opt == "moles" and cur is not None:
            cur["moles"] = F(args[0])
            cur = None          # workspace lines of the same component follow; first -moles is the amount
    return comps


def ent_kinetics(b):
    comps = []
    cur = None
    totals = []
    for opt, args, rows in b:
        if opt == "component":
            cur = {"name": args[0], "m": F(0), "namecoef": []}
            comps.append(cur)
        elif opt == "m" and cur is not None:
            cur["m"] = F(args[0])
        elif opt == "namecoef" and cur is not None:
            cur["namecoef"] = _nd(rows)
        elif opt == "totals" and cur is not None and opt == "totals":
            totals = _nd(rows)
    return {"comps": comps, "totals": totals}


# ------------------------------------------------------------------------------------------------ inventories (python mirror, diagnostics only)

def inv_add(a, items, k=F(1)):
    for e, v in items:
        a[e] = a.get(e, F(0)) + v * k


def fml_items(chem, name, moles):
    return [(e, c * moles) for e, c in sorted(chem.formula_of(name).items())]


def inv_solution(s, k=F(1)):
    a = {}
    inv_add(a, s["totals"], k)
    inv_add(a, [("H", s["h"]), ("O", s["o"]), ("Charge", s["cb"])], k)
    return a


def inv_exchange(x):
    a = {}
    for c in x["comps"]:
        inv_add(a, c["totals"])
        inv_add(a, [("Charge", c["cb"])])
    return a


def inv_surface(s):
    a = {}
    edl = s["type"] in (2, 3, 4)
    for c in s["comps"]:
        inv_add(a, c["totals"])
        if s["type"] == 1:
            inv_add(a, [("Charge", c["cb"])])
    if edl:
        for q in s["charges"]:
            inv_add(a, [("Charge", q["cb"])])
            if s["dl_type"] != 0:
                inv_add(a, q["dl"])
    return a


def inv_phases(chem, comps):
    a = {}
    for c in comps:
        nm = c.get("add_formula") or c["name"]
        inv_add(a, fml_items(chem, nm, c["moles"]))
    return a


def inv_kinetics(chem, k):
    a = {}
    for c in k["comps"]:
        for nm, coef in c["namecoef"]:
            inv_add(a, fml_items(chem, nm, c["m"] * coef))
    return a
