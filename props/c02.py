"""C02 -- closed-system conservation of elements and charge in reaction steps.

Pipeline (see notes/C02.md):
  1. T-gen: translator/c02_step.py regenerates coq/Gen/Gen_C02_Step.v (step selection / unit factors /
     accumulation statements of step.cpp) from the current sources;
  2. Coq: Props/Properties_C02.vo (theorems about the model + generic obligations on the generated terms);
  3. T-corr: random one-cell systems are run through the real library (harness/runsel, DUMP -all -append
     after every simulation + USER_PUNCH SYS()/KIN() per step); the RAW dumps are parsed independently, the
     entities are handed to the Coq model (`assemble`, regenerated step table) and the verified checker
     `check_case` (exact Q) decides conservation / non-negativity.  Python repeats the same arithmetic with
     Fractions only to localise a failing case quickly; the verdict that counts is Coq's.
"""
import os, sys, re, json, math
from fractions import Fraction as F
import vlib

TOL = F(1, 10 ** 6)          # the property's tolerance: relative 1e-6 of the element's system inventory
ELEMENTS = ["H", "O", "C", "Ca", "Mg", "Na", "K", "Cl", "S", "Si", "Sr", "Ba", "Al", "Fe", "N", "Br", "F"]

# ------------------------------------------------------------------------------------------------ formulas

def parse_formula(f):
    """independent parser of a chemical formula -> {element: Fraction}; charge is dropped (returned separately)."""
    pos = 0
    n = len(f)

    def number():
        nonlocal pos
        m = re.match(r"\d+\.?\d*|\.\d+", f[pos:])
        if not m:
            return None
        pos += m.end()
        return F(m.group(0))

    def group(close):
        nonlocal pos
        out = {}
        while pos < n:
            c = f[pos]
            if c == "(":
                pos += 1
                sub = group(")")
                k = number() or F(1)
                for e, v in sub.items():
                    out[e] = out.get(e, 0) + v * k
            elif c == ")":
                if close == ")":
                    pos += 1
                    return out
                raise ValueError("unbalanced ) in " + f)
            elif c == "[":
                j = f.index("]", pos)
                e = f[pos:j + 1]
                pos = j + 1
                k = number() or F(1)
                out[e] = out.get(e, 0) + k
            elif c.isupper():
                m = re.match(r"[A-Z][a-z_]*", f[pos:])
                e = m.group(0)
                pos += m.end()
                k = number() or F(1)
                out[e] = out.get(e, 0) + k
            elif c == ":":
                pos += 1
                k = number() or F(1)
                sub = group(close)
                for e, v in sub.items():
                    out[e] = out.get(e, 0) + v * k
                return out
            elif c in "+-":
                # charge: ends the formula
                pos = n
                return out
            else:
                raise ValueError("cannot parse formula %r at %d" % (f, pos))
        if close:
            raise ValueError("unbalanced ( in " + f)
        return out

    return group(None)


_KEYWORD = re.compile(r"^[A-Z][A-Z_]+(\s|$)")


def parse_db_phases(path):
    """PHASES blocks of a database text -> {phase name: formula string} (formula = first token of the
    left-hand side of the dissolution equation)."""
    phases = {}
    inph = False
    name = None
    for raw in open(path, errors="replace"):
        line = raw.split("#")[0].strip()
        if not line:
            continue
        t0 = line.split()[0]
        if _KEYWORD.match(line) and "=" not in line and t0.upper() == t0 and len(t0) > 3 and t0 not in ("H2O",):
            # a keyword line (PHASES, SOLUTION_SPECIES, ...)
            kw = t0
            if kw in ("PHASES",):
                inph = True
                name = None
                continue
            if kw in ("SOLUTION_MASTER_SPECIES", "SOLUTION_SPECIES", "EXCHANGE_MASTER_SPECIES", "EXCHANGE_SPECIES",
                      "SURFACE_MASTER_SPECIES", "SURFACE_SPECIES", "RATES", "END", "PITZER", "SIT", "NAMED_EXPRESSIONS",
                      "ISOTOPES", "CALCULATE_VALUES", "ISOTOPE_RATIOS", "ISOTOPE_ALPHAS", "LLNL_AQUEOUS_MODEL_PARAMETERS",
                      "MEAN_GAMMAS", "KNOBS", "SELECTED_OUTPUT", "USER_PUNCH", "USER_PRINT", "SOLUTION", "MIX", "GAS_BINARY_PARAMETERS"):
                inph = False
                continue
        if not inph:
            continue
        if line.startswith("-") or re.match(r"^(log_k|delta_h|analytic|analytical_expression|Vm|T_c|P_c|Omega|gamma|no_check|check|add_logk|add_log_k|Millero|dw|erm_ddl|viscosity|vm|t_c|p_c|omega)\b", line, re.I):
            continue
        if "=" in line:
            if name is not None:
                lhs = line.split("=")[0].split()
                tok = lhs[0]
                if re.match(r"^\d+\.?\d*$", tok) and len(lhs) > 1:
                    tok = lhs[1]
                phases.setdefault(name, tok)
                name = None
            continue
        name = t0
    return phases


def parse_db_elements(path):
    """element names of SOLUTION_MASTER_SPECIES (valence states folded)"""
    out = set()
    on = False
    for raw in open(path, errors="replace"):
        line = raw.split("#")[0].strip()
        if not line:
            continue
        t0 = line.split()[0]
        if re.match(r"^[A-Z_]{4,}$", t0):
            on = (t0 == "SOLUTION_MASTER_SPECIES")
            continue
        if on:
            out.add(t0.split("(")[0])
            out.add(t0)
    return out


_CHEMS = {}


def chem_for(db):
    if db not in _CHEMS:
        _CHEMS[db] = Chem(os.path.join(vlib.DB, db))
    return _CHEMS[db]


class Chem:
    def __init__(self, dbpath):
        self.phases = parse_db_phases(dbpath)
        self.elements = parse_db_elements(dbpath)

    def knows(self, name):
        """phase of the database, or a formula all of whose elements the database defines"""
        if name in self.phases:
            return True
        try:
            return all(e in self.elements for e in parse_formula(name))
        except Exception:
            return False

    EXTRA = {"Fix_H+": "H+"}          # pH-stat pseudo phase defined by the generated inputs (PHASES block)

    def formula_of(self, name):
        if name in self.EXTRA:
            return parse_formula(self.EXTRA[name])
        """elements of one mole of `name`: a phase of the database, else a formula (as reaction_calc does)"""
        if name in self.phases:
            return parse_formula(self.phases[name])
        low = {k.lower(): k for k in self.phases}
        if name.lower() in low:
            return parse_formula(self.phases[low[name.lower()]])
        return parse_formula(name)


# ------------------------------------------------------------------------------------------------ RAW dump

def split_dumps(d):
    parts = d.split("USE reaction_pressure none\n")
    return [p for p in parts if "_RAW" in p]


def parse_dump(text):
    """-> {(KIND, n): [(option, args, [data line tokens])...]} ; independent of the library's reader."""
    ents = {}
    cur = None
    for line in text.split("\n"):
        if not line.strip():
            continue
        if not line[0].isspace():
            t = line.split()
            if t[0].endswith("_RAW"):
                cur = []
                ents[(t[0][:-4], int(t[1]))] = cur
            else:
                cur = None
            continue
        if cur is None:
            continue
        s = line.split("#")[0].strip()
        if not s:
            continue
        t = s.split()
        if t[0].startswith("-") and len(t[0]) > 1 and t[0][1].isalpha():
            cur.append((t[0][1:], t[1:], []))
        elif cur:
            cur[-1][2].append(t)
    return ents


def _nd(rows):
    return [(r[0], F(r[1])) for r in rows if len(r) >= 2]


def elt_of(key):
    """'C(4)' -> 'C' (primary element of a valence-state total)"""
    return key.split("(")[0]


def ent_solution(b):
    s = {"totals": [], "h": F(0), "o": F(0), "cb": F(0), "water": F(0)}
    for opt, args, rows in b:
        if opt == "totals":
            # H(0)/O(0) totals are part of total_h/total_o already (redox states of H and O)
            s["totals"] = [(elt_of(k), v) for k, v in _nd(rows) if elt_of(k) not in ("H", "O")]
        elif opt == "total_h":
            s["h"] = F(args[0])
        elif opt == "total_o":
            s["o"] = F(args[0])
        elif opt == "cb":
            s["cb"] = F(args[0])
        elif opt == "mass_water":
            s["water"] = F(args[0])
    return s


def ent_exchange(b):
    comps = []
    cur = None
    new_def = False
    for opt, args, rows in b:
        if opt == "component":
            cur = {"name": args[0], "totals": [], "cb": F(0)}
            comps.append(cur)
        elif opt == "totals" and cur is not None and rows:
            cur["totals"] = _nd(rows)
        elif opt == "charge_balance" and cur is not None:
            cur["cb"] = F(args[0])
        elif opt == "new_def":
            new_def = args[0] != "0"
            cur = None
        elif opt in ("solution_equilibria", "n_solution"):
            cur = None
    return {"comps": comps, "new_def": new_def}


def ent_surface(b):
    s = {"type": 0, "dl_type": 0, "comps": [], "charges": [], "new_def": False}
    cur = None
    kind = None
    for opt, args, rows in b:
        if opt == "type":
            s["type"] = int(args[0])
        elif opt == "dl_type":
            s["dl_type"] = int(args[0])
        elif opt == "component":
            cur = {"name": args[0], "totals": [], "cb": F(0)}
            kind = "c"
            s["comps"].append(cur)
        elif opt == "charge_component":
            cur = {"name": args[0], "cb": F(0), "dl": []}
            kind = "q"
            s["charges"].append(cur)
        elif opt == "totals" and kind == "c" and rows:
            cur["totals"] = _nd(rows)
        elif opt == "charge_balance" and cur is not None:
            cur["cb"] = F(args[0])
        elif opt == "diffuse_layer_totals" and kind == "q":
            cur["dl"] = _nd(rows)
        elif opt == "new_def":
            s["new_def"] = args[0] != "0"
            cur = None
            kind = None
    return s


def ent_named_moles(b, comp_opt="component", moles_opt="moles"):
    comps = []
    cur = None
    for opt, args, rows in b:
        if opt == comp_opt:
            cur = {"name": args[0], "moles": F(0), "add_formula": None}
            comps.append(cur)
        elif opt == moles_opt and cur is not None and args:
            cur["moles"] = F(args[0])
        elif opt == "add_formula" and cur is not None and args:
            cur["add_formula"] = args[0]
        elif opt in ("eltList", "new_def", "total_moles", "tk"):
            cur = None if opt != "total_moles" else cur
    return comps


def ent_gas(b):
    return ent_named_moles(b)


def ent_pp(b):
    return ent_named_moles(b)


def ent_ss(b):
    comps = []
    cur = None
    for opt, args, rows in b:
        if opt == "component":
            cur = {"name": args[0], "moles": F(0)}
            comps.append(cur)
        elif opt == "moles" and cur is not None:
            cur["moles"] = F(args[0])
            cur = None          # workspace lines of the same component follow; first -moles is the amount
    return comps


def ent_kinetics(b):
    comps = []
    cur = None
    totals = []
    for opt, args, rows in b:
        if opt == "component":
            cur = {"name": args[0], "m": F(0), "namecoef": []}
            comps.append(cur)
        elif opt == "m" and cur is not None:
            cur["m"] = F(args[0])
        elif opt == "namecoef" and cur is not None:
            cur["namecoef"] = _nd(rows)
        elif opt == "totals" and cur is not None and opt == "totals":
            totals = _nd(rows)
    return {"comps": comps, "totals": totals}


# ------------------------------------------------------------------------------------------------ inventories (python mirror, diagnostics only)

def inv_add(a, items, k=F(1)):
    for e, v in items:
        a[e] = a.get(e, F(0)) + v * k


def fml_items(chem, name, moles):
    return [(e, c * moles) for e, c in sorted(chem.formula_of(name).items())]


def inv_solution(s, k=F(1)):
    a = {}
    inv_add(a, s["totals"], k)
    inv_add(a, [("H", s["h"]), ("O", s["o"]), ("Charge", s["cb"])], k)
    return a


def inv_exchange(x):
    a = {}
    for c in x["comps"]:
        inv_add(a, c["totals"])
        inv_add(a, [("Charge", c["cb"])])
    return a


def inv_surface(s):
    a = {}
    edl = s["type"] in (2, 3, 4)
    for c in s["comps"]:
        inv_add(a, c["totals"])
        if s["type"] == 1:
            inv_add(a, [("Charge", c["cb"])])
    if edl:
        for q in s["charges"]:
            inv_add(a, [("Charge", q["cb"])])
            if s["dl_type"] != 0:
                inv_add(a, q["dl"])
    return a


def inv_phases(chem, comps):
    a = {}
    for c in comps:
        nm = c.get("add_formula") or c["name"]
        inv_add(a, fml_items(chem, nm, c["moles"]))
    return a


def inv_kinetics(chem, k):
    a = {}
    for c in k["comps"]:
        for nm, coef in c["namecoef"]:
            inv_add(a, fml_items(chem, nm, c["m"] * coef))
    return a


# ------------------------------------------------------------------------------------------------ Coq terms

def cq(x):
    fr = F(x)
    return "(%d # %d)" % (fr.numerator, fr.denominator) if fr >= 0 else "(- (%d # %d))" % (-fr.numerator, fr.denominator)


def cinv(items):
    return "[" + "; ".join('("%s", %s)' % (e, cq(v)) for e, v in items) + "]"


def cfml(chem, name):
    return cinv(sorted(chem.formula_of(name).items()))


def copt(x):
    return "None" if x is None else "(Some %s)" % x


def c_solution(s):
    return "(mkSol %s %s %s %s)" % (cinv(s["totals"]), cq(s["h"]), cq(s["o"]), cq(s["cb"]))


def c_exchange(x):
    return "(mkExch %s [%s])" % ("true" if x["new_def"] else "false",
                                 "; ".join("mkEC %s %s" % (cinv(c["totals"]), cq(c["cb"])) for c in x["comps"]))


STYPE = ["UNKNOWN_DL", "NO_EDL", "DDL", "CD_MUSIC", "CCM"]
DLTYPE = ["NO_DL", "BORKOVEK_DL", "DONNAN_DL"]


def c_surface(s):
    return "(mkSurf %s %s %s [%s] [%s])" % (
        STYPE[s["type"]], DLTYPE[s["dl_type"]], "true" if s["new_def"] else "false",
        "; ".join("mkSC %s %s" % (cinv(c["totals"]), cq(c["cb"])) for c in s["comps"]),
        "; ".join("mkSQ %s %s" % (cq(q["cb"]), cinv(q["dl"])) for q in s["charges"]))


def c_pas(chem, comps):
    return "[" + "; ".join("mkPA %s %s" % (cfml(chem, c["name"]), cq(c["moles"])) for c in comps) + "]"


def c_pp(chem, b, comps):
    elts = []
    precip = {}
    cur = None
    for opt, args, rows in b:
        if opt == "eltList":
            elts = [r[0] for r in rows]
        elif opt == "component":
            cur = args[0]
        elif opt == "precipitate_only" and cur:
            precip[cur] = args[0] != "0"
    return "(mkPPA [%s] [%s])" % ("; ".join('"%s"' % e for e in elts),
                                  "; ".join("mkPP %s %s %s 0" % (cfml(chem, c.get("add_formula") or c["name"]), cq(c["moles"]),
                                                                 "true" if precip.get(c["name"]) else "false") for c in comps))


def kin_formula(chem, c):
    a = {}
    for nm, coef in c["namecoef"]:
        inv_add(a, fml_items(chem, nm, coef))
    return sorted(a.items())


def c_kin(chem, k):
    return "(mkKin [%s] [])" % "; ".join("mkKC %s %s" % (cinv(kin_formula(chem, c)), cq(c["m"])) for c in k["comps"])


# ------------------------------------------------------------------------------------------------ generator

SOL_MENU = [  # element, low, high (mmol/kgw), probability
    ("Na", 1, 100, 0.9), ("K", 0.1, 10, 0.6), ("Ca", 0.1, 10, 0.8), ("Mg", 0.1, 10, 0.6), ("S(6)", 0.1, 10, 0.6),
    ("C(4)", 0.5, 5, 0.7), ("Sr", 0.01, 0.5, 0.35), ("Ba", 0.001, 0.01, 0.2), ("Si", 0.05, 0.5, 0.3),
    ("N(5)", 0.05, 2, 0.15), ("Br", 0.01, 1, 0.1)]
PP_MENU = ["Calcite", "Dolomite", "Gypsum", "Celestite", "Barite", "Quartz", "Aragonite", "Anhydrite", "Halite", "Chalcedony", "Strontianite", "Witherite"]
SS_MENU = [("CaSrCO3", "Calcite", "Strontianite"), ("BaSrSO4", "Barite", "Celestite"), ("CaSO4ss", "Anhydrite", "Celestite"),
           ("CaBaCO3", "Aragonite", "Witherite")]
GAS_MENU = ["CO2(g)", "N2(g)", "O2(g)", "H2O(g)", "CH4(g)"]
RXN_MENU = [("NaCl", 1), ("HCl", 1), ("CaCl2", 1), ("NaOH", 1), ("KCl", 1), ("MgSO4", 1), ("CO2", 1), ("Calcite", 1), ("Gypsum", 1),
            ("H2O", 1), ("NaHCO3", 1), ("SrCl2", 0.1), ("BaCl2", 0.01), ("SiO2", 0.1), ("Na2SO4", 1), ("O2", 0.01), ("KBr", 0.1),
            ("Halite", 1), ("CaSO4:2H2O", 0.5), ("Mg(OH)2", 0.3), ("K2CO3", 0.5)]
KIN_MENU = [  # rate name, formula list, phase for SR
    ("Quartz", [("SiO2", 1)], "Quartz"), ("Calcite", [("CaCO3", 1)], "Calcite"), ("Gypsum", [("Gypsum", 1)], "Gypsum"),
    ("Salts", [("NaCl", 1), ("KCl", 0.5)], None), ("Dolo", [("CaMg(CO3)2", 1)], "Dolomite"), ("Celest", [("Celestite", 1)], "Celestite")]


def fnum(x):
    return ("%.6g" % x)


def lu(rng, lo, hi):
    return math.exp(rng.uniform(math.log(lo), math.log(hi)))


ALT_MENU = {"Gypsum": ["CaSO4:2H2O", "CaSO4", "CaCl2", "Na2SO4"], "Calcite": ["CaCO3", "CaCl2", "NaHCO3", "Ca(OH)2"]}
ACIDS, BASES = ["HCl", "H2SO4", "HNO3"], ["NaOH", "KOH", "Ca(OH)2"]


def pp_parse(m):
    """amount field of a generated pure-phase line -> (alternative formula or None, moles text, flag or None)"""
    if isinstance(m, str):
        t = m.split()
        if re.match(r"^[-+0-9.]", t[0]):
            return None, t[0], (t[1] if len(t) > 1 else None)
        return t[0], t[1], None
    return None, fnum(m), None


def pp_alt(c):
    return pp_parse(c[2])[0]


def stat_comp(rng, ch, avoid):
    acid = rng.random() < 0.5
    menu = [f for f in (ACIDS if acid else BASES) if ch.knows(f) and f != avoid]
    f = rng.choice(menu)
    ph = round(rng.uniform(4.0, 5.5) if acid else rng.uniform(9.3, 10.5), 2)
    return ("Fix_H+", -ph, "%s %s" % (f, rng.choice([0.1, 0.1, 0.01, 1])))


def redef_comp(rng, ch, c):
    nm, si, m = c
    alt, moles, flag = pp_parse(m)
    if nm == "Fix_H+":
        return stat_comp(rng, ch, alt)
    if alt:
        menu = [f for f in ALT_MENU.get(nm, []) if f != alt and ch.knows(f)]
        if menu:
            return (nm, si, "%s %s" % (rng.choice(menu), fnum(rng.choice([1e-3, 0.01, 0.1]))))
        return c
    if flag:
        return c
    return (nm, si, rng.choice([0, 1e-4, 1e-3, 0.01]))


def gen_system(rng):
    """-> dict describing one random one-cell system with a chain of USE/SAVE simulations"""
    db = rng.choice(["phreeqc.dat"] * 6 + ["wateq4f.dat", "Amm.dat", "pitzer.dat", "pitzer.dat"])
    ch = chem_for(db)
    S = {"db": db, "sols": [], "sims": []}
    nsol = 1 if rng.random() < 0.6 else rng.choice([2, 3])
    for i in range(nsol):
        comp = [(e, lu(rng, lo, hi)) for e, lo, hi, p in SOL_MENU if rng.random() < p and elt_of(e) in ch.elements]
        if not any(e == "Na" for e, _ in comp):
            comp.append(("Na", lu(rng, 1, 50)))
        S["sols"].append({"n": i + 1, "pH": round(rng.uniform(5.5, 8.8), 2), "temp": rng.choice([25, 25, 25, 15, 35]),
                          "comp": comp, "water": rng.choice([1, 1, 1, 0.5, 2])})
    S["exchange"] = None
    if rng.random() < 0.5:
        if rng.random() < 0.7:
            S["exchange"] = {"kind": "equil", "X": lu(rng, 1e-3, 0.2)}
        else:
            S["exchange"] = {"kind": "explicit", "comps": [("NaX", lu(rng, 1e-3, 0.05)), ("CaX2", lu(rng, 1e-3, 0.05))] +
                             ([("KX", lu(rng, 1e-4, 0.01))] if rng.random() < 0.5 else [])}
    S["surface"] = None
    if rng.random() < 0.5:
        S["surface"] = {"w": lu(rng, 1e-4, 5e-3), "s": (lu(rng, 1e-5, 2e-4) if rng.random() < 0.6 else None),
                        "area": rng.choice([600, 300, 100]), "grams": round(lu(rng, 0.1, 5), 3),
                        "mode": rng.choice(["ddl", "ddl", "donnan", "donnan", "no_edl", "diffuse_layer", "donnan_oci", "ccm", "ccm", "cd_music"]),
                        "cap": rng.choice([1.06, 0.5, 2.0, 5.0])}
    S["pp"] = None
    if rng.random() < 0.6:
        names = rng.sample([p for p in PP_MENU if p in ch.phases], rng.choice([1, 1, 2, 3]))
        comps = [(nm, 0.0, rng.choice([0, 0, 1e-4, 1e-3, 0.01, 0.1])) for nm in names]
        if rng.random() < 0.25:
            # variants: precipitate_only / dissolve_only / alternative formula (the amount is then of that formula)
            nm, si, m = comps[0]
            comps[0] = rng.choice([(nm, si, "%s precipitate_only" % fnum(m)), (nm, si, "%s dissolve_only" % fnum(max(m, 1e-3))),
                                   ("Gypsum", 0.0, "CaSO4:2H2O %s" % fnum(max(m, 1e-3))), ("Calcite", 0.0, "CaCO3 %s" % fnum(max(m, 1e-3)))])
        if rng.random() < 0.3:
            comps.append(("CO2(g)", round(rng.uniform(-3.5, -1.0), 2), rng.choice([10, 0.01, 0.001])))
        S["pp"] = list({c[0]: c for c in comps}.values())       # one line per phase
    S["fixph"] = False
    if rng.random() < 0.3:
        # pH-stat idiom: pseudo phase Fix_H+ with an alternative reactant
        S["fixph"] = True
        S["pp"] = (S["pp"] or []) + [stat_comp(rng, ch, None)]
    S["gas"] = None
    if rng.random() < 0.4:
        gm = [g for g in GAS_MENU if g in ch.phases]
        names = rng.sample(gm, min(len(gm), rng.choice([1, 2, 3])))
        S["gas"] = {"fixed_p": rng.random() < 0.5, "p": rng.choice([1, 1, 2, 0.5]), "vol": round(lu(rng, 0.05, 2), 3),
                    "comps": [(nm, (lu(rng, 1e-3, 0.5) if nm != "H2O(g)" else 0.03)) for nm in names]}
    S["ss"] = None
    if rng.random() < 0.35:
        nm, a, b = rng.choice([t for t in SS_MENU if t[1] in ch.phases and t[2] in ch.phases])
        S["ss"] = [(nm, [(a, rng.choice([0, 1e-4, 1e-3, 0.01])), (b, rng.choice([0, 1e-5, 1e-4, 1e-3]))])]
    S["kin"] = None
    if rng.random() < 0.4:
        ks = rng.sample([k for k in KIN_MENU if (k[2] is None or k[2] in ch.phases) and all(ch.knows(f) for f, _ in k[1])], rng.choice([1, 1, 2]))
        S["kin"] = {"comps": [(nm, fl, ph, lu(rng, 1e-3, 1.0), lu(rng, 1e-9, 1e-6)) for nm, fl, ph in ks],
                    "time": rng.choice([100, 1000, 3600, 86400]), "nsteps": rng.choice([1, 1, 2, 3]),
                    "rk": rng.choice([3, 3, 6, "cvode"])}
    nsim = rng.choice([1, 2, 2, 3, 4])
    cur_pp = S["pp"]
    for k in range(nsim):
        sim = {"incr": rng.random() < 0.5}
        if nsol > 1 and rng.random() < 0.6:
            ids = rng.sample(range(1, nsol + 1), rng.choice(range(2, nsol + 1)))
            if 1 not in ids:
                ids[0] = 1
            sim["mix"] = [(i, round(rng.choice([rng.uniform(0.1, 1.5), rng.uniform(0.1, 1.0), 0.5, 1.0]), 3)) for i in sorted(ids)]
        else:
            sim["mix"] = None
        sim["rxn"] = None
        if rng.random() < 0.85:
            # databases without redox states of oxygen (pitzer.dat) cannot represent added O2: outside their domain
            rs = rng.sample([r for r in RXN_MENU if ch.knows(r[0]) and (r[0] != "O2" or "O(0)" in ch.elements)], rng.choice([1, 1, 2, 3]))
            reactants = [(nm, round(rng.choice([1, 1, 0.5, 2, rng.uniform(0.1, 2)]) * w * (-1 if rng.random() < 0.08 else 1), 4)) for nm, w in rs]
            units = rng.choice(["moles", "mmol", "mmol", "umol", "mol"])
            base = {"moles": lu(rng, 1e-5, 5e-3), "mol": lu(rng, 1e-5, 5e-3), "mmol": lu(rng, 1e-2, 5), "umol": lu(rng, 5, 5000)}[units]
            if rng.random() < 0.5:
                n = rng.choice([1, 2, 3, 4, 6])
                sim["rxn"] = {"reactants": reactants, "units": units, "equal": True, "steps": [round(base, 6)], "count": n}
            else:
                n = rng.choice([1, 2, 3, 4])
                st = sorted(round(base * rng.uniform(0.2, 1.0), 7) for _ in range(n))
                sim["rxn"] = {"reactants": reactants, "units": units, "equal": False, "steps": st, "count": n}
        sim["temps"] = None
        if rng.random() < 0.15:
            sim["temps"] = [rng.choice([20, 25, 30, 40]) for _ in range(rng.choice([2, 3, 5]))]
        sim["run_cells"] = rng.random() < 0.2
        # redefinition of EQUILIBRIUM_PHASES 1 with the SAME phases but other alternative reactants / targets / amounts:
        # the equation set of the previous calculation may be reused (check_same_model) although the stoichiometry changed
        sim["pp_redef"] = None
        if cur_pp and any(pp_alt(c) for c in cur_pp) and rng.random() < 0.6:
            cur_pp = [redef_comp(rng, ch, c) for c in cur_pp]
            sim["pp_redef"] = cur_pp
        S["sims"].append(sim)
    return S


def rates_block(kin):
    out = ["RATES"]
    for nm, fl, ph, m0, k in kin["comps"]:
        out.append("  %s\n  -start" % nm)
        if ph:
            out.append('  10 rate = parm(1) * (1 - SR("%s"))' % ph)
        else:
            out.append("  10 rate = parm(1) * M / M0")
        out += ["  20 moles = rate * TIME", "  30 if (moles > M) then moles = M", "  40 SAVE moles", "  -end"]
    return out


def render_pp(comps):
    L = ["EQUILIBRIUM_PHASES 1"]
    for nm, si, m in comps:
        L.append("  %s %s %s" % (nm, si, m if isinstance(m, str) else fnum(m)))
    return L


def render_input(S):
    L = []
    for s in S["sols"]:
        L.append("SOLUTION %d" % s["n"])
        L.append("  temp %s\n  pH %s\n  water %s" % (s["temp"], s["pH"], s["water"]))
        z = {"Na": 1, "K": 1, "Ca": 2, "Mg": 2, "Sr": 2, "Ba": 2, "S(6)": -2, "C(4)": -1, "N(5)": -1, "Br": -1, "Si": 0}
        net = sum(z.get(e, 0) * v for e, v in s["comp"])
        if net > 0.5:
            for e, v in s["comp"]:
                L.append("  %s %s" % (e, fnum(v)))
            L.append("  Cl %s charge" % fnum(net))
        else:
            for e, v in s["comp"]:
                L.append("  %s %s%s" % (e, fnum(v - net + 1 if e == "Na" else v), " charge" if e == "Na" else ""))
            L.append("  Cl 1")
    x = S["exchange"]
    if x:
        L.append("EXCHANGE 1")
        if x["kind"] == "equil":
            L.append("  X %s\n  -equilibrate 1" % fnum(x["X"]))
        else:
            for nm, v in x["comps"]:
                L.append("  %s %s" % (nm, fnum(v)))
    sf = S["surface"]
    if sf:
        L.append("SURFACE 1")
        L.append("  Hfo_w %s %s %s" % (fnum(sf["w"]), sf["area"], sf["grams"]))
        if sf["s"]:
            L.append("  Hfo_s %s" % fnum(sf["s"]))
        L.append("  -equilibrate 1")
        L += {"ddl": [], "donnan": ["  -donnan"], "no_edl": ["  -no_edl"], "diffuse_layer": ["  -diffuse_layer 1e-8"],
              "donnan_oci": ["  -donnan", "  -only_counter_ions"],
              "ccm": ["  -ccm %s" % sf.get("cap", 1.06)],
              "cd_music": ["  -cd_music", "  -capacitances 1 5"]}[sf["mode"]]
    if S.get("fixph"):
        L.append("PHASES\n  Fix_H+\n    H+ = H+\n    log_k 0.0")
    if S["pp"]:
        L += render_pp(S["pp"])
    g = S["gas"]
    if g:
        L.append("GAS_PHASE 1")
        L.append("  -fixed_pressure\n  -pressure %s" % g["p"] if g["fixed_p"] else "  -fixed_volume")
        L.append("  -volume %s\n  -temperature 25" % g["vol"])
        for nm, p in g["comps"]:
            L.append("  %s %s" % (nm, fnum(p)))
    if S["ss"]:
        L.append("SOLID_SOLUTIONS 1")
        for nm, comps in S["ss"]:
            L.append("  %s" % nm)
            for c, m in comps:
                L.append("    -comp %s %s" % (c, fnum(m)))
    k = S["kin"]
    if k:
        L.append("KINETICS 1")
        for nm, fl, ph, m0, kk in k["comps"]:
            L.append("  %s\n    -formula %s\n    -m0 %s\n    -parms %s" % (nm, " ".join("%s %s" % (f, c) for f, c in fl), fnum(m0), fnum(kk)))
        L.append("  -steps %s in %d steps" % (k["time"], k["nsteps"]))
        if k["rk"] == "cvode":
            L.append("  -cvode true")
        else:
            L.append("  -runge_kutta %s" % k["rk"])
        L += rates_block(k)
    L.append("SELECTED_OUTPUT 1\n  -reset false\n  -simulation true\n  -state true\n  -step true")
    ELS = [e for e in ELEMENTS if e in chem_for(S["db"]).elements]
    L.append("USER_PUNCH 1\n  -headings %s CB %s" % (" ".join("SYS_" + e for e in ELS),
                                                   " ".join("KIN_" + c[0] for c in (k["comps"] if k else []))))
    L.append("  10 PUNCH %s" % ", ".join('SYS("%s")' % e for e in ELS))
    L.append("  20 PUNCH CHARGE_BALANCE")
    if k:
        L.append("  30 PUNCH %s" % ", ".join('KIN("%s")' % c[0] for c in k["comps"]))
    L.append("USE solution none\nDUMP\n  -all\nEND")
    simno = 1
    for i, sim in enumerate(S["sims"]):
        r = sim["rxn"]
        rx = []
        if r:
            rx.append("REACTION 1")
            rx.append("  " + " ".join("%s %s" % (nm, c) for nm, c in r["reactants"]))
            if r["equal"]:
                rx.append("  %s %s in %d steps" % (fnum(r["steps"][0]), r["units"], r["count"]))
            else:
                rx.append("  %s %s" % (" ".join(fnum(x) for x in r["steps"]), r["units"]))
        if sim.get("run_cells"):
            # cell 1 = everything numbered 1; clear left-overs of earlier simulations first (DELETE acts at the end of a simulation)
            L.append("DELETE\n  -mix 1\n  -reaction 1\n  -reaction_temperature 1\nEND")
            simno += 2
            L.append("INCREMENTAL_REACTIONS %s" % ("true" if sim["incr"] else "false"))
            if sim.get("pp_redef"):
                L += render_pp(sim["pp_redef"])
            if sim["mix"]:
                L.append("MIX 1")
                for n, f in sim["mix"]:
                    L.append("  %d %s" % (n, f))
                L.append("USE mix none")         # no separate batch-reaction calculation; RUN_CELLS picks MIX 1 up itself
            L += rx
            if sim["temps"]:
                L.append("REACTION_TEMPERATURE 1\n  %s" % " ".join(str(t) for t in sim["temps"]))
            L.append("RUN_CELLS\n  -cells 1")
            if S["kin"]:
                L.append("  -time_step %s" % S["kin"]["time"])
            sim["_simno"] = simno
            L.append("DUMP\n  -all\n  -append true\nEND")
            continue
        simno += 1
        sim["_simno"] = simno
        L.append("INCREMENTAL_REACTIONS %s" % ("true" if sim["incr"] else "false"))
        if sim.get("pp_redef"):
            L += render_pp(sim["pp_redef"])
        if sim["mix"]:
            L.append("MIX 1")
            for n, f in sim["mix"]:
                L.append("  %d %s" % (n, f))
            L.append("USE mix 1")
        else:
            L.append("USE solution 1")
        for kw, key in (("exchange", "exchange"), ("surface", "surface"), ("equilibrium_phases", "pp"), ("gas_phase", "gas"),
                        ("solid_solutions", "ss"), ("kinetics", "kin")):
            if S[key]:
                L.append("USE %s 1" % kw)
        if r:
            L += rx
        else:
            L.append("USE reaction none")
        if sim["temps"]:
            L.append("REACTION_TEMPERATURE 1\n  %s" % " ".join(str(t) for t in sim["temps"]))
        else:
            L.append("USE reaction_temperature none")
        L.append("SAVE solution 1")
        for kw, key in (("exchange", "exchange"), ("surface", "surface"), ("equilibrium_phases", "pp"), ("gas_phase", "gas"),
                        ("solid_solutions", "ss")):
            if S[key]:
                L.append("SAVE %s 1" % kw)
        L.append("DUMP\n  -all\n  -append true\nEND")
    return "\n".join(L) + "\n"


# ------------------------------------------------------------------------------------------------ analysis of one run

def ent_reaction(b):
    r = {"reactants": [], "steps": [], "count": 0, "equal": False, "units": "Mol"}
    for opt, args, rows in b:
        if opt == "reactant_list":
            r["reactants"] = _nd(rows)
        elif opt == "steps":
            r["steps"] = [F(t) for row in rows for t in row] + [F(t) for t in args]
        elif opt == "count_steps":
            r["count"] = int(args[0])
        elif opt == "equal_increments":
            r["equal"] = args[0] != "0"
        elif opt == "units" and args:
            r["units"] = args[0]
    return r


def step_x_py(incr, equal, steps, count, n, units):
    """python mirror of StepTable.model_stepf (diagnostics only)"""
    L = len(steps)
    if not incr:
        if not equal and L > 0:
            x = steps[L - 1] if n > L else steps[n - 1]
        elif equal and L > 0:
            x = steps[0] if n > count else steps[0] * n / count
        else:
            x = F(0)
    else:
        if not equal and L > 0:
            idx = (count - 1) if n > count else (n - 1)
            x = steps[idx] if 0 <= idx < L else F(0)
        elif equal and L > 0:
            x = F(0) if n > count else steps[0] / count
        else:
            x = F(0)
    c = units[:1]
    return x * {"m": F(1, 1000), "u": F(1, 10 ** 6), "n": F(1, 10 ** 9)}.get(c, F(1))


def total_amount_py(incr, equal, steps, count, units, nsteps):
    if incr:
        return sum((step_x_py(True, equal, steps, count, k, units) for k in range(1, nsteps + 1)), F(0))
    return step_x_py(False, equal, steps, count, nsteps, units)


KINDS = [("EXCHANGE", "exchange"), ("SURFACE", "surface"), ("GAS_PHASE", "gas"), ("EQUILIBRIUM_PHASES", "pp"),
         ("SOLID_SOLUTIONS", "ss"), ("KINETICS", "kin")]


def pp_def_block(chem, comps):
    """a freshly defined EQUILIBRIUM_PHASES block in the shape parse_dump gives (std::map order = sorted by name)"""
    b, elts = [], set()
    for nm, si, m in sorted({c[0]: c for c in comps}.values(), key=lambda c: c[0]):      # a repeated name: last line wins
        alt, moles, flag = pp_parse(m)
        b.append(("component", [nm], []))
        if alt:
            b.append(("add_formula", [alt], []))
            elts |= set(chem.formula_of(alt))
        elts |= set(chem.formula_of(nm))
        b.append(("moles", [moles], []))
        b.append(("precipitate_only", ["1" if flag == "precipitate_only" else "0"], []))
    b.append(("eltList", [], [[e, "1"] for e in sorted(elts)]))
    return b


class Skip(Exception):
    pass


def build_cases(chem, S, result):
    """-> list of dicts {coq: text of a ccase, sim, expected: {e: F}, after: {e: F}, amounts: [...], rows: [...]}"""
    dumps = split_dumps(result.get("dump", ""))
    if len(dumps) < len(S["sims"]) + 1:
        raise Skip("dump count %d < %d" % (len(dumps), len(S["sims"]) + 1))
    dumps = dumps[-(len(S["sims"]) + 1):]      # a failed previous job can leave a stale block in front
    rows = vlib.table_dicts(result["tables"].get("1"))
    out = []
    prev = parse_dump(dumps[0])
    for k, sim in enumerate(S["sims"]):
        cur = parse_dump(dumps[k + 1])
        simno = sim.get("_simno", k + 2)
        srows = [r for r in rows if r.get("sim") == simno and r.get("state") == "react"]
        nsteps = len(srows)
        if nsteps < 1:
            if not sim["rxn"] and not sim["mix"] and not any(S[key] for _, key in KINDS):
                prev = cur          # nothing to react with: no batch-reaction calculation is made
                continue
            raise Skip("no reaction rows for simulation %d" % simno)
        # --- before
        if sim["mix"]:
            mix = [(F(str(f)), ent_solution(prev[("SOLUTION", n)])) for n, f in sim["mix"]]
            c_mix, c_sol = "(Some [%s])" % "; ".join("(%s, %s)" % (cq(f), c_solution(s)) for f, s in mix), "None"
        else:
            mix = [(F(1), ent_solution(prev[("SOLUTION", 1)]))]
            c_mix, c_sol = "None", copt(c_solution(mix[0][1]))
        expected = {}
        for f, s in mix:
            inv_add(expected, sorted(inv_solution(s, f).items()))
        cb, ca = {}, {}
        amounts = []
        for KW, key in KINDS:
            if not S[key]:
                cb[key] = ca[key] = "None"
                continue
            if (KW, 1) not in prev or (KW, 1) not in cur:
                raise Skip("%s 1 missing in dump" % KW)
            bb, ba = prev[(KW, 1)], cur[(KW, 1)]
            if key == "exchange":
                eb, ea = ent_exchange(bb), ent_exchange(ba)
                cb[key], ca[key] = copt(c_exchange(eb)), copt(c_exchange(ea))
                ib, ia = inv_exchange(eb), inv_exchange(ea)
                amounts += [v for c in ea["comps"] for _, v in c["totals"]]
            elif key == "surface":
                eb, ea = ent_surface(bb), ent_surface(ba)
                cb[key], ca[key] = copt(c_surface(eb)), copt(c_surface(ea))
                ib, ia = inv_surface(eb), inv_surface(ea)
            elif key in ("gas", "ss"):
                eb, ea = (ent_gas if key == "gas" else ent_ss)(bb), (ent_gas if key == "gas" else ent_ss)(ba)
                cb[key], ca[key] = copt(c_pas(chem, eb)), copt(c_pas(chem, ea))
                ib, ia = inv_phases(chem, eb), inv_phases(chem, ea)
                amounts += [c["moles"] for c in ea]
            elif key == "pp":
                if sim.get("pp_redef"):
                    bb = pp_def_block(chem, sim["pp_redef"])
                eb, ea = ent_pp(bb), ent_pp(ba)
                cb[key], ca[key] = copt(c_pp(chem, bb, eb)), copt(c_pp(chem, ba, ea))
                ib, ia = inv_phases(chem, eb), inv_phases(chem, ea)
                amounts += [c["moles"] for c in ea]
            else:
                eb, ea = ent_kinetics(bb), ent_kinetics(ba)
                cb[key], ca[key] = copt(c_kin(chem, eb)), copt(c_kin(chem, ea))
                ib, ia = inv_kinetics(chem, eb), inv_kinetics(chem, ea)
                amounts += [c["m"] for c in ea["comps"]]
            inv_add(expected, sorted(ib.items()))
            ca[key + "_inv"] = ia
        sa = ent_solution(cur[("SOLUTION", 1)])
        after = {}
        inv_add(after, sorted(inv_solution(sa).items()))
        for KW, key in KINDS:
            if S[key]:
                inv_add(after, sorted(ca[key + "_inv"].items()))
        # --- reaction
        if sim["rxn"]:
            if ("REACTION", 1) not in cur:
                raise Skip("REACTION 1 missing in dump")
            r = ent_reaction(cur[("REACTION", 1)])
            count = r["count"] if r["equal"] else len(r["steps"])
            amt = total_amount_py(sim["incr"], r["equal"], r["steps"], count, r["units"], nsteps)
            rinv = {}
            for nm, coef in r["reactants"]:
                inv_add(rinv, fml_items(chem, nm, coef))
            inv_add(expected, sorted(rinv.items()), amt)
            c_rxn = "(Some [%s])" % "; ".join("(%s, %s)" % (cq(coef), cfml(chem, nm)) for nm, coef in r["reactants"])
            c_step = "%s [%s] (%d) (%d)" % ("true" if r["equal"] else "false", "; ".join(cq(x) for x in r["steps"]), count, ord(r["units"][0]))
        else:
            r, amt, rinv = None, F(0), {}
            c_rxn = "None"
            c_step = "false [] (0) (77)"
        use = "(mkUse %s %s %s None %s %s %s %s %s)" % (c_mix, c_sol, c_rxn, cb["exchange"], cb["surface"], cb["gas"], cb["pp"], cb["ss"])
        ents = "(mkEnts %s %s %s %s %s %s %s)" % (c_solution(sa), ca["exchange"], ca["surface"], ca["gas"], ca["pp"], ca["ss"], ca["kin"])
        coq = "(mkCase %s %s %s %s %d%%nat %s)" % (use, cb["kin"], "true" if sim["incr"] else "false", c_step, nsteps, ents)
        # --- per-step rows: SYS(e) + kinetic reactants = before + cumulative reaction
        steprows = []
        alt_elts = set()
        if S["pp"]:
            for c_ in ent_pp(pp_def_block(chem, sim["pp_redef"]) if sim.get("pp_redef") else prev[("EQUILIBRIUM_PHASES", 1)]):
                if c_.get("add_formula"):
                    alt_elts |= set(chem.formula_of(c_["add_formula"]))
        base = dict(expected)
        inv_add(base, sorted(rinv.items()), -amt)
        for i, row in enumerate(srows, 1):
            a_k = total_amount_py(sim["incr"], r["equal"], r["steps"], r["count"] if r["equal"] else len(r["steps"]), r["units"], i) if r else F(0)
            obs = {e: F(row["SYS_" + e]) for e in ELEMENTS if isinstance(row.get("SYS_" + e), float) and e not in alt_elts}
            if S["kin"]:
                kb = ent_kinetics(prev[("KINETICS", 1)])
                for c in kb["comps"]:
                    m = row.get("KIN_" + c["name"])
                    if not isinstance(m, float):
                        raise Skip("KIN column missing")
                    for e, v in kin_formula(chem, c):
                        if e in obs:
                            obs[e] += v * F(m)
            steprows.append((i, a_k, obs))
        out.append({"sim": simno, "coq": coq, "expected": expected, "after": after, "amounts": amounts, "nsteps": nsteps,
                    "amt": amt, "rinv": rinv, "base": base, "steprows": steprows, "has_mix": bool(sim["mix"]),
                    "incr": sim["incr"], "c_step": c_step})
        prev = cur
    return out


def scale_py(expected, e):
    if e == "Charge":
        return sum((abs(v) for k, v in expected.items() if k not in ("H", "O", "Charge")), F(0))
    return abs(expected.get(e, F(0)))


def diagnose(case):
    """python mirror of Checker.check_case (exact Fractions) -> list of problems"""
    bad = []
    exp, aft = case["expected"], case["after"]
    for e in sorted(set(exp) | set(aft)):
        d = abs(aft.get(e, F(0)) - exp.get(e, F(0)))
        if d > TOL * scale_py(exp, e) + FLOOR:
            bad.append({"element": e, "expected": float(exp.get(e, 0)), "observed": float(aft.get(e, 0)),
                        "deviation": float(d), "allowed": float(TOL * scale_py(exp, e))})
    for a in case["amounts"]:
        if a < 0:
            bad.append({"negative_amount": float(a)})
    return bad


def diagnose_rows(case):
    bad = []
    for i, a_k, obs in case["steprows"]:
        for e, v in sorted(obs.items()):
            if e in ("H", "O") and case.get("skip_ho"):
                continue
            ex = case["base"].get(e, F(0)) + a_k * case["rinv"].get(e, F(0))
            sc = abs(ex)
            if abs(v - ex) > TOL * sc + FLOOR:
                bad.append({"step": i, "element": e, "expected": float(ex), "observed": float(v), "deviation": float(abs(v - ex)),
                            "allowed": float(TOL * sc)})
    return bad


# ------------------------------------------------------------------------------------------------ the check

FLOOR = F(1, 10 ** 24)        # absolute floor: less than one atom (1/N_A = 1.66e-24 mol)
KEY_RK = "C02:rk_kinetics-ignores-MASS_BALANCE"
KEY_CD = "C02:cd_music-surface-charge-lost-on-save"
GEN_FILE = os.path.join(vlib.COQ, "Gen", "Gen_C02_Step.v")


def gen():
    sys.path.insert(0, os.path.join(vlib.VERIF, "translator"))
    import importlib
    import c02_step
    importlib.reload(c02_step)
    try:
        text = c02_step.generate(vlib.REPO)
    except Exception as ex:
        # leave a file that cannot satisfy the obligations rather than a stale one
        vlib.write_if_changed(GEN_FILE, "(* translator refused: %s *)\n" % str(ex).replace("*)", "* )")[:500])
        raise
    vlib.write_if_changed(GEN_FILE, text)


def corpus_systems():
    """fixed cases run first on every run"""
    rk = {"db": "phreeqc.dat",
          "sols": [{"n": 1, "pH": 7.0, "temp": 25, "water": 1, "comp": [("Na", 2.0), ("K", 1.0), ("Ca", 1.0)]}],
          "exchange": {"kind": "equil", "X": 0.02}, "surface": None, "pp": None, "gas": None, "ss": None,
          "kin": {"comps": [("Quartz", [("SiO2", 1)], "Quartz", 0.1, 1e-8)], "time": 100, "nsteps": 1, "rk": 3},
          "sims": [{"incr": False, "mix": None, "temps": None, "run_cells": False,
                    "rxn": {"reactants": [("SrCl2", -1)], "units": "moles", "equal": False, "steps": [1e-6], "count": 1}}],
          "corpus": "rk_kinetics-negative-moles"}
    probe = {"db": "phreeqc.dat",
             "sols": [{"n": 1, "pH": 7.0, "temp": 25, "water": 1, "comp": [("Na", 10.0), ("Ca", 2.0), ("C(4)", 4.0)]},
                      {"n": 2, "pH": 6.0, "temp": 25, "water": 1, "comp": [("K", 5.0), ("Na", 1.0)]}],
             "exchange": {"kind": "equil", "X": 0.05},
             "surface": {"w": 0.002, "s": 0.0001, "area": 600, "grams": 1, "mode": "donnan"},
             "pp": [("Calcite", 0.0, 0.01), ("Gypsum", 0.0, 0)],
             "gas": {"fixed_p": False, "p": 1, "vol": 1, "comps": [("CO2(g)", 0.01), ("O2(g)", 0.2)]},
             "ss": [("CaSrSO4", [("Anhydrite", 0.001), ("Celestite", 0.0005)])],
             "kin": {"comps": [("Quartz", [("SiO2", 1)], "Quartz", 1.0, 1e-7)], "time": 1000, "nsteps": 2, "rk": 3},
             "sims": [{"incr": False, "mix": None, "temps": None, "run_cells": False,
                       "rxn": {"reactants": [("HCl", 1), ("CaCl2", 0.5)], "units": "mmol", "equal": True, "steps": [1.0], "count": 2}},
                      {"incr": True, "mix": [(1, 0.7), (2, 0.3)], "temps": None, "run_cells": False,
                       "rxn": {"reactants": [("NaOH", 1)], "units": "umol", "equal": False, "steps": [100.0, 200.0, 50.0], "count": 3}}],
             "corpus": "all-reactant-kinds"}
    ccm = {"db": "phreeqc.dat",
           "sols": [{"n": 1, "pH": 5.0, "temp": 25, "water": 1, "comp": [("Na", 10.0)]}],
           "exchange": None, "surface": {"w": 2e-3, "s": 5e-5, "area": 600, "grams": 1.0, "mode": "ccm", "cap": 1.06},
           "pp": None, "gas": None, "ss": None, "kin": None,
           "sims": [{"incr": False, "mix": None, "temps": None, "run_cells": False,
                     "rxn": {"reactants": [("NaOH", 1)], "units": "mmol", "equal": False, "steps": [0.2], "count": 1}},
                    {"incr": False, "mix": None, "temps": None, "run_cells": False, "rxn": None},
                    {"incr": False, "mix": None, "temps": None, "run_cells": True,
                     "rxn": {"reactants": [("HCl", 1)], "units": "mmol", "equal": False, "steps": [0.1], "count": 1}}],
           "corpus": "ccm-surface-save-use-chain"}
    cdm = json.loads(json.dumps(ccm))
    cdm["surface"]["mode"] = "cd_music"
    cdm["corpus"] = "cd_music-surface-save-use-chain"
    stat = {"db": "phreeqc.dat",
            "sols": [{"n": 1, "pH": 7.0, "temp": 25, "water": 1, "comp": [("Na", 160.0), ("C(4)", 1.0), ("Ca", 20.0)]}],
            "exchange": None, "surface": None, "gas": None, "ss": None, "kin": None, "fixph": True,
            "pp": [("Fix_H+", -5.0, "HCl 0.1"), ("Gypsum", 0.0, "CaSO4 0.01")],
            "sims": [{"incr": False, "mix": None, "temps": None, "run_cells": False, "rxn": None, "pp_redef": None},
                     {"incr": False, "mix": None, "temps": None, "run_cells": False, "rxn": None,
                      "pp_redef": [("Fix_H+", -10.0, "NaOH 0.1"), ("Gypsum", 0.0, "CaCl2 0.01")]},
                     {"incr": False, "mix": None, "temps": None, "run_cells": True,
                      "rxn": {"reactants": [("NaCl", 1)], "units": "mmol", "equal": False, "steps": [1.0], "count": 1},
                      "pp_redef": [("Fix_H+", -4.5, "H2SO4 0.1"), ("Gypsum", 0.0, "Na2SO4 0.01")]}],
            "corpus": "pH-stat-alternative-reactant-redefined"}
    return [rk, probe, ccm, cdm, stat]


def features(S):
    f = [k for k in ("exchange", "surface", "pp", "gas", "ss", "kin") if S[k]]
    if S["surface"]:
        f.append("surf:" + S["surface"]["mode"])
    if any(s["mix"] for s in S["sims"]):
        f.append("mix")
    if any(s["rxn"] for s in S["sims"]):
        f.append("reaction")
    if any(s["incr"] for s in S["sims"]):
        f.append("incremental")
    if S.get("fixph"):
        f.append("pH-stat")
    if any(s.get("pp_redef") for s in S["sims"]):
        f.append("pp_redefined")
    if any(s.get("run_cells") for s in S["sims"]):
        f.append("run_cells")
    f.append("chain%d" % len(S["sims"]))
    f.append(S["db"])
    return f


CASES_HEADER = """From Coq Require Import QArith String List ZArith Bool.
From IPV.C02 Require Import Inv Model StepTable Checker%s.
Import ListNotations.
Local Open Scope string_scope.
Local Open Scope list_scope.
Open Scope Q_scope.
Definition tol : Q := %s.
Definition floor : Q := %s.
"""


def c_rows(case, sim_rxn, S):
    """Coq rcase for the per-step SYS() rows of one simulation (None if there is nothing to compare)"""
    rows = []
    skip_ho = bool(S["surface"]) and S["surface"]["mode"] in ("donnan", "donnan_oci", "diffuse_layer")
    for i, a_k, obs in case["steprows"]:
        items = [(e, v) for e, v in sorted(obs.items()) if not (skip_ho and e in ("H", "O"))]
        rows.append(cinv(items))
    if not rows:
        return None
    base = cinv(sorted((e, v) for e, v in case["base"].items() if e != "Charge"))
    rxn = cinv(sorted(case["rinv"].items()))
    return "(mkRows %s %s %s %s [%s])" % (base, rxn, "true" if case["incr"] else "false", case["c_step"], "; ".join(rows))


def coq_verdicts(cases_coq, rows_coq, use_gen, timeout=900):
    """Evaluate the verified checker inside Coq. Returns (list of bool, list of bool) or None on failure."""
    stepf = "gen_stepf" if use_gen else "model_stepf"
    hdr = CASES_HEADER % (" GenProofs" if use_gen else "", cq(TOL), cq(FLOOR))
    txt = [hdr]
    txt.append("Definition cases : list ccase := [\n%s\n]." % ";\n".join(cases_coq))
    txt.append("Definition rcases : list rcase := [\n%s\n]." % ";\n".join(rows_coq))
    txt.append("Eval vm_compute in (map (check_case %s tol floor) cases)." % stepf)
    txt.append("Eval vm_compute in (map (check_rows %s tol floor) rcases)." % stepf)
    rc, out = vlib.coq_eval("\n".join(txt) + "\n", timeout=timeout)
    if rc != 0:
        return None, out
    blocks = re.findall(r"=\s*(\[[^\]]*\]|nil)\s*:\s*list bool", out.replace("\n", " "))
    if len(blocks) != 2:
        return None, out
    res = [[t == "true" for t in re.findall(r"true|false", b)] for b in blocks]
    if len(res[0]) != len(cases_coq) or len(res[1]) != len(rows_coq):
        return None, out
    return res, out


def run_systems(ctx, chem, systems, use_gen, stats, label):
    """run the systems through the library, build cases, let Coq judge them; report violations"""
    import time
    t0 = time.time()
    jobs = [{"id": i, "db": S["db"], "text": render_input(S), "flags": ["dump"]} for i, S in enumerate(systems)]
    res = vlib.run_inputs(jobs, timeout_each=12, workers=min(6, vlib.NCPU))
    stats["t_engine_s"] += round(time.time() - t0, 1)
    t0 = time.time()
    items = []       # (system index, case dict)
    for i, S in enumerate(systems):
        r = res.get(i, {})
        if r.get("timeout") or r.get("crash") or "rc" not in r:
            stats["timeout_or_crash"] += 1
            continue
        if r["rc"] != 0:
            stats["error_runs(outside premises)"] += 1
            continue
        try:
            cases = build_cases(chem_for(S["db"]), S, r)
        except Skip as ex:
            stats["skipped:" + str(ex)[:40]] = stats.get("skipped:" + str(ex)[:40], 0) + 1
            continue
        except Exception as ex:
            ctx.obligation("dump-parser(%s #%d)" % (label, i), False, repr(ex))
            continue
        stats["systems_ok"] += 1
        for c in cases:
            c["warn"] = r.get("warn", "")
            items.append((i, c))
    if not items:
        return
    # shards, evaluated by parallel coqc processes
    import concurrent.futures as cf
    shard = 24
    parts = [items[s0:s0 + shard] for s0 in range(0, len(items), shard)]

    def prep(part):
        cc = [c["coq"] for _, c in part]
        rr, rmap = [], []
        for k, (i, c) in enumerate(part):
            t = c_rows(c, None, systems[i])
            if t:
                rmap.append(k)
                rr.append(t)
        return cc, rr, rmap

    preps = [prep(p) for p in parts]
    with cf.ThreadPoolExecutor(max_workers=min(5, max(1, vlib.NCPU // 3))) as ex:
        futs = [ex.submit(coq_verdicts, cc, rr, use_gen) for cc, rr, _ in preps]
        verdicts = [f.result() for f in futs]
    stats["t_coq_cases_s"] += round(time.time() - t0, 1)
    for pi, part in enumerate(parts):
        cc, rr, rmap = preps[pi]
        verdict, out = verdicts[pi]
        if verdict is None:
            ctx.obligation("coq-evaluation(cases %s shard %d)" % (label, pi), False, out[-1500:])
            verdict = ([None] * len(cc), [None] * len(rr))
        rowv = dict(zip(rmap, verdict[1]))
        for k, (i, c) in enumerate(part):
            S = systems[i]
            py_bad = diagnose(c)
            c["skip_ho"] = bool(S["surface"]) and S["surface"]["mode"] in ("donnan", "donnan_oci", "diffuse_layer")
            py_rows = diagnose_rows(c)
            v1 = verdict[0][k]
            v2 = rowv.get(k, True)
            stats["cases"] += 1
            ctx.case({"t": jobs[i]["text"], "sim": c["sim"]},
                     sample={"system": features(S), "simulation": c["sim"], "steps": c["nsteps"], "reaction_amount_mol": float(c["amt"]),
                             "elements": len(c["expected"]), "verdict": "conserved" if (v1 and v2) else "VIOLATED"},
                     nontrivial=bool(c["amt"] != 0 or S["kin"] or len(features(S)) > 2))
            if v1 is None:
                v1, v2 = (not py_bad), (not py_rows)       # Coq unavailable: python mirror only (recorded as failed obligation above)
            else:
                if v1 != (not py_bad) or (v2 is not None and v2 != (not py_rows)):
                    ctx.obligation("checker-vs-mirror agreement(%s #%d sim %d)" % (label, i, c["sim"]), False,
                                   "coq=%s/%s python=%s/%s" % (v1, v2, py_bad[:2], py_rows[:2]))
            if v1 and v2:
                continue
            rk_sig = bool(S["kin"]) and S["kin"]["rk"] != "cvode" and "Negative moles in solution" in c["warn"]
            bad_elts = set(b.get("element", "amount") for b in py_bad + py_rows)
            cd_sig = (not rk_sig and bool(S["surface"]) and S["surface"]["mode"] == "cd_music" and "Charge" in bad_elts
                      and bad_elts <= {"Charge", "H", "O"})
            key = KEY_RK if rk_sig else KEY_CD if cd_sig else "C02:" + vlib.key_of([jobs[i]["text"], c["sim"]])
            what = ("element/charge inventory not conserved in simulation %d (%s)" % (c["sim"], ", ".join(features(S))))
            if rk_sig:
                what = ("rk_kinetics ignores MASS_BALANCE of the first reaction step and saves an unsolved system: "
                        "inventory not conserved, no error (simulation %d)" % c["sim"])
            if cd_sig:
                what = ("xsurface_save stores charge_balance 0 for CD_MUSIC charge planes: the surface charge is lost on "
                        "SAVE/USE, net charge not conserved (simulation %d)" % c["sim"])
            ctx.violation(key, what, {"kind": "input", "input_text": jobs[i]["text"], "database": S["db"], "simulation": c["sim"],
                                      "system": S, "observed": (py_bad + py_rows)[:8],
                                      "expected": "after = before + reaction stoichiometry within 1e-6 of the inventory; no negative amounts",
                                      "coq_verdict": [v1, v2]})
            stats["violations"] += 1


def run(ctx):
    import collections
    stats = collections.Counter()
    import time
    t0 = time.time()
    ok = vlib.coq_stage(ctx, "Props/Properties_C02.vo", gen=gen, extra_targets=("C02/Examples.vo",), timeout=900)
    stats["t_coq_stage_s"] = round(time.time() - t0, 1)
    # is the model side (without the generated file) still available?
    use_gen = ok
    if not ok:
        r = vlib.coq_make(["C02/Checker.vo"], timeout=600)
        if not r["C02/Checker.vo"][0]:
            ctx.obligation("model builds without Gen (C02/Checker.vo)", False, r["C02/Checker.vo"][1][-1500:])
    chem = Chem(os.path.join(vlib.DB, "phreeqc.dat"))
    ctx.rule = ("random one-cell systems (SOLUTION or MIX + REACTION + any subset of EXCHANGE, SURFACE[ddl|ccm|cd_music|donnan|diffuse_layer|no_edl], "
                "EQUILIBRIUM_PHASES, GAS_PHASE[fixed p|fixed V], SOLID_SOLUTIONS, KINETICS[rk|cvode]), 1-6 reaction steps, cumulative or "
                "incremental, 1-4 chained USE/SAVE simulations, DUMP -all after each; a case = one simulation; non-trivial = reaction amount "
                "!= 0 or kinetics or >= 2 reactant kinds")
    if ctx.replay:
        rp = json.load(open(ctx.replay))
        S = rp.get("system")
        if not S:
            ctx.obligation("replay file has a system description", False, ctx.replay)
            return
        run_systems(ctx, chem, [S], use_gen, stats, "replay")
        ctx.extra["input_distribution"] = dict(stats)
        return
    run_systems(ctx, chem, corpus_systems(), use_gen, stats, "corpus")
    n = ctx.n(70, 1500)
    if not ok:
        n = max(n, 200)        # broken tie: search harder for a concrete failing input (reaction-heavy by construction)
    systems = [gen_system(ctx.rng) for _ in range(n)]
    feat = collections.Counter()
    for S in systems:
        feat.update(features(S))
    for b0 in range(0, n, 120):
        run_systems(ctx, chem, systems[b0:b0 + 120], use_gen, stats, "random%d" % b0)
    ctx.extra["input_distribution"] = {"systems": n, "features": dict(feat), "outcomes": dict(stats)}
    ctx.trusted += ["independent parsers of RAW dumps, chemical formulas and PHASES blocks (props/c02.py)",
                    "translator/c02_step.py (clang JSON AST -> Gallina); validated on every run by using gen_stepf in the correspondence",
                    "equilibrium solver, kinetic integrator: oracles (Section variables eps / eq_result / kin transfer)",
                    "tolerance: 1e-6 * inventory + 1e-24 mol (less than one atom); charge scale = sum |non-H,O inventories|"]
    ctx.notes += ["fp rounding inside the engine not modelled; dumps carry 14 significant digits",
                  "SYS() excludes diffuse-layer water: H and O are not compared per step when the surface has an explicit diffuse layer",
                  "runs ending in ERROR are outside the premises (counted in input_distribution.outcomes)"]
