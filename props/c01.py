"""C01 — Speciation results satisfy the database's equilibrium and balance equations.

Stages (see notes/C01.md):
  1. T-gen: translator/c01_gen.py regenerates coq/Gen/Gen_C01_code.v from the current /repo sources (k_calc, LOG_10,
     delta_h unit factors, molalities, sum_species, log_activity, saturation_index); Props/Properties_C01.v re-proves that
     they are van 't Hoff + analytical expression, linear in the log K vector, mass action in master form, weighted sums,
     pH = -la(H+), SI = IAP - lk, la = lm + lg.  Generic theorems: rewriting of reactions to master species preserves
     equilibrium / elements / charge (any database), soundness of the executable checkers.
  2. translator validation: the regenerated k_calc expression evaluated in binary64 with the database parameters at the
     reported TK reproduces the reported LK_SPECIES.
  3. T-corr (verified checker): random solutions on the shipped ion-association databases (initial solutions incl. units,
     charge / phase adjusted elements, valence-state input; reaction steps with temperature change and equilibrium phases;
     mixing; advection).  Every row of the selected output is handed, as exact rationals, to the Coq checkers
     (vm_compute): mass action of every database species in DATABASE form with log K(T) from the database text
     (independent parser translator/c01_dbparse.py), LK_SPECIES / LK_PHASE, SI, SR, element / valence-state totals,
     charge balance, ionic strength, alkalinity (valence-state and alkalinity coefficients from the Coq rewriting
     model), la = lm + lg, MOL = 10^LM, ACT = 10^LA, pH = -la(H+), pe = -la(e-)."""
import concurrent.futures as cf
import json, math, os, re, sys, time
from fractions import Fraction
import vlib
sys.path.insert(0, vlib.VERIF)
from translator import leaf, c01_gen, c01_dbparse as dbp

QUICK_DBS = ["phreeqc.dat", "wateq4f.dat", "minteq.v4.dat", "Amm.dat"]
MORE_DBS = ["minteq.dat", "llnl.dat", "core10.dat", "Tipping_Hurley.dat", "iso.dat", "phreeqc_rates.dat", "Kinec_v3.dat", "Kinec.v2.dat"]
SKIP_EL = {"H", "O", "E", "Alkalinity"}
ID_CB, ID_MU, ID_ALK, ID_PH, ID_PE, ID_MU2, ID_CB2, ID_ALK2, ID_SR0 = 900001, 900002, 900003, 900004, 900005, 900006, 900007, 900008, 1000000
PRELUDE = ("From Coq Require Import QArith List PArith FMapPositive.\n"
           "From IPV Require Import Base.RExpr Base.IntervalEval C01.Rewrite C01.Checker.\nImport ListNotations.\nOpen Scope Q_scope.\n")
NFIX = 10


def gen():
    c01_gen.generate()


# ------------------------------------------------------------------------------------------------ database side
class DB:
    """parsed database + ids + Coq text"""

    def __init__(self, name):
        self.name = name
        self.path = name if os.path.isabs(name) else os.path.join(vlib.DB, name)
        self.d = dbp.parse_db(self.path)
        d = self.d
        self.sid = {n: i + 1 for i, n in enumerate(d["species"])}
        self.pid = {n: i + 1 for i, n in enumerate(d["phases"])}
        self.nid = {n: i + 1 for i, n in enumerate(d["named"])}
        self.eid = {e: i + 1 for i, e in enumerate(d["masters"])}
        # species usable for the mass-action check: reaction resolved, named expressions known
        self.usable = [n for n, s in d["species"].items() if s["refs_ok"] and s["named_ok"]]
        self.usable_ph = [n for n, p in d["phases"].items() if p["refs_ok"] and p["named_ok"]]
        # defining reactions la_s = K + sum c*la_j for the rewriting model (non-master species with coefficient 1)
        self.defs = {}
        for n in self.usable:
            s = d["species"][n]
            if s["is_master"] or s["identity"]:
                continue
            net = {}
            for c, x in s["eq"]:
                net[x] = net.get(x, 0) + c
            c0 = net.pop(n, 0)
            if c0 == 0:
                continue
            self.defs[n] = [(-c / c0, x) for x, c in net.items() if c != 0]
        self.master_species = sorted(d["master_species"])
        # valence states whose master species is used as "redox currency" in the defining reaction of ANOTHER master
        # species (LLNL-style databases write redox reactions with O2: Cu+2 + 0.5 H2O = Cu+ + H+ + 0.25 O2).  The engine
        # then books -0.25 O(0) per Cu+ and TOT("O(0)") is an accounting quantity (it can be negative), not a sum of
        # species containing O(0); such totals are outside the model and not checked.
        self.currency = set()
        for n in self.usable:
            s = d["species"][n]
            if s["is_master"] and not s["identity"]:
                own = {el.split("(")[0] for el in d["master_species"].get(n, [])}
                for c, x in s["eq"]:
                    if x != n and x not in ("e-", "H+", "H2O"):
                        for el in d["master_species"].get(x, []):
                            if "(" in el and el.split("(")[0] not in own:
                                self.currency.add(el)
        # redox elements that form species containing a secondary master species more than once (polynuclear species)
        self.poly_redox = set()
        for n in self.usable:
            for c, x in d["species"][n]["eq"]:
                if x != n and abs(c) > 1 and x not in ("H+", "H2O", "e-"):
                    for el in d["master_species"].get(x, []):
                        if "(" in el and not el.startswith(("H(", "O(")):
                            self.poly_redox.add(el.split("(")[0])
        self._coq = None

    def kvec(self, k):
        return "(mkK %s)" % " ".join(leaf.coq_Q(x) for x in [k["logk"], k["dh"]] + list(k["an"]))

    def adds(self, k):
        return "[%s]" % "; ".join("(%s, %d%%positive)" % (leaf.coq_Q(c), self.nid[a]) for a, c in k["add"])

    def coq(self):
        if self._coq is None:
            d = self.d
            L = []
            L.append("Definition nd : named_db := map_of_list [%s]." % ";\n ".join(
                "(%d%%positive, (%s, %s))" % (self.nid[n], self.kvec(k), self.adds(k) if all(a in self.nid for a, _ in k["add"]) else "[]")
                for n, k in d["named"].items()))
            L.append("Definition sps : list species := [%s]." % ";\n ".join(
                "mkSp %d [%s] %s %s" % (self.sid[n], "; ".join("(%s, %d%%positive)" % (leaf.coq_Q(c), self.sid[x]) for c, x in d["species"][n]["eq"]),
                                        self.kvec(d["species"][n]), self.adds(d["species"][n])) for n in self.usable))
            L.append("Definition phs : list species := [%s]." % ";\n ".join(
                "mkSp %d [%s] %s %s" % (self.pid[n], "; ".join("(%s, %d%%positive)" % (leaf.coq_Q(c), self.sid[x]) for c, x in d["phases"][n]["eq"]),
                                        self.kvec(d["phases"][n]), self.adds(d["phases"][n])) for n in self.usable_ph))
            L.append("Definition spm := species_map sps.\nDefinition phm := species_map phs.")
            L.append("Definition dbr : dbmap := db_of_list [%s]." % ";\n ".join(
                "(%d%%positive, [%s])" % (self.sid[n], "; ".join("(%s, %d%%positive)" % (leaf.coq_Q(c), self.sid[x]) for c, x in r))
                for n, r in self.defs.items()))
            L.append("Definition stops : list positive := [%s]%%positive." % "; ".join(str(self.sid[n]) for n in self.master_species if n in self.sid))
            L.append("Definition rwf := rewrite (stop_of stops) (rxn_of dbr) 12.")
            # alkalinity assigned to master species (SOLUTION_MASTER_SPECIES): secondary entry wins over primary (calc_alk)
            malk = {}
            for el, m in d["masters"].items():
                if m["species"] in self.sid and (m["species"] not in malk or not m["primary"]):
                    malk[m["species"]] = m["alk"]
            L.append("Definition malk : PositiveMap.t Q := map_of_list [%s]." % "; ".join(
                "(%d%%positive, %s)" % (self.sid[n], leaf.coq_Q(a)) for n, a in malk.items()))
            L.append("Definition alk_w (l : lin) : Q := weight_of l (qmap_get malk).")
            self._coq = "\n".join(L) + "\n"
        return self._coq


_DBS = {}


def get_db(name):
    if name not in _DBS:
        _DBS[name] = DB(name)
    return _DBS[name]


# ------------------------------------------------------------------------------------------------ inputs
def punch_block(db, phases):
    d = db.d
    els = [e for e in d["masters"] if e not in ("E", "Alkalinity")]
    L = ["SELECTED_OUTPUT 1", " -reset false", " -high_precision true", " -state true", " -solution true", " -pH true", " -pe true", " -temperature true",
         " -alkalinity true", " -ionic_strength true", " -charge_balance true", " -water true",
         "USER_PUNCH 1", " -headings C01 TK PRESSURE MU CB ALK WATER LAH2O LAE N",
         ' 10 t = SYS("aq", n, n$, t$, c)',
         ' 20 PUNCH 1, TK, PRESSURE, MU, CHARGE_BALANCE, ALK, TOT("water"), LA("H2O"), LA("e-"), n',
         " 30 FOR i = 1 TO n",
         " 40 PUNCH n$(i), LA(n$(i)), LM(n$(i)), LG(n$(i)), MOL(n$(i)), ACT(n$(i)), LK_SPECIES(n$(i))",
         " 50 NEXT i"]
    ln = 60
    for i in range(0, len(els), 8):
        L.append(" %d PUNCH %s" % (ln, ", ".join('TOT("%s")' % e for e in els[i:i + 8])))
        ln += 10
    for p in phases:
        L.append(' %d PUNCH SI("%s"), SR("%s"), LK_PHASE("%s")' % (ln, p, p, p))
        ln += 10
    return "\n".join(L) + "\n", els


UNITS = [("mol/kgw", 1.0), ("mmol/kgw", 1e3), ("umol/kgw", 1e6), ("mmol/L", 1e3), ("mol/kgw", 1.0), ("mmol/kgw", 1e3)]
ADJ_PHASES = [("Ca", "Calcite", 0.0), ("C", "CO2(g)", -3.5), ("C(4)", "CO2(g)", -2.0), ("S(6)", "Gypsum", 0.0), ("Ba", "Barite", 0.0), ("Si", "Quartz", 0.0), ("Fe", "Goethite", 0.0)]


COUPLES = [("O(0)", "O(-2)"), ("N(5)", "N(-3)"), ("S(6)", "S(-2)"), ("Fe(3)", "Fe(2)"), ("N(5)", "N(3)"), ("As(5)", "As(3)"), ("O(0)", "O(-2)")]


def redox_states(db, el):
    return [e for e in db.d["masters"] if e.startswith(el + "(")]


def gen_solution(ctx, db, prim, pos, num):
    """one SOLUTION data block; returns (text, meta)"""
    rng = ctx.rng
    d = db.d
    tc = rng.choice([0.0, 25.0, 100.0]) if rng.random() < 0.12 else round(rng.uniform(0.0, 100.0), 3)
    ph = round(rng.uniform(2.0, 12.0), 3)
    # pe inside the stability field of water at this pH (outside it H2 / O2 exceed hundreds of molal and nothing converges)
    pe = round(rng.uniform(max(-5.0, 1.0 - ph), min(15.0, 19.0 - ph)), 3)
    unit, fac = rng.choice(UNITS)
    nel = rng.randint(2, 9)
    comps, valence_input = [], []
    used = set()
    # two major ions carry most of the charge so that compositions stay loosely realistic
    majors = [e for e in ("Na", "K", "Ca", "Mg") if e in prim]
    anions = [e for e in ("Cl", "S", "C", "N") if e in prim]
    picks = []
    if majors and rng.random() < 0.8:
        picks.append(rng.choice(majors))
    if anions and rng.random() < 0.8:
        picks.append(rng.choice(anions))
    while len(picks) < nel and prim:
        e = prim[pos[0] % len(prim)]
        pos[0] += 1
        if e not in picks:
            picks.append(e)
    for e in picks:
        if rng.random() < 0.25:
            c = 10 ** rng.uniform(-9, math.log10(3.0))
        else:
            c = 10 ** rng.uniform(-7, -1.5)
        states = redox_states(db, e)
        if e == "C" and "Alkalinity" in d["masters"] and rng.random() < 0.2 and 5.0 < ph < 10.5:
            comps.append(["Alkalinity", min(c, 0.05), ""])       # carbonate given by its alkalinity
            valence_input.append("C(4)")
            continue
        if states and rng.random() < 0.3:
            # valence-state input (redox disequilibrium in the initial solution)
            for st in rng.sample(states, min(len(states), rng.randint(1, 2))):
                if st in ("H(0)", "H(1)", "O(-2)"):
                    continue
                comps.append([st, c * 10 ** rng.uniform(-1, 0), ""])
                valence_input.append(st)
        else:
            comps.append([e, c, ""])
    comps = [c for c in comps if c[0] not in used and not used.add(c[0])]
    # redox couple other than pe (default `redox X/Y` line or per-element couple on the line of an element total): the
    # valence states of that element are then distributed with the couple's pe, not with the solution pe
    couple, couple_default, couple_elements = None, False, []
    if rng.random() < 0.3:
        cands = [(a, b) for a, b in COUPLES if a in d["masters"] and b in d["masters"]]
        if cands:
            a, b = rng.choice(cands)
            cel = a.split("(")[0]
            comps = [c for c in comps if c[0].split("(")[0] != cel]
            valence_input[:] = [v for v in valence_input if v.split("(")[0] != cel]
            for st in (a, b):
                if st not in ("O(-2)", "H(1)"):
                    comps.append([st, 10 ** rng.uniform(-6, -3), ""])
                    valence_input.append(st)
            couple = "%s/%s" % (a, b)
            # redox elements entered as TOTALS use the couple; make sure there is at least one, preferably one that forms
            # polynuclear species of a secondary master species (Fe2(OH)2+4, Cu2(OH)2+2, (UO2)2(OH)2+2, Cr2O7-2 ...)
            tot_redox = [c[0] for c in comps if "(" not in c[0] and redox_states(db, c[0]) and c[0] != cel]
            pool = [e for e in db.poly_redox if e in prim and e != cel] or [e for e in prim if redox_states(db, e) and e != cel and e not in ("C", "N", "S")]
            if pool and (not tot_redox or rng.random() < 0.7):
                e = rng.choice(pool)
                comps = [c for c in comps if c[0].split("(")[0] != e]
                valence_input[:] = [v for v in valence_input if v.split("(")[0] != e]
                comps.append([e, 10 ** rng.uniform(-6, -3), ""])
                tot_redox = [c[0] for c in comps if "(" not in c[0] and redox_states(db, c[0]) and c[0] != cel]
            if rng.random() < 0.5:
                couple_default = True
                couple_elements = list(tot_redox)
            else:
                for c in comps:
                    if c[0] in tot_redox and (not couple_elements or rng.random() < 0.5):
                        c[2] = couple
                        couple_elements.append(c[0])
    adjust = None
    r = rng.random()
    if r < 0.25:
        # charge-adjusted element: Cl takes up an excess of cations, Na an excess of anions (rough estimate of the sign)
        net = 0.0
        for e, c, _ in comps:
            b = e.split("(")[0]
            if e in ("C(-4)", "N(0)", "O(0)", "H(0)", "S(-2)") or b in ("Si", "B") or b.endswith("g"):
                continue
            zt = {"Cl": -1, "Br": -1, "F": -1, "I": -1, "S": -2, "C": -1, "N": -1, "P": -2, "Na": 1, "K": 1, "Li": 1, "Al": 3, "Amm": 1}.get(b, 2)
            if e == "N(-3)":
                zt = 1
            net += zt * c
        e = "Cl" if net > 0 else "Na"
        if e in prim:
            comps = [c for c in comps if c[0] != e]
            comps.append([e, max(abs(net), 1e-6) * rng.uniform(0.5, 2.0), "charge"])
            adjust = "charge:" + e
    elif r < 0.30:
        adjust = "charge:pH"
    elif r < 0.42:
        cands = [(e, p, si) for e, p, si in ADJ_PHASES if p in d["phases"] and p in db.usable_ph and e.split("(")[0] in prim]
        if cands:
            e, p, si = rng.choice(cands)
            comps = [c for c in comps if c[0].split("(")[0] != e.split("(")[0]]
            comps.append([e, 10 ** rng.uniform(-5, -2.5), "%s %g" % (p, si)])
            if "(" in e:
                valence_input.append(e)
            # the other elements of the phase must be present
            have = {c[0].split("(")[0] for c in comps}
            for x, _ in [(n, 0) for c0, n in d["phases"][p]["eq"]]:
                for el in (d["species"][x]["elts"] or {}):
                    if el not in ("H", "O", "e") and el not in have and el in prim:
                        comps.append([el, 10 ** rng.uniform(-4, -2), ""])
                        have.add(el)
            adjust = "phase:%s:%s" % (e, p)
    txt = "SOLUTION %d\n temp %s\n pH %s%s\n pe %s\n units %s\n" % (num, tc, ph, " charge" if adjust == "charge:pH" else "", pe, unit)
    if couple_default:
        txt += " redox %s\n" % couple
        # every redox element that is finally entered as a total (also those added by the adjustments above) uses it
        couple_elements = [c[0] for c in comps if "(" not in c[0] and redox_states(db, c[0])]
    for e, c, opt in comps:
        txt += " %s %.6g %s\n" % (e, c * fac, opt)
    meta = {"tc": tc, "ph": ph, "pe": pe, "units": unit, "elements": [c[0] for c in comps], "valence_input": valence_input, "adjust": adjust,
            "couple": couple, "couple_default": couple_default, "couple_elements": couple_elements}
    return txt, meta


def gen_jobs(ctx, dbname, nsol, only=None):
    """PHREEQC inputs for one database: groups of initial solutions followed (sometimes) by a reaction step
    (temperature change + equilibrium phases), a mixing step or a short advection"""
    db = get_db(dbname)
    d = db.d
    prim = [e for e, m in d["masters"].items() if m["primary"] and e not in SKIP_EL and not e.startswith("[")
            and m["species"] in d["species"]]
    if "iso.dat" in dbname:
        prim = [e for e in prim if e not in ("D", "T")]
    ctx.rng.shuffle(prim)
    pos = [0]
    jobs = []
    per_job = 3
    for j0 in range(0, nsol, per_job):
        nph = min(len(db.usable_ph), 120 if not ctx.thorough else 400)
        phases = ctx.rng.sample(db.usable_ph, nph) if nph < len(db.usable_ph) else list(db.usable_ph)
        pb, els = punch_block(db, phases)
        txt = pb
        metas = []
        nums = list(range(1, min(per_job, nsol - j0) + 1))
        for n in nums:
            s, meta = gen_solution(ctx, db, prim, pos, n)
            txt += s
            metas.append(meta)
        txt += "END\n"
        steps = []
        r = ctx.rng.random()
        if r < 0.45:
            n = ctx.rng.choice(nums)
            t2 = round(ctx.rng.uniform(0.0, 100.0), 2)
            txt += "USE solution %d\nREACTION_TEMPERATURE 1\n %s\n" % (n, t2)
            cand = [p for p in ("Calcite", "Gypsum", "CO2(g)", "Halite", "Quartz", "Goethite", "Barite") if p in d["phases"]]
            if cand and ctx.rng.random() < 0.7:
                txt += "EQUILIBRIUM_PHASES 1\n"
                for p in ctx.rng.sample(cand, min(len(cand), ctx.rng.randint(1, 2))):
                    txt += " %s %g %g\n" % (p, -2.0 if p.endswith("(g)") else 0.0, 10 ** ctx.rng.uniform(-4, -2))
            txt += "SAVE solution %d\nEND\n" % (n + 10)
            steps.append("react")
        elif r < 0.65 and len(nums) >= 2:
            a, b = ctx.rng.sample(nums, 2)
            txt += "MIX 1\n %d %.3f\n %d %.3f\nEND\n" % (a, ctx.rng.uniform(0.1, 0.9), b, ctx.rng.uniform(0.1, 0.9))
            steps.append("mix")
        elif r < 0.8 and len(nums) >= 3:
            txt += "COPY solution 1 0\nCOPY solution 2 1\nCOPY solution 3 2\nEND\nADVECTION\n -cells 2\n -shifts 2\n -punch_cells 1-2\n -punch_frequency 1\nEND\n"
            steps.append("advect")
        jid = "%s:%d" % (dbname, j0)
        jobs.append({"id": jid, "db": dbname, "text": txt, "metas": metas, "phases": phases, "els": els, "steps": steps})
    return jobs


# ------------------------------------------------------------------------------------------------ observations
def parse_job(job, res):
    """rows of the selected output -> observation dicts (all doubles exact)"""
    out = []
    tab = (res.get("tables") or {}).get("1")
    if not tab:
        return out
    heads = [vlib.cell_value(c) for c in tab[0]]
    try:
        i0 = heads.index("C01")
    except ValueError:
        return out
    hix = {h: i for i, h in enumerate(heads[:i0])}
    els, phases = job["els"], job["phases"]
    for row in tab[1:]:
        v = [vlib.cell_value(c) for c in row]
        if len(v) < i0 + NFIX or not isinstance(v[i0 + NFIX - 1], float) or v[i0] != 1.0:
            continue
        fx = v[i0:i0 + NFIX]
        if not all(isinstance(x, float) and math.isfinite(x) for x in fx):
            continue
        o = dict(zip(("one", "tk", "patm", "mu", "cb", "alk", "water", "lah2o", "lae"), fx[:9]))
        n = int(fx[9])
        o["state"] = v[hix["state"]] if "state" in hix else "?"
        o["soln"] = v[hix["soln"]] if "soln" in hix else None
        for k, h in (("so_ph", "pH"), ("so_pe", "pe"), ("so_tc", "temp(C)"), ("so_alk", "Alk(eq/kgw)"), ("so_mu", "mu"), ("so_water", "mass_H2O"), ("so_cb", "charge(eq)")):
            o[k] = v[hix[h]] if h in hix else None
        p = i0 + NFIX
        sp = {}
        ok = True
        for i in range(n):
            c = v[p + 7 * i: p + 7 * i + 7]
            if len(c) == 7 and isinstance(c[0], str) and all(isinstance(x, float) and math.isfinite(x) for x in c[1:]):
                sp[c[0]] = tuple(c[1:])     # la lm lg mol act lk
            else:
                ok = False
        p += 7 * n
        tot = {}
        for e in els:
            if p < len(v) and isinstance(v[p], float):
                tot[e] = v[p]
            p += 1
        ph = {}
        for name in phases:
            c = v[p:p + 3]
            if len(c) == 3 and all(isinstance(x, float) and math.isfinite(x) for x in c):
                ph[name] = tuple(c)         # si sr lk
            p += 3
        o.update({"sp": sp, "tot": tot, "ph": ph, "complete": ok})
        out.append(o)
    return out


def exempt_species(db, o, meta):
    """species whose defining reaction is NOT imposed in this calculation: the secondary master species of valence
    states given individually in an initial solution (redox disequilibrium by input)"""
    ex = set()
    if o["state"] == "i_soln" and meta is not None:
        for st in meta["valence_input"]:
            m = db.d["masters"].get(st)
            if m:
                ex.add(m["species"])
                # input of one valence state decouples the whole redox element from pe: every secondary master of it
                el = st.split("(")[0]
                for e2, m2 in db.d["masters"].items():
                    if e2.startswith(el + "("):
                        ex.add(m2["species"])
        # elements whose valence states are distributed with a redox couple instead of the solution pe: the reactions
        # between their secondary master species hold with the COUPLE's electron activity, not with la(e-) = -pe
        # LLNL-style databases write the redox reactions of master species with O2 (Cl- + 0.5 O2 = ClO-).  When O(0) is
        # given by input, la(O2) is fixed by that input while the other elements are distributed with the solution pe (the
        # engine rewrites O2 to e- in rxn_secondary): reactions of master species of OTHER elements that contain an
        # input-fixed valence-state master species are not imposed with its reported activity
        fixed = set(ex)
        for n in db.usable:
            sp = db.d["species"][n]
            if sp["is_master"] and not sp["identity"] and n not in fixed and any(x in fixed and x != n for c, x in sp["eq"]):
                ex.add(n)
        cels = list(meta.get("couple_elements") or [])
        if meta.get("couple_default"):
            cels += ["H", "O"]            # O2 and H2 of an initial solution follow the default redox couple as well
        for el in cels:
            for e2, m2 in db.d["masters"].items():
                if e2.startswith(el + "(") and e2 not in ("H(1)", "O(-2)"):
                    ex.add(m2["species"])
        if cels:
            # non-master species written with an explicit e- (e.g. Fe+2 + ... = X + e-) of those elements
            for n in db.usable:
                sp = db.d["species"][n]
                if not sp["is_master"] and any(x == "e-" for c, x in sp["eq"]):
                    ex.add(n)
    return ex


def missing_species(db, o, exempt):
    """database species that are absent from the reported distribution although every other species of their reaction is
    present (and the reaction is imposed in this calculation)"""
    present = set(o["sp"]) | {"H2O", "e-"}
    out = []
    for n in db.usable:
        if n in present or n in exempt:
            continue
        s = db.d["species"][n]
        others = [x for c, x in s["eq"] if x != n]
        if others and all(x in present for x in others):
            out.append(n)
    return out


def q(x):
    return leaf.coq_Q(x)


def coq_case(db, o, exempt, couple=False):
    """Coq expression (tuple of failure lists) for one observation.  couple: the row is an initial solution that uses a
    redox couple other than pe; reactions written with an explicit e- then hold with the couple's electron activity for
    the elements that use the couple, so phases whose database reaction contains e- are not checked in that row."""
    d = db.d
    sid, pid = db.sid, db.pid
    la = {n: v[0] for n, v in o["sp"].items() if n in sid}
    la["H2O"] = o["lah2o"]
    la["e-"] = o["lae"]
    la_txt = "; ".join("(%d%%positive, %s)" % (sid[n], q(x)) for n, x in la.items() if n in sid)
    ex_txt = "; ".join("%d" % sid[n] for n in exempt if n in sid)
    lk_txt = "; ".join("(%d%%positive, %s)" % (sid[n], q(v[5])) for n, v in o["sp"].items() if n in sid and n in db.usable)
    lkp_txt = "; ".join("(%d%%positive, %s)" % (pid[n], q(v[2])) for n, v in o["ph"].items() if n in pid)
    si_txt = "; ".join("(%d%%positive, %s)" % (pid[n], q(v[0])) for n, v in o["ph"].items() if n in pid
                       and not (couple and any(x == "e-" for c, x in d["phases"][n]["eq"])))
    mol = {n: v[3] for n, v in o["sp"].items() if n in sid}
    # element / valence-state totals.  Stoichiometry of a species (PHREEQC manual, SOLUTION_SPECIES): the -mole_balance
    # formula when given; otherwise its formula, which for an element-balanced reaction is the same as the content of the
    # reaction rewritten to master species (theorem rewrite_preserves_elements_and_charge).  Valence states, and the
    # content of -no_check species without -mole_balance, are only defined through the rewritten reaction: those
    # coefficients come from the Coq rewriting MODEL (rw_terms rwf ...).
    bal, rwb = [], []
    sp = d["species"]
    if all(sp[n]["elts"] is not None for n in mol):
        for e, t in o["tot"].items():
            m = d["masters"].get(e)
            if m is None or e in ("H", "O", "H(1)", "O(-2)") or m["species"] not in sid or e in db.currency:
                continue               # TOT("H(1)") / TOT("O(-2)") are not tracked by the engine (always 0); H, O include water
            el = e.split("(")[0]
            explicit, viarw = [], []
            for n, x in mol.items():
                s_ = sp[n]
                if s_["mole_balance"]:
                    mbv = s_["mb_valence"] or {}
                    if m["primary"]:
                        c = sum(v for k2, v in mbv.items() if k2.split("(")[0] == el)
                    else:
                        c = mbv.get(e, 0)
                    if c:
                        explicit.append((c, x))
                elif m["primary"] and not s_["no_check"]:
                    c = s_["elts"].get(el, 0)
                    if c:
                        explicit.append((c, x))
                elif s_["elts"].get(el, 0) or s_["no_check"]:
                    viarw.append((n, x))      # (a balanced species without the element cannot contain its masters)
            if m["primary"]:
                ms = [(e2, m2) for e2, m2 in d["masters"].items() if e2.split("(")[0] == el and m2["species"] in sid]
            else:
                ms = [(e, m)]
            # a species that is master for several entries (Fe+2 for Fe and Fe(2)) is counted once
            seen, wt = set(), []
            for e2, m2 in ms:
                if m2["species"] in seen:
                    continue
                seen.add(m2["species"])
                atoms = (sp[m2["species"]]["elts"] or {}).get(el, 0)
                if atoms:
                    wt.append("coef_of l %d%%positive * %s" % (sid[m2["species"]], q(atoms)))
            if not wt:
                continue
            ex_txt2 = "[%s]" % "; ".join("(%s, %s)" % (q(c), q(x)) for c, x in explicit)
            if viarw:
                rwb.append("(%d%%positive, rw_terms rwf (fun l => %s) [%s] ++ %s, %s)" % (
                    db.eid[e], " + ".join(wt), "; ".join("(%d%%positive, %s)" % (sid[n], q(x)) for n, x in viarw), ex_txt2, q(t)))
            elif explicit or t != 0.0:
                bal.append("(%d%%positive, %s, %s)" % (db.eid[e], ex_txt2, q(t)))
    w = o["water"]
    for i, terms, t in ((ID_CB, [(sp[n]["z"] * Fraction(w), x) for n, x in mol.items() if sp[n]["z"] != 0], o["cb"]),
                        (ID_MU, [(sp[n]["z"] ** 2 / 2, x) for n, x in mol.items() if sp[n]["z"] != 0], o["mu"])):
        bal.append("(%d%%positive, [%s], %s)" % (i, "; ".join("(%s, %s)" % (q(c), q(x)) for c, x in terms), q(t)))
    bal_txt = "; ".join(bal)
    mol_txt = "; ".join("(%d%%positive, %s)" % (sid[n], q(x)) for n, x in mol.items())
    rwb.append("(%d%%positive, rw_terms rwf alk_w mol, %s)" % (ID_ALK, q(o["alk"])))
    ro_txt = "; ".join("(%d%%positive, (%s, %s, %s, %s, %s))" % (sid[n], q(v[0]), q(v[1]), q(v[2]), q(v[3]), q(v[4])) for n, v in o["sp"].items() if n in sid)
    cl = []
    if "H+" in o["sp"] and o["so_ph"] is not None:
        cl.append((ID_PH, o["so_ph"], -o["sp"]["H+"][0]))
    if o["so_pe"] is not None:
        cl.append((ID_PE, o["so_pe"], -o["lae"]))
    if o["so_mu"] is not None:
        cl.append((ID_MU2, o["so_mu"], o["mu"]))
    if o["so_cb"] is not None:
        cl.append((ID_CB2, o["so_cb"], o["cb"]))
    if o["so_alk"] is not None:
        cl.append((ID_ALK2, o["so_alk"], o["alk"]))
    cl_txt = "; ".join("(%d%%positive, %s, %s)" % (i, q(a), q(b)) for i, a, b in cl)
    # SR = 10^SI
    sr_txt = "; ".join("(%d%%positive, (0, 0, 0, 1, %s))" % (ID_SR0 + pid[n], "0") for n in [])  # placeholder (kept empty)
    srs = "; ".join("(%d%%positive, %s, %s)" % (pid[n], q(v[1]), q(v[0])) for n, v in o["ph"].items() if n in pid and v[0] > -99.0 and abs(v[0]) < 250)
    return ("(let tt := tterms %s in let la := map_of_list [%s] in let mol := [%s] in\n"
            " [ma_failures nd tt la (set_of_list [%s]%%positive) sps;\n  lk_failures nd tt spm [%s];\n  lk_failures nd tt phm [%s];\n"
            "  si_failures nd tt la (si_obs phm [%s]);\n  balance_failures [%s];\n  balance_failures [%s];\n  readout_failures [%s];\n"
            "  close_failures [%s];\n  map (fun x => fst (fst x)) (filter (fun x => negb (check_pow10 (snd (fst x)) (snd x))) [%s]);\n"
            "  [Pos.of_succ_nat (ma_checked la (set_of_list [%s]%%positive) sps)]])"
            % (q(o["tk"]), la_txt, mol_txt, ex_txt, lk_txt, lkp_txt, si_txt, bal_txt, "; ".join(rwb), ro_txt, cl_txt, srs, ex_txt))


CATS = ["ma", "lk_species", "lk_phase", "si", "balance", "balance_rw", "readout", "close", "sr"]


def run_coq(items, workers=None, chunk=5, timeout=900):
    """items: list of (DB, Coq expression); returns list of (list of 10 id-lists) or None, in order.
    Chunks (one coqc process each, the database text is repeated in every chunk) from all databases share one pool."""
    if not items:
        return [], []
    workers = workers or max(2, min(8, vlib.NCPU // 2))
    by_db = {}
    for k, (db, c) in enumerate(items):
        by_db.setdefault(db.name, []).append(k)
    chunks = []
    for name, ks in by_db.items():
        # balance chunk sizes by text length (evaluation time is roughly proportional to it)
        ks = sorted(ks, key=lambda k: -len(items[k][1]))
        nch = max(1, (len(ks) + chunk - 1) // chunk)
        buckets = [[] for _ in range(nch)]
        for i, k in enumerate(ks):
            buckets[i % nch if (i // nch) % 2 == 0 else nch - 1 - i % nch].append(k)
        chunks += [b for b in buckets if b]
    chunks.sort(key=lambda b: -sum(len(items[k][1]) for k in b))

    def one(ks, tmo=None, retry=True):
        db = items[ks[0]][0]
        v = PRELUDE + db.coq() + "".join("Eval vm_compute in %s.\n" % items[k][1] for k in ks)
        rc, out = vlib.coq_eval(v, timeout=tmo or timeout)
        blocks = re.findall(r"=\s*(\[.*?\])\s*:\s*list \(list positive\)", out, flags=re.S)
        if rc != 0 or len(blocks) != len(ks):
            if rc == 124 and retry:
                # the shared machine can be very slow: a time-out is not a finding; try the rows one by one, once more
                res, err = [], ""
                for k in ks:
                    _, r1, e1 = one([k], tmo=2 * timeout, retry=False)
                    res += r1
                    err = err or e1
                return ks, res, err
            return ks, [None] * len(ks), ("TIMEOUT " if rc == 124 else "") + out[-2000:]
        res = []
        for b in blocks:
            inner = b.strip()[1:-1]
            lists = re.findall(r"\[([^\[\]]*)\]", inner)
            res.append([[int(x) for x in re.findall(r"(\d+)%positive", l)] if "%positive" in l else [int(x) for x in re.findall(r"\d+", l)] for l in lists])
        return ks, res, ""
    out, errs = [None] * len(items), []
    with cf.ThreadPoolExecutor(max_workers=workers) as ex:
        for ks, r, e in ex.map(one, chunks):
            for k, x in zip(ks, r):
                out[k] = x
            if e:
                errs.append(e)
    return out, errs


# ------------------------------------------------------------------------------------------------ python pre-check (diagnostics only)
def describe(db, o, cat, i):
    d = db.d
    inv_s = {v: k for k, v in db.sid.items()}
    inv_p = {v: k for k, v in db.pid.items()}
    inv_e = {v: k for k, v in db.eid.items()}
    tk = o["tk"]
    la = {n: v[0] for n, v in o["sp"].items()}
    la["H2O"], la["e-"] = o["lah2o"], o["lae"]
    try:
        if cat == "ma":
            n = inv_s[i]
            s = d["species"][n]
            lhs = sum(float(c) * la[x] for c, x in s["eq"])
            K = dbp.logk_T(dbp.kvector(d, s), tk)
            return n, "species %s: sum nu*la = %.12g but log K(T=%.6g K) of the database text = %.12g (difference %.3g); reaction %s" % (n, lhs, tk, K, lhs - K, s["text"])
        if cat == "lk_species":
            n = inv_s[i]
            K = dbp.logk_T(dbp.kvector(d, d["species"][n]), tk)
            return n, "LK_SPECIES(%s) = %.12g but the database text gives log K(%.6g K) = %.12g" % (n, o["sp"][n][5], tk, K)
        if cat == "lk_phase":
            n = inv_p[i]
            K = dbp.logk_T(dbp.kvector(d, d["phases"][n]), tk)
            return n, "LK_PHASE(%s) = %.12g but the database text gives log K(%.6g K) = %.12g" % (n, o["ph"][n][2], tk, K)
        if cat == "si":
            n = inv_p[i]
            p = d["phases"][n]
            iap = sum(float(c) * la[x] for c, x in p["eq"])
            K = dbp.logk_T(dbp.kvector(d, p), tk)
            return n, "SI(%s) = %.12g but log IAP - log K(T) = %.12g - %.12g = %.12g" % (n, o["ph"][n][0], iap, K, iap - K)
        if cat in ("balance", "balance_rw"):
            n = {ID_CB: "charge balance", ID_MU: "ionic strength", ID_ALK: "alkalinity"}.get(i) or ("total " + inv_e.get(i, str(i)))
            rep = {ID_CB: o["cb"], ID_MU: o["mu"], ID_ALK: o["alk"]}.get(i, o["tot"].get(inv_e.get(i)))
            return n, "%s: reported %r differs (relative > 1e-7) from the stoichiometry-weighted sum of the reported species molalities" % (n, rep)
        if cat == "readout":
            n = inv_s[i]
            v = o["sp"][n]
            return n, "read-outs of %s inconsistent: LA %r LM %r LG %r MOL %r ACT %r" % (n, v[0], v[1], v[2], v[3], v[4])
        if cat == "close":
            n = {ID_PH: "pH vs -LA(H+)", ID_PE: "pe vs -LA(e-)", ID_MU2: "mu column vs MU", ID_CB2: "charge column vs CHARGE_BALANCE", ID_ALK2: "Alk column vs ALK"}.get(i, str(i))
            return n, "%s disagree: pH %r LA(H+) %r pe %r LA(e-) %r" % (n, o["so_ph"], o["sp"].get("H+", (None,))[0], o["so_pe"], o["lae"])
        if cat == "sr":
            n = inv_p[i]
            return n, "SR(%s) = %r is not 10^SI with SI = %r" % (n, o["ph"][n][1], o["ph"][n][0])
    except Exception as ex:
        return str(i), "%s id %d (%r)" % (cat, i, ex)
    return str(i), cat


def gen_leaf_value(leaves, v, tk):
    lf = leaves.get("kcalc_lk")
    if lf is None:
        return None
    try:
        return lf.eval([float(x) for x in v] + [tk, math.log(10.0)])
    except Exception:
        return None


# ------------------------------------------------------------------------------------------------ main
def process(ctx, jobs, res, leaves, stats, max_cases):
    """parse, build Coq cases, run the verified checker, report"""
    per_db = {}
    for j in jobs:
        r = res.get(j["id"], {})
        if r.get("timeout") or r.get("crash") or "tables" not in r:
            stats["jobs_failed"] += 1
            continue
        if r.get("rc", 1) != 0:
            # some calculation of this input ended with an ERROR (non-convergence ...): outside the property's premise.
            # PHREEQC still punches a row for a failed calculation, so every row of the input is discarded.
            stats["jobs_with_error"] += 1
            continue
        db = get_db(j["db"])
        rows = parse_job(j, r)
        for o in rows:
            if abs(o["patm"] - 1.0) > 1e-12:
                stats["rows_not_1atm"] += 1
                continue
            if not o["complete"] or not o["sp"]:
                stats["rows_incomplete"] += 1
                continue
            meta = None
            if o["state"] == "i_soln" and isinstance(o["soln"], (int, float)) and 1 <= int(o["soln"]) <= len(j["metas"]):
                meta = j["metas"][int(o["soln"]) - 1]
            elif o["state"] == "i_soln":
                stats["rows_unmatched"] += 1
                continue
            stats["state:" + str(o["state"])] = stats.get("state:" + str(o["state"]), 0) + 1
            per_db.setdefault(j["db"], []).append((j, o, meta))
    bad_tr = []
    flat = []
    for dbname, items in per_db.items():
        db = get_db(dbname)
        items = items[:max_cases]
        # translator validation: regenerated k_calc (binary64) == LK_SPECIES
        if leaves:
            for j, o, meta in items[:10]:
                for n, v in list(o["sp"].items())[:400]:
                    if n in db.usable:
                        gv = gen_leaf_value(leaves, dbp.kvector(db.d, db.d["species"][n]), o["tk"])
                        if gv is not None and not abs(gv - v[5]) <= 1e-11 * max(1.0, abs(v[5])):
                            bad_tr.append("%s %s: generated k_calc gives %r, LK_SPECIES %r" % (dbname, n, gv, v[5]))
        flat += [(db, j, o, meta) for j, o, meta in items]
    t0 = time.time()
    out, errs = run_coq([(db, coq_case(db, o, exempt_species(db, o, meta),
                                           couple=bool(meta and o["state"] == "i_soln" and meta.get("couple_elements")))) for db, j, o, meta in flat])
    stats["coq_checker_wall_s"] = round(time.time() - t0, 1)
    hard = [e for e in errs if not e.startswith("TIMEOUT")]
    if hard:
        ctx.obligation("checker-evaluation", False, hard[0])
    elif errs:
        stats["checker_chunks_timed_out"] = len(errs)
        ctx.notes.append("%d evaluation(s) of the verified checker timed out twice (loaded machine); those rows are not counted as checked" % len(errs))
    for (db, j, o, meta), r in zip(flat, out):
        dbname = db.name
        if True:
            if r is None:
                stats["rows_checker_failed"] += 1
                continue
            nchecked = (r[9][0] - 1) if len(r) > 9 and r[9] else 0
            stats["rows_checked"] += 1
            for n in missing_species(db, o, exempt_species(db, o, meta))[:3]:
                stats["species_missing"] = stats.get("species_missing", 0) + 1
                ctx.violation("missing:%s:%s" % (dbname, n), "[%s, %s, state %s] species %s is not in the reported distribution although all species of its "
                              "reaction (%s) are present" % (dbname, j["id"], o["state"], n, db.d["species"][n]["text"]),
                              {"kind": "input", "database": dbname, "input_text": j["text"], "row_state": o["state"], "row_solution": o["soln"],
                               "category": "missing", "name": n, "observed": "species absent", "expected": "species present with its mass-action molality"})
            stats["species_equations_checked"] += nchecked
            stats["phases_checked"] += len(o["ph"])
            ctx.case("%s|%s|%s|%s" % (dbname, o["state"], ",".join(meta["elements"]) if meta else j["id"], o["tk"]),
                     sample={"database": dbname, "state": o["state"], "TK": o["tk"], "pH": o["so_ph"], "mu": o["mu"], "species": len(o["sp"]),
                             "mass_action_equations_checked": nchecked, "input": meta}, nontrivial=nchecked > 0)
            for cat, ids in zip(CATS, r[:9]):
                for i in ids[:3]:
                    name, what = describe(db, o, cat, i)
                    key = "%s:%s:%s" % (cat, dbname, name)
                    ctx.violation(key, "[%s, %s, state %s] %s" % (dbname, j["id"], o["state"], what),
                                  {"kind": "input", "database": dbname, "input_text": j["text"], "row_state": o["state"], "row_solution": o["soln"],
                                   "category": cat, "name": name, "observed": what, "expected": "relation of property C01 within its tolerance"})
                    stats["violations_" + cat] = stats.get("violations_" + cat, 0) + 1
    if leaves:
        ctx.obligation("translator-validation(regenerated k_calc reproduces LK_SPECIES in binary64)", not bad_tr, "; ".join(bad_tr[:5]))


def check_collisions(ctx, dbs, stats):
    """Phase names are case-insensitive in PHREEQC and a later PHASES entry silently replaces an earlier one.  A database
    in which two DIFFERENT phases collide (llnl.dat: HF(g) hydrogen fluoride / Hf(g) hafnium) loses the first one: the
    log K reported under the first name is not the one its database entry prescribes."""
    jobs = []
    for dbname in dbs:
        db = get_db(dbname)
        for old, oldp, new in db.d.get("collisions", []):
            if oldp.get("eq") is None or not all(a in db.d["named"] for a, _ in oldp["add"]):
                continue
            txt = ('SOLUTION 1\n temp 25\nSELECTED_OUTPUT 1\n -reset false\n -high_precision true\nUSER_PUNCH 1\n -headings LK\n'
                   ' 10 PUNCH LK_PHASE("%s")\nEND\n' % old)
            jobs.append({"id": "coll:%s:%s" % (dbname, old), "db": dbname, "text": txt, "old": old, "oldp": oldp, "new": new})
    if not jobs:
        return
    res = vlib.run_inputs(jobs, timeout_each=60, workers=2)
    for j in jobs:
        r = res.get(j["id"], {})
        tab = (r.get("tables") or {}).get("1")
        if not tab or len(tab) < 2:
            continue
        lk = vlib.cell_value(tab[1][0])
        exp = dbp.logk_T(dbp.kvector(get_db(j["db"]).d, j["oldp"]), 298.15)
        stats["phase_name_collisions"] = stats.get("phase_name_collisions", 0) + 1
        if isinstance(lk, float) and abs(lk - exp) > 1e-9:
            ctx.violation("phase-name-collision:%s:%s" % (j["db"], j["old"]),
                          "[%s] LK_PHASE(\"%s\") = %.10g at 25 C but the PHASES entry %s (%s) prescribes %.10g: the entry is silently replaced by the later "
                          "entry %s (phase names are case-insensitive)" % (j["db"], j["old"], lk, j["old"], j["oldp"].get("text"), exp, j["new"]),
                          {"kind": "input", "database": j["db"], "input_text": j["text"], "category": "phase-name-collision", "name": j["old"],
                           "observed": lk, "expected": exp})


def run(ctx):
    leaves = {}

    def g():
        for lf in c01_gen.generate():
            leaves[lf.name] = lf
    t0 = time.time()
    ok = vlib.coq_stage(ctx, "Props/Properties_C01.vo", gen=g)
    coq_stage_s = round(time.time() - t0, 1)
    stats = {k: 0 for k in ("jobs_failed", "jobs_with_error", "rows_not_1atm", "rows_incomplete", "rows_unmatched", "rows_checked",
                            "rows_checker_failed", "species_equations_checked", "phases_checked")}
    stats["coq_stage_wall_s"] = coq_stage_s
    if ctx.replay:
        rp = json.load(open(ctx.replay))
        if rp.get("kind") == "input" and rp.get("category") == "phase-name-collision":
            check_collisions(ctx, [rp["database"]], stats)
        elif rp.get("kind") == "input":
            dbname = rp["database"]
            db = get_db(dbname)
            # the punch block names the phases / elements in its text: recover them
            phases = re.findall(r'PUNCH SI\("([^"]+)"\)', rp["input_text"])
            els = [e for e in db.d["masters"] if e not in ("E", "Alkalinity")]
            job = {"id": "replay", "db": dbname, "text": rp["input_text"], "metas": rp.get("metas") or [], "phases": phases, "els": els, "steps": []}
            # initial-solution metadata (valence-state input) is recovered from the text
            metas = []
            for blk in re.split(r"(?m)^SOLUTION \d+\s*$", rp["input_text"])[1:]:
                body = blk.split("END")[0]
                lines = [ln.split() for ln in body.splitlines() if ln.strip()]
                vi = [t[0] for t in lines if "(" in t[0] and t[0] in db.d["masters"]]
                if any(t[0] == "Alkalinity" for t in lines):
                    vi.append("C(4)")
                ce = [t[0] for t in lines if t[0] in db.d["masters"] and "(" not in t[0] and any("/" in x and "(" in x for x in t[2:])]
                if any(t[0] == "redox" for t in lines):
                    ce += [t[0] for t in lines if t[0] in db.d["masters"] and "(" not in t[0] and redox_states(db, t[0])]
                metas.append({"valence_input": vi, "elements": [], "adjust": None, "couple_elements": ce,
                              "couple_default": any(t[0] == "redox" for t in lines)})
            job["metas"] = metas
            res = vlib.run_inputs([job], timeout_each=120, workers=1)
            process(ctx, [job], res, leaves, stats, 10 ** 6)
        ctx.extra["stats"] = stats
        return
    dbs = [d for d in QUICK_DBS if os.path.exists(os.path.join(vlib.DB, d))]
    if ctx.thorough or not ok:
        dbs += [d for d in MORE_DBS if os.path.exists(os.path.join(vlib.DB, d))]
    nsol = ctx.n(24, 150)
    jobs = []
    for dbname in dbs:
        try:
            get_db(dbname)
        except Exception as ex:
            ctx.notes.append("database %s not readable by the independent parser: %r" % (dbname, ex))
            continue
        jobs += gen_jobs(ctx, dbname, nsol if dbname in QUICK_DBS else max(9, nsol // 3))
    t0 = time.time()
    res = vlib.run_inputs(jobs, timeout_each=60, workers=min(8, vlib.NCPU))
    stats["engine_wall_s"] = round(time.time() - t0, 1)
    process(ctx, jobs, res, leaves, stats, 10 ** 6)
    check_collisions(ctx, dbs, stats)
    ctx.rule = ("random solutions over the primary elements of each database (rotating so that all are visited; 2-9 elements, "
                "log-uniform 1e-9..3 molal with most mass in 1e-7..3e-2, pH 2..12, pe -5..15, 0..100 C, several units, 25% one element "
                "charge-adjusted, 10% pH charge-adjusted, 15% phase-adjusted, 30% of redox elements given by valence state, 30% with a "
                "redox couple other than pe as default or on element totals), "
                "followed by reaction (temperature change + equilibrium phases), mixing or advection steps; a case = one row of the "
                "selected output = one completed solution calculation; non-trivial = at least one database mass-action equation checked")
    ctx.extra["stats"] = stats
    ctx.extra["input_distribution"] = {"databases": dbs, "solutions_per_database": nsol,
                                       "states": {k[6:]: v for k, v in stats.items() if k.startswith("state:")}}
    ctx.trusted += ["translator/c01_dbparse.py (independent database parser: reactions, log_k, delta_h units, analytic, add_logk, formulas)",
                    "harness/runsel.cpp + USER_PUNCH read-outs (LA LM LG MOL ACT LK_SPECIES TOT SI SR LK_PHASE MU CHARGE_BALANCE ALK)",
                    "clang AST + translator/leaf.py (syntax transliteration of the regenerated expressions)"]
    ctx.notes += ["Newton-Raphson convergence / termination is not proved; runs ending with ERROR are outside the premise and only counted",
                  "1 atm only (rows with PRESSURE != 1 are skipped); fp rounding not modelled (tolerances of the property absorb it)",
                  "species exempt from mass action: secondary master species of elements given by valence state, or distributed with a redox couple other than pe, in an INITIAL solution (redox disequilibrium by input)"]
    if stats["rows_checked"] == 0:
        ctx.obligation("correspondence-ran(at least one solution checked)", False, json.dumps(stats))
