"""C18 — every reported inverse model is a genuine, admissible mole-balance model.

Pipeline (see notes/C18.md):
  gen()  : translator/c18_bits.py regenerates coq/Gen/Gen_C18_bits.v from /repo's inverse.cpp (clang AST)
  run()  : 1. coq_stage builds Props/Properties_C18.vo (theorems about the checker and the search model,
              instantiated with the regenerated bit tests)
           2. correspondence: forward-simulated inverse problems are run through harness/c18_inv.cpp
              (real library), every reported model goes through the Coq checker check_inverse_model
              (exact Q arithmetic) and the Coq model of the subset search is replayed with the real
              solve_with_mask() as tabulated oracle and compared with what solve_inverse() did.
"""
import os, sys, json, re, math, hashlib, concurrent.futures as cf
from fractions import Fraction as Fr
import vlib

HERE = os.path.dirname(os.path.abspath(__file__))
sys.path.insert(0, os.path.join(vlib.VERIF, "translator"))

TOL_BITS = Fr(1, 10**9)          # TOL in global_structures.h: significance threshold used for the masks
MIN_TOTAL_INVERSE = 1e-14        # print_model / punch_model zero anything smaller before printing

# ----------------------------------------------------------------------------- spec side: formulas
def parse_formula(f):
    """Independent parser of a chemical formula such as CaMg(CO3)2, CaSO4:2H2O, Ca0.165Al2.33Si3.67O10(OH)2
    -> {element: Fraction}.  (The specification's stoichiometry; not taken from the engine.)"""
    pos = 0

    def num():
        nonlocal pos
        m = re.match(r"\d+(\.\d+)?|\.\d+", f[pos:])
        if not m:
            return None
        pos += m.end()
        return Fr(m.group(0))

    def group(stop):
        nonlocal pos
        out = {}
        while pos < len(f) and f[pos] not in stop:
            c = f[pos]
            if c == "(":
                pos += 1
                sub = group(")")
                assert f[pos] == ")", f
                pos += 1
                k = num() or Fr(1)
                for e, v in sub.items():
                    out[e] = out.get(e, 0) + v * k
            elif c.isupper():
                m = re.match(r"[A-Z][a-z]?", f[pos:])
                e = m.group(0)
                pos += m.end()
                k = num() or Fr(1)
                out[e] = out.get(e, 0) + k
            else:
                raise ValueError("formula %r at %d" % (f, pos))
        return out

    total = {}
    first = True
    while pos < len(f):
        if f[pos] == ":":
            pos += 1
        k = Fr(1)
        if not first:
            k = num() or Fr(1)
        part = group(":")
        for e, v in part.items():
            total[e] = total.get(e, 0) + v * k
        first = False
    return total


# candidate phases of phreeqc.dat used by the generator (formula as the database writes it; checked against
# what the engine reports for the phase at run time)
POOL = {
    "Calcite": "CaCO3", "Aragonite": "CaCO3", "Dolomite": "CaMg(CO3)2", "Gypsum": "CaSO4:2H2O", "Anhydrite": "CaSO4",
    "Halite": "NaCl", "Sylvite": "KCl", "CO2(g)": "CO2", "Fluorite": "CaF2", "Celestite": "SrSO4",
    "Strontianite": "SrCO3", "Barite": "BaSO4", "Witherite": "BaCO3", "Quartz": "SiO2", "Chalcedony": "SiO2",
    "Kaolinite": "Al2Si2O5(OH)4", "Albite": "NaAlSi3O8", "K-feldspar": "KAlSi3O8", "Gibbsite": "Al(OH)3",
    "Anorthite": "CaAl2Si2O8", "Talc": "Mg3Si4O10(OH)2", "Chrysotile": "Mg3Si2O5(OH)4", "Thenardite": "Na2SO4",
    "Mirabilite": "Na2SO4:10H2O", "Epsomite": "MgSO4:7H2O", "Arcanite": "K2SO4",
    "Ca-Montmorillonite": "Ca0.165Al2.33Si3.67O10(OH)2", "K-mica": "KAl3Si3O10(OH)2",
}
# valence state in which a redox element of a phase formula enters the balance rows
STATE_OF = {"C": "C(4)", "S": "S(6)"}
SKIP_ELEMS = ("H", "O")


def base_elem(name):
    return name.split("(")[0]


# ----------------------------------------------------------------------------- generator
SALTS_PERTURB = ["NaCl", "KCl", "MgCl2", "Na2SO4", "CaCl2", "NaHCO3", "KNO3"]


def fmt(x):
    return ("%.6g" % x)


def gen_case(rng, k):
    """One inverse problem built from a forward-simulated evolution."""
    n_init = rng.choice([1, 1, 1, 1, 1, 1, 2, 2, 3])
    ions = ["Na", "K", "Ca", "Mg"]
    sol_lines = []
    comps = []
    present = set(["Na", "K", "Ca", "Mg", "S", "Si", "C", "Cl"])
    for s in range(1, n_init + 1):
        ph = rng.choice([6.5, 7.0, 7.5, 8.0]) + rng.random() * 0.3
        comp = {"Ca": rng.uniform(0.1, 2), "Mg": rng.uniform(0.05, 1.5), "K": rng.uniform(0.02, 0.5),
                "S(6)": rng.uniform(0.05, 1.5), "Si": rng.uniform(0.05, 0.4), "C(4)": rng.uniform(0.3, 3)}
        cat = 2 * comp["Ca"] + 2 * comp["Mg"] + comp["K"]
        an = 2 * comp["S(6)"] + comp["C(4)"]
        comp["Cl"] = max(0.05, cat - an + rng.uniform(0.2, 3))
        comps.append(dict(comp))
        L = ["SOLUTION %d" % s, "  units mmol/kgw", "  temp %s" % fmt(rng.choice([10, 25, 25, 40])), "  pH %s" % fmt(ph)]
        for e, v in comp.items():
            L.append("  %s %s" % (e, fmt(v)))
        L.append("  Na 1 charge")
        if rng.random() < 0.25:
            L.append("  Sr %s" % fmt(rng.uniform(0.005, 0.05)))
            present.add("Sr")
        if rng.random() < 0.2:
            L.append("  F %s" % fmt(rng.uniform(0.005, 0.05)))
            present.add("F")
        sol_lines.append("\n".join(L))
    final_no = n_init + 1
    # true phases and amounts (mmol); mostly dissolution
    n_true = rng.randint(1, 4)
    simple = ["Calcite", "Gypsum", "Halite", "CO2(g)", "Dolomite", "Sylvite", "Anhydrite", "Thenardite", "Epsomite"]
    silic = ["Albite", "K-feldspar", "Anorthite", "Chrysotile", "Talc"]
    true_ph = rng.sample(simple, min(n_true, len(simple)))
    if rng.random() < 0.3:
        true_ph.append(rng.choice(silic))
    amounts = {}
    for p in true_ph:
        a = rng.choice([0.1, 0.2, 0.35, 0.5, 0.8, 1.2]) * rng.uniform(0.8, 1.2)
        amounts[p] = a
    # a precipitating phase (negative amount) when the inventory allows it
    precip = None
    if rng.random() < 0.35:
        precip = rng.choice(["Calcite", "Gypsum", "Chalcedony", "Kaolinite"])
        if precip in amounts:
            precip = None
    react = []
    for p, a in amounts.items():
        react.append("  %s %s" % (p, fmt(a)))
    if precip == "Calcite":
        react.append("  Calcite %s" % fmt(-0.05))
        amounts[precip] = -0.05
    elif precip == "Gypsum":
        react.append("  Gypsum %s" % fmt(-0.03))
        amounts[precip] = -0.03
    elif precip == "Chalcedony":
        react.append("  Chalcedony %s" % fmt(-0.03))
        amounts[precip] = -0.03
    elif precip == "Kaolinite":
        if any(p in amounts for p in ("Albite", "K-feldspar", "Anorthite")):
            react.append("  Kaolinite %s" % fmt(-0.02))
            amounts[precip] = -0.02
        else:
            precip = None
    mix = None
    if n_init > 1:
        w = [rng.uniform(0.2, 1.0) for _ in range(n_init)]
        t = sum(w)
        mix = [x / t for x in w]
    # perturbation of the final water: an unmodelled salt, inside or outside the uncertainty
    unc = rng.choice([0.02, 0.05, 0.05, 0.1])
    pert_kind = rng.choice(["none", "none", "inside", "inside", "inside", "outside"])
    # a TIGHTER-than-global limit declared under -balances for a redox-active element, by ELEMENT name (applies to every valence
    # state: S -> S(6), S(-2); C -> C(4), C(-4)) or, as control, by valence-state name; the final water is then perturbed by an
    # amount of that element that lies BETWEEN what the tight limit and what the global limit can absorb
    tight = None
    if rng.random() < 0.4:
        el = rng.choice(["S", "S", "C"])
        state = {"S": "S(6)", "C": "C(4)"}[el]
        t_ = unc * rng.choice([0.1, 0.2, 0.4])
        tight = {"elem": el, "name": el if rng.random() < 0.75 else state, "limit": float("%.3g" % t_)}
        if rng.random() < 0.7:
            pert_kind = "between"
    pert = None
    if pert_kind == "between":
        el = tight["elem"]
        state = {"S": "S(6)", "C": "C(4)"}[el]
        wts = mix or [1.0]
        tot = sum(w_ * cp[state] for w_, cp in zip(wts, comps)) + sum(a * float(parse_formula(POOL[p_]).get(el, 0)) for p_, a in amounts.items())
        rel = rng.uniform(2.3 * tight["limit"], max(2.6 * tight["limit"], 1.6 * unc))
        salt = {"S": "Na2SO4", "C": "NaHCO3"}[el]
        pert = (salt, max(1e-4, tot * rel))
        react.append("  %s %s" % (pert[0], fmt(pert[1])))
    elif pert_kind != "none":
        salt = rng.choice(SALTS_PERTURB)
        scale = {"inside": 0.3, "outside": 4.0}[pert_kind]
        pert = (salt, unc * scale * rng.uniform(0.2, 1.0))   # mmol, relative to ~1 mmol totals
        react.append("  %s %s" % (pert[0], fmt(pert[1])))
    L = ["TITLE C18 case %d" % k]
    L += sol_lines
    L.append("END")
    if mix:
        L.append("MIX 1")
        for s, fr_ in enumerate(mix, 1):
            L.append("  %d %s" % (s, fmt(fr_)))
    else:
        L.append("USE solution 1")
    L.append("REACTION 1")
    L += react
    L.append("  1 mmol")
    L.append("SAVE solution %d" % final_no)
    L.append("END")
    # candidate phases: the true ones plus distractors
    cand = [p for p in amounts]
    others = [p for p in POOL if p not in cand]
    n_cand = rng.randint(max(2, len(cand)), 8 if rng.random() < 0.8 else 12)
    rng.shuffle(others)
    drop_true = rng.random() < 0.08 and len(cand) > 1      # a problem whose exact model is not available
    if drop_true:
        cand = cand[1:]
    allow_deg = rng.random() < 0.25
    if not allow_deg:
        # no two candidates with the same composition up to water (Gypsum/Anhydrite, Calcite/Aragonite, ...)
        def ckey(p_):
            return tuple(sorted((e, v) for e, v in parse_formula(POOL[p_]).items() if e not in SKIP_ELEMS))
        seen = set(ckey(p_) for p_ in cand)
        if len(seen) == len(cand):
            keep = []
            for p_ in others:
                if ckey(p_) not in seen:
                    seen.add(ckey(p_))
                    keep.append(p_)
            others = keep
    cand += others[: max(0, n_cand - len(cand))]
    if not allow_deg:
        # also no linear dependence (Kaolinite = 2 Gibbsite + 2 SiO2 ...): drop distractors until independent
        while degenerate([{"formula": POOL[p_]} for p_ in cand]) and any(p_ not in amounts for p_ in cand):
            cand.remove([p_ for p_ in cand if p_ not in amounts][-1])
    rng.shuffle(cand)
    minimal = rng.random() < 0.6
    if not minimal and len(cand) > 6:
        cand = cand[:6] if all(p in cand[:6] for p in amounts) else [p for p in amounts] + [p for p in cand if p not in amounts][: max(0, 6 - len(amounts))]
    if n_init + 1 + len(cand) > 12:
        cand = cand[: 12 - n_init - 1]
    cons = {}
    for p in cand:
        r = rng.random()
        a = amounts.get(p)
        if r < 0.3:
            cons[p] = ""
        elif r < 0.75:
            # constraint consistent with the truth (or arbitrary for distractors)
            if a is None:
                cons[p] = rng.choice(["dis", "pre"])
            else:
                cons[p] = "dis" if a > 0 else "pre"
        elif r < 0.85:
            cons[p] = rng.choice(["dis", "pre"])          # possibly contradicting the truth
        else:
            cons[p] = ""
    force = set(p for p in cand if rng.random() < 0.3) if rng.random() < 0.25 else set()
    rangeopt = rng.random() < 0.7
    tol = rng.choice([None, None, 1e-10, 1e-9, 1e-11])
    mp = rng.random() < 0.1
    minwat = rng.choice([None, None, True, False])
    uncs = [unc] if rng.random() < 0.6 else [unc] + [rng.choice([0.02, 0.05, 0.08]) for _ in range(n_init)]
    balances = {}
    if pert and "N" in parse_formula(pert[0]):
        present.add("N")
    if pert and pert[0] == "NaHCO3":
        pass
    for p in amounts:
        for el in parse_formula(POOL[p]):
            if el not in SKIP_ELEMS:
                present.add(el)
    for e in sorted(present):
        vals = []
        if rng.random() < 0.15:
            vals = [rng.choice([0.01, 0.03, 0.1, 0.2])]
            if rng.random() < 0.4:
                vals.append(rng.choice([0.02, 0.06]))
            if rng.random() < 0.15:
                vals = [-rng.choice([1e-6, 5e-6, 2e-5])]
        balances[e] = vals
    if tight:
        if tight["name"] != tight["elem"] and not balances.get(tight["elem"]):
            balances[tight["elem"]] = []
        balances[tight["name"]] = [tight["limit"]]
        if rng.random() < 0.5:
            # pin the partner cation so that a phase transfer cannot absorb the perturbation
            balances[rng.choice(["Ca", "Na"])] = [float("%.3g" % (tight["limit"] * rng.choice([0.5, 1.0])))]
    if rng.random() < 0.15:
        balances["Alkalinity"] = [rng.choice([0.03, 0.1])]
    ph_unc = None
    if rng.random() < 0.2:
        ph_unc = rng.choice([0.02, 0.1])
    hp = rng.random() < 0.5
    L.append("SELECTED_OUTPUT 1")
    L.append("  -reset false")
    L.append("  -inverse_modeling true")
    if hp:
        L.append("  -high_precision true")
    L.append("INVERSE_MODELING 1")
    L.append("  -solutions " + " ".join(str(s) for s in range(1, final_no + 1)))
    L.append("  -uncertainty " + " ".join(fmt(u) for u in uncs))
    if rangeopt:
        L.append("  -range" + ("" if rng.random() < 0.7 else " 500"))
    if minimal:
        L.append("  -minimal")
    if tol is not None:
        L.append("  -tolerance %g" % tol)
    if mp:
        L.append("  -multiple_precision true")
    if minwat is not None:
        L.append("  -mineral_water %s" % ("true" if minwat else "false"))
    L.append("  -phases")
    for p in cand:
        L.append("    %s %s %s" % (p, "force" if p in force else "", cons[p]))
    if balances or ph_unc is not None:
        L.append("  -balances")
        for e, vals in balances.items():
            L.append("    %s %s" % (e, " ".join("%g" % v for v in vals)))
        if ph_unc is not None:
            L.append("    pH %g" % ph_unc)
    L.append("END")
    meta = {"n_init": n_init, "cand": cand, "cons": cons, "force": sorted(force), "amounts": amounts, "mix": mix,
            "uncs": uncs, "balances": balances, "ph_unc": ph_unc, "minimal": minimal, "range": rangeopt, "tol": tol,
            "mp": mp, "mineral_water": minwat, "pert": pert, "pert_kind": pert_kind, "tight": tight, "drop_true": drop_true, "hp": hp}
    return {"text": "\n".join(L) + "\n", "meta": meta}


# ----------------------------------------------------------------------------- redox problems
REDOX_POOL = {"CH2O": "CH2O", "N2(g)": "N2", "O2(g)": "O2", "H2(g)": "H2", "H2S(g)": "H2S", "CH4(g)": "CH4", "NH3(g)": "NH3"}
CH2O_DEF = "PHASES\nCH2O\n    CH2O + H2O = CO2 + 4H+ + 4e-\n    log_k 0.0\n"


def gen_redox_case(rng, k):
    """Forward-simulated redox evolutions (an exact model exists: the REACTION amounts): denitrification with N2 degassing, aerobic
    respiration with O2(g) uptake, sulfate reduction with H2S loss, H2(g) / CH4(g) / NH3(g) uptake.  The candidate phases include the
    diatomic gases N2(g), O2(g), H2(g) (two atoms per master species) with non-zero transfers; N, S, C, O(0), H(0) are balanced per
    valence state.  Database phreeqc.dat or llnl.dat."""
    db = "llnl.dat" if rng.random() < 0.25 else "phreeqc.dat"
    kind = rng.choice(["denit", "denit", "aerobic", "aerobic", "sulfred", "h2", "ch4", "nh3"])
    comp = {"Ca": rng.uniform(0.5, 2), "Mg": rng.uniform(0.1, 1), "K": rng.uniform(0.02, 0.3), "C(4)": rng.uniform(1, 4),
            "S(6)": rng.uniform(0.2, 1.5)}
    redox_lines = []
    react = []
    amounts = {}
    ph = rng.uniform(6.8, 7.8)
    pe = 4.0
    if kind == "denit":
        n5 = rng.uniform(0.2, 1.0)
        o0 = rng.choice([0.0, rng.uniform(0.02, 0.2)])
        comp["N(5)"] = n5
        if o0:
            comp["O(0)"] = o0
        pe = 12.0
        a = rng.uniform(0.3, 0.9) * (1.25 * n5 + o0 * 1.0)          # CH2O: 4 e- each; NO3- -> 1/2 N2 takes 5 e-, O2 takes 4 e-
        n2_made = max(0.0, (4 * a - 4 * o0) / 10.0)                   # mmol N2 if O2 is used first
        b = rng.uniform(0.3, 0.9) * n2_made
        amounts = {"CH2O": a}
        if b > 1e-4:
            amounts["N2(g)"] = -b
    elif kind == "aerobic":
        o0 = rng.uniform(0.15, 0.3)
        comp["O(0)"] = o0
        if rng.random() < 0.5:
            comp["N(5)"] = rng.uniform(0.05, 0.3)
        pe = 12.0
        a = rng.uniform(0.1, 0.8) * o0
        amounts = {"CH2O": a, "O2(g)": rng.uniform(0.2, 1.0) * rng.choice([a, 0.1])}
    elif kind == "sulfred":
        pe = -2.0
        a = rng.uniform(0.2, 0.8) * 2 * comp["S(6)"]
        amounts = {"CH2O": a}
        if rng.random() < 0.7:
            amounts["H2S(g)"] = -rng.uniform(0.2, 0.8) * a / 2
    elif kind == "h2":
        pe = -2.0
        amounts = {"H2(g)": rng.uniform(0.1, 0.8) * 4 * comp["S(6)"] * 0.5}
        if rng.random() < 0.5:
            amounts["H2S(g)"] = -rng.uniform(0.1, 0.5) * amounts["H2(g)"] / 4
    elif kind == "ch4":
        pe = -2.0
        amounts = {"CH4(g)": rng.uniform(0.05, 0.5)}
    else:
        o0 = rng.uniform(0.15, 0.3)
        comp["O(0)"] = o0
        pe = 12.0
        amounts = {"NH3(g)": rng.uniform(0.02, 0.1), "O2(g)": rng.uniform(0.0, 0.2)}
        if amounts["O2(g)"] < 0.01:
            del amounts["O2(g)"]
    if rng.random() < 0.6:
        amounts["Calcite"] = rng.choice([1, 1, -1]) * rng.uniform(0.05, 0.4)
    if rng.random() < 0.3:
        amounts["CO2(g)"] = rng.uniform(-0.2, 0.3)
    if rng.random() < 0.25:
        amounts["Gypsum"] = rng.uniform(0.05, 0.4)
    cat = 2 * comp["Ca"] + 2 * comp["Mg"] + comp["K"]
    an = 2 * comp["S(6)"] + comp["C(4)"] + comp.get("N(5)", 0)
    comp["Cl"] = max(0.05, cat - an + rng.uniform(0.2, 3))
    L = ["TITLE C18 redox case %d (%s, %s)" % (k, kind, db)]
    if "CH2O" in amounts or rng.random() < 0.3:
        L.append(CH2O_DEF.rstrip())
    L += ["SOLUTION 1", "  units mmol/kgw", "  temp %s" % fmt(rng.choice([10, 25, 25])), "  pH %s" % fmt(ph), "  pe %s" % fmt(pe)]
    for e, v in comp.items():
        L.append("  %s %s" % (e, fmt(v)))
    L.append("  Na 1 charge")
    L.append("END")
    L.append("USE solution 1")
    L.append("REACTION 1")
    formula_of = dict(POOL, **REDOX_POOL)
    for p_, a in amounts.items():
        L.append("  %s %s" % (formula_of[p_].replace(":", ":") if p_ in REDOX_POOL else p_, fmt(a)))
    unc = rng.choice([0.005, 0.01, 0.02, 0.05])
    pert = None
    if rng.random() < 0.4:
        pert = (rng.choice(["NaCl", "KCl", "MgCl2"]), unc * 0.3 * rng.uniform(0.2, 1.0))
        L.append("  %s %s" % (pert[0], fmt(pert[1])))
    L.append("  1 mmol")
    L.append("SAVE solution 2")
    L.append("END")
    cand = list(amounts)
    if "CH2O" not in "".join(L[:3]) and "CH2O" in cand:
        pass
    have_ch2o = CH2O_DEF.rstrip() in L
    others = [p_ for p_ in (list(REDOX_POOL) + ["Calcite", "CO2(g)", "Gypsum", "Halite", "Dolomite", "Sylvite"]) if p_ not in cand and (p_ != "CH2O" or have_ch2o)]
    rng.shuffle(others)
    drop_true = rng.random() < 0.05 and len(cand) > 1
    if drop_true:
        cand = cand[1:]
    cand += others[: rng.randint(0, 4)]
    if "Gypsum" in cand and "Anhydrite" in cand:
        cand.remove("Anhydrite")
    rng.shuffle(cand)
    cons = {}
    for p_ in cand:
        r_ = rng.random()
        a = amounts.get(p_)
        if r_ < 0.4:
            cons[p_] = ""
        elif a is None:
            cons[p_] = rng.choice(["dis", "pre", ""])
        else:
            cons[p_] = "dis" if a > 0 else "pre"
    minimal = rng.random() < 0.5
    rangeopt = rng.random() < 0.6
    present = set(["Na", "K", "Ca", "Mg", "S", "C", "Cl"])
    if "N(5)" in comp or any(p_ in ("N2(g)", "NH3(g)") for p_ in cand):
        present.add("N")
    balances = {e: [] for e in sorted(present)}
    if rng.random() < 0.3:
        el = rng.choice(sorted(present & set(["N", "S", "C"])))
        balances[el] = [float("%.3g" % (unc * rng.choice([0.5, 2.0])))]
    L.append("SELECTED_OUTPUT 1")
    L.append("  -reset false")
    L.append("  -inverse_modeling true")
    if rng.random() < 0.5:
        L.append("  -high_precision true")
    L.append("INVERSE_MODELING 1")
    L.append("  -solutions 1 2")
    L.append("  -uncertainty %s" % fmt(unc))
    if rangeopt:
        L.append("  -range")
    if minimal:
        L.append("  -minimal")
    L.append("  -phases")
    for p_ in cand:
        L.append("    %s  %s" % (p_, cons[p_]))
    L.append("  -balances")
    for e, vals in balances.items():
        L.append("    %s %s" % (e, " ".join("%g" % v for v in vals)))
    L.append("END")
    meta = {"n_init": 1, "cand": cand, "cons": cons, "force": [], "amounts": amounts, "mix": None, "uncs": [unc], "balances": balances,
            "ph_unc": None, "minimal": minimal, "range": rangeopt, "tol": None, "mp": False, "mineral_water": None, "pert": pert,
            "pert_kind": "inside" if pert else "none", "tight": None, "drop_true": drop_true, "hp": False, "redox": kind, "db": db}
    return {"text": "\n".join(L) + "\n", "meta": meta, "db": os.path.join(vlib.DB, db)}


# ----------------------------------------------------------------------------- running the implementation
def run_jobs(jobs, timeout_each=20, workers=6):
    """jobs: [{id, text, oracle(bool)}] -> {id: result}.  Every process runs in a scratch directory."""
    exe = vlib.build_harness("c18_inv", ["c18_inv.cpp"])
    res = {}
    if not jobs:
        return res
    db = os.path.join(vlib.DB, "phreeqc.dat")
    with vlib.scratch("c18run") as d:
        for k, j in enumerate(jobs):
            j["_file"] = os.path.join(d, "in%05d.pqi" % k)
            open(j["_file"], "w").write(j["text"])
        nb = max(1, min(workers * 2, len(jobs)))
        per = (len(jobs) + nb - 1) // nb
        batches = [list(range(i, min(len(jobs), i + per))) for i in range(0, len(jobs), per)]

        def run_batch(bi, idxs):
            out = {}
            todo = list(idxs)
            attempt = 0
            while todo:
                attempt += 1
                wd = os.path.join(d, "w%d_%d" % (bi, attempt))
                os.makedirs(wd, exist_ok=True)
                jf = os.path.join(wd, "jobs.tsv")
                with open(jf, "w") as f:
                    for i in todo:
                        f.write("%d\t%s\t%s\t%s\n" % (i, jobs[i].get("db", db), jobs[i]["_file"], ("oraclex" if jobs[i].get("oracle") == "x" else "oracle") if jobs[i].get("oracle") else "-"))
                rc, so, se = vlib.sh([exe, jf], cwd=wd, timeout=timeout_each * len(todo) + 20)
                done = set()
                for line in so.split("\n"):
                    if not line.startswith("{"):
                        continue
                    try:
                        r = json.loads(line)
                    except Exception:
                        continue
                    i = int(r["job"])
                    out[i] = r
                    done.add(i)
                rest = [i for i in todo if i not in done]
                if not rest:
                    break
                bad = rest[0]
                out[bad] = {"job": str(bad), "timeout": rc == 124, "crash": rc != 124, "rc_proc": rc, "stderr": se[-2000:]}
                todo = rest[1:]
            return out

        with cf.ThreadPoolExecutor(max_workers=workers) as ex:
            futs = [ex.submit(run_batch, bi, b) for bi, b in enumerate(batches)]
            for f in futs:
                for i, r in f.result().items():
                    res[jobs[i]["id"]] = r
    return res


# ----------------------------------------------------------------------------- from a run to Coq terms
def H(x):
    return Fr(float.fromhex(x)) if isinstance(x, str) else Fr(x)


def qstr(fr_):
    fr_ = Fr(fr_)
    return "(%d # %d)" % (fr_.numerator, fr_.denominator) if fr_.numerator >= 0 else "((%d) # %d)" % (fr_.numerator, fr_.denominator)


def qlist(xs):
    return "[" + "; ".join(qstr(x) for x in xs) + "]"


class Skip(Exception):
    pass


def parse_inverse_text(text):
    """Independent reader of the DECLARED uncertainties of the (first) INVERSE_MODELING block of an input text:
    -uncertainty list (default 0.05, last value repeated), -balances entries (element or valence-state name followed by 0..n
    values, last value repeated; no value = the global list), pH entry (default 0.05).  This is the specification's view of
    "declared uncertainty"; nothing here comes from the engine."""
    lines = text.split("\n")
    i = 0
    while i < len(lines) and not re.match(r"^\s*INVERSE_MODELING\b", lines[i], flags=re.I):
        i += 1
    if i >= len(lines):
        raise Skip("no INVERSE_MODELING block")
    uncs, balances, ph = None, {}, None
    in_bal = False
    for ln in lines[i + 1:]:
        ln = ln.split("#")[0].strip()
        if not ln:
            continue
        if re.match(r"^(END|SOLUTION|SELECTED_OUTPUT|PHASES|USE|REACTION|MIX|SAVE|TITLE|KNOBS|PRINT|EQUILIBRIUM_PHASES|INVERSE_MODELING)\b", ln, flags=re.I):
            break
        tok = ln.split()
        if tok[0].startswith("-"):
            opt = tok[0][1:].lower()
            in_bal = False
            if opt.startswith("u"):                       # -uncertainty / -uncertainties / -u
                uncs = [float(t) for t in tok[1:]]
            elif opt.startswith("b"):                     # -balances / -bal
                in_bal = True
                tok = tok[1:]
                if not tok:
                    continue
            else:
                continue
        if in_bal and tok:
            try:
                vals = [float(t) for t in tok[1:]]
            except ValueError:
                raise Skip("unreadable -balances line %r" % ln)
            if tok[0].lower() == "ph":
                ph = vals
            else:
                balances[tok[0]] = vals
    return {"uncs": uncs or [0.05], "balances": balances, "ph": ph or [0.05]}


def expected_unc(decl, name, s, nsol):
    """Declared uncertainty of master species `name` in solution index s: an entry for the valence state itself, else an entry
    for its element (an element name applies to EVERY valence state of that element), else the global list."""
    def pick(vals):
        return vals[s] if s < len(vals) else vals[-1]
    b = base_elem(name)
    if decl["balances"].get(name):
        return pick(decl["balances"][name])
    if decl["balances"].get(b):
        return pick(decl["balances"][b])
    return pick(decl["uncs"])



OX_REF_H, OX_REF_O = Fr(1), Fr(-2)


def species_atoms(name):
    """atoms of a master species written as in the database: CO3-2, H4SiO4, Fe+3, O2, e-"""
    sp = re.sub(r"[+-]\d*(\.\d+)?$", "", name or "")
    if not sp or sp == "e":
        return {}
    return parse_formula(sp)


def row_info(p):
    """per mole-balance row j (valence state): element symbol, composition / charge / alkalinity of its master species (database data
    as reported by the engine's master table, not by inverse.cpp), atoms of the element per master species, oxidation number"""
    info = {}
    for j, e in enumerate(p["elts"]):
        if e["eminus"] or e["name"] == "Alkalinity":
            continue
        el = base_elem(e["name"])
        at = species_atoms(e.get("species"))
        if el not in at:
            raise Skip("master species %s of %s does not contain the element" % (e.get("species"), e["name"]))
        z = H(e["z"])
        others = sum((OX_REF_H if x == "H" else OX_REF_O if x == "O" else None) * n_ for x, n_ in at.items() if x != el and x in ("H", "O"))
        if any(x not in ("H", "O", el) for x in at):
            raise Skip("master species %s contains a second element" % e.get("species"))
        info[j] = {"elem": el, "atoms": at[el], "H": at.get("H", Fr(0)) if el != "H" else Fr(0), "O": at.get("O", Fr(0)) if el != "O" else Fr(0),
                   "z": z, "alk": H(e["alk"]), "ox": (z - others) / at[el], "row": e["row"], "name": e["name"]}
    return info


def balanced_reaction(formula, a, info, alk_e):
    """formula: {element: atoms} of one mole of phase (empty for a redox reaction); a: {row j: atoms of the row's element put on that row}.
    The rest of the dissolution reaction follows from O, H and charge balance:
        formula = sum_j n_j species_j + nu_w H2O + nu_h H+ + nu_e e-          (n_j = a_j / atoms of the element per master species)
    -> (nu_w, nu_h, nu_e, alkalinity of the products)"""
    n = {j: a_j / info[j]["atoms"] for j, a_j in a.items() if a_j != 0}
    o_used = sum(n_ * (info[j]["O"] + (info[j]["atoms"] if info[j]["elem"] == "O" else 0)) for j, n_ in n.items())
    h_used = sum(n_ * (info[j]["H"] + (info[j]["atoms"] if info[j]["elem"] == "H" else 0)) for j, n_ in n.items())
    nu_w = formula.get("O", Fr(0)) - o_used
    nu_h = formula.get("H", Fr(0)) - h_used - 2 * nu_w
    nu_e = sum(n_ * info[j]["z"] for j, n_ in n.items()) + nu_h
    alk = sum(n_ * info[j]["alk"] for j, n_ in n.items()) - nu_h + nu_e * alk_e
    return nu_w, nu_h, nu_e, alk


def engine_matrix(pb_or_p):
    rows = {}
    for rr, cc, v in pb_or_p["array"]:
        rows.setdefault(rr, {})[cc] = H(v)
    return rows


def build_problem(r, meta=None, text=None):
    """-> dict with everything that does not depend on the individual model."""
    p = r["problem"]
    lay = p["layout"]
    ns = p["count_solns"]
    nph = len(p["phases"])
    toler = H(p["toler"])
    sgn = [Fr(1)] * (ns - 1) + [Fr(-1)]
    decl = parse_inverse_text(text) if text is not None else None
    # valence states grouped by element
    groups = {}
    order = []
    for j, e in enumerate(p["elts"]):
        if e["eminus"]:
            continue
        nm = e["name"]
        b = base_elem(nm)
        if nm == "Alkalinity":
            b = "Alkalinity"
        if b not in groups:
            groups[b] = []
            order.append(b)
        groups[b].append(j)
    # spec stoichiometry of every phase
    comp = []
    for ph in p["phases"]:
        f = ph["formula"]
        if ph["name"] in POOL and POOL[ph["name"]] != f:
            raise Skip("formula of %s reported as %s" % (ph["name"], f))
        comp.append(parse_formula(f))
    A = engine_matrix(p)
    info = row_info(p)
    erow_ = [e["row"] for e in p["elts"] if e["eminus"]]
    alk_e = [H(e["alk"]) for e in p["elts"] if e["eminus"]]
    alk_e = alk_e[0] if alk_e else Fr(1)
    # the dissolution reaction of every phase implied by the valence rows its atoms are put on (the engine may choose the valence
    # state; that the choice is a BALANCED reaction of the formula is checked in setup_violations): water, H+, e-, alkalinity
    colspec = []
    for i, cp in enumerate(comp):
        a = {j: A.get(inf["row"], {}).get(lay["col_phases"] + i, Fr(0)) for j, inf in info.items()}
        colspec.append(balanced_reaction(cp, a, info, alk_e))
    redox_cols = []
    for c_ in range(lay["col_redox"], lay["col_epsilon"]):
        a = {j: A.get(inf["row"], {}).get(c_, Fr(0)) for j, inf in info.items()}
        nu_w, nu_h, nu_e, alk_r = balanced_reaction({}, a, info, alk_e)
        per_el = {}
        for j, inf in info.items():
            per_el[inf["elem"]] = per_el.get(inf["elem"], Fr(0)) + a[j]
        redox_cols.append({"water": nu_w if p["mineral_water"] else Fr(0), "Alkalinity": alk_r, "elem": per_el})
    rows = []
    for b in order:
        if b in SKIP_ELEMS:
            continue
        js = groups[b]
        states = []
        for j in js:
            e = p["elts"][j]
            T = []
            for s in range(ns):
                sol = p["solns"][s]
                if e["name"] == "Alkalinity":
                    T.append(H(sol["alk"]))
                else:
                    T.append(H(sol["totals"].get(e["name"], "0x0p+0")) if "totals" in sol else Fr(0))
            Ue = [H(u) for u in e["unc"]]                     # what the engine's tidy_inverse ended up with (cross-checked only)
            U = [Fr(float(expected_unc(decl, e["name"], s, ns))) for s in range(ns)] if decl else Ue
            bound = [(u * abs(T[s])) if u > 0 else -u for s, u in enumerate(U)]
            states.append({"j": j, "name": e["name"], "T": T, "bound": bound, "unc": U, "unc_engine": Ue})
        if b == "Alkalinity":
            c = [cs[3] for cs in colspec]
        else:
            c = [cp.get(b, Fr(0)) for cp in comp]
        rows.append({"elem": b, "states": states, "c": c})
    # water balance: moles of water of the mixed initial solutions + water released by the phases = water of the final solution.
    gfw = H(p["gfw_water"])
    Tw = [H(sol["mass_water"]) / gfw for sol in p["solns"]]
    wc = [cs[0] if p["mineral_water"] else Fr(0) for cs in colspec]
    rows.append({"elem": "H2O(water)", "states": [{"j": None, "name": "water", "T": Tw, "bound": None, "unc": []}], "c": wc, "water": True})
    # electron balance: with reference oxidation numbers ox_ref (H +1, O -2, every other element: the oxidation number of its first
    # valence row) a neutral phase carries  el(p) = sum_E ox_ref(E) n_E  electrons more than its atoms in their reference states, an
    # aqueous atom on valence row j carries  ox_ref(E) - ox_j.  Conservation:  sum_s sg_s sum_j w_j (f_s T_js + eps_js) + sum_p t_p el(p) = 0.
    # Entirely from the phase FORMULAS and the database's master species; it is what pins the transfers of O2(g), H2(g) (H and O
    # have no element balance) and the valence-state bookkeeping of every redox phase.
    ox_ref = {"H": OX_REF_H, "O": OX_REF_O}
    for j in sorted(info):
        ox_ref.setdefault(info[j]["elem"], info[j]["ox"])
    w = {j: ox_ref[inf["elem"]] - inf["ox"] for j, inf in info.items()}
    wj = {j: x for j, x in w.items() if x != 0}
    if wj:
        W = sum(abs(x) for x in wj.values())
        est = []
        for j, x in sorted(wj.items()):
            e = p["elts"][j]
            T = [H(p["solns"][s]["totals"].get(e["name"], "0x0p+0")) for s in range(ns)]
            Ud = [Fr(float(expected_unc(decl, e["name"], s, ns))) for s in range(ns)] if decl else [H(u) for u in e["unc"]]
            bnd = [(u * abs(T[s])) if u > 0 else -u for s, u in enumerate(Ud)]
            est.append({"j": j, "name": e["name"], "T": [x / W * t for t in T], "bound": [abs(x) / W * b_ for b_ in bnd], "unc": [], "scale": x / W})
        try:
            ec = [sum(ox_ref[el] * nu for el, nu in cp.items()) / W for cp in comp]
            rows.append({"elem": "electrons", "states": est, "c": ec, "electron": True})
        except KeyError:
            pass
    # every element of a phase must be balanced somewhere (otherwise the phase could create mass)
    balanced = set(r_["elem"] for r_ in rows if not r_.get("water") and not r_.get("electron"))
    for ph, cp in zip(p["phases"], comp):
        for el in cp:
            if el not in SKIP_ELEMS and el not in balanced:
                raise Skip("element %s of %s has no balance row" % (el, ph["name"]))
    cons = [ph["constraint"] for ph in p["phases"]]
    return {"ns": ns, "nph": nph, "toler": toler, "sgn": sgn, "rows": rows, "cons": cons, "lay": lay, "p": p,
            "range": bool(p["range"]), "minimal": bool(p["minimal"]),
            "ph_unc": ([Fr(float(decl["ph"][min(i_, len(decl["ph"]) - 1)])) for i_ in range(ns)] if decl else [H(s["ph_unc"]) for s in p["solns"]]),
            "ph_unc_engine": [H(s["ph_unc"]) for s in p["solns"]], "decl": decl, "info": info, "colspec": colspec, "redox_cols": redox_cols, "comp": comp, "_rows": A,
            "_delta": [H(v) for v in p["delta"]], "alk_e": alk_e, "e_row": erow_[0] if erow_ else None, "carbon": bool(p["carbon"]), "water_unc": H(p["water_uncertainty"])}


def model_terms(pb, m):
    """exact rationals of one reported model (snapshot of inv_delta1 / min_delta / max_delta)."""
    lay = pb["lay"]
    ns, nph = pb["ns"], pb["nph"]
    x = [H(v) for v in m["x"]]
    fr_ = x[0:ns]
    tr = x[lay["col_phases"]:lay["col_phases"] + nph]
    redox = x[lay["col_redox"]:lay["col_epsilon"]]
    rows = []
    for r_ in pb["rows"]:
        sts = []
        if r_.get("water"):
            # the single water adjustment (column "water", coefficient +1) is attached to a solution with non-zero fraction:
            # sg*(f*T + e) with e = eps_w/sg ; bound water_uncertainty (absolute) expressed as b*f
            ew = x[lay["col_water"]]
            k = 0 if fr_[0] > 0 else ns - 1
            e = [Fr(0)] * ns
            b = [Fr(0)] * ns
            e[k] = ew / pb["sgn"][k]
            b[k] = pb["water_unc"] / fr_[k] if fr_[k] > 0 else Fr(0)
            kw = sum(t_ * rc["water"] for t_, rc in zip(redox, pb["redox_cols"]))
            rows.append({"elem": r_["elem"], "states": [{"T": r_["states"][0]["T"], "e": e, "b": b, "name": "water"}], "c": r_["c"], "water": True, "k": kw})
            continue
        for st in r_["states"]:
            e = [x[lay["col_epsilon"] + st["j"] * ns + s] * st.get("scale", 1) for s in range(ns)]
            sts.append({"T": st["T"], "e": e, "b": st["bound"], "name": st["name"]})
        if r_.get("electron"):
            kk = Fr(0)
        elif r_["elem"] == "Alkalinity":
            kk = sum(t_ * rc["Alkalinity"] for t_, rc in zip(redox, pb["redox_cols"]))
        else:
            kk = sum(t_ * rc["elem"].get(r_["elem"], Fr(0)) for t_, rc in zip(redox, pb["redox_cols"]))
        rows.append(dict({"elem": r_["elem"], "states": sts, "c": r_["c"], "k": kk}, **({"electron": True} if r_.get("electron") else {})))
    extra = []
    if pb["carbon"]:
        extra.append({"T": [Fr(0)] * ns, "e": [x[lay["col_ph"] + s] for s in range(ns)], "b": pb["ph_unc"], "name": "pH"})
    mn = [H(v) for v in m["min"]]
    mx = [H(v) for v in m["max"]]
    frng = list(zip(mn[0:ns], mx[0:ns]))
    trng = list(zip(mn[lay["col_phases"]:lay["col_phases"] + nph], mx[lay["col_phases"]:lay["col_phases"] + nph]))
    return {"fr": fr_, "tr": tr, "redox": redox, "rows": rows, "extra": extra, "frng": frng, "trng": trng}


def tolerances(pb):
    """cl1 itself accepts a vector when every equality row is satisfied within check_toler = 10*toler and every inequality row within
    the same amount (cl1.cpp, 'Check calculation'); toler is the run's -tolerance.  An element balance is the sum of its valence-state
    rows, hence the factor max(number of states)."""
    t = pb["toler"]
    # (the electron row is a weighted sum, weights scaled to sum 1, of valence rows plus the E row)
    ms = max([len(r_["states"]) for r_ in pb["rows"] if not r_.get("electron")] + [2])
    return {"tolb": 10 * t * ms, "tolu": 10 * t, "tolr": Fr(1, 10**6)}


def py_residuals(pb, mt):
    """Python-side exact evaluation (diagnostics and replay files only; the verdict is Coq's)."""
    out = {}
    for r_ in mt["rows"]:
        tot = Fr(0)
        for st in r_["states"]:
            for s in range(pb["ns"]):
                tot += pb["sgn"][s] * (mt["fr"][s] * st["T"][s] + st["e"][s])
        tot += sum(t * c for t, c in zip(mt["tr"], r_["c"])) + r_.get("k", 0)
        out[r_["elem"]] = tot
    return out


def lp_violations(pb, m):
    """Does the reported vector satisfy the constraint system that setup_inverse() itself built (my_array rows row_mb..count_rows and
    the sign vector delta, read from the engine)?  Exact arithmetic, tolerance = cl1's own 10*toler.  Used only to ATTRIBUTE a failure of the
    specification check: system satisfied -> the system is wrong (setup); system violated -> the solver returned a bad vector."""
    p = pb["p"]
    lay = pb["lay"]
    n = lay["count_unknowns"]
    x = [H(v) for v in m["x"]]
    tol = 10 * pb["toler"]
    if "_rows" not in pb:
        rows = {}
        for rr, cc, v in p["array"]:
            rows.setdefault(rr, {})[cc] = H(v)
        pb["_rows"] = rows
        pb["_delta"] = [H(v) for v in p["delta"]]
    bad = []
    for rr, row in pb["_rows"].items():
        val = sum(c * x[j] for j, c in row.items() if j < n)
        rhs = row.get(n, Fr(0))
        if rr < lay["row_epsilon"]:
            if abs(val - rhs) > tol:
                bad.append("equality row %s off by %.3g" % (p["row_name"][rr], float(val - rhs)))
        elif val - rhs > tol:
            bad.append("inequality row %s exceeded by %.3g" % (p["row_name"][rr], float(val - rhs)))
    for j, d in enumerate(pb["_delta"]):
        if d > 0 and x[j] < -tol:
            bad.append("sign constraint %s >= 0 violated: %.3g" % (p["col_name"][j], float(x[j])))
        elif d < 0 and x[j] > tol:
            bad.append("sign constraint %s <= 0 violated: %.3g" % (p["col_name"][j], float(x[j])))
    return bad


def setup_violations(pb):
    """Exact comparison of the constraint system built by setup_inverse (my_array, delta as read from the engine) with the
    specification: element rows (solution, phase and epsilon columns), water row, sign vector, uncertainty inequalities."""
    p = pb["p"]
    lay = pb["lay"]
    ns, nph = pb["ns"], pb["nph"]
    n = lay["count_unknowns"]
    toler = pb["toler"]
    if "_rows" not in pb:
        rows = {}
        for rr, cc, v in p["array"]:
            rows.setdefault(rr, {})[cc] = H(v)
        pb["_rows"] = rows
        pb["_delta"] = [H(v) for v in p["delta"]]
    A = pb["_rows"]
    bad = []

    def close(a, b):
        return abs(a - b) <= Fr(1, 10**12) * max(abs(a), abs(b)) + Fr(1, 10**30)

    def closec(a, b):
        # entries of a column are doubles such as 0.165 * 2: one part in 1e12 of the largest stoichiometric number involved
        return abs(a - b) <= Fr(1, 10**12) * max(abs(a), abs(b), 1)
    info = pb["info"]
    # every phase column and every redox column must be a BALANCED reaction: atoms of each element = formula (0 for a redox
    # reaction), water / electron / alkalinity entries = what O, H and charge balance of the formula require
    alk_row = [p["elts"][j]["row"] for j in range(len(p["elts"])) if p["elts"][j]["name"] == "Alkalinity"]
    cols = [(lay["col_phases"] + i, "phase " + p["phases"][i]["name"], pb["comp"][i]) for i in range(nph)]
    cols += [(c_, "redox reaction " + p["col_name"][c_], {}) for c_ in range(lay["col_redox"], lay["col_epsilon"])]
    for col, what, formula in cols:
        a = {j: A.get(inf["row"], {}).get(col, Fr(0)) for j, inf in info.items()}
        for el in sorted(set(inf["elem"] for inf in info.values()) | set(formula)):
            if el in SKIP_ELEMS:
                continue
            tot = sum(a[j] for j, inf in info.items() if inf["elem"] == el)
            if not closec(tot, formula.get(el, Fr(0))):
                bad.append("%s: %.6g atoms of %s on its valence rows, the formula has %.6g" % (what, float(tot), el, float(formula.get(el, 0))))
        nu_w, nu_h, nu_e, alk = balanced_reaction(formula, a, info, pb["alk_e"])
        if pb["e_row"] is not None:
            got = A.get(pb["e_row"], {}).get(col, Fr(0))
            if not closec(got, nu_e):
                bad.append("%s: electron entry %.6g, O/H/charge balance of the formula with these valence rows requires %.6g" % (what, float(got), float(nu_e)))
        gotw = A.get(lay["row_water"], {}).get(col, Fr(0))
        wantw = nu_w if p["mineral_water"] else Fr(0)
        if not closec(gotw, wantw):
            bad.append("%s: water entry %.6g, O balance of the formula requires %.6g" % (what, float(gotw), float(wantw)))
        if alk_row:
            gota = A.get(alk_row[0], {}).get(col, Fr(0))
            if not closec(gota, alk):
                bad.append("%s: alkalinity entry %.6g, the balanced reaction gives %.6g" % (what, float(gota), float(alk)))
    for r_ in pb["rows"]:
        if r_.get("electron"):
            continue
        if r_.get("water"):
            row = A.get(lay["row_water"], {})
            for s in range(ns):
                if not close(row.get(s, Fr(0)), pb["sgn"][s] * r_["states"][0]["T"][s]):
                    bad.append("water row, solution %d: %.17g, specification %.17g" % (s, float(row.get(s, 0)), float(pb["sgn"][s] * r_["states"][0]["T"][s])))
            continue
        for st in r_["states"]:
            row = A.get(p["elts"][st["j"]]["row"], {})
            for s in range(ns):
                if not close(row.get(s, Fr(0)), pb["sgn"][s] * st["T"][s]):
                    bad.append("row %s, solution %d: %.17g, specification %.17g" % (st["name"], s, float(row.get(s, 0)), float(pb["sgn"][s] * st["T"][s])))
                ce = row.get(lay["col_epsilon"] + st["j"] * ns + s, Fr(0))
                if ce != 0 and ce != pb["sgn"][s]:
                    bad.append("row %s, epsilon of solution %d has coefficient %.6g" % (st["name"], s, float(ce)))
    # sign vector
    for i in range(nph):
        d = pb["_delta"][lay["col_phases"] + i]
        want = pb["cons"][i]
        if (d > 0) - (d < 0) != want:
            bad.append("sign constraint of phase %s is %.3g, input says %d" % (p["phases"][i]["name"], float(d), want))
    for s in range(ns - 1):
        if pb["_delta"][s] <= 0:
            bad.append("mixing fraction of solution %d is not constrained to be non-negative" % s)
    # uncertainty inequalities  eps <= b f ,  -eps <= b' f  with b' <= b
    bounds = {}
    for r_ in pb["rows"]:
        if r_.get("water") or r_.get("electron"):
            continue
        for st in r_["states"]:
            for s in range(ns):
                bounds[(st["j"], s)] = (st["bound"][s], st["name"])
    seen_upper = set()
    for rr, row in A.items():
        if rr < lay["row_epsilon"]:
            continue
        cols = [c for c in row if c < n]
        ec = [c for c in cols if lay["col_epsilon"] <= c < lay["col_ph"]]
        sc = [c for c in cols if c < ns]
        if len(ec) != 1 or len(cols) > 2:
            continue
        c = ec[0]
        j, s = divmod(c - lay["col_epsilon"], ns)
        if (j, s) not in bounds:
            continue
        b, nm = bounds[(j, s)]
        a_s = row.get(s, Fr(0))
        code_b = -a_s / abs(row[c])
        if sc and sc != [s]:
            bad.append("inequality row %s couples epsilon %s/%d with solution %d" % (p["row_name"][rr], nm, s, sc[0]))
        if row[c] > 0:
            seen_upper.add((j, s))
            if not close(code_b, b) and not (b < toler):
                bad.append("upper limit of the adjustment of %s in solution %d is %.6g, declared uncertainty gives %.6g" % (nm, s, float(code_b), float(b)))
        else:
            if code_b > b * (1 + Fr(1, 10**12)) + toler and not (b < toler):
                bad.append("lower limit of the adjustment of %s in solution %d is %.6g, declared uncertainty gives %.6g" % (nm, s, float(code_b), float(b)))
    for (j, s), (b, nm) in bounds.items():
        col = lay["col_epsilon"] + j * ns + s
        used = any(col in row for row in A.values())
        if used and b >= toler and (j, s) not in seen_upper:
            bad.append("adjustment of %s in solution %d has no upper limit" % (nm, s))
    return bad


def coq_vrow(st):
    return "{| v_T := %s; v_e := %s; v_b := %s |}" % (qlist(st["T"]), qlist(st["e"]), qlist(st["b"]))


def coq_problem(pb, tol):
    return ("{| p_sgn := %s; p_cons := [%s]; p_range := %s; p_tolb := %s; p_tolu := %s; p_tolr := %s |}"
            % (qlist(pb["sgn"]), "; ".join("(%d)%%Z" % c for c in pb["cons"]), "true" if pb["range"] else "false",
               qstr(tol["tolb"]), qstr(tol["tolu"]), qstr(tol["tolr"])))


def coq_model(mt):
    rows = "; ".join("{| e_states := [%s]; e_c := %s; e_k := %s |}" % ("; ".join(coq_vrow(st) for st in r_["states"]), qlist(r_["c"]), qstr(r_.get("k", 0)))
                     for r_ in mt["rows"])
    extra = "; ".join(coq_vrow(st) for st in mt["extra"])
    rng = lambda l: "[" + "; ".join("(%s, %s)" % (qstr(a), qstr(b)) for a, b in l) + "]"
    return ("{| m_fr := %s; m_tr := %s; m_rows := [%s]; m_extra := [%s]; m_frng := %s; m_trng := %s |}"
            % (qlist(mt["fr"]), qlist(mt["tr"]), rows, extra, rng(mt["frng"]), rng(mt["trng"])))


# ----------------------------------------------------------------------------- reporting consistency (text <-> internals)
from decimal import Decimal


def dec_fr(txt):
    return Fr(Decimal(txt))


def half_ulp(txt):
    """half a unit in the last printed place of a %e-formatted number"""
    m = re.match(r"^[+-]?(\d)\.(\d+)e([+-]\d+)$", txt.strip())
    if not m:
        return None
    nd = len(m.group(2))
    ex = int(m.group(3))
    return Fr(1, 2) * Fr(10) ** (ex - nd)


def zeroed(v):
    return Fr(0) if abs(v) <= Fr(MIN_TOTAL_INVERSE) else v


def near(txt, v, slack=Fr(0)):
    """printed text txt is the %e rendering of exact value v (after the engine's zeroing of |v|<=1e-14)"""
    hu = half_ulp(txt)
    if hu is None:
        return False
    v = zeroed(v)
    # one part in 1e12 for the binary->decimal conversion of snprintf itself and for d1+d2 rounding
    return abs(dec_fr(txt) - v) <= hu * (1 + Fr(1, 10**6)) + slack + abs(v) * Fr(1, 10**12)


NUM = r"[+-]?\d\.\d+e[+-]\d+"


def split_models_text(out):
    """the printed text of every reported model, in order"""
    i = out.find("Beginning of inverse modeling")
    if i < 0:
        return []
    body = out[i:]
    parts = []
    pos = 0
    for m in re.finditer(r"Maximum fractional error in element concentration:\s*(%s)" % NUM, body):
        parts.append(body[pos:m.end()])
        pos = m.end()
    return parts


def check_printed(pb, m, mt, text):
    """-> list of mismatch descriptions between the printed model and the engine's vectors"""
    bad = []
    p = pb["p"]
    ns, nph = pb["ns"], pb["nph"]
    toler = pb["toler"]
    # solution fractions
    seg = text[text.find("Solution fractions:"):]
    rows = re.findall(r"^\s*Solution\s+(\d+)\s+(%s)\s+(%s)\s+(%s)\s*$" % (NUM, NUM, NUM), seg, flags=re.M)
    if len(rows) != ns:
        bad.append("fraction rows %d != %d" % (len(rows), ns))
    for s, row in enumerate(rows[:ns]):
        if int(row[0]) != p["solns"][s]["n_user"]:
            bad.append("fraction row %d is for solution %s" % (s, row[0]))
        for txt, v, what in zip(row[1:], (mt["fr"][s], mt["frng"][s][0], mt["frng"][s][1]), ("value", "min", "max")):
            if not near(txt, v):
                bad.append("fraction %s of solution %d printed %s, engine %.17g" % (what, s, txt, float(v)))
    # phase transfers: a row is printed unless value, min and max are all within toler of zero
    seg2 = seg[seg.find("Phase mole transfers:"):seg.find("Redox mole transfers:")]
    prow = {}
    for line in seg2.split("\n")[1:]:
        mm = re.match(r"^\s*(\S.{0,14}?)\s+(%s)\s+(%s)\s+(%s)\s+\S" % (NUM, NUM, NUM), line)
        if mm:
            prow[mm.group(1).strip()] = mm.groups()[1:]
    for i, ph in enumerate(p["phases"]):
        v, lo, hi = mt["tr"][i], mt["trng"][i][0], mt["trng"][i][1]
        expected = not (abs(v) <= toler and abs(lo) <= toler and abs(hi) <= toler)
        key = ph["name"][:15].strip()
        if expected != (key in prow):
            bad.append("phase %s %s in the printed table (value %.3g)" % (ph["name"], "missing" if expected else "unexpected", float(v)))
        elif expected:
            for txt, val, what in zip(prow[key], (v, lo, hi), ("value", "min", "max")):
                if not near(txt, val):
                    bad.append("transfer %s of %s printed %s, engine %.17g" % (what, ph["name"], txt, float(val)))
    # Input / Delta / Input+Delta tables of the solutions that take part
    for s in range(ns):
        if abs(mt["fr"][s]) <= toler:
            continue
        mm = re.search(r"^Solution %d: [^\n]*\n\n\s+Input\s+Delta\s+Input\+Delta\n((?:.*\n)*?)\n" % p["solns"][s]["n_user"], text, flags=re.M)
        if not mm:
            bad.append("no Input/Delta table for solution %d" % s)
            continue
        tab = {}
        for line in mm.group(1).split("\n"):
            m2 = re.match(r"^\s*(\S+)\s+(%s)\s+\+\s*(%s)\s+=\s*(%s)\s*$" % (NUM, NUM, NUM), line)
            if m2:
                tab[m2.group(1)] = m2.groups()[1:]
        for r_ in mt["rows"]:
            if r_.get("water") or r_.get("electron"):
                continue
            for st in r_["states"]:
                nm = st["name"][:15]
                if nm not in tab:
                    bad.append("no Delta row for %s in solution %d" % (nm, s))
                    continue
                d1 = st["T"][s]
                d2 = st["e"][s] / mt["fr"][s]
                a, b, c = tab[nm]
                if not near(a, d1):
                    bad.append("Input of %s/%d printed %s, solution total %.17g" % (nm, s, a, float(d1)))
                if not near(b, d2, slack=abs(d2) * Fr(1, 10**12)):
                    bad.append("Delta of %s/%d printed %s, engine eps/f %.17g" % (nm, s, b, float(d2)))
                if not near(c, d1 + d2, slack=(abs(d1) + abs(d2)) * Fr(1, 10**12)):
                    bad.append("Input+Delta of %s/%d printed %s, expected %.17g" % (nm, s, c, float(d1 + d2)))
    return bad


def parse_selstr(s):
    lines = [l for l in s.split("\n") if l.strip()]
    if not lines:
        return [], []
    heads = [h.strip() for h in lines[0].split("\t") if h.strip()]
    rows = [[c.strip() for c in l.split("\t") if c.strip()] for l in lines[1:]]
    return heads, rows


def check_punched(pb, m, mt, heads, row):
    bad = []
    p = pb["p"]
    ns, nph = pb["ns"], pb["nph"]
    exp_heads = ["Sum_resid", "Sum_Delta/U", "MaxFracErr"]
    vals = [H(m["error"]) / Fr(0.0009765625), H(m["scaled_error"]), H(m["max_pct"])]
    for s in range(ns):
        n = p["solns"][s]["n_user"]
        exp_heads += ["Soln_%d" % n, "Soln_%d_min" % n, "Soln_%d_max" % n]
        vals += [mt["fr"][s], mt["frng"][s][0], mt["frng"][s][1]]
    for i, ph in enumerate(p["phases"]):
        exp_heads += [ph["name"], ph["name"] + "_min", ph["name"] + "_max"]
        vals += [mt["tr"][i], mt["trng"][i][0], mt["trng"][i][1]]
    if heads != exp_heads:
        bad.append("selected-output headings %r, expected %r" % (heads[:8], exp_heads[:8]))
        return bad
    if len(row) != len(vals):
        bad.append("selected-output row has %d cells, expected %d" % (len(row), len(vals)))
        return bad
    for k, (txt, v) in enumerate(zip(row, vals)):
        if k < 3:
            # Sum_resid is not zeroed below 1e-14
            hu = half_ulp(txt)
            if hu is None or abs(dec_fr(txt) - v) > hu * (1 + Fr(1, 10**6)) + abs(v) * Fr(1, 10**12):
                bad.append("column %s punched %s, engine %.17g" % (exp_heads[k], txt, float(v)))
        elif not near(txt, v):
            bad.append("column %s punched %s, engine %.17g" % (exp_heads[k], txt, float(v)))
    return bad


# ----------------------------------------------------------------------------- strata for known numerical weaknesses
def degenerate(phases):
    """the candidate phases are linearly dependent in composition (H, O and water left out): Gypsum/Anhydrite, Calcite/Aragonite,
    Kaolinite = 2 Gibbsite + 2 SiO2, ... -> the LPs of range() have flat directions that are only closed through the water balance"""
    vecs = []
    elems = sorted(set(e for ph in phases for e in parse_formula(ph["formula"]) if e not in SKIP_ELEMS))
    for ph in phases:
        f = parse_formula(ph["formula"])
        vecs.append([f.get(e, Fr(0)) for e in elems])
    # rank by Gaussian elimination over Q
    rank = 0
    rows = [v[:] for v in vecs]
    for col in range(len(elems)):
        piv = None
        for i in range(rank, len(rows)):
            if rows[i][col] != 0:
                piv = i
                break
        if piv is None:
            continue
        rows[rank], rows[piv] = rows[piv], rows[rank]
        for i in range(len(rows)):
            if i != rank and rows[i][col] != 0:
                k = rows[i][col] / rows[rank][col]
                rows[i] = [a - k * b for a, b in zip(rows[i], rows[rank])]
        rank += 1
    return rank < len(vecs)


def stratum(pb):
    p = pb["p"]
    clean = (pb["ns"] == 2 and not degenerate(p["phases"]) and not any(ph["force"] for ph in p["phases"])
             and not any(s["force"] for s in p["solns"]) and not p["mp"])
    return "clean" if clean else "delicate"


# ----------------------------------------------------------------------------- Coq evaluation of the cases
COQ_HEAD = """From Coq Require Import QArith Qabs List Bool ZArith.
From IPV Require Import C18.Check C18.Search C18.Bits Gen.Gen_C18_bits C18.GenProofs.
Import ListNotations.
Open Scope Q_scope.
Definition show (st : state) :=
  (good st, bad st, minimal st, calls st,
   map (fun r => (r_mask r, r_solved r, r_good r, r_bad r, r_minimal r, r_calls r)) (rev (reports st))).
"""


def coq_replay(tag, rep):
    tab = "[" + "; ".join("(%d%%Z, (%s, %d%%Z))" % (o[0], "true" if o[1] else "false", o[2]) for o in rep["oracle"]) + "]"
    return ["Definition tab_%s : list (Z * (bool * Z)) := %s." % (tag, tab),
            "Eval vm_compute in (83%%Z, %s%%Z, show (search t_sup t_bad t_min (lookup tab_%s) %d %d %s %s %d%%Z))."
            % (tag, tag, rep["nph"], rep["nsol"], "true" if rep["minimal"] else "false", "true" if rep["range"] else "false", rep["force"])]


# used when Props/Properties_C18.vo could not be built (e.g. the regenerated tests no longer mean inclusion): the replay then uses
# the tests the theorems need, so that a divergence of the implementation shows up as a concrete failing input
COQ_HEAD_FALLBACK = COQ_HEAD.replace("From IPV Require Import C18.Check C18.Search C18.Bits Gen.Gen_C18_bits C18.GenProofs.",
                                     "From IPV Require Import C18.Check C18.Search.") + """
Definition t_sup (b m : Z) : bool := Z.eqb (Z.lor b m) b.
Definition t_bad (b m : Z) : bool := Z.eqb (Z.lor b m) m.
Definition t_min (b m : Z) : bool := Z.eqb (Z.lor b m) m.
"""
USE_FALLBACK = [False]


def coq_cases(items):
    """items: [(tag, pb, tol, [(mi, mt, goodmask)], final_good_masks or None)] or ("replay", tag, rep) -> .v text"""
    L = [COQ_HEAD_FALLBACK if USE_FALLBACK[0] else COQ_HEAD]
    for it in items:
        if it[0] == "replay":
            L += coq_replay(it[1], it[2])
            continue
        tag, pb, tol, models, masks = it
        L.append("Definition pb_%s : problem := %s." % (tag, coq_problem(pb, tol)))
        for mi, mt, g in models:
            L.append("Definition md_%s_%d : model := %s." % (tag, mi, coq_model(mt)))
            L.append("Eval vm_compute in (77%%Z, %s%%Z, %d%%Z, check_verdict pb_%s md_%s_%d, Z.eqb (model_support %s md_%s_%d) %d)."
                     % (tag, mi, tag, tag, mi, qstr(TOL_BITS), tag, mi, g))
        if masks is not None:
            L.append("Eval vm_compute in (65%%Z, %s%%Z, antichain_b [%s])." % (tag, "; ".join("%d%%Z" % x for x in masks)))
    return "\n".join(L) + "\n"


def parse_coq_out(out):
    res = {"M": {}, "A": {}, "R": {}}
    flat = re.sub(r"\s+", " ", out).replace("%Z", "")

    def plist(t):
        t = t.strip()
        return [int(x) for x in t.split(";")] if t else []
    for m in re.finditer(r"= \(83, (\d+), \(\[([^\]]*)\], \[([^\]]*)\], \[([^\]]*)\], (\d+), \[(.*?)\]\)\) : ", flat):
        reps = re.findall(r"\((\d+), (\d+), \[([^\]]*)\], \[([^\]]*)\], \[([^\]]*)\], (\d+)\)", m.group(6))
        res["R"][int(m.group(1))] = {"good": plist(m.group(2)), "bad": plist(m.group(3)), "minimal": plist(m.group(4)), "calls": int(m.group(5)),
                                      "reports": [{"mask": int(a), "solved": int(b), "good": plist(c), "bad": plist(d), "minimal": plist(e), "calls": int(f)}
                                                  for a, b, c, d, e, f in reps]}
    for m in re.finditer(r'= \(77, (\d+), (\d+), \[([^\]]*)\], (true|false)\)', flat):
        res["M"][(int(m.group(1)), int(m.group(2)))] = ([b.strip() == "true" for b in m.group(3).split(";")], m.group(4) == "true")
    for m in re.finditer(r'= \(65, (\d+), (true|false)\)', flat):
        res["A"][int(m.group(1))] = m.group(2) == "true"
    return res


def eval_shards(items, nshards=6, timeout=900):
    """split the items over several coqc processes"""
    shards = [items[i::nshards] for i in range(nshards)]
    shards = [s for s in shards if s]
    out = {"M": {}, "A": {}, "R": {}}
    fails = []
    with cf.ThreadPoolExecutor(max_workers=nshards) as ex:
        futs = [ex.submit(vlib.coq_eval, coq_cases(s), timeout) for s in shards]
        for f, s in zip(futs, shards):
            rc, txt = f.result()
            if rc != 0:
                fails.append(txt[-1500:])
            r = parse_coq_out(txt)
            out["M"].update(r["M"])
            out["A"].update(r["A"])
            out["R"].update(r["R"])
    return out, fails


VERDICT_NAMES = ["shape", "balance", "adjustment", "fraction-sign", "phase-sign", "range"]


def corpus_cases():
    """the shipped inverse-modelling examples without isotopes, with a selected output added so that the harness sees the models"""
    out = {}
    for name, db in (("ex16", "phreeqc.dat"), ("ex17", "pitzer.dat")):
        path = os.path.join(vlib.REPO, "phreeqc3-examples", name)
        if not os.path.exists(path):
            continue
        text = open(path, errors="replace").read()
        text, k = re.subn(r"(?m)^INVERSE_MODELING", "SELECTED_OUTPUT 1\n  -reset false\n  -inverse_modeling true\nINVERSE_MODELING", text, count=1)
        if k:
            out[name] = {"text": text, "meta": None, "db": os.path.join(vlib.DB, db)}
    return out


def gen():
    import c18_bits, c18_tidy, c18_setup, c18_shrink
    c18_bits.generate()
    c18_tidy.generate()
    c18_setup.generate()
    c18_shrink.generate()


_seen_keys = set()


def dbname(c):
    return os.path.basename(c.get("db") or "phreeqc.dat")


def report(ctx, key, what, obj):
    """one replay per key (the first case that shows it); later ones are only counted"""
    if key in _seen_keys:
        return
    _seen_keys.add(key)
    ctx.violation(key, what, obj)


def analyse(ctx, cases, res, stats):
    """python-side reporting checks + preparation of the Coq items.  cases: {id: case}, res: {id: result}"""
    items = []
    replays = []
    info = {}
    for cid in sorted(cases):
        c = cases[cid]
        r = res.get(cid)
        if r is None or r.get("timeout") or r.get("crash"):
            stats["timeout" if r and r.get("timeout") else "crash"] += 1
            if r and r.get("crash"):
                report(ctx, "C18:crash", "the library crashed on an inverse-modelling input",
                              {"kind": "input", "input_text": c["text"], "database": dbname(c), "observed": r.get("stderr", ""), "expected": "a run that returns"})
            continue
        if r.get("rc", 1) != 0 or "dberr" in r:
            stats["run ended with ERROR (outside premises)"] += 1
            continue
        nm = len(r["models"])
        # F7: the selected-output string carries one row per model, the table must too
        heads, srows = parse_selstr(r["selstr"].get("1", ""))
        trows = r["table_rows"].get("1", 0) - 1
        if r["problem"] is not None and len(srows) != max(trows, 0):
            stats["F7 observed"] += 1
            report(ctx, "F7:punch_model-no-end-row",
                          "punch_model never calls fpunchf_end_row: the selected-output string has one row per inverse model, the selected-output table has none",
                          {"kind": "input", "input_text": c["text"], "database": dbname(c),
                           "observed": {"string_rows": len(srows), "table_rows": trows}, "expected": "equal numbers of rows"})
        # the tableau handed to cl1 for every sub-model: engine's shrink() vs the specification of shrink (harness, bit for bit)
        sh = r.get("shrink") or {}
        if sh.get("masks"):
            stats["shrink checks (masks)"] += sh["masks"]
        if sh.get("mismatches"):
            stats["shrink differs from specification (problems)"] += 1
            report(ctx, "C18:shrink-differs-from-specification",
                   "the tableau / sign vector that shrink() hands to cl1 for a sub-model is not the sub-system of the problem built by setup_inverse "
                   "(kept columns compacted in order, the dissolve/precipitate and non-negativity constraints travelling with their columns): "
                   + "; ".join("mask %s: %s" % (bin(x["mask"]), x["what"]) for x in sh.get("first", [])[:2]),
                   {"kind": "input", "input_text": c["text"], "database": dbname(c),
                    "observed": {"sub-models checked": sh["masks"], "sub-models with a difference": sh["mismatches"], "first": sh.get("first")},
                    "expected": "identical sizes, col_back, row_back, sign vector and tableau entries for every sub-model"})
        # replay of the subset search with the real solve_with_mask as tabulated oracle
        if r.get("oracle") and not r.get("oracle_note") and r["problem"] is not None:
            p_ = r["problem"]
            force = 0
            nph_ = len(p_["phases"])
            for i, ph in enumerate(p_["phases"]):
                if ph["force"]:
                    force |= 1 << i
            for i, sl in enumerate(p_["solns"]):
                if sl["force"]:
                    force |= 1 << (nph_ + i)
            summ = re.findall(r"Number of models found: (\d+)\s+Number of minimal models found: (\d+)\s+"
                              r"Number of infeasible sets of phases saved: (\d+)\s+Number of calls to cl1: (\d+)", r["out"])
            rep = {"oracle": r["oracle"], "nph": nph_, "nsol": p_["count_solns"], "minimal": bool(p_["minimal"]), "range": bool(p_["range"]),
                   "force": force, "summary": [int(x) for x in summ[0]] if summ else None,
                   "snaps": [{"good": m["good"], "bad": m["bad"], "minimal": m["minimal"], "calls": m["count_calls"], "xhash": m["xhash"]} for m in r["models"]],
                   "text": c["text"], "db": c.get("db")}
            replays.append(("replay", str(cid), rep))
            stats["search replays"] += 1
        elif r.get("oracle_note"):
            stats["no oracle table: " + r["oracle_note"]] += 1
        if r["problem"] is None:
            stats["no inverse problem was set up"] += 1
            continue
        try:
            pb = build_problem(r, c.get("meta"), c["text"])
        except Skip as ex:
            stats["skipped: " + str(ex)[:60]] += 1
            continue
        # declared uncertainties (read independently from the input text) vs. what the engine's read/tidy_inverse produced
        me = c.get("meta")
        if pb["decl"]:
            for r_ in pb["rows"]:
                if r_.get("water") or r_.get("electron"):
                    continue
                for st in r_["states"]:
                    for s in range(pb["ns"]):
                        if st["unc_engine"][s] != st["unc"][s]:
                            stats["uncertainty misread"] += 1
                            report(ctx, "C18:uncertainty-misread",
                                   "declared uncertainty of %s in solution %d is %g (input text: entry for the valence state, else for its element, "
                                   "else -uncertainty); the engine uses %g" % (st["name"], s, float(st["unc"][s]), float(st["unc_engine"][s])),
                                   {"kind": "input", "input_text": c["text"], "database": dbname(c),
                                    "observed": {"row": st["name"], "solution_index": s, "engine": float(st["unc_engine"][s])},
                                    "expected": float(st["unc"][s])})
            if pb["carbon"] and pb["ph_unc"] != pb["ph_unc_engine"]:
                report(ctx, "C18:uncertainty-misread", "declared pH uncertainty %r, the engine uses %r" % ([float(x) for x in pb["ph_unc"]], [float(x) for x in pb["ph_unc_engine"]]),
                       {"kind": "input", "input_text": c["text"], "database": dbname(c)})
        if me:
            # the text reader must agree with what the generator meant to write (guards the reader itself)
            d_ = pb["decl"]
            if ([float(x) for x in d_["uncs"]] != [float("%.6g" % u) for u in me["uncs"]]
                    or {k: v for k, v in d_["balances"].items()} != {k: [float("%g" % x) for x in v] for k, v in me["balances"].items()}):
                ctx.obligation("check-infrastructure(parse_inverse_text)", False, "reader %r vs generator %r" % (d_, (me["uncs"], me["balances"])))
            pe = pb["p"]
            want_opts = {"minimal": int(me["minimal"]), "range": int(me["range"]), "mp": int(me["mp"]),
                         "mineral_water": 1 if me["mineral_water"] is None else int(me["mineral_water"])}
            got_opts = {k: int(pe[k]) for k in want_opts}
            want_tol = Fr(1e-12) if me["mp"] else Fr(me["tol"] if me["tol"] is not None else 1e-10)
            if got_opts != want_opts or H(pe["toler"]) != want_tol:
                report(ctx, "C18:options-misread", "INVERSE_MODELING options read as %r / tolerance %g, input says %r / %g"
                       % (got_opts, float(H(pe["toler"])), want_opts, float(want_tol)),
                       {"kind": "input", "input_text": c["text"], "database": dbname(c), "observed": got_opts, "expected": want_opts})
            if [ph["name"] for ph in pb["p"]["phases"]] != me["cand"]:
                report(ctx, "C18:phases-misread", "phase list differs from the input", {"kind": "input", "input_text": c["text"], "database": dbname(c)})
            for ph in pb["p"]["phases"]:
                want = {"": 0, "dis": 1, "pre": -1}[me["cons"][ph["name"]]]
                if ph["constraint"] != want or bool(ph["force"]) != (ph["name"] in me["force"]):
                    report(ctx, "C18:constraint-misread", "constraint/force of %s read as %d/%d" % (ph["name"], ph["constraint"], ph["force"]),
                                  {"kind": "input", "input_text": c["text"], "database": dbname(c)})
        sv = setup_violations(pb)
        if sv:
            stats["setup matrix differs from specification"] += 1
            report(ctx, "C18:setup-matrix-differs-from-specification",
                   "the constraint system built by setup_inverse differs from the specification (solution totals, phase formulas, declared "
                   "uncertainties, dissolve/precipitate constraints): " + "; ".join(sv[:3]),
                   {"kind": "input", "input_text": c["text"], "database": dbname(c), "observed": sv[:30],
                    "expected": "rows = mole balances of the specification"})
        if nm == 0:
            stats["no model reported"] += 1
            ctx.case(("nomodel", c["text"]), nontrivial=False)
            continue
        tol = tolerances(pb)
        texts = split_models_text(r["out"])
        if len(texts) != nm or len(srows) != nm:
            report(ctx, "C18:model-count-mismatch", "printed %d models, punched %d rows, %d model snapshots" % (len(texts), len(srows), nm),
                          {"kind": "input", "input_text": c["text"], "database": dbname(c)})
        mm = re.search(r"Number of models found: (\d+)", r["out"])
        if mm and int(mm.group(1)) != nm:
            report(ctx, "C18:model-count-mismatch", "summary says %s models, %d were reported" % (mm.group(1), nm),
                          {"kind": "input", "input_text": c["text"], "database": dbname(c)})
        models = []
        for mi, m in enumerate(r["models"]):
            mt = model_terms(pb, m)
            g = m["good"][-1] if m["good"] else 0
            models.append((mi, mt, g))
            bad = []
            if mi < len(texts):
                bad += check_printed(pb, m, mt, texts[mi])
            if mi < len(srows):
                bad += check_punched(pb, m, mt, heads, srows[mi])
            if bad:
                stats["report mismatch"] += 1
                report(ctx, "C18:report-mismatch", "printed / punched model differs from the solver's vector: " + "; ".join(bad[:4]),
                              {"kind": "input", "input_text": c["text"], "database": dbname(c), "model_index": mi, "observed": bad[:20],
                               "expected": "every printed number is the %e rendering of the engine value"})
            stats["models"] += 1
        masks = list(r["models"][-1]["good"]) if pb["minimal"] else None
        items.append((str(cid), pb, tol, models, masks))
        info[cid] = {"pb": pb, "r": r, "c": c, "models": models}
    return items, info, replays


def judge(ctx, items, info, coq, stats, reps=None):
    reps = reps or {}
    for tag, pb, tol, models, masks in items:
        cid = int(tag)
        c = info[cid]["c"]
        r = info[cid]["r"]
        warn = r.get("warn", "")
        out = r.get("out", "")
        for mi, mt, g in models:
            v = coq["M"].get((cid, mi))
            if v is None:
                ctx.obligation("coq-evaluation-of-case", False, "no verdict for case %s model %d" % (tag, mi))
                continue
            verdict, supp_ok = v
            failed = [n for n, ok in zip(VERDICT_NAMES, verdict) if not ok]
            rs = py_residuals(pb, mt)
            sample = {"phases": [ph["name"] for ph in pb["p"]["phases"]], "nsol": pb["ns"], "fractions": [float(x) for x in mt["fr"]],
                      "transfers": [float(x) for x in mt["tr"]], "max_balance_residual": max([abs(float(x)) for x in rs.values()] or [0]),
                      "verdict": dict(zip(VERDICT_NAMES, verdict))}
            ctx.case(("model", c["text"], mi), sample=sample)
            mm0 = r["models"][mi]
            if pb["range"] and "rmin" in mm0 and not any(k_[2] < 0 for k_ in mm0.get("rkode", [])):
                if mm0["rmin"] != mm0["min"][:len(mm0["rmin"])] or mm0["rmax"] != mm0["max"][:len(mm0["rmax"])]:
                    stats["range replay mismatch"] += 1
                    report(ctx, "C18:range-replay-mismatch",
                           "the min/max stored by range() are not the optima (as computed by the engine's own cl1) of  minimise |x_i -/+ range_max|  over the "
                           "constraint system of the reported model plus forced phases/solutions",
                           {"kind": "input", "input_text": c["text"], "database": dbname(c), "model_index": mi,
                            "observed": {"min": [float.fromhex(v) for v in mm0["min"]], "max": [float.fromhex(v) for v in mm0["max"]]},
                            "expected": {"min": [float.fromhex(v) for v in mm0["rmin"]], "max": [float.fromhex(v) for v in mm0["rmax"]]}})
                else:
                    stats["range replay identical"] += 1
            if not supp_ok:
                stats["mask/support mismatch"] += 1
                report(ctx, "C18:mask-support-mismatch", "bit mask %s saved for a reported model is not the set of its non-zero fractions/transfers" % bin(g),
                              {"kind": "input", "input_text": c["text"], "database": dbname(c), "model_index": mi,
                               "observed": {"mask": g, "fractions": [float(x) for x in mt["fr"]], "transfers": [float(x) for x in mt["tr"]]}})
            if not failed:
                continue
            obs = {"failed_checks": failed, "balance_residuals": {k: float(x) for k, x in rs.items()},
                   "fractions": [float(x) for x in mt["fr"]], "transfers": [float(x) for x in mt["tr"]],
                   "ranges": [[float(a), float(b)] for a, b in mt["frng"] + mt["trng"]], "tolerance": float(pb["toler"])}
            nonrange = [f for f in failed if f != "range"]
            # did the vector that is printed come from a solve_with_mask call that returned ERROR?  (known from the replay of the
            # search model: which mask was solved last before this report, and what the real solver answers for that mask)
            failed_solve = "Roundoff errors in minimal calculation" in warn
            rp_, mo_ = reps.get(cid), coq["R"].get(cid)
            if rp_ and mo_ and mi < len(mo_["reports"]):
                tab_ = {o[0]: o for o in rp_["oracle"]}
                sv = mo_["reports"][mi]["solved"]
                if sv in tab_ and tab_[sv][3] == r["models"][mi]["xhash"]:
                    failed_solve = not tab_[sv][1]
                    obs["last_solved_mask"] = bin(sv)
                    obs["solve_with_mask_returned_OK"] = bool(tab_[sv][1])
            if nonrange:
                lpbad = lp_violations(pb, r["models"][mi])
                obs["violations_of_the_engine_own_constraint_system"] = lpbad[:10]
                if not lpbad:
                    # the vector satisfies the system setup_inverse built, but not the specification: the system is wrong
                    key = "C18:inadmissible-model:" + "+".join(nonrange)
                    what = ("reported inverse model satisfies the constraint system built by setup_inverse but is not an admissible mole-balance "
                            "model (specification: solution totals, phase formulas, declared uncertainties, constraints); failed: " + ", ".join(nonrange))
                elif failed_solve:
                    key = "C18:model-from-failed-solve"
                    what = ("minimal_solve ignores the ERROR return of its last solve_with_mask; solve_inverse then prints the failed solver's "
                            "vector as a model, and it violates mole balance / uncertainty / sign constraints")
                elif (r.get("shrink") or {}).get("mismatches"):
                    key = "C18:inadmissible-model:" + "+".join(nonrange) + ":constraint-lost-in-shrink"
                    what = ("reported inverse model violates the constraint system of the problem (" + ", ".join(nonrange) + "); for this problem "
                            "shrink() hands cl1 a tableau / sign vector that differs from the specification, so the solver never saw the constraint")
                else:
                    key = "C18:cl1-accepted-infeasible-vector"
                    what = ("cl1 returned kode 0 for a vector that violates the constraints it was given (its final check never tests the "
                            "dissolve/precipitate sign constraints: x_arg is never filled; round-off in degenerate problems); the model is "
                            "reported and is not admissible: " + ", ".join(nonrange))
                stats["inadmissible: " + key] += 1
                report(ctx, key, what, {"kind": "input", "input_text": c["text"], "database": dbname(c), "model_index": mi,
                                        "observed": obs, "expected": "check_inverse_model = true (Coq, exact arithmetic)"})
            if "range" in failed:
                mm_ = r["models"][mi]
                replayed = "rmin" in mm_ and not any(k_[2] < 0 for k_ in mm_.get("rkode", []))
                same = replayed and mm_["rmin"] == mm_["min"][:len(mm_["rmin"])] and mm_["rmax"] == mm_["max"][:len(mm_["rmax"])]
                if replayed:
                    obs["range_replay"] = {"identical_to_reported_min_max": same,
                                           "cl1_kode_and_iterations(i,direction,kode,iter,kode@100000,iter@100000)": mm_["rkode"],
                                           "min_with_iteration_limit_100000": [float.fromhex(v) for v in mm_["bmin"]],
                                           "max_with_iteration_limit_100000": [float.fromhex(v) for v in mm_["bmax"]]}
                if "Error in subroutine range" in out:
                    key = "C18:range-cl1-error"
                    what = "range() prints 'Error in subroutine range' (cl1 failed) but still reports the min/max; a value lies outside its reported range"
                elif same:
                    # range() built exactly the LPs the specification prescribes and stored exactly what cl1 answered (bit for bit);
                    # the reported vector satisfies the same constraint system, so cl1 returned a non-optimal vertex with kode 0
                    key = "C18:range-outside:delicate"
                    what = ("a value of a reported model lies outside its reported [min,max] range although no solver error is reported: range() "
                            "poses the right optimisation problems (rebuilt independently from my_array/delta and solved with the engine's own "
                            "shrink()/cl1(): bit-identical min/max, kode 0, far below the iteration limit), cl1 returns a non-optimal vertex")
                elif replayed:
                    key = None          # reported as C18:range-replay-mismatch below
                else:
                    key = "C18:range-outside:" + stratum(pb)
                    what = "a value of a reported model lies outside its reported [min,max] range (no solver error reported)"
                if key:
                    stats["range: " + key] += 1
                    report(ctx, key, what, {"kind": "input", "input_text": c["text"], "database": dbname(c), "model_index": mi,
                                            "observed": obs, "expected": "min <= value <= max for every fraction and transfer"})
        if masks is not None:
            a = coq["A"].get(cid)
            if a is None:
                ctx.obligation("coq-evaluation-of-case", False, "no antichain verdict for case %s" % tag)
            elif not a:
                hyp = oracle_consistency(reps[cid]) if cid in reps else None
                if hyp:
                    key = "C18:minimal-not-antichain:inconsistent-cl1"
                    what = ("with -minimal a reported model's set of phases and solutions strictly contains that of another reported model; "
                            "cl1's answers on this problem violate the consistency hypotheses %s of theorem minimal_models_antichain" % ", ".join(hyp))
                else:
                    key = "C18:minimal-not-antichain"
                    what = "with -minimal a reported model's set of phases and solutions strictly contains that of another reported model"
                stats["antichain violated: " + key] += 1
                report(ctx, key, what, {"kind": "input", "input_text": c["text"], "database": dbname(c),
                                        "observed": {"masks": [bin(x) for x in masks], "oracle_hypotheses_violated": hyp},
                                        "expected": "no reported mask strictly contains another"})


def oracle_consistency(rep):
    """which hypotheses of minimal_models_antichain the tabulated cl1 oracle violates (on the tabulated masks)"""
    tab = {o[0]: (bool(o[1]), o[2]) for o in rep["oracle"]}
    W = rep["nph"] + rep["nsol"]
    bad = set()
    feas = [m for m, (ok, s) in tab.items() if ok]
    for m, (ok, s) in tab.items():
        if s & ~m:
            bad.add("H_sub")
        if s >> W:
            bad.add("H_width")
    for a in feas:
        s = tab[a][1]
        if s in tab and not tab[s][0]:
            bad.add("H_supp")
        if s not in tab:
            bad.add("H_supp")            # support lost the final solution
        if not (a >> (W - 1)) & 1:
            bad.add("H_top")
    feas_set = set(feas)
    for a in feas:
        # supersets of a feasible mask must be feasible
        rest = ((1 << W) - 1) & ~a
        sub = rest
        while True:
            b = a | sub
            if b in tab and b not in feas_set:
                bad.add("H_mono")
                break
            if sub == 0:
                break
            sub = (sub - 1) & rest
        if "H_mono" in bad:
            break
    return sorted(bad)


def judge_replays(ctx, replays, coq, stats):
    for _, tag, rep in replays:
        cid = int(tag)
        mo = coq["R"].get(cid)
        if mo is None:
            ctx.obligation("coq-evaluation-of-case", False, "no search replay result for case %s" % tag)
            continue
        ctx.case(("replay", rep["text"]), nontrivial=len(rep["oracle"]) > 1)
        diffs = []
        if rep["summary"] is not None:
            ms = [len(mo["good"]), len(mo["minimal"]), len(mo["bad"]), mo["calls"]]
            if ms != rep["summary"]:
                diffs.append("summary (models, minimal, infeasible, cl1 calls): model %r, engine %r" % (ms, rep["summary"]))
        if len(mo["reports"]) != len(rep["snaps"]):
            diffs.append("model reports %d models, engine %d" % (len(mo["reports"]), len(rep["snaps"])))
        hashes = {o[0]: o[3] for o in rep["oracle"]}
        for i, (a, b) in enumerate(zip(mo["reports"], rep["snaps"])):
            for k in ("good", "bad", "minimal", "calls"):
                if a[k] != b[k]:
                    diffs.append("report %d: %s differs: model %r, engine %r" % (i, k, a[k], b[k]))
                    break
            else:
                if hashes.get(a["solved"]) != b["xhash"]:
                    stats["reported vector is not the vector of the last solve"] += 1
                    report(ctx, "C18:reported-vector-not-from-last-solve",
                           "the vector printed for a model is not the one solve_with_mask returns for the mask the search solved last",
                           {"kind": "input", "input_text": rep["text"], "database": dbname(rep), "model_index": i,
                            "observed": {"mask_solved": a["solved"], "hash_reported": b["xhash"], "hash_of_solve": hashes.get(a["solved"])}})
        if diffs:
            stats["search replay mismatch"] += 1
            report(ctx, "C18:search-replay-mismatch",
                   "solve_inverse's book-keeping (good/bad/minimal lists, reported models, cl1 calls) differs from the Coq search model "
                   "replayed with the real solve_with_mask as oracle: " + "; ".join(diffs[:3]),
                   {"kind": "input", "input_text": rep["text"], "database": dbname(rep), "observed": diffs[:20],
                    "expected": "identical lists at every reported model and identical summary counts"})
        else:
            stats["search replay identical"] += 1


def run(ctx):
    import collections, time
    stats = collections.Counter()
    t0 = time.time()
    timing = {}
    ok = vlib.coq_stage(ctx, "Props/Properties_C18.vo", gen=gen)
    timing["coq_stage_s"] = round(time.time() - t0, 1)
    if not ok:
        # keep going with the model files that do not depend on the regenerated code
        vlib.coq_make(["C18/Check.vo", "C18/Search.vo"])
        USE_FALLBACK[0] = True
    ctx.trusted += ["harness/c18_inv.cpp (reads the solver vectors through '#define private public', no change to /repo)",
                    "props/c18.py: formula parser (specification stoichiometry), generator, text parsers",
                    "cl1 (simplex) is an oracle: Section variable `solve` in C18/Search.v with hypotheses H_sub H_mono H_supp H_top for the antichain theorem"]
    rp = json.load(open(ctx.replay)) if ctx.replay else None
    if rp is not None and rp.get("input_text"):
        # re-execute exactly that input; the same checks report the same key if it still fails
        cases = {0: {"text": rp["input_text"], "meta": None, "db": os.path.join(vlib.DB, rp.get("database") or "phreeqc.dat")}}
    else:
        n = ctx.n(150, 1200)
        cases = {k: gen_case(ctx.rng, k) for k in range(n)}
        for k in range(ctx.n(50, 400)):
            cases[50000 + k] = gen_redox_case(ctx.rng, k)
        for i, (name, c) in enumerate(sorted(corpus_cases().items())):
            cases[100000 + i] = c
    jobs = [dict({"id": k, "text": c["text"], "oracle": True}, **({"db": c["db"]} if c.get("db") else {})) for k, c in cases.items()]
    t1 = time.time()
    res = run_jobs(jobs, timeout_each=30)
    timing["engine_runs_s"] = round(time.time() - t1, 1)
    t1 = time.time()
    items, info, replays = analyse(ctx, cases, res, stats)
    timing["python_analysis_s"] = round(time.time() - t1, 1)
    t1 = time.time()
    coq, fails = eval_shards(items + replays)
    timing["coq_case_evaluation_s"] = round(time.time() - t1, 1)
    ctx.extra["timing"] = timing
    if fails:
        ctx.obligation("coq-evaluation-of-cases", False, fails[0])
    judge(ctx, items, info, coq, stats, {int(t): rp for _, t, rp in replays})
    judge_replays(ctx, replays, coq, stats)
    ctx.rule = ("forward-simulated evolutions (1..3 initial waters mixed, stoichiometric REACTION with 1..5 phases, optional unmodelled salt as "
                "perturbation inside/outside the uncertainty) followed by INVERSE_MODELING with 2..9 candidate phases, constraints, force, "
                "-range, -minimal, -tolerance, -mineral_water, -multiple_precision, per-element/absolute uncertainties (tight limits by element name on redox elements); "
                "plus redox evolutions (denitrification with N2 loss, respiration with O2(g), sulfate reduction, H2/CH4/NH3 uptake; phreeqc.dat and llnl.dat); a case is non-trivial "
                "when at least one model is reported; each reported model is one evaluation of the Coq checker")
    ctx.extra["statistics"] = dict(stats)
    ctx.notes += ["mole-balance residuals are evaluated exactly (Q) on the solver's own vector (hex doubles); tolerance = cl1's own acceptance threshold 10*toler per row (toler = the run's -tolerance)",
                  "range membership uses relative slack 1e-6*(1+|v|); support threshold = TOL (1e-9) as in solve_inverse"]
