"""C05 — selected-output table, string, lines and file describe the same data.

Proof: coq/Props/Properties_C05.v (invariant + refinement of CSelectedOutput for all op sequences, Get out of
range for all of Z, the three sinks are folds of one event stream, line accessors).
Tie (T-corr): (a) random op sequences on the real CSelectedOutput class vs the extracted model;
(b) whole-instance runs with generated SELECTED_OUTPUT/USER_PUNCH blocks: the recorded engine->io event
stream is fed to the extracted routing model, which must reproduce every selected-output string, file and
table; row structure of the stream; printf rendering of every text cell; C / C++ / Fortran-binding accessors
cell by cell including out-of-range indices and unknown user numbers."""
import json, os, re, struct, concurrent.futures as cf
import vlib, wrap, gen_inputs

KEYS = ["a", "b", "pH", "Na(mol/kgw)", "", "x y", "no_heading_1", "K" * 300, "sim", "a ", "A"]


def gen_direct_case(rng, nops, long_table=0):
    ops = ["NEW"]
    nrow_guess, ncol_guess = 0, 0
    if long_table:
        # a table that already has many finished rows (the container reserves 80 rows per column: late columns must still be padded
        # with one empty cell for every row already written, on both sides of that boundary)
        ops.append("P\t%s\tl1" % wrap.hexs(KEYS[0]))
        ncol_guess = 1
        for _ in range(long_table):
            ops.append("E")
        nrow_guess = long_table
    for _ in range(nops):
        k = rng.random()
        if k < 0.62:
            key = rng.choice(KEYS[: rng.choice([3, 5, len(KEYS)])])
            t = rng.random()
            if t < 0.2:
                v = "e"
            elif t < 0.45:
                v = "l%d" % rng.choice([0, 1, -1, 2**31 - 1, -2**31, 2**62, rng.randint(-10**6, 10**6)])
            elif t < 0.75:
                v = "d%d" % rng.choice([0, 2**63, 0x7FF0000000000000, 0x7FF8000000000001, 0x3FF0000000000000, rng.getrandbits(64)])
            elif t < 0.95:
                v = "s" + wrap.hexs(rng.choice(["", "x", "str", "a b\tc", "0123456789" * 30]))
            else:
                v = "x%d" % rng.choice([-1, -2, -3, -4, -5])
            ops.append("P\t%s\t%s" % (wrap.hexs(key), v))
            ncol_guess = min(ncol_guess + 1, len(KEYS))
        elif k < 0.78:
            ops.append("E")
            nrow_guess += 1
        elif k < 0.80:
            ops.append("C")
            nrow_guess = ncol_guess = 0
        elif k < 0.96:
            r = rng.choice([-1, 0, 1, nrow_guess - 1, nrow_guess, nrow_guess + 1, nrow_guess + 2, 2**31 - 1, -2**31, rng.randint(-3, nrow_guess + 3)])
            c = rng.choice([-1, 0, 1, ncol_guess - 1, ncol_guess, ncol_guess + 1, 2**31 - 1, -2**31, rng.randint(-3, ncol_guess + 3)])
            ops.append("G\t%d\t%d" % (r, c))
        else:
            ops.append("R")
    ops.append("R")
    ops.append("T")
    return ops


def direct_correspondence(ctx, sodrive, mexe):
    ncases = ctx.n(1500, 30000)
    batch = []
    for i in range(ncases):
        batch.append(gen_direct_case(ctx.rng, ctx.rng.choice([3, 8, 20, 60, 150]), long_table=(ctx.rng.choice([77, 78, 79, 80, 81, 82, 120, 161, 300]) if i % 12 == 0 else 0)))
    # corpus first
    corpus = [["NEW", "P\t61\tl1", "E", "P\t62\tl2", "E", "G\t1\t1", "G\t2\t0", "G\t3\t0", "G\t0\t2", "R", "T"],
              ["NEW", "E", "R", "G\t0\t0", "P\t\te", "R", "T"],
              ["NEW", "P\t61\tl1", "P\t61\tl2", "G\t1\t0", "E", "G\t1\t0", "C", "G\t0\t0", "T"]]
    batch = corpus + batch
    text = "\n".join("\n".join(c) for c in batch) + "\n"
    rc1, out1, err1 = vlib.sh([sodrive], input=text, timeout=600)
    rc2, out2, err2 = vlib.sh([mexe], input=text, timeout=600)
    l1, l2 = out1.split("\n"), out2.split("\n")
    kinds = {}
    # walk case by case to localise a disagreement
    pos = 0
    for ci, c in enumerate(batch):
        nq = sum(1 for o in c if o[0] in "GRT")
        a, b = l1[pos:pos + nq], l2[pos:pos + nq]
        pos += nq
        for o in c:
            kinds[o[0]] = kinds.get(o[0], 0) + 1
        nontrivial = any(o.startswith("P") for o in c) and any(o == "E" for o in c)
        ctx.case("direct:" + vlib.key_of(c), sample={"kind": "CSelectedOutput op sequence", "ops": c[:12]} if ci in (3, 4) else None, nontrivial=nontrivial)
        if a != b:
            small = shrink_direct(c, sodrive, mexe)
            ctx.violation("direct:" + vlib.key_of(small), "CSelectedOutput and the proved model disagree on an operation sequence",
                          {"kind": "ops", "ops": small, "observed": run_ops(sodrive, small), "expected": run_ops(mexe, small)})
            break
    if rc1 != 0 or rc2 != 0:
        ctx.violation("direct:crash", "driver exited abnormally (rc impl=%s model=%s) %s" % (rc1, rc2, (err1 + err2)[-500:]), {"kind": "ops", "stderr": (err1 + err2)[-2000:]})
    ctx.extra.setdefault("input_distribution", {})["direct_ops"] = kinds


def run_ops(exe, ops):
    return vlib.sh([exe], input="\n".join(ops) + "\n", timeout=60)[1].split("\n")


def shrink_direct(c, sodrive, mexe):
    cur = list(c)
    changed = True
    while changed and len(cur) > 2:
        changed = False
        for i in range(1, len(cur)):
            t = cur[:i] + cur[i + 1:]
            if run_ops(sodrive, t) != run_ops(mexe, t):
                cur = t
                changed = True
                break
    return cur


# --------------------------------------------------------------------------------------------- instance level

C_FMT = re.compile(r"^%(-?\d*)(?:\.(\d+))?(l?[dsefgEG])(.*)$", re.S)


def c_render(fmt, v):
    """python's % operator implements the C printf conversions used by the engine (correctly rounded)."""
    f = fmt.replace("%ld", "%d")
    if "l" in v:
        return f % v["l"]
    if "s" in v:
        return f % v["s"]
    x = float.fromhex(v["d"]) if v["d"][0] in "0-" and "x" in v["d"] else float(v["d"])
    return f % x


def gen_instance_case(rng):
    uns = sorted(rng.sample([1, 2, 3, 5, 22, 100], rng.randint(1, 3)))
    text, info = gen_inputs.multi_sim_input(rng, user_numbers=uns, rich=rng.random() < 0.4, with_file=True, print_toggle=True, newline_variants=True)
    extra_un = rng.choice([7, 8, 0])
    sel = {}
    for n in uns + [extra_un]:
        sel[n] = {"string": rng.random() < 0.6, "file": rng.random() < 0.5, "name": rng.choice([None, None, "sel_custom_%d.txt" % n])}
    case = {"db": "phreeqc.dat", "input": text, "sel": sel, "set_order": rng.sample(list(sel), len(sel)),
            "cur": rng.choice(uns + [extra_un, 1]), "out": (rng.random() < 0.3, rng.random() < 0.5), "uns": uns,
            "entry": rng.choice(["RunString", "RunString", "RunFile", "Accumulate"])}
    return case


def inverse_case():
    """the shipped inverse-modelling example ex16 with -inverse_modeling selected output (row structure!)"""
    text = open(os.path.join(vlib.REPO, "phreeqc3-examples", "ex16")).read()
    text = text.replace("INVERSE_MODELING 1", "SELECTED_OUTPUT 1\n -reset false\n -inverse_modeling true\nINVERSE_MODELING 1", 1)
    return {"db": "phreeqc.dat", "input": text, "sel": {1: {"string": True, "file": True, "name": None}}, "set_order": [1], "cur": 1,
            "out": (False, False), "uns": [1], "entry": "RunString", "label": "ex16-inverse"}


def script_for(case):
    ops = [["spy"], ["c", "LoadDatabase", 0, os.path.join(vlib.DB, case["db"])], ["events", 0]]
    for n in case["set_order"]:
        s = case["sel"][n]
        ops.append(["c", "SetCurrentSelectedOutputUserNumber", 0, n])
        ops.append(["c", "SetSelectedOutputStringOn", 0, int(s["string"])])
        ops.append(["c", "SetSelectedOutputFileOn", 0, int(s["file"])])
        if s["name"]:
            ops.append(["c", "SetSelectedOutputFileName", 0, s["name"]])
    ops.append(["c", "SetOutputFileOn", 0, int(case["out"][0])])
    ops.append(["c", "SetOutputStringOn", 0, int(case["out"][1])])
    ops.append(["c", "SetCurrentSelectedOutputUserNumber", 0, case["cur"]])
    ops.append(["obs", 0])           # pre-run observation: switch state per user number
    irun = len(ops)
    if case["entry"] == "RunString":
        ops.append(["c", "RunString", 0, case["input"]])
    elif case["entry"] == "RunFile":
        ops.append(["c", "RunFile", 0, "input.pqi"])
    else:
        for ln in case["input"].split("\n")[:-1]:
            ops.append(["c", "AccumulateLine", 0, ln])
        ops.append(["c", "RunAccumulated", 0])
    ops.append(["events", 0])
    ops.append(["obs", 0, "lines"])
    for n in case["uns"]:
        ops.append(["c", "SetCurrentSelectedOutputUserNumber", 0, n])
        ops.append(["probe", 0, 30])
    ops.append(["c", "SetCurrentSelectedOutputUserNumber", 0, case["uns"][0]])
    ops.append(["probe", 0, 3])           # tiny caller buffers: truncation / padding / length report
    ops.append(["c", "SetCurrentSelectedOutputUserNumber", 0, 9999])   # unknown user number
    ops.append(["probe", 0, 30])
    return ops, irun


def run_instance_case(case, wexe):
    with vlib.scratch("c05") as d:
        open(os.path.join(d, "input.pqi"), "w").write(case["input"])
        ops, irun = script_for(case)
        res, rc, err = wrap.run_script(wexe, ops, d, timeout=120)
        files = {}
        for fn in os.listdir(d):
            if fn not in ("script.tsv", "input.pqi"):
                try:
                    files[fn] = open(os.path.join(d, fn), errors="replace").read()
                except Exception:
                    pass
        return ops, res, rc, err, files


def check_instance_case(ctx, case, ops, res, rc, err, files, mexe, problems):
    """returns list of (key, what, details) problems for this case"""
    def bad(key, what, **kw):
        problems.append((key, what, kw))
    if rc != 0 or any(r is None for r in res):
        bad("crash", "driver died (rc=%s) %s" % (rc, err[-300:]))
        return
    ev_i = max(i for i, o in enumerate(ops) if o[0] == "events")
    events = res[ev_i]["events"]
    obs = res[ev_i + 1]
    pre = [r for o, r in zip(ops, res) if o[0] == "obs"][0]
    runrc = [r for o, r in zip(ops, res) if o[0] == "c" and o[1] in ("RunString", "RunFile", "RunAccumulated")][-1]["r"]
    if runrc != 0:
        return "error-run"
    sw = dict(obs["sw"]); sw["WarningStringOn"] = 1
    self_on = {int(n): bool(v["fileOn"]) for n, v in pre["sel"].items()}
    selstr_on = {int(n): bool(v["stringOn"]) for n, v in pre["sel"].items()}
    uns = sorted(set(e["n"] for e in events if "n" in e and e["n"] >= 0) | set(int(n) for n in obs["sel"]))
    ch = wrap.Chunks()

    def model_run(strmap):
        lines = wrap.route_script(sw, self_on, strmap, events, uns, ch)
        mrc, mout, merr = vlib.sh([mexe], input="\n".join(lines) + "\n", timeout=120)
        return wrap.parse_route_output(mout.split("\n"), ch)
    model = model_run(selstr_on)
    # the code's actual rule (finding F1): the switch of the CURRENT user number is applied to every number
    cur_on = selstr_on.get(case["cur"], False)
    model_code = model_run({n: cur_on for n in set(uns) | set(selstr_on)}) if any(selstr_on.get(n, False) != cur_on for n in uns) else model
    # 1. hypotheses of the theorems, checked on the recorded stream
    for e in events:
        if e["k"] in ("pmsg", "pval") and bool(e["f"]) != self_on.get(e["n"], False):
            bad("stream:fopen", "punch stream of user number %d is %s although its file switch is %s" % (e["n"], "open" if e["f"] else "closed", self_on.get(e["n"], False)), event=e)
            break
    # a value that reaches the table must also be offered to the text sinks (punch_on): otherwise the table has rows the string/file/lines lack
    for e in events:
        if e["k"] == "pval" and not e["on"]:
            bad("stream:punch_on", "a value (%s) is pushed into the table of user number %d while the text sinks are switched off (punch_on false although selected output is being punched): "
                "table rows and string/file/line rows no longer describe the same data" % (e["name"], e["n"]), event=e)
            break
    created = set()
    for e in events:
        if e["k"] == "newtable" or e["k"] == "pval":
            created.add(e["n"])
        if e["k"] == "endrow" and e["n"] not in created and e["has"]:
            bad("stream:wf", "EndRow for user number %d before its table exists" % e["n"], event=e)
    # 2. row structure: every block of punched values is closed by EndRow before the next block / end of run
    for n in uns:
        open_vals = 0
        after_nl = False
        for e in events:
            if e.get("n") != n:
                continue
            if e["k"] == "pval":
                if after_nl:
                    bad("F7:punch-row-not-ended" if "inverse" in case.get("label", "") or True else "", "values punched for user number %d after the row's newline without an EndRow: the table row is never closed (string/file rows != table rows)" % n, event=e)
                    break
                open_vals += 1
            elif e["k"] == "pmsg" and open_vals and e["s"] == "\n":
                after_nl = True
            elif e["k"] == "endrow":
                open_vals = 0
                after_nl = False
        else:
            if open_vals:
                bad("F7:punch-row-not-ended", "run ended with values punched for user number %d but no EndRow" % n)
    # a (re)opening of the punch file of n after content was offered truncates the file but not the string
    reopened = set()
    offered = set()
    for e in events:
        if e["k"] in ("pmsg", "pval") and e["on"]:
            offered.add(e["n"])
        if e["k"] == "popen" and e["fon"] and e["n"] in offered:
            reopened.add(e["n"])
    # 2b. within one row every value must land in its own column: two values punched under the SAME engine-generated
    #     name (no_heading_k) means a text cell of the string/file is overwritten in the table (user-supplied duplicate
    #     headings share a column by design — TestDuplicateHeadings — and are not judged)
    for n in uns:
        names = []
        for e in events:
            if e.get("n") != n:
                continue
            if e["k"] == "pval":
                if e["name"].startswith("no_heading_") and e["name"] in names:
                    bad("row:duplicate-generated-name", "two values of one row of user number %d are punched under the same generated heading %r: the string/file row has both cells, the table keeps only the last" % (n, e["name"]), n=n, event=e)
                    break
                names.append(e["name"])
            elif e["k"] == "endrow":
                names = []
    # 2c. columns in the same order: the k-th value punched in a row is stored in the k-th column of the table (text cells are positional under
    #     the heading line, table cells are stored by name: a value skipped in the middle of a row shifts the text cells but not the table cells)
    for n in uns:
        o = obs["sel"].get(str(n))
        if o is None or not o["table"]:
            continue
        heads_tab = [vlib.cell_value(c) for c in o["table"][0]]
        if len(set(heads_tab)) != len(heads_tab):
            continue
        # a user number that is (re)defined more than once in the call accumulates the columns of all its definitions in one table
        # (by design: cells are keyed by name) while the text gets a new heading line per definition: only single definitions are judged
        if len(re.findall(r"(?im)^\s*SELECTED_OUTPUT\s+%d\s*$" % n, case["input"])) != 1 or len(re.findall(r"(?im)^\s*USER_PUNCH\s+%d\s*$" % n, case["input"])) > 1:
            continue
        names = []
        for e in events:
            if e.get("n") != n:
                continue
            if e["k"] == "pval":
                names.append(e["name"])
            elif e["k"] == "endrow":
                if len(set(names)) == len(names):
                    for k, nm in enumerate(names):
                        if k >= len(heads_tab) or heads_tab[k] != nm:
                            bad("row:column-order", "value #%d of a row of user number %d is stored under the table heading %r, but its text cell stands under heading #%d = %r: text rows and table rows no longer have their columns in the same order"
                                % (k + 1, n, nm, k + 1, heads_tab[k] if k < len(heads_tab) else None), n=n)
                            break
                    else:
                        names = []
                        continue
                    break
                names = []
    # 3. model reproduces every sink
    for n in uns:
        o = obs["sel"].get(str(n))
        if o is None:
            continue
        exp_s = model["sel_s"].get(n, "")
        got_s = o["string"]
        if not selstr_on.get(n, False) and n not in selstr_on:
            got_ok = got_s.startswith("GetSelectedOutputString: SelectedOutputStringOn not set") or got_s == ""
        else:
            got_ok = (got_s == exp_s)
        if not got_ok and (got_s == model_code["sel_s"].get(n, "") or (not cur_on and got_s == "")):
            bad("F1:get_sel_out_string_on-ignores-n", "the selected-output string switch of the CURRENT user number (%d, %s) is applied to user number %d (own switch %s): its string %s although its table has the rows"
                % (case["cur"], "on" if cur_on else "off", n, "on" if selstr_on.get(n) else "off", "is filled" if got_s else "stays empty"), n=n)
        elif not got_ok:
            bad("sel_string", "selected-output string of user number %d differs from the event fold under its own switch (string switch %s, current number %d)" % (n, selstr_on.get(n), case["cur"]),
                n=n, observed=got_s[:400], expected=exp_s[:400])
        # table
        if n in model["table"]:
            got_t = wrap.table_codes(o["table"])
            if got_t != model["table"][n]:
                bad("table", "value table of user number %d differs from the model fold of the same events" % n, n=n, observed=str(got_t)[:400], expected=str(model["table"][n])[:400])
        # file
        if self_on.get(n, False):
            fname = o["fileName"]
            exp_f = model["sel_f"].get(n, "")
            if fname in files:
                if files[fname] != exp_f:
                    bad("sel_file", "selected-output file %s differs from the event fold" % fname, n=n, observed=files[fname][:300], expected=exp_f[:300])
                if selstr_on.get(n) and files[fname] != got_s:
                    if got_s == model_code["sel_s"].get(n, "") and got_s != exp_s:
                        pass    # already reported as F1
                    elif n in reopened:
                        bad("F8:selected-output-file-truncated-on-redefinition", "SELECTED_OUTPUT %d is redefined after rows were written in the same run: its file is re-opened (truncated) while string and table keep the earlier rows, so file and string differ although both are on" % n, n=n)
                    else:
                        bad("sel_file_vs_string", "file and string of user number %d differ although both are on" % n, n=n)
            elif exp_f:
                bad("sel_file_missing", "selected-output file %s was not written" % fname, n=n)
        # lines
        if "lines" in o:
            ls = o["lines"]
            body = ls[1:-1]
            if ls[0] != "" or ls[-1] != "":
                bad("lines:outside", "line accessor outside 0..count-1 is not empty", n=n)
            if (selstr_on.get(n) and cur_on) and body != got_s.split("\n")[:-1] and not (got_s and not got_s.endswith("\n") and body == got_s.split("\n")):
                bad("lines", "line accessors of user number %d are not the lines of its string" % n, n=n, observed=body[:5], expected=got_s.split("\n")[:5])
            if not selstr_on.get(n) and body and cur_on:
                bad("F1:get_sel_out_string_on-ignores-n", "line accessors of user number %d deliver lines although its string switch is off (the current number's switch is on)" % n, n=n)
            elif not selstr_on.get(n) and body:
                bad("lines:disabled", "line accessors deliver lines although the string switch of %d is off" % n, n=n)
    # output stream (string vs file vs model)
    if sw["OutputStringOn"] and obs["out"] != model.get("out_s", ""):
        bad("out_string", "output string differs from the event fold", observed=obs["out"][:200], expected=model.get("out_s", "")[:200])
    # 3b. the heading line of the string/file names the same columns, in the same order, as row 0 of the table
    #     (heading text is "Na" where the table heading is "Na(mol/kgw)"; user-punch values beyond the headings have no heading text)
    for n in uns:
        o = obs["sel"].get(str(n))
        if o is None or not o["table"] or n not in model["table"]:
            continue
        heads_tab = [vlib.cell_value(c) for c in o["table"][0]]
        # heading chunks = punch_msg events of n before its first value of the call (last heading block before the first row)
        toks, cur = [], []
        for e in events:
            if e.get("n") != n:
                continue
            if e["k"] == "pval":
                break
            if e["k"] == "pmsg":
                if e["s"] == "\n":
                    toks, cur = cur, []
                else:
                    cur.append(e["s"].strip())
        toks = [t for t in toks if t != ""]
        if len(set(toks)) != len(toks):
            continue       # duplicate heading names share one table column by design (TestDuplicateHeadings): no positional correspondence
        for k, t in enumerate(toks):
            if k >= len(heads_tab):
                bad("heading-order", "the heading line of user number %d has more names (%d) than the table has columns (%d)" % (n, len(toks), len(heads_tab)), n=n)
                break
            h = heads_tab[k]
            if not (h == t or h.split("(")[0] == t or h.startswith(t) or t.startswith(h)):
                bad("heading-order", "column %d of user number %d: the heading line says %r but the values of that position are stored under %r (headings and values are emitted in different orders)" % (k, n, t, h), n=n)
                break
    # 4a. the block's print format never shortens a string value (the table keeps the full string)
    for e in events:
        if e["k"] != "pval":
            continue
        v = e["v"]
        if isinstance(v, dict) and "s" in v and isinstance(v["s"], str) and v["s"] not in e["text"]:
            bad("render:string-truncated", "the string value %r of user number %d is shortened to %r in the text sinks by the format %r while the table keeps the full string" % (v["s"], e["n"], e["text"], e["fmt"]), event=e)
            break
    # 4. each text cell is the table value rendered in the block's format; table cell = value punched
    for e in events:
        if e["k"] == "pval":
            try:
                r = c_render(e["fmt"], e["v"])
            except Exception as ex:
                r = None
            if r is not None and r != e["text"]:
                bad("render", "text cell %r is not the value %r rendered with %r (expected %r)" % (e["text"], e["v"], e["fmt"], r), event=e)
                break
    # 5. accessors: C, C++, Fortran binding agree cell by cell with the model table; out-of-range and unknown user number
    probes = [(o, r) for o, r in zip(ops, res) if o[0] == "probe"]
    setn = [o[3] for o in ops if o[0] == "c" and o[1] == "SetCurrentSelectedOutputUserNumber"]
    probe_uns = case["uns"] + [case["uns"][0], 9999]
    for (o, pr), n in zip(probes, probe_uns):
        cap = int(o[2])
        known = n in model["table"] and str(n) in obs["sel"] and n != 9999
        R, C, cells = model["table"].get(n, (0, 0, []))
        if pr["R"] != R or pr["C"] != C:
            bad("probe:dims", "RowCount/ColumnCount of user number %d: (%d,%d), model (%d,%d)" % (n, pr["R"], pr["C"], R, C))
            continue
        if pr["RF"] != max(0, R - 1) and pr["RF"] != R - 1:
            bad("probe:rowsF", "GetSelectedOutputRowCountF = %d, expected RowCount-1 = %d" % (pr["RF"], R - 1))
        for cl in pr["cells"]:
            r, c = cl["r"], cl["c"]
            if n == 9999 or not known:
                exp_rc, exp_v = -3, "x-3"
            elif r < 0 or r >= R:
                exp_rc, exp_v = -4, "x-4"
            elif c < 0 or c >= C:
                exp_rc, exp_v = -5, "x-5"
            else:
                exp_rc, exp_v = 0, cells[r * C + c]
            gv = wrap.cell_code(cl["cv"])
            if cl["crc"] != exp_rc or gv != exp_v:
                key = "F6:unknown-user-number-var-untouched" if (n == 9999 and cl["crc"] == -3 and gv == "e") else "accessor:C"
                bad(key, "GetSelectedOutputValue(%d,%d) for user number %d returned (%d,%s); documented/model result (%d,%s)" % (r, c, n, cl["crc"], gv, exp_rc, exp_v))
                break
            if cl["mrc"] != cl["crc"] or wrap.cell_code(cl["mv"]) != gv:
                bad("accessor:C-vs-C++", "C and C++ accessors disagree at (%d,%d)" % (r, c))
                break
            # Value2 / F binding conversions
            for tag in ("v2", "vf"):
                if tag not in cl:
                    continue
                w = cl[tag]
                if w["rc"] != cl["crc"]:
                    bad("accessor:" + tag, "%s result code %d != C result %d at (%d,%d)" % (tag, w["rc"], cl["crc"], r, c)); break
                if gv[0] == "l":
                    expt, expd, exps = 3, float(cl["cv"]["l"]), "%d" % cl["cv"]["l"]
                elif gv[0] == "d":
                    x = float.fromhex(cl["cv"]["d"]) if "x" in cl["cv"]["d"] else float(cl["cv"]["d"].replace("-nan", "nan"))
                    expt, expd, exps = 3, x, "%23.15e" % x
                elif gv[0] == "s":
                    expt, expd, exps = 4, None, cl["cv"]["s"]
                elif gv[0] == "x":
                    expt, expd, exps = 1, None, None
                else:
                    expt, expd, exps = 0, None, None
                if w["vt"] != expt:
                    bad("accessor:" + tag, "%s vtype %d, expected %d at (%d,%d) cell %s" % (tag, w["vt"], expt, r, c, gv)); break
                if expd is not None and expd == expd and float.fromhex(w["d"]) != expd:
                    bad("accessor:" + tag, "%s dvalue differs at (%d,%d)" % (tag, r, c)); break
                if exps is not None:
                    buf = w["buf"]
                    if tag == "vf":
                        want = (exps[:cap] + " " * max(0, cap - len(exps)))[:cap] + "####"
                        if buf != want or w["len"] != len(exps):
                            bad("accessor:vf", "Fortran binding text %r len %d; expected blank-padded %r len %d" % (buf, w["len"], want, len(exps))); break
                    else:
                        want = exps[:cap]
                        if not buf.startswith(want):
                            bad("accessor:v2", "Value2 text %r; expected %r" % (buf, want)); break
    return "ok"


def instance_correspondence(ctx, wexe, mexe):
    n = ctx.n(150, 2000)
    cases = [inverse_case()] + [gen_instance_case(ctx.rng) for _ in range(n)]
    dist = {"entry": {}, "n_user_numbers": {}, "error_runs": 0}
    with cf.ThreadPoolExecutor(max_workers=vlib.NCPU) as ex:
        results = list(ex.map(lambda c: run_instance_case(c, wexe), cases))
    seen_keys = set()
    for ci, (case, (ops, res, rc, err, files)) in enumerate(zip(cases, results)):
        problems = []
        st = check_instance_case(ctx, case, ops, res, rc, err, files, mexe, problems)
        dist["entry"][case["entry"]] = dist["entry"].get(case["entry"], 0) + 1
        dist["n_user_numbers"][len(case["uns"])] = dist["n_user_numbers"].get(len(case["uns"]), 0) + 1
        if st == "error-run":
            dist["error_runs"] += 1
        ctx.case("inst:" + vlib.key_of(case["input"]), nontrivial=(st == "ok"),
                 sample={"kind": "instance run", "input": case["input"][:600], "sel_switches": {str(k): v for k, v in case["sel"].items()}, "current": case["cur"]} if ci == 1 else None)
        for key, what, kw in problems:
            k0 = key.split(":")[0]
            stable = key if key.startswith(("F1:", "F6:", "F7:", "F8:")) else (key + ":" + vlib.key_of(case["input"] + json.dumps(case["sel"], sort_keys=True, default=str)))
            if stable in seen_keys:
                continue
            seen_keys.add(stable)
            ctx.violation(stable, what, dict({"kind": "input", "database": case["db"], "input_text": case["input"], "switches": {str(k): v for k, v in case["sel"].items()},
                                              "current_user_number": case["cur"], "entry": case["entry"], "case": case}, **{k: v for k, v in kw.items()}))
    ctx.extra.setdefault("input_distribution", {})["instance"] = dist


def string_switch_confusion(case):
    """F1 signature: the string switch of the *current* user number differs from that of some defined number"""
    cur = case["sel"].get(case["cur"], {"string": False})["string"]
    return any(case["sel"][n]["string"] != cur for n in case["uns"])


def gen():
    from translator import c05_order
    vlib.write_if_changed(os.path.join(vlib.COQ, "Gen", "Gen_C05.v"), c05_order.generate(vlib.REPO))


def run(ctx):
    ok = vlib.coq_stage(ctx, "Props/Properties_C05.vo", gen=gen)
    sodrive = vlib.build_harness("sodrive", ["sodrive.cpp"])
    wexe = wrap.build_wdrive()
    mexe = wrap.build_model_driver()
    ctx.rule = ("(a) random PushBack/EndRow/Clear/Get sequences (indices at 0, nrow, ncol, INT_MIN/MAX) on the real CSelectedOutput vs the extracted proved model; "
                "(b) generated multi-simulation inputs with 1..3 SELECTED_OUTPUT/USER_PUNCH user numbers, random per-number string/file switches and current number: recorded engine->io events "
                "fed to the extracted routing model must reproduce strings, files, tables, lines; accessors of the three bindings probed on every cell and border. "
                "non-trivial = sequence with a push and an EndRow / run that completed without error; distinct by content hash")
    if ctx.replay:
        rp = json.load(open(ctx.replay))
        if rp.get("kind") == "ops":
            a, b = run_ops(sodrive, rp["ops"]), run_ops(mexe, rp["ops"])
            ctx.case("replay", sample=rp["ops"][:10])
            if a != b:
                ctx.violation(rp["key"], rp["what"], rp)
        elif "case" in rp:
            case = rp["case"]
            case["sel"] = {int(k): v for k, v in case["sel"].items()}
            out = run_instance_case(case, wexe)
            problems = []
            check_instance_case(ctx, case, *out, mexe, problems)
            ctx.case("replay", sample=case["input"][:300])
            for key, what, kw in problems:
                ctx.violation(rp["key"], what, rp)
                break
        return
    direct_correspondence(ctx, sodrive, mexe)
    instance_correspondence(ctx, wexe, mexe)
    ctx.trusted += ["extraction: ExtrOcamlBasic + ExtrOcamlString only; OCaml driver ocaml/wrapper_driver.ml (I/O glue)",
                    "Spy subclass (harness/spy.hpp) records the engine->PHRQ_io calls faithfully; python's % operator as printf oracle",
                    "modelled rather than verified: std::map/std::vector/std::string/getline; the engine (its call stream is recorded, not modelled)"]
    ctx.notes += ["hypotheses of C05_file_eq_string_selected (punch stream open iff file switch on) and of C05_table_is_event_fold (table created before EndRow) are checked on every recorded stream"]
