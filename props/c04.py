"""C04 — results depend only on the input text, not on how it is delivered or split.

Proof: coq/Props/Properties_C04.v over the call-protocol model (coq/Wrapper/Run.v): each entry point runs exactly
do_run on the delivered simulations; cutting an error-free input at END boundaries into any pieces, each delivered by
any entry point, yields the same final engine state and the same result data as one call (induction over the piece
list) under the explicit engine hypothesis `first_irrelevant`; accumulate+run = RunString; definitions persist.
Tie: the engine hypothesis and the wrapper transcription are tested differentially on the real library: shipped
examples and generated multi-simulation inputs, whole vs random/exhaustive cuts x entry points, comparing the data rows
of every selected-output table (simulation counter masked), the DUMP -all text of the final state and the component list."""
import json, os, re, itertools, shutil, concurrent.futures as cf
import vlib, wrap, gen_inputs

EX_DB = {"ex14": "wateq4f.dat", "ex15": None, "ex17": "pitzer.dat", "ex17b": "pitzer.dat", "ex20a": "iso.dat", "ex20b": "iso.dat", "ex21": None}
EX_SKIP = {"ex12a", "ex12b", "ex13a", "ex13b", "ex13c", "ex13ac", "ex15", "ex15a", "ex15b", "ex20b", "ex21", "ex22", "ex11", "ex9", "ex19b", "ex4"}   # slow (> a few s) or need extra files


def split_sims(text):
    sims, cur = [], []
    for ln in text.split("\n"):
        cur.append(ln)
        if ln.strip().upper() == "END":
            sims.append("\n".join(cur) + "\n")
            cur = []
    rest = "\n".join(cur)
    if rest.strip():
        sims.append(rest if rest.endswith("\n") else rest + "\n")
    return sims


def example_inputs():
    d = os.path.join(vlib.REPO, "phreeqc3-examples")
    out = []
    for f in sorted(os.listdir(d)):
        if re.match(r"ex\d+[a-z]*$", f) and f not in EX_SKIP:
            db = EX_DB.get(f, "phreeqc.dat")
            if db:
                txt = open(os.path.join(d, f), errors="replace").read()
                txt = re.sub(r"(?im)^\s*DATABASE.*$", "", txt)
                out.append((f, db, txt))
    return out


def defined_later_input(rng):
    """SELECTED_OUTPUT names a phase / species that only a LATER simulation defines (PHASES / SOLUTION_SPECIES), then more rows are written"""
    ph = rng.choice(["MyFluorite", "Zzite", "Halite2"])
    sp, rxn = rng.choice([("CaF2", "Ca+2 + 2F- = CaF2"), ("KF", "K+ + F- = KF")])
    t = "SOLUTION 1\n pH 7\n Ca %g\n F %g\n Na 1\n K 1\n Cl 1\nSELECTED_OUTPUT %d\n -reset false\n -high_precision true\n -pH true\n -saturation_indices %s Fluorite\n -equilibrium_phases %s\n -molalities F- %s\n -activities %s\nEND\n" % (
        rng.uniform(0.1, 2), rng.uniform(0.01, 0.5), rng.choice([1, 3]), ph, ph, sp, sp)
    defs = "PHASES\n %s\n CaF2 = Ca+2 + 2F-\n log_k %g\n" % (ph, rng.uniform(-11, -9))
    defs += "SOLUTION_SPECIES\n %s\n log_k %g\n" % (rxn, rng.uniform(0.3, 1.5))
    if rng.random() < 0.5:
        t += defs + "END\n"
        t += "USE solution 1\nREACTION 1\n CaCl2 1\n 0.0005 0.001\nEND\n"
    else:
        t += defs + "USE solution 1\nREACTION 1\n NaF 1\n 0.0002 0.0004\nEND\n"
    t += "USE solution 1\nEQUILIBRIUM_PHASES 1\n %s 0 0\nEND\n" % ph
    return t


def transport_input(rng):
    """a column defined once, then several TRANSPORT / ADVECTION simulations; the later ones omit parameters (cells, punch/print cells and
    frequencies, lengths, dispersivities, boundary conditions ...) that the engine retains from the earlier ones, and change inflow / shifts"""
    n = rng.randint(2, 6)
    so = rng.choice([1, 1, 2, 7])
    t = "SOLUTION 0\n pH 7\n Na %g\n Cl %g\n K %g\nSOLUTION 1-%d\n pH 6.5\n Na 1\n Cl 1\n Ca 0.2\n" % (rng.uniform(1, 20), rng.uniform(1, 20), rng.uniform(0.1, 2), n)
    if rng.random() < 0.4:
        t += "EXCHANGE 1-%d\n X 0.002\n -equilibrate 1\n" % n
    if rng.random() < 0.3:
        t += "EQUILIBRIUM_PHASES 1-%d\n Calcite 0 0.001\n" % n
    t += "SELECTED_OUTPUT %d\n -reset false\n -high_precision true\n -step true\n -distance true\n -time true\n -solution true\n -totals Na Cl K Ca\n" % so
    if rng.random() < 0.5:
        t += "USER_PUNCH %d\n -headings cell stepno mu\n 10 PUNCH CELL_NO, STEP_NO, MU\n" % so
    t += "END\n"
    first = {"ADVECTION": True, "TRANSPORT": True}
    for k in range(rng.randint(2, 4)):
        kind = rng.choice(["TRANSPORT", "TRANSPORT", "ADVECTION"])
        L = [kind]
        full = first[kind] or rng.random() < 0.25
        if full:
            L.append(" -cells %d" % n)
        L.append(" -shifts %d" % rng.randint(1, 4))
        if kind == "TRANSPORT":
            if full or rng.random() < 0.2:
                L.append(" -time_step %d" % rng.choice([100, 3600]))
            if full and rng.random() < 0.7 or rng.random() < 0.15:
                L.append(" -flow_direction %s" % rng.choice(["forward", "back", "diffusion_only"]))
            if full and rng.random() < 0.6 or rng.random() < 0.15:
                L.append(" -boundary_conditions %s %s" % (rng.choice(["flux", "constant", "closed"]), rng.choice(["flux", "constant", "closed"])))
            if full and rng.random() < 0.6 or rng.random() < 0.15:
                L.append(" -lengths %g" % rng.choice([0.1, 1, 2.5]))
            if full and rng.random() < 0.6 or rng.random() < 0.15:
                L.append(" -dispersivities %g" % rng.choice([0, 0.01, 0.5]))
            if full and rng.random() < 0.5 or rng.random() < 0.15:
                L.append(" -diffusion_coefficient %g" % rng.choice([0, 3e-10, 1e-9]))
            if rng.random() < 0.15:
                L.append(" -correct_disp %s" % rng.choice(["true", "false"]))
        else:
            if full or rng.random() < 0.2:
                L.append(" -time_step %d" % rng.choice([100, 3600]))
        if (full and rng.random() < 0.7) or rng.random() < 0.15:
            a = rng.randint(1, n)
            L.append(" -punch_cells %d-%d" % (a, rng.randint(a, n)) if rng.random() < 0.7 else " -punch_cells %d" % a)
        if (full and rng.random() < 0.5) or rng.random() < 0.15:
            L.append(" -punch_frequency %d" % rng.randint(1, 3))
        if rng.random() < 0.3:
            L.append(" -print_cells %d" % rng.randint(1, n))
        if rng.random() < 0.2:
            L.append(" -print_frequency %d" % rng.randint(1, 3))
        first[kind] = False
        pre = ""
        if rng.random() < 0.4:
            pre = "SOLUTION 0\n pH %.1f\n Na %g\n Cl %g\n" % (rng.uniform(5, 9), rng.uniform(1, 30), rng.uniform(1, 30))
        t += pre + "\n".join(L) + "\nEND\n"
    return t


def long_table_input(rng):
    """one simulation writes many rows (around the 80-row reservation of the value table), a later simulation of the same call adds
    columns (redefined SELECTED_OUTPUT, new USER_PUNCH): a column that appears late must be padded for all rows already written"""
    n = rng.choice([70, 79, 80, 81, 95, 130])
    so = rng.choice([1, 2])
    t = "SOLUTION 1\n pH 7\n Na 1\n Cl 1\nSELECTED_OUTPUT %d\n -reset false\n -high_precision true\n -step true\n -totals Na\nREACTION 1\n NaCl 1\n 0.001 moles in %d steps\nEND\n" % (so, n)
    t += "SELECTED_OUTPUT %d\n -reset false\n -high_precision true\n -step true\n -totals Na Cl K\nUSER_PUNCH %d\n -headings na_mmol\n 10 PUNCH TOT(\"Na\") * 1000\nUSE solution 1\nREACTION 2\n KCl 1\n 0.001 0.002\nEND\n" % (so, so)
    t += "USE solution 1\nREACTION 3\n NaCl 1\n 0.0005\nEND\n"
    return t


def script(db, pieces, cwd):
    """pieces: list of (entry, text)"""
    ops = [["spy"], ["c", "LoadDatabase", 0, os.path.join(vlib.DB, db)], ["c", "SetDumpStringOn", 0, 1]]
    marks = []
    for k, (entry, text) in enumerate(pieces):
        if entry == "RunString":
            ops.append(["c", "RunString", 0, text])
        elif entry == "RunFile":
            fn = "piece%d.pqi" % k
            open(os.path.join(cwd, fn), "w").write(text)
            ops.append(["c", "RunFile", 0, fn])
        else:
            for ln in text.split("\n")[:-1]:
                ops.append(["c", "AccumulateLine", 0, ln])
            ops.append(["c", "RunAccumulated", 0])
        marks.append(len(ops) - 1)
        ops.append(["obs", 0])
    ops.append(["c", "RunString", 0, "DUMP\n -all\nEND\n"])
    ops.append(["obs", 0])
    return ops, marks


def run_pieces(wexe, db, pieces, timeout=180):
    with vlib.scratch("c04") as d:
        ops, marks = script(db, pieces, d)
        res, rc, err = wrap.run_script(wexe, ops, d, timeout=timeout)
    if rc != 0 or any(r is None for r in res):
        return None
    rows = {}
    rcs = []
    for m in marks:
        rcs.append(res[m]["r"])
        o = res[m + 1]
        for n, s in o["sel"].items():
            t = s["table"]
            if not t:
                continue
            heads = [vlib.cell_value(c) for c in t[0]]
            mask = [i for i, h in enumerate(heads) if h == "sim"]
            for row in t[1:]:
                # a row = heading -> value for the cells that were punched (late columns are empty-padded in a longer call)
                cells = tuple(sorted((h, json.dumps(c, sort_keys=True)) for i, (h, c) in enumerate(zip(heads, row)) if i not in mask and c is not None))
                if cells:          # a row with no punched cell carries no data (it exists only when the table already has columns)
                    rows.setdefault(n, []).append(cells)
    final = res[-1]
    # the description of saved entities embeds the simulation counter ("... after simulation 3."): masked like the sim column
    dump = re.sub(r"after simulation \d+\.?", "after simulation #", final["dump"])
    # the component list right after the last piece (the observation after every piece has queried it before: a stale cache shows)
    return {"rcs": rcs, "rows": rows, "dump": dump, "comps": final["comps"], "comps_last": res[marks[-1] + 1].get("comps")}


def compare(a, b):
    if a["comps"] != b["comps"]:
        return "component lists differ: %s vs %s" % (a["comps"], b["comps"])
    if a.get("comps_last") != b.get("comps_last"):
        return "component lists right after the last piece differ: %s in one call vs %s when split" % (a.get("comps_last"), b.get("comps_last"))
    if set(a["rows"]) != set(b["rows"]):
        return "selected-output user numbers with rows differ: %s vs %s" % (sorted(a["rows"]), sorted(b["rows"]))
    for n in a["rows"]:
        ra, rb = a["rows"][n], b["rows"][n]
        if len(ra) != len(rb):
            return "user number %s: %d data rows in one call, %d when split" % (n, len(ra), len(rb))
        for k, (x, y) in enumerate(zip(ra, rb)):
            if x != y:
                diff = sorted(set(x) ^ set(y))
                return "user number %s data row %d differs: %s" % (n, k + 1, diff[:4])
    if a["dump"] != b["dump"]:
        la, lb = a["dump"].split("\n"), b["dump"].split("\n")
        for k, (x, y) in enumerate(zip(la, lb)):
            if x != y:
                return "final DUMP -all text differs at line %d: %r vs %r" % (k, x[:100], y[:100])
        return "final DUMP -all text differs in length"
    return None


def cuts_for(ctx, n, exhaustive_upto):
    """list of cut patterns (tuples of piece sizes) for n simulations"""
    if n <= 1:
        return [(n,)] if n else []
    pats = []
    if n <= exhaustive_upto:
        for bits in itertools.product([0, 1], repeat=n - 1):
            sizes, cur = [], 1
            for b in bits:
                if b:
                    sizes.append(cur); cur = 1
                else:
                    cur += 1
            sizes.append(cur)
            pats.append(tuple(sizes))
        pats = [p for p in pats if len(p) > 1]
    else:
        for _ in range(ctx.n(4, 16)):
            k = ctx.rng.randint(1, n - 1)
            cutpos = sorted(ctx.rng.sample(range(1, n), k))
            sizes = [b - a for a, b in zip([0] + cutpos, cutpos + [n])]
            pats.append(tuple(sizes))
        pats.append(tuple([1] * n))
    return sorted(set(pats))


def gen():
    from translator import c04_percall
    vlib.write_if_changed(os.path.join(vlib.COQ, "Gen", "Gen_C04.v"), c04_percall.generate(vlib.REPO))


def run(ctx):
    vlib.coq_stage(ctx, "Props/Properties_C04.vo", gen=gen)
    wexe = wrap.build_wdrive()
    ctx.rule = ("error-free multi-simulation inputs (shipped examples that run within seconds + generated inputs with SELECTED_OUTPUT/USER_PUNCH, reactions, SAVE/USE) run in one RunString call and under "
                "cuts at END boundaries (all 2^(n-1) cuts for small n in thorough, random otherwise), each piece delivered by RunString / RunFile / AccumulateLine+RunAccumulated; compared: data rows of all "
                "selected-output tables (sim column masked, cells bitwise), final DUMP -all text, component list. non-trivial = input with >= 2 simulations whose whole run is error-free; distinct by (input, cut, entries)")
    inputs = []
    if ctx.replay:
        rp = json.load(open(ctx.replay))
        inputs = [("replay", rp["database"], rp["input_text"])]
        fixed = [(tuple(rp["cut"]), rp["entries"])]
    else:
        inputs = example_inputs()
        if not ctx.thorough:
            ctx.rng.shuffle(inputs)
            inputs = inputs[:14]
        for k in range(ctx.n(80, 600)):
            t, info = gen_inputs.multi_sim_input(ctx.rng, nsims=ctx.rng.randint(2, 5), allow_redefine=True, no_simno=True, rich=(k % 2 == 0), print_toggle=True)
            if ctx.rng.random() < 0.6:
                # a first simulation that defines persistent options/definitions (KNOBS, PRINT, INCREMENTAL_REACTIONS, RATES, CALCULATE_VALUES, database additions ...)
                import props.c07 as c07
                t = ctx.rng.choice([p for p in c07.PERTURB if "USER_GRAPH" not in p and "SIM" not in p]) + t + "USE solution 1\nREACTION 1\n NaCl 1\n 0.001 0.002 0.004\nEND\n"
            inputs.append(("gen%d" % k, "phreeqc.dat", t))
        fixed = None
    if not ctx.replay:
        for k in range(ctx.n(8, 60)):
            inputs.append(("late%d" % k, "phreeqc.dat", defined_later_input(ctx.rng)))
        for k in range(ctx.n(16, 120)):
            inputs.append(("column%d" % k, "phreeqc.dat", transport_input(ctx.rng)))
        for k in range(ctx.n(3, 12)):
            inputs.append(("longtable%d" % k, "phreeqc.dat", long_table_input(ctx.rng)))
    jobs = []
    for name, db, text in inputs:
        sims = split_sims(text)
        pats = cuts_for(ctx, len(sims), ctx.n(3, 8)) if not fixed else [fixed[0][0]]
        if not ctx.thorough and len(pats) > 10:
            pats = ctx.rng.sample(pats, 10)
        for p in pats:
            entries = fixed[0][1] if fixed else [ctx.rng.choice(["RunString", "RunFile", "Accumulate"]) for _ in p]
            jobs.append((name, db, text, sims, p, entries))
    whole_cache = {}

    def do(job):
        name, db, text, sims, p, entries = job
        if name not in whole_cache:
            whole_cache[name] = run_pieces(wexe, db, [("RunString", "".join(sims))])
        w = whole_cache[name]
        if w is None or any(w["rcs"]):
            return job, "skip", None
        pieces, k = [], 0
        for size, en in zip(p, entries):
            pieces.append((en, "".join(sims[k:k + size])))
            k += size
        s = run_pieces(wexe, db, pieces)
        if s is None:
            return job, "driver", None
        v = compare(w, s)
        if v:
            # confirm on fresh processes: only a difference that reproduces is reported (a transient one is counted)
            w2 = run_pieces(wexe, db, [("RunString", "".join(sims))])
            s2 = run_pieces(wexe, db, pieces)
            v2 = compare(w2, s2) if (w2 and s2) else v
            if not v2:
                return job, "transient", s["rcs"]
            v = v2
        return job, v, s["rcs"]
    with cf.ThreadPoolExecutor(max_workers=vlib.NCPU) as ex:
        results = list(ex.map(do, jobs))
    dist = {"skipped_error_or_timeout": 0, "entries": {}, "pieces": {}}
    for (name, db, text, sims, p, entries), verdict, rcs in results:
        if verdict == "skip":
            dist["skipped_error_or_timeout"] += 1
            continue
        if verdict == "transient":
            dist["transient_differences_not_reproduced"] = dist.get("transient_differences_not_reproduced", 0) + 1
            verdict = None
        for e in entries:
            dist["entries"][e] = dist["entries"].get(e, 0) + 1
        dist["pieces"][len(p)] = dist["pieces"].get(len(p), 0) + 1
        ctx.case("c04:" + vlib.key_of([text, p, entries]), nontrivial=len(sims) >= 2,
                 sample={"input": name, "simulations": len(sims), "cut": list(p), "entries": entries} if len(ctx.samples) < 4 else None)
        if verdict == "driver":
            ctx.violation("driver:" + vlib.key_of([text, p, entries]), "driver died / timed out on the split delivery of %s" % name,
                          {"kind": "history", "database": db, "input_text": text, "cut": list(p), "entries": entries})
        elif verdict:
            # shrink to the shortest two-piece cut that still differs
            best = (p, entries)
            for c in range(1, len(sims)):
                s2 = run_pieces(wexe, db, [("RunString", "".join(sims[:c])), ("RunString", "".join(sims[c:]))])
                if s2 is not None and compare(whole_cache[name], s2):
                    best = ((c, len(sims) - c), ["RunString", "RunString"])
                    break
            ctx.violation("split:" + vlib.key_of([text, best[0]]), "one call vs split delivery of %s differ: %s" % (name, verdict),
                          {"kind": "history", "database": db, "input_text": text, "cut": list(best[0]), "entries": best[1], "observed": verdict, "expected": "identical rows, DUMP and components"})
    ctx.extra["input_distribution"] = dist
    ctx.trusted += ["the engine hypothesis first_irrelevant of the C04 theorems (a Section hypothesis, not an axiom) is what the differential run tests",
                    "Spy/wdrive harness; the simulation splitter (lines equal to END)"]
    ctx.notes += ["comparison is made under identical switch settings (all sinks off except the dump string) so that finding F2 (saved density depends on printing) cannot masquerade as a delivery dependence"]
