"""C20 — Surface complexation obeys site balance, electrostatic mass action, charge laws.

Stages (see notes/C20.md):
  1. T-gen: translator/c20_gen.py regenerates coq/Gen/Gen_C20_surface.v from the current /repo sources (residuals,
     diff_layer_total, add_potential_factor, add_cd_music_factors, gammas case 6); Props/Properties_C20.v re-proves that the
     SURFACE_CB rows are Gouy-Chapman / C*psi / the CD-MUSIC plane relations between the values EDL() reports, that the
     potential term of the mass action is the Boltzmann factor, the site row is the site balance.
  2. translator validation: the regenerated read-out / residual expressions evaluated in binary64 at the reported values
     reproduce EDL("sigma") and give a residual below the convergence tolerance (ties generated text to compiled code).
  3. T-corr (verified checker): random surfaces (Hfo of phreeqc.dat / wateq4f.dat, user-defined site types incl. a bidentate
     species, CD-MUSIC), pH 3..11, I 1e-4..1, sorbing ions, all electrostatic options; initial-surface calculation and a
     batch reaction; for every state the Coq-verified checkers of coq/C20/Checker.v are evaluated (vm_compute) on the exact
     dyadic values reported by USER_PUNCH: site balance, surface charge density from the species vs Gouy-Chapman / C psi /
     CD-MUSIC planes / Grahame at the reported psi, mass action with Boltzmann term for every surface species (stoichiometry
     and log K from an independent parse of the database / input text), site-fraction activity, diffuse-layer charge balance."""
import json, math, os, re, sys
from fractions import Fraction
import vlib
sys.path.insert(0, vlib.VERIF)
from translator import leaf, c20_gen

TOL = 1e-8
F_C, R_J, EPS0 = 96493.5, 8.3147, 8.854e-12
LN10 = math.log(10.0)
CODE_ABS_TOL = 1e-12      # convergence_tolerance after SELECTED_OUTPUT -high_precision (read.cpp)


def gen():
    c20_gen.generate()


# ------------------------------------------------------------------------------------------------ formula / database parsing
def split_charge(name):
    """'Ca+2' -> ('Ca', 2.0); 'Hfo_wOH' -> ('Hfo_wOH', 0.0); 'Goe_triO-0.5' -> ('Goe_triO', -0.5)"""
    m = re.match(r"^(.*?)([+-])(\d*\.?\d*)$", name)
    if not m or not m.group(1):
        return name, Fraction(0)
    mag = Fraction(m.group(3)) if m.group(3) not in ("", ".") else Fraction(1)
    return m.group(1), mag if m.group(2) == "+" else -mag


def parse_formula(body):
    """element counts of a formula without charge, parentheses and (decimal) multipliers allowed; [..] names kept whole"""
    pos = 0
    stack = [{}]
    n = len(body)

    def num():
        nonlocal pos
        m = re.match(r"\d*\.?\d+|\d+", body[pos:])
        if m and m.group(0):
            pos += len(m.group(0))
            return Fraction(m.group(0))
        return Fraction(1)
    while pos < n:
        c = body[pos]
        if c == "(":
            stack.append({})
            pos += 1
        elif c == ")":
            pos += 1
            k = num()
            top = stack.pop()
            for e, v in top.items():
                stack[-1][e] = stack[-1].get(e, 0) + v * k
        elif c == "[":
            j = body.index("]", pos)
            e = body[pos:j + 1]
            pos = j + 1
            m = re.match(r"[a-z_]*", body[pos:])
            e += m.group(0)
            pos += len(m.group(0))
            stack[-1][e] = stack[-1].get(e, 0) + num()
        elif c.isupper():
            m = re.match(r"[A-Z][a-z_]*", body[pos:])
            e = m.group(0)
            pos += len(e)
            stack[-1][e] = stack[-1].get(e, 0) + num()
        elif c == ":":
            pos += 1
        else:
            raise ValueError("cannot parse formula %r at %d" % (body, pos))
    return stack[0]


def parse_side(side):
    out = []
    for tok in re.split(r"\s+\+\s+", side.strip()):
        tok = tok.strip()
        if not tok:
            continue
        m = re.match(r"^(\d*\.?\d+|\d+)?\s*(.*)$", tok)
        coef = Fraction(m.group(1)) if m.group(1) else Fraction(1)
        out.append((coef, m.group(2)))
    return out


def parse_surface_species(text):
    """SURFACE_MASTER_SPECIES / SURFACE_SPECIES blocks of a database or input text ->
    (masters {site element: master species}, species {name: dict(lk, terms[(nu, name)], cd[dz0,dz1,dz2], tdep)})"""
    masters, species = {}, {}
    block = None
    cur = None
    KEY = re.compile(r"^[A-Z_]{4,}\b")
    for raw in text.split("\n"):
        line = raw.split("#")[0].rstrip()
        for part in line.split(";"):
            s = part.strip()
            if not s:
                continue
            if KEY.match(s) and "=" not in s:
                block = s.split()[0]
                cur = None
                continue
            if block == "SURFACE_MASTER_SPECIES":
                f = s.split()
                if len(f) >= 2:
                    masters[f[0]] = f[1]
            elif block == "SURFACE_SPECIES":
                if "=" in s and not s.startswith("-") and not re.match(r"^(log_k|delta_h|analytic)", s, re.I):
                    lhs, rhs = s.split("=", 1)
                    L, Rr = parse_side(lhs), parse_side(rhs)
                    prod = Rr[0][1]
                    terms = [(c, n) for c, n in L] + [(-c, n) for c, n in Rr[1:]]
                    if Rr[0][0] != 1:
                        terms = None     # product with a coefficient: outside the parser's subset
                    ident = len(L) == 1 and L[0][1] == prod and len(Rr) == 1
                    cur = {"lk": None, "terms": terms, "cd": [Fraction(0)] * 3, "tdep": False, "eq": s, "identity": ident}
                    species[prod] = cur
                elif cur is not None:
                    t = s.lstrip("-").split()
                    k = t[0].lower()
                    if k in ("log_k", "logk"):
                        cur["lk"] = Fraction(t[1])
                    elif k in ("delta_h", "deltah"):
                        if Fraction(t[1]) != 0:
                            cur["tdep"] = True
                    elif k in ("analytic", "analytical_expression", "a_e", "ae"):
                        cur["tdep"] = True
                    elif k == "cd_music":
                        v = [Fraction(x) for x in t[1:4]] + [Fraction(0)] * 3
                        cur["cd"] = v[:3]
    return masters, species


_DBCACHE = {}


def db_surface(db):
    p = os.path.join(vlib.DB, db)
    key = (p, os.path.getmtime(p))
    if key not in _DBCACHE:
        _DBCACHE[key] = parse_surface_species(open(p, errors="replace").read())
    return _DBCACHE[key]


# ------------------------------------------------------------------------------------------------ input generation
def fnum(x):
    return repr(float(x))


USER_SITES = ["Su_a", "Su_b", "Tv_a", "Uw_a"]


def zname(z):
    """charge suffix of a species name: +0.5, -1.5, + , -2, '' """
    z = Fraction(z)
    if z == 0:
        return ""
    mag = abs(z)
    txt = str(mag.numerator) if mag.denominator == 1 else repr(float(mag))
    return ("+" if z > 0 else "-") + ("" if mag == 1 else txt)


def charged_species_block(rng, sites):
    """CD-MUSIC in the Hiemstra - van Riemsdijk formulation: the SURFACE_MASTER_SPECIES carry a (fractional) charge
    (Su_aOH-0.5, Su_bOH-0.25 ...).  Returns (text, {site: master name})"""
    ms, sp, masters = ["SURFACE_MASTER_SPECIES"], ["SURFACE_SPECIES"], {}
    for st in sites:
        zm = Fraction(rng.choice(["-0.5", "-0.5", "-0.25", "-0.75", "0.5"]))
        M = "%sOH%s" % (st, zname(zm))
        masters[st] = M
        ms.append(" %s %s" % (st, M))

        def add(eq, lk, cdv):
            sp.append(" " + eq)
            sp.append("  log_k %s" % lk)
            sp.append("  -cd_music %s %s %s 0 0" % tuple(cdv))
        add("%s = %s" % (M, M), 0, (0, 0, 0))
        add("%s + H+ = %sOH2%s" % (M, st, zname(zm + 1)), round(rng.uniform(6.0, 10.0), 2), (1, 0, 0))
        add("%s + Na+ = %sOHNa%s" % (M, st, zname(zm + 1)), round(rng.uniform(-2.0, 0.5), 2), (0, 1, 0))
        add("%s + K+ = %sOHK%s" % (M, st, zname(zm + 1)), round(rng.uniform(-2.0, 0.5), 2), (0.2, 0.8, 0))
        add("%s + H+ + Cl- = %sOH2Cl%s" % (M, st, zname(zm)), round(rng.uniform(6.0, 9.0), 2), (1, -1, 0))
        add("%s + Ca+2 = %sOHCa%s" % (M, st, zname(zm + 2)), round(rng.uniform(1.0, 4.0), 2), (0.3, 1.7, 0))
        add("%s + Zn+2 = %sOHZn%s" % (M, st, zname(zm + 2)), round(rng.uniform(2.0, 6.0), 2), (0.6, 1.4, 0))
        add("%s + H+ + SO4-2 = %sOSO3%s + H2O" % (M, st, zname(zm - 1)), round(rng.uniform(7.0, 11.0), 2), (0.5, -1.5, 0))
        add("2%s + Cd+2 = (%sOH)2Cd%s" % (M, st, zname(2 * zm + 2)), round(rng.uniform(3.0, 8.0), 2), (0.7, 1.3, 0))
        add("%s + Fe+3 = %sOHFe%s" % (M, st, zname(zm + 3)), round(rng.uniform(4.0, 9.0), 2), (0.5, 2.5, 0))
    return "\n".join(ms + sp) + "\n", masters


def user_species_block(rng, sites, cd=False):
    """SURFACE_MASTER_SPECIES + SURFACE_SPECIES for user-defined site types (2-pK model, cation / anion / bidentate complexes)"""
    ms, sp = ["SURFACE_MASTER_SPECIES"], ["SURFACE_SPECIES"]
    for st in sites:
        ms.append(" %s %sOH" % (st, st))
        k1, k2 = round(rng.uniform(4.0, 9.0), 2), round(rng.uniform(-11.0, -6.0), 2)

        def add(eq, lk, cdv=None):
            sp.append(" " + eq)
            sp.append("  log_k %s" % lk)
            if cd:
                sp.append("  -cd_music %s %s %s 0 0" % tuple(cdv or (0, 0, 0)))
        add("%sOH = %sOH" % (st, st), 0)
        add("%sOH + H+ = %sOH2+" % (st, st), k1, (1, 0, 0))
        add("%sOH = %sO- + H+" % (st, st), k2, (-1, 0, 0))
        add("%sOH + Ca+2 = %sOCa+ + H+" % (st, st), round(rng.uniform(-7.5, -3.0), 2), (-1, 2, 0))
        add("%sOH + Zn+2 = %sOZn+ + H+" % (st, st), round(rng.uniform(-4.0, 1.5), 2), (-0.5, 1.5, 0))
        add("%sOH + SO4-2 + H+ = %sSO4- + H2O" % (st, st), round(rng.uniform(5.0, 9.0), 2), (0.5, -1.5, 0))
        add("%sOH + Na+ = %sOHNa+" % (st, st), round(rng.uniform(-2.0, 0.5), 2), (0, 1, 0))
        add("2%sOH + Cd+2 = (%sO)2Cd + 2H+" % (st, st), round(rng.uniform(-9.0, -4.0), 2), (-1.2, 1.2, 0))
        add("%sOH + Fe+3 = %sOFe+2 + H+" % (st, st), round(rng.uniform(2.0, 6.0), 2), (-1, 3, 0))
    return "\n".join(ms + sp) + "\n"


CATIONS = ["Ca", "Mg", "Sr", "Ba", "Zn", "Cd", "Pb"]
ANIONS = ["S(6)", "P", "F"]


REDOX_SORBATES = ("As", "Se", "Cr", "Fe")     # entered as element totals: the valence states are split by pe


def solution_text(rng, num, pH, ionic, temp, sorb, water=1.0, pe=None):
    lines = ["SOLUTION %d" % num, " temp %s" % fnum(temp), " pH %s" % fnum(pH), " units mol/kgw"]
    if pe is not None:
        lines.append(" pe %s" % fnum(pe))
    if abs(water - 1.0) > 1e-12:
        lines.append(" water %s" % fnum(water))
    # (no nitrate background with redox-active sorbates: N(5) would set the pe of the batch reaction)
    salt = rng.choice([("Na", "Cl"), ("K", "Cl")] + ([] if pe is not None else [("Na", "N(5)")]))
    # the ion that balances the charge must come out positive: estimate the net charge of everything else
    zest = {"S(6)": -2.0, "P": -1.0 if pH < 7.2 else -2.0, "F": -1.0, "As": -1.0, "Se": -2.0, "Cr": -1.0, "Fe": 2.0}
    net = 10 ** (-pH) - 10 ** (pH - 14.0) + sum(zest.get(el, 2.0) * c for el, c in sorb)
    if net >= 0:
        lines.append(" %s %s" % (salt[0], fnum(ionic)))
        lines.append(" %s %s charge" % (salt[1], fnum(ionic + net)))
    else:
        lines.append(" %s %s charge" % (salt[0], fnum(ionic - net)))
        lines.append(" %s %s" % (salt[1], fnum(ionic)))
    for el, c in sorb:
        lines.append(" %s %s" % (el, fnum(c)))
    return "\n".join(lines) + "\n"


def make_case(rng, k, force=None):
    """one PHREEQC input + the meta data the checker needs. `force` pins the electrostatic model."""
    models = ["ddl", "ddl", "ddl", "ccm", "no_edl", "dl_bork", "dl_donnan", "dl_donnan_debye", "ddl_user", "ccm_user",
              "no_edl_user", "dl_donnan_user", "cd_music", "ddl_phase", "ddl_kin", "dl_donnan_phase", "ccm_kin",
              "ddl_redox", "ccm_redox", "dl_donnan_redox", "ddl_redox",
              # two or three CHARGED surfaces in one SURFACE block (Hfo + user-defined Su / Tv / Uw), every electrostatic model
              "dl_bork_multi", "ddl_multi", "ccm_multi", "dl_donnan_multi", "cd_music_multi", "dl_bork_multi"]
    model = force or models[k % len(models)] if k < 2 * len(models) else (force or rng.choice(models))
    multi = model.endswith("_multi")
    user = model.endswith("_user") or model.startswith("cd_music") or multi
    related = "phase" if model.endswith("_phase") else "kin" if model.endswith("_kin") else None
    redox = model.endswith("_redox")
    base = model.replace("_user", "").replace("_phase", "").replace("_kin", "").replace("_redox", "").replace("_multi", "")
    hfo = not user or (multi and base != "cd_music")       # phreeqc.dat's Hfo species carry no -cd_music charge distribution
    db = rng.choice(["phreeqc.dat", "wateq4f.dat"]) if (multi and hfo) else "phreeqc.dat" if user else rng.choice(["wateq4f.dat", "minteq.v4.dat"]) if redox else rng.choice(["phreeqc.dat", "wateq4f.dat"])
    temp = 25.0 if rng.random() < 0.6 else round(rng.uniform(5.0, 60.0), 1)
    pH = round(rng.uniform(3.0, 11.0), 2)
    ionic = 10 ** rng.uniform(-4, 0)
    nsorb = rng.randint(0, 4)
    pool = CATIONS + ANIONS
    sorb = [(el, 10 ** rng.uniform(-7, -2.5)) for el in rng.sample(pool, nsorb)]
    if user:
        sorb = [(el, c) for el, c in sorb if el in ("Ca", "Zn", "Cd", "S(6)", "Mg")]
        if rng.random() < 0.5:
            sorb.append(("Fe", 10 ** rng.uniform(-7, -4)))     # Fe+3 (secondary master of Fe) sorbs: e- in the rewritten reaction
    if redox:
        # sorbates in a NON-primary redox state (arsenite, selenite, Cr(III)): entered as element totals at moderate pe, so that
        # in the batch reaction the engine rewrites their surface reactions with e-
        rs = ["As"] + [el for el in (["Se", "Cr"] if db == "minteq.v4.dat" else ["Se"]) if rng.random() < 0.5]
        sorb = [(el, c) for el, c in sorb if el in CATIONS][:2] + [(el, 10 ** rng.uniform(-7, -3.5)) for el in rs]
        ionic = max(ionic, 1e-3)
        sorb = [(el, min(c, ionic * 0.1)) for el, c in sorb]
    pe = round(rng.uniform(0.0, 9.0), 2) if any(el in REDOX_SORBATES for el, c in sorb) else None
    water = 1.0 if rng.random() < 0.75 else round(rng.uniform(0.2, 3.0), 3)
    text = ""
    meta = {"model": base, "db": db, "user": user, "surfaces": [], "temp": temp}
    if user:
        if multi:
            sites = rng.choice([["Su_a"], ["Su_a", "Tv_a"], ["Su_a", "Su_b", "Tv_a"]] if hfo else
                               [["Su_a", "Tv_a"], ["Su_a", "Tv_a", "Uw_a"], ["Su_a", "Su_b", "Tv_a", "Uw_a"]])
        else:
            sites = rng.choice([["Su_a"], ["Su_a", "Su_b"], ["Su_a", "Tv_a"], ["Su_a", "Su_b", "Tv_a"]])
        master_names = {st: st + "OH" for st in sites}
        if base == "cd_music" and rng.random() < 0.6:
            # charged master species and (always) two site types on the FIRST surface: sigma0 has to count z_master * sites of
            # EVERY site type of the surface (comp_unknowns of the plane-0 charge unknown)
            if "Su_b" not in sites:
                sites = ["Su_a", "Su_b"] + [x for x in sites if x not in ("Su_a", "Su_b")]
            blk, master_names = charged_species_block(rng, sites)
            meta["charged_masters"] = True
        else:
            blk = user_species_block(rng, sites, cd=(base == "cd_music"))
        text += blk
        meta["user_block"] = blk
    text += solution_text(rng, 1, pH, ionic, temp, sorb, water, pe)
    # --- the surface
    area = round(10 ** rng.uniform(1, 3), 1)
    grams = round(10 ** rng.uniform(-2, 1), 4)
    surf = ["SURFACE 1"]
    if user:
        # site types with the same prefix (Su_a, Su_b) belong to one surface (one potential); Tv_a is a second surface
        for st in sites:
            ns = 10 ** rng.uniform(-5.5, -2.5)
            sname = st.split("_")[0]
            have = [x for x in meta["surfaces"] if x["name"] == sname]
            if have:
                surf.append(" %s %s" % (master_names[st], fnum(ns)))
                have[0]["sites"][st] = ns
                continue
            a, g = round(area * rng.uniform(0.5, 2), 1), round(grams * rng.uniform(0.5, 2), 4)
            cap = [round(rng.uniform(0.5, 3.0), 3), round(rng.uniform(0.5, 5.0), 3)]
            surf.append(" %s %s %s %s" % (master_names[st], fnum(ns), fnum(a), fnum(g)))
            if base == "cd_music":
                surf.append(" -capacitances %s %s" % (fnum(cap[0]), fnum(cap[1])))
            if base == "ccm":
                surf.append(" -ccm %s" % fnum(cap[0]))
            meta["surfaces"].append({"name": sname, "sites": {st: ns}, "area": a, "grams": g, "cap": cap})
    if hfo:
        nw = 10 ** rng.uniform(-5.5, -2.5)
        nsx = nw * rng.uniform(0.01, 0.1)
        cap = [round(rng.uniform(0.5, 3.0), 3), 0]
        sites_d = {"Hfo_w": nw}
        if related:
            # sites and area are proportional to the moles of a phase / kinetic reactant: sites = prop * moles, A*g = area_per_mol * moles
            m0 = 10 ** rng.uniform(-3.5, -1.5)
            pw, ps = round(rng.uniform(0.05, 0.3), 3), round(rng.uniform(0.002, 0.01), 4)
            apm = round(10 ** rng.uniform(4.0, 5.0), 0)
            rname = "Fe(OH)3(a)" if related == "phase" else "Ferri"
            kw = "equilibrium_phase" if related == "phase" else "kinetic_reactant"
            surf.append(" Hfo_w %s %s %s %s" % (rname, kw, fnum(pw), fnum(apm)))
            surf.append(" Hfo_s %s %s %s" % (rname, kw, fnum(ps)))
            sites_d = {"Hfo_w": pw, "Hfo_s": ps}
            meta["related"] = {"kind": related, "name": rname, "m0": m0, "area_per_mol": apm}
            area, grams = apm, m0
        else:
            surf.append(" Hfo_w %s %s %s" % (fnum(nw), fnum(area), fnum(grams)))
            if rng.random() < 0.8:
                surf.append(" Hfo_s %s" % fnum(nsx))
                sites_d["Hfo_s"] = nsx
        if base == "ccm":
            surf.append(" -ccm %s" % fnum(cap[0]))
        meta["surfaces"].append({"name": "Hfo", "sites": sites_d, "area": area, "grams": grams, "cap": cap})
    surf.append(" -equilibrate 1")
    if base == "no_edl":
        surf.append(" -no_edl")
    elif base == "cd_music":
        surf.append(" -cd_music")
    elif base == "dl_bork":
        surf.append(" -diffuse_layer %s" % fnum(rng.choice([1e-8, 5e-9, 2e-9])))
    elif base == "dl_donnan":
        surf.append(" -donnan %s" % fnum(rng.choice([1e-8, 5e-9, 2e-9, 1e-9])))
    elif base == "dl_donnan_debye":
        surf.append(" -donnan debye_lengths %s" % fnum(rng.choice([1.0, 1.5, 2.0])))
    if base.startswith("dl_") and rng.random() < 0.35:
        surf.append(" -only_counter_ions true")
        meta["oci"] = True
    text += "\n".join(surf) + "\n"
    if related == "phase":
        text += "EQUILIBRIUM_PHASES 1\n Fe(OH)3(a) 0.0 %s\n" % fnum(meta["related"]["m0"])
    elif related == "kin":
        rate = min(10 ** rng.uniform(-7, -5), meta["related"]["m0"] / 400.0)       # mol/s, dissolving reactant only (a growing one is an impossible sink: rk_kinetics does not return, F4)
        text += ("RATES\n Ferri\n -start\n 10 SAVE %s * TIME\n -end\nKINETICS 1\n Ferri\n  -formula Fe(OH)3 1\n  -m0 %s\n  -steps 100 in 2\n"
                 % (fnum(rate), fnum(meta["related"]["m0"])))
    text += punch_program(meta)
    if related == "kin":
        text += "SAVE surface 1\n"      # the kinetic reactant's m carries over to the next run; keep the surface in step with it
    text += "END\n"
    # --- batch reaction with a second solution (pH free)
    pH2 = round(rng.uniform(3.0, 11.0), 2)
    sorb2 = [(el, c * 10 ** rng.uniform(-1, 1)) for el, c in sorb]
    text += solution_text(rng, 2, pH2, ionic * 10 ** rng.uniform(-0.5, 0.5), temp, sorb2, water,
                          None if pe is None else round(rng.uniform(0.0, 9.0), 2))
    text += "END\nUSE solution 2\nUSE surface 1\n"
    if related == "phase":
        text += "USE equilibrium_phases 1\n"
    elif related == "kin":
        text += "USE kinetics 1\n"
    text += "END\n"
    meta["pH"] = pH
    meta["I"] = ionic
    return {"db": db, "text": text, "meta": meta}


def corpus_cases():
    """fixed inputs run first on every run (minimised past findings)"""
    meta = {"model": "dl_donnan", "db": "phreeqc.dat", "user": False, "temp": 25.0, "erm_ddl": True,
            "surfaces": [{"name": "Hfo", "sites": {"Hfo_w": 2e-4}, "area": 600.0, "grams": 0.09, "cap": [1, 0]}]}
    text = ("SOLUTION_SPECIES\n Ca+2 = Ca+2\n  log_k 0\n  -gamma 5.0 0.1650\n  -erm_ddl 2.5\n"
            "SOLUTION 1\n pH 8.5\n Na 10\n Cl 10 charge\n Ca 1\n"
            "SURFACE 1\n Hfo_w 2e-4 600 0.09\n -equilibrate 1\n -donnan 1e-8\n" + punch_program(meta) + "END\n")
    return [{"id": "corpus-erm_ddl", "db": "phreeqc.dat", "text": text, "meta": meta}]


def punch_program(meta):
    L = ["SELECTED_OUTPUT 1", " -reset false", " -high_precision true", "USER_PUNCH 1", " -headings C20",
         '10 PUNCH MU, EPS_R, TK, TOT("water"), LA("H2O"), EQUI("Fe(OH)3(a)"), KIN("Ferri")',
         '20 t = SYS("surf", vns, vsn$, vst$, vsm)',
         "30 PUNCH vns",
         "40 FOR i = 1 TO vns",
         "50 PUNCH vsn$(i), vsm(i), MOL(vsn$(i)), LA(vsn$(i))",
         "60 NEXT i",
         '70 t = SYS("aq", vna, van$, vat$, vam)',
         "80 PUNCH vna",
         "90 FOR i = 1 TO vna",
         "100 PUNCH van$(i), MOL(van$(i)), LA(van$(i))",
         "110 NEXT i"]
    ln = 200
    for s in meta["surfaces"]:
        n = s["name"]
        L.append('%d PUNCH %s' % (ln, ", ".join('EDL("%s","%s")' % (w, n) for w in
                                                ("psi", "sigma", "charge", "water", "psi1", "psi2", "sigma1", "sigma2", "charge1", "charge2"))))
        L.append('%d vnd = 0' % (ln + 10))
        L.append('%d vda = 0' % (ln + 12))
        L.append('%d vdt = 0' % (ln + 14))
        L.append('%d t = EDL_SPECIES("%s", vnd, vdn$, vdm, vda, vdt)' % (ln + 20, n))
        L.append('%d PUNCH vnd, vda, vdt' % (ln + 30))
        L.append('%d FOR i = 1 TO vnd' % (ln + 40))
        L.append('%d PUNCH vdn$(i), vdm(i)' % (ln + 50))
        L.append('%d NEXT i' % (ln + 60))
        ln += 100
    return "\n".join(L) + "\n"


# ------------------------------------------------------------------------------------------------ result parsing
def parse_states(res, meta):
    """rows of the selected-output table -> list of states (rows with at least one surface species)"""
    out = []
    tabs = res.get("tables") or {}
    tab = tabs.get("1") or tabs.get(1)
    if not tab:
        return out
    for row in tab[1:]:
        v = [vlib.cell_value(c) for c in row]
        try:
            st = {"mu": v[0], "eps": v[1], "tk": v[2], "W": v[3], "law": v[4], "equi": v[5], "kin": v[6]}
            p = 7
            ns = int(v[p]); p += 1
            if ns <= 0:
                continue
            st["surf"] = []
            for _ in range(ns):
                st["surf"].append({"name": v[p], "moles": v[p + 1], "mol": v[p + 2], "la": v[p + 3]})
                p += 4
            na = int(v[p]); p += 1
            st["aq"] = []
            for _ in range(na):
                st["aq"].append({"name": v[p], "mol": v[p + 1], "la": v[p + 2]})
                p += 3
            st["edl"] = {}
            for s in meta["surfaces"]:
                keys = ("psi", "sigma", "charge", "water", "psi1", "psi2", "sigma1", "sigma2", "charge1", "charge2")
                e = dict(zip(keys, v[p:p + 10])); p += 10
                nd = int(v[p]); e["dl_area"] = v[p + 1]; e["dl_thick"] = v[p + 2]; p += 3
                e["dl"] = []
                for _ in range(nd):
                    e["dl"].append((v[p], v[p + 1])); p += 2
                st["edl"][s["name"]] = e
            out.append(st)
        except (IndexError, TypeError, ValueError) as ex:
            out.append({"bad": repr(ex)})
    return out


# ------------------------------------------------------------------------------------------------ building the checks of one state
def Q(x):
    return vlib.coq_Q(x)


def Qpairs(l):
    return "[" + "; ".join("(%s, %s)" % (Q(a), Q(b)) for a, b in l) + "]"


def gouy(eps, tk, mu, psi):
    return math.sqrt(8000 * eps * EPS0 * R_J * tk * mu) * math.sinh(F_C * psi / (2 * R_J * tk))


def state_checks(st, meta, table, si=0):
    """-> list of (kind, coq_term, float_ok, detail). table: species name -> parsed reaction"""
    masters, species = table
    checks = []
    model = meta["model"]
    la = {s["name"]: s["la"] for s in st["surf"]}
    la.update({a["name"]: a["la"] for a in st["aq"]})
    la["H2O"] = st["law"]
    W, tk = st["W"], st["tk"]
    for sf in meta["surfaces"]:
        nm = sf["name"]
        e = st["edl"][nm]
        rel = meta.get("related")
        if rel:
            mrel = st["equi"] if rel["kind"] == "phase" else st["kin"]
            if si == 0:
                mrel = rel["m0"]          # initial-surface calculation (first state): the assemblage / kinetics is not in use yet
            elif not mrel or mrel < 1e-9:
                continue                  # the phase / reactant has dissolved completely: the surface has vanished (no sites left)
            sf = dict(sf, sites={t: p_ * mrel for t, p_ in sf["sites"].items()}, area=rel["area_per_mol"], grams=mrel)
        mine = []          # surface species of this surface: (rec, site coefficients, charge)
        for s in st["surf"]:
            body, z = split_charge(s["name"])
            try:
                el = parse_formula(body)
            except Exception:
                continue
            sc = {t: el[t] for t in sf["sites"] if t in el}
            if sc:
                mine.append((s, sc, z))
        # ---- site balance per site type
        for t, total in sf["sites"].items():
            pairs = [(sc[t], s["moles"]) for s, sc, z in mine if t in sc]
            got = sum(float(c) * n for c, n in pairs)
            checks.append(("site-balance", "check_sites %s %s" % (Qpairs(pairs), Q(total)),
                           abs(got - total) <= TOL * total, {"site": t, "sum": got, "defined": total}))
        zl = [(z, s["moles"]) for s, sc, z in mine]
        A, g = sf["area"], sf["grams"]
        q = sum(float(z) * n for z, n in zl)
        sig = F_C * q / (A * g)
        dl = model.startswith("dl_")
        if model == "ddl":
            gc = gouy(st["eps"], tk, st["mu"], e["psi"])
            checks.append(("charge-law-ddl", "check_ddl %s %s %s %s %s %s %s" % (Qpairs(zl), Q(A), Q(g), Q(e["psi"]), Q(st["mu"]), Q(st["eps"]), Q(tk)),
                           abs(sig - gc) <= TOL * abs(gc), {"abs_residual": abs(sig - gc), "surface": nm, "sigma_species": sig, "gouy_chapman": gc, "psi": e["psi"],
                                                            "EDL_sigma": e["sigma"], "mu": st["mu"], "eps_r": st["eps"], "tk": tk}))
        elif model == "ccm":
            C = sf["cap"][0]
            checks.append(("charge-law-ccm", "check_linear %s %s %s %s %s" % (Qpairs(zl), Q(A), Q(g), Q(C), Q(e["psi"])),
                           abs(sig - C * e["psi"]) <= TOL * abs(C * e["psi"]), {"abs_residual": abs(sig - C * e["psi"]), "surface": nm, "sigma_species": sig, "C_psi": C * e["psi"],
                                                                                 "EDL_sigma": e["sigma"]}))
        elif model == "cd_music":
            checks += cd_checks(st, meta, sf, e, mine, species, masters)
        if model == "dl_bork" and not meta.get("oci") and abs(sig) >= 1e-5:
            # -diffuse_layer: the excess integrals are those of the Poisson-Boltzmann profile of the actual electrolyte, so the
            # surface charge obeys the Grahame equation at the reported psi up to the Romberg tolerance (extra relation, 1e-4)
            ions = [(a["mol"], split_charge(a["name"])[1]) for a in st["aq"] if a["name"] not in ("H2O", "e-")]
            y = -F_C * e["psi"] / (R_J * tk)
            s1 = sum(m * float(z) for m, z in ions)
            try:
                gs = sum(m * (math.exp(float(z) * y) - 1) for m, z in ions) + abs(s1) * (math.exp(-y if s1 >= 0 else y) - 1)
                gr = (1 if e["psi"] > 0 else -1) * math.sqrt(max(0.0, 2000 * st["eps"] * EPS0 * R_J * tk * gs))
            except OverflowError:
                gr = float("inf")
            checks.append(("charge-law-bork", "check_grahame_loose %s %s %s %s %s %s %s" % (Qpairs(zl), Q(A), Q(g), Qpairs(ions), Q(e["psi"]), Q(st["eps"]), Q(tk)),
                           abs(sig - gr) <= 1e-4 * abs(gr), {"surface": nm, "sigma_species": sig, "grahame": gr, "psi": e["psi"],
                                                              "tolerance": 1e-4, "mu": st["mu"], "n_surfaces": len(meta["surfaces"])}))
        if model.startswith("dl_donnan") and abs(sig) >= 1e-5:
            # (extra relations at loose tolerances: not applied next to the point of zero charge, |sigma| < 1e-5 C/m2, where the
            #  rows' absolute convergence tolerance dominates)
            gc = gouy(st["eps"], tk, st["mu"], e["psi"])
            checks.append(("charge-law-donnan", "check_ddl_loose %s %s %s %s %s %s %s" % (Qpairs(zl), Q(A), Q(g), Q(e["psi"]), Q(st["mu"]), Q(st["eps"]), Q(tk)),
                           abs(sig - gc) <= 1e-4 * abs(gc), {"surface": nm, "sigma_species": sig, "gouy_chapman": gc, "psi": e["psi"],
                                                             "tolerance": 1e-4, "mu": st["mu"], "eps_r": st["eps"], "tk": tk}))
        if dl:
            dls = []
            for n_, m_ in e["dl"]:
                _, z = split_charge(n_)
                if z != 0:
                    dls.append((z, m_))
            qd = sum(float(z) * n for z, n in dls)
            checks.append(("dl-balance", "check_dl_balance %s %s" % (Qpairs(zl), Qpairs(dls)),
                           abs(q + qd) <= TOL * abs(q), {"abs_residual": abs(q + qd), "surface": nm, "surface_charge_mol": q, "diffuse_layer_charge_mol": qd,
                                                         "EDL_charge": e["charge"], "n_dl_species": len(e["dl"])}))
        # ---- Donnan layer: every species enriched by its Boltzmann factor at ONE potential (reference: most abundant counter-ion)
        if model.startswith("dl_donnan") and e["water"] and e["water"] > 0:
            mol = {a["name"]: a["mol"] for a in st["aq"]}
            enr = []
            for n_, m_ in e["dl"]:
                _, z = split_charge(n_)
                if z == 0 or n_ not in mol or mol[n_] <= 0 or m_ <= 0:
                    continue
                enr.append((n_, z, Fraction(m_) / (Fraction(mol[n_]) * Fraction(e["water"])), m_))
            sgn = 1 if q > 0 else -1
            counter = [x for x in enr if (x[1] > 0) != (sgn > 0)]
            if counter:
                ref = max(counter, key=lambda x: x[3])
                # the layer's potential has the sign of the surface charge: the counter-ions are enriched (E > 1) ...
                # (not with -only_counter_ions: there the layer holds just enough counter-ions to balance, possibly fewer than bulk)
                if not meta.get("oci"):
                    checks.append(("donnan-counter-enriched", "negb (Qle_bool %s 1)" % Q(ref[2]), float(ref[2]) > 1.0,
                                   {"species": ref[0], "enrichment": float(ref[2]), "surface": nm, "surface_charge_mol": q}))
                else:
                    # ... and with -only_counter_ions the co-ions are excluded from the layer
                    for n_, z, E, m_ in enr:
                        if (z > 0) == (sgn > 0):
                            checks.append(("donnan-coion-excluded", "Qle_bool %s (1 # 1000000)" % Q(E), float(E) <= 1e-6,
                                           {"species": n_, "enrichment": float(E), "surface": nm, "surface_charge_mol": q}))
                for n_, z, E, m_ in enr:
                    if n_ == ref[0]:
                        continue
                    if meta.get("oci") and (z > 0) == (sgn > 0):
                        continue          # -only_counter_ions: co-ions are excluded from the layer
                    pred = float(ref[2]) ** (float(z) / float(ref[1]))
                    if float(E) < 1e-4 or float(ref[2]) < 1e-4:
                        continue          # g is stored as (E - 1) * W_DL / W: a strongly depleted species loses its digits to cancellation
                    checks.append(("donnan-boltzmann", "check_donnan_ratio %s %s %s %s" % (Q(E), Q(ref[2]), Q(z), Q(ref[1])),
                                   abs(float(E) - pred) <= TOL * pred, {"species": n_, "enrichment": float(E), "reference": ref[0],
                                                                          "reference_enrichment": float(ref[2]), "predicted": pred, "surface": nm}))
        # ---- readout consistency (float only; exact relation is the regenerated edl_sigma expression)
        # ---- mass action + activity scale for every species of this surface
        for s, sc, z in mine:
            r = species.get(s["name"])
            t = list(sc)[0]
            equiv = Fraction(1) if model == "cd_music" else sc[t]
            tot = sf["sites"][t]
            if s["la"] < -250:
                continue      # below the range of binary64 the engine clamps 10^lm (under / safe_exp): not a statement about the model
            checks.append(("activity-scale", "check_activity %s %s %s %s" % (Q(s["moles"]), Q(equiv), Q(tot), Q(s["la"])),
                           abs(s["moles"] * float(equiv) / tot - 10 ** s["la"]) <= TOL * 10 ** s["la"],
                           {"species": s["name"], "moles": s["moles"], "equiv": float(equiv), "sites": tot, "la": s["la"]}))
            if r is None or r["identity"] or r["terms"] is None or r["lk"] is None or r["tdep"] and abs(tk - 298.15) > 1e-9:
                continue
            if any(n_ not in la for c, n_ in r["terms"]):
                continue
            terms = [(c, la[n_]) for c, n_ in r["terms"]]
            if model == "cd_music":
                # exp(-(dz0 psi0 + dz1 psi1 + dz2 psi2) F / RT): one Boltzmann factor per plane (Spec.boltzmann_planes)
                dz = Fraction(1)
                psiq = r["cd"][0] * Fraction(e["psi"]) + r["cd"][1] * Fraction(e["psi1"]) + r["cd"][2] * Fraction(e["psi2"])
                psi = float(psiq)
                dzinfo = [float(x) for x in r["cd"]]
            else:
                dz = sum((c * split_charge(n_)[1] for c, n_ in r["terms"] if n_ not in la_surface_names(st)), Fraction(0))
                psiq = Fraction(0) if model == "no_edl" else Fraction(e["psi"])
                psi = float(psiq)
                if model == "no_edl":
                    dz = Fraction(0)
                dzinfo = float(dz)
            pred = float(r["lk"]) + sum(float(c) * x for c, x in terms) - float(dz) * F_C * psi / (R_J * tk) / LN10
            checks.append(("mass-action", "check_mass_action %s %s %s %s %s %s" % (Q(s["la"]), Q(r["lk"]), Qpairs(terms), Q(dz), Q(psiq), Q(tk)),
                           abs(s["la"] - pred) <= TOL, {"species": s["name"], "equation": r["eq"], "la": s["la"], "predicted": pred,
                                                        "dz": dzinfo, "psi": psi}))
    return checks


def la_surface_names(st):
    return {s["name"] for s in st["surf"]}


def cd_checks(st, meta, sf, e, mine, species, masters):
    """CD-MUSIC: plane charges from the species (z_master + dz0, dz1, dz2) against the capacitance / Grahame relations"""
    out = []
    A, g, tk = sf["area"], sf["grams"], st["tk"]
    C1, C2 = sf["cap"]
    l0, l1, l2 = [], [], []
    ok = True
    for s, sc, z in mine:
        r = species.get(s["name"])
        t = list(sc)[0]
        if r is None:
            ok = False
            break
        zm = split_charge(masters[t])[1]
        # charge attributed to plane 0: every site carries the master's charge, plus dz0 of the species
        l0.append((zm * sc[t] + r["cd"][0], s["moles"]))
        l1.append((r["cd"][1], s["moles"]))
        l2.append((r["cd"][2], s["moles"]))
    if not ok:
        return out
    f = lambda l: F_C * sum(float(z) * n for z, n in l) / (A * g)
    s0, s1, s2 = f(l0), f(l1), f(l2)
    # the engine takes the master-charge part of sigma0 from the DEFINED sites (z_master * sites), the check from the species
    # (z_master * sum n_i): they differ by the site-balance residual the convergence test admits (<= max(toler * sites, ineq_tol))
    site_allow = sum(abs(float(split_charge(masters[t])[1])) * max(CODE_ABS_TOL * S_, 1e-15) for t, S_ in sf["sites"].items()) * F_C / (A * g)
    d01, d12 = e["psi"] - e["psi1"], e["psi1"] - e["psi2"]
    out.append(("charge-law-cd0", "check_linear %s %s %s %s %s" % (Qpairs(l0), Q(A), Q(g), Q(C1), Q(Fraction(e["psi"]) - Fraction(e["psi1"]))),
                abs(s0 - C1 * d01) <= TOL * abs(C1 * d01), {"abs_residual": abs(s0 - C1 * d01), "abs_allow": site_allow, "surface": sf["name"], "sigma0_species": s0, "C1_dpsi": C1 * d01, "EDL_sigma": e["sigma"]}))
    l01 = l0 + l1
    out.append(("charge-law-cd1", "check_linear %s %s %s %s %s" % (Qpairs(l01), Q(A), Q(g), Q(C2), Q(Fraction(e["psi1"]) - Fraction(e["psi2"]))),
                abs(s0 + s1 - C2 * d12) <= TOL * abs(C2 * d12), {"abs_residual": abs(s0 + s1 - C2 * d12), "abs_allow": site_allow, "surface": sf["name"], "sigma01_species": s0 + s1, "C2_dpsi": C2 * d12,
                                                                "EDL_sigma1": e["sigma1"]}))
    ions = []
    for a in st["aq"]:
        _, z = split_charge(a["name"])
        if a["name"] in ("H2O", "e-"):
            continue
        ions.append((a["mol"], z))
    l012 = l0 + l1 + l2
    y = -F_C * e["psi2"] / (R_J * tk)
    s1sum = sum(m * float(z) for m, z in ions)
    gs = sum(m * (math.exp(float(z) * y) - 1) for m, z in ions) + abs(s1sum) * (math.exp(-y if s1sum >= 0 else y) - 1)
    gr = (1 if e["psi2"] > 0 else -1) * math.sqrt(max(0.0, 2000 * st["eps"] * EPS0 * R_J * tk * gs))
    out.append(("charge-law-cd2", "check_grahame %s %s %s %s %s %s %s" % (Qpairs(l012), Q(A), Q(g), Qpairs(ions), Q(e["psi2"]), Q(st["eps"]), Q(tk)),
                abs(s0 + s1 + s2 - gr) <= TOL * abs(gr), {"abs_residual": abs(s0 + s1 + s2 - gr), "abs_allow": site_allow, "surface": sf["name"], "sigma012_species": s0 + s1 + s2, "grahame": gr, "psi2": e["psi2"]}))
    return out


# ------------------------------------------------------------------------------------------------ Coq evaluation (sharded)
HEADER = ("From Coq Require Import QArith List.\nFrom IPV Require Import Base.RExpr Base.IntervalEval C20.Spec C20.Checker.\n"
          "Import ListNotations.\nOpen Scope Q_scope.\n")


def coq_run(terms, shards=6, timeout=900):
    """evaluate boolean terms with vm_compute; returns list of True/False/None (None: evaluation failed)"""
    import concurrent.futures as cf
    res = [None] * len(terms)
    if not terms:
        return res, []
    n = min(shards, max(1, len(terms) // 40 + 1))
    chunks = [list(range(i, len(terms), n)) for i in range(n)]
    errs = []

    def one(idx):
        txt = HEADER + "".join("Eval vm_compute in (%s).\n" % terms[i] for i in idx)
        rc, out = vlib.coq_eval(txt, timeout=timeout)
        vals = re.findall(r"=\s*(true|false)\s*\n\s*:\s*bool", out)
        if rc != 0 or len(vals) != len(idx):
            errs.append("coqc rc=%s, %d/%d results: %s" % (rc, len(vals), len(idx), out[-600:]))
            return
        for i, v in zip(idx, vals):
            res[i] = (v == "true")
    with cf.ThreadPoolExecutor(max_workers=n) as ex:
        list(ex.map(one, chunks))
    return res, errs


# ------------------------------------------------------------------------------------------------ translator validation
def validate_translation(ctx, leaves, samples):
    """the regenerated expressions, evaluated in binary64 at reported values, reproduce what the compiled code reports"""
    by = {l.name: l for l in leaves}
    bad = []
    n = 0
    for st, meta in samples:
        if meta["model"] not in ("ddl", "ccm") or meta.get("related"):
            continue
        for sf in meta["surfaces"]:
            e = st["edl"][sf["name"]]
            A, g = sf["area"], sf["grams"]
            if e["charge"] is None or not A * g:
                continue
            n += 1
            sig = by["edl_sigma"].eval([e["charge"], A, g])
            if abs(sig - e["sigma"]) > 1e-13 * abs(e["sigma"]) + 1e-300:
                bad.append("edl_sigma: generated %r vs reported %r" % (sig, e["sigma"]))
            la_psi = e["psi"] * 96.4935 / (2 * 0.0083147 * st["tk"] * LN10)
            psi = by["edl_psi"].eval([la_psi, LN10, st["tk"]])
            if abs(psi - e["psi"]) > 1e-13 * abs(e["psi"]) + 1e-300:
                bad.append("edl_psi: generated %r vs reported %r" % (psi, e["psi"]))
            if meta["model"] == "ddl":
                r = by["ddl_res"].eval([la_psi, LN10, st["mu"], st["eps"], st["tk"], e["charge"], A, g])
            else:
                r = by["ccm_res"].eval([la_psi, LN10, st["tk"], sf["cap"][0], e["charge"], A, g])
            if abs(r) > 1e-8:
                bad.append("%s residual %r at the reported state exceeds the convergence tolerance" % (meta["model"], r))
    ctx.obligation("translator-validation(generated read-outs/residuals reproduce reported EDL values in binary64; %d states)" % n,
                   not bad and n > 0, "; ".join(bad[:5]) or "no state evaluated")


# ------------------------------------------------------------------------------------------------ per-theorem failure attribution
PROOF_FILES = ["ResidualProofs", "Guards", "Summary"]      # proof files about the generated definitions, in dependency order


def attribute_failures(ctx):
    """When a lemma about a regenerated definition no longer proves, its file does not compile and `make` reports every
    theorem of Props/Properties_C20.v as failed.  Here the proof files are replayed through `coqtop` (which continues after
    an error) as modules of ONE stream: a lemma whose proof fails stays undefined, so exactly the lemmas / theorems that
    (transitively) use it fail with "reference not found".  Returns {theorem: bool} or None if the replay is unusable."""
    def strip_imports(txt, defined):
        def fix(m):
            sent = m.group(0)
            mine = [x for x in PROOF_FILES if re.search(r"\bC20\.%s\b" % x, sent)]
            for x in mine:
                sent = re.sub(r"\s*\bC20\.%s\b" % x, "", sent)
            return sent + "".join("\nImport %s." % x for x in mine if x in defined)
        return re.sub(r"From IPV Require Import[^.]*(?:\.[A-Za-z_][^.]*)*\.(?=\s)", fix, txt)
    out = []
    defined = []
    for f in PROOF_FILES:
        txt = open(os.path.join(vlib.COQ, "C20", f + ".v")).read()
        txt = strip_imports(txt, defined)
        txt = re.sub(r"\bQed\.", "Qed. Abort All.", txt)
        out.append("Module %s.\n%s\nEnd %s.\n" % (f, txt, f))
        defined.append(f)
    props = open(os.path.join(vlib.COQ, "Props", "Properties_C20.v")).read()
    thms = re.findall(r"^\s*Theorem\s+([\w']+)", props, flags=re.M)
    props = strip_imports(props, defined)
    props = re.sub(r"^\s*Print Assumptions [^\n]*\n", "", props, flags=re.M)
    props = re.sub(r"\bQed\.", "Qed. Abort All.", props)
    out.append(props)
    out.append("Definition attr_marker (n : nat) := n.\n")
    for i, t in enumerate(thms):
        out.append("Check (attr_marker %d).\nCheck %s.\n" % (i, t))
    out.append("Check (attr_marker %d).\n" % len(thms))
    with vlib.scratch("attr20") as d:
        pth = os.path.join(d, "all.v")
        open(pth, "w").write("\n".join(out))
        rc, so, se = vlib.sh("coqtop -Q %s IPV -w -all < %s 2>&1" % (vlib.COQ, pth), cwd=d, timeout=600)
    parts = re.split(r"attr_marker (\d+)\s*\n\s*: nat", so)
    if len(parts) < 2 * len(thms) + 1:
        return None
    status = {}
    for i, t in enumerate(thms):
        seg = parts[2 * i + 2]
        status[t] = ("Error" not in seg) and (t in seg)
    return status


# ------------------------------------------------------------------------------------------------ main
def table_for(meta):
    masters, species = db_surface(meta["db"])
    if meta.get("user_block"):
        m2, s2 = parse_surface_species(meta["user_block"])
        masters = dict(masters, **m2)
        species = dict(species, **s2)
    return masters, species


def evaluate(ctx, cases, results):
    """build all checks, run the verified checkers, report. returns number of failing checks"""
    allc = []      # (case index, state index, kind, term, float_ok, detail)
    samples = []
    stats = {}
    skipped = {"error": 0, "timeout": 0, "nostate": 0}
    for ci, c in enumerate(cases):
        r = results.get(c["id"])
        meta = c["meta"]
        if r is None or r.get("timeout") or r.get("crash"):
            skipped["timeout"] += 1
            continue
        if r.get("rc") or r.get("err"):
            skipped["error"] += 1        # runs that end with ERROR are outside the property's premises
            c["_err"] = (r.get("err") or "")[:300]
            continue
        states = parse_states(r, meta)
        if not states:
            skipped["nostate"] += 1
            continue
        tab = table_for(meta)
        for si, st in enumerate(states):
            if "bad" in st:
                ctx.obligation("parse(selected output row)", False, st["bad"])
                continue
            samples.append((st, meta))
            for kind, term, fok, det in state_checks(st, meta, tab, si):
                allc.append((ci, si, kind, term, fok, det))
    terms = [a[3] for a in allc]
    vals, errs = coq_run(terms)
    if errs:
        ctx.obligation("verified-checker-run(coqc evaluates the cases file)", False, errs[0])
    nfail = 0
    worst = {}          # key -> (size of the deviation, arguments of ctx.violation): the clearest instance per key is reported
    for (ci, si, kind, term, fok, det), v in zip(allc, vals):
        c = cases[ci]
        model = c["meta"]["model"]
        stats.setdefault(model, {}).setdefault(kind, [0, 0])
        stats[model][kind][0] += 1
        ctx.case("%s:%s:%d:%s:%s" % (model, c["id"], si, kind, det.get("species", det.get("site", det.get("surface", "")))),
                 sample={"model": model, "check": kind, "detail": det, "verified": v} if kind.startswith("charge-law") else None)
        if v is None:
            continue
        if v != fok:
            ctx.notes.append("float pre-check and verified checker disagree on %s (%s): float %s, Coq %s" % (kind, c["id"], fok, v))
        if not v:
            nfail += 1
            stats[model][kind][1] += 1
            key = "C20/%s/%s" % (kind, model)
            if c["meta"].get("erm_ddl") and kind in ("dl-balance", "donnan-boltzmann", "donnan-counter-enriched"):
                # EDL_SPECIES (Phreeqc::get_edl_species) ignores the species' -erm_ddl enrichment factor that the charge balance,
                # sum_diffuse_layer and EDL("element") apply: its composition does not balance the surface charge
                key = "C20/edl_species-ignores-erm_ddl"
            elif det.get("abs_residual") is not None and det["abs_residual"] <= CODE_ABS_TOL * 1.05 + det.get("abs_allow", 0.0):
                # the charge rows are converged to an ABSOLUTE tolerance (convergence_tolerance = 1e-12 with -high_precision:
                # C/m2 for the charge-potential rows, mol of charge for the diffuse-layer balance); for small charges this is
                # weaker than the property's 1e-8 relative.  Same stable key for every instance of this gap.
                key = "C20/tolerance-gap/%s" % kind
            dev = abs(det["la"] - det["predicted"]) if "predicted" in det and "la" in det else 0.0
            if dev and det["la"] < -12:
                dev *= 1e-3           # prefer a species that is present in a significant amount
            if key in worst and worst[key][0] >= dev:
                continue
            worst[key] = (dev, (key, "surface %s check fails (model %s, database %s, state %d of the run): %s"
                                % (kind, model, c["db"], si, json.dumps(det, default=str)[:600]),
                                {"kind": "input", "database": c["db"], "input_text": c["text"], "state_index": si, "check": kind,
                                 "coq_term": term[:4000], "observed": det, "expected": "verified checker returns true (1e-8)",
                                 "meta": c["meta"]}))
    for key in sorted(worst):
        ctx.violation(*worst[key][1])
    ctx.extra.setdefault("checks_by_model", {})
    for m, d in stats.items():
        for k, (n, f) in d.items():
            cur = ctx.extra["checks_by_model"].setdefault(m, {}).setdefault(k, [0, 0])
            cur[0] += n
            cur[1] += f
    ctx.extra.setdefault("skipped_runs", {})
    for k, v in skipped.items():
        ctx.extra["skipped_runs"][k] = ctx.extra["skipped_runs"].get(k, 0) + v
    return nfail, samples


def replay(ctx):
    obj = json.load(open(ctx.replay))
    if obj.get("kind") != "input":
        ok = vlib.coq_stage(ctx, "Props/Properties_C20.vo", gen=gen)
        return
    c = {"id": "replay", "db": obj["database"], "text": obj["input_text"], "meta": obj["meta"]}
    res = vlib.run_inputs([dict(c)], timeout_each=60)
    evaluate(ctx, [c], res)


def run(ctx):
    if ctx.replay:
        return replay(ctx)
    leaves = []

    def gen2():
        leaves.extend(c20_gen.generate())
    ok = vlib.coq_stage(ctx, "Props/Properties_C20.vo", gen=gen2)
    if not ok:
        try:
            st = attribute_failures(ctx)
        except Exception as ex:
            st = None
            ctx.notes.append("per-theorem attribution failed: %r" % ex)
        if st and not all(st.values()):      # only trust the replay if it reproduces a failure
            ctx.obligations = [(n, (True if st.get(n) else okk) if n in st else okk,
                                ("" if st.get(n) else det) if n in st else det) for n, okk, det in ctx.obligations]
            ctx.notes.append("failure attributed by coqtop replay to: " + ", ".join(n for n, v in st.items() if not v))
    boost = 1 if ok else 3          # a broken obligation: search harder for a concrete failing input
    ncase = ctx.n(81, 600) * boost
    cases = corpus_cases()
    for k in range(ncase):
        c = make_case(ctx.rng, k)
        c["id"] = "c%04d" % k
        cases.append(c)
    import time
    t0 = time.time()
    res = vlib.run_inputs([dict(id=c["id"], db=c["db"], text=c["text"]) for c in cases], timeout_each=40, workers=6)
    t1 = time.time()
    nfail, samples = evaluate(ctx, cases, res)
    ctx.extra["stage_seconds"] = {"coq_stage": round(t0 - ctx.t0, 1), "phreeqc_runs": round(t1 - t0, 1), "verified_checkers": round(time.time() - t1, 1)}
    if leaves:
        validate_translation(ctx, leaves, samples)
    ctx.rule = ("random surfaces: Hfo (weak+strong sites) of phreeqc.dat / wateq4f.dat or user-defined site types (2-pK, cation, anion, "
                "outer-sphere and bidentate complexes, random log K), sites 3e-6..3e-3 mol, area 10..1000 m2/g, mass 0.01..10 g, pH 3..11, "
                "background salt 1e-4..1 molal, 0..4 sorbing ions 1e-7..3e-3, 5..60 C, water 0.2..3 kg; electrostatic option rotates over "
                "ddl / ccm / no_edl / -diffuse_layer / -donnan thickness / -donnan debye_lengths (+ -only_counter_ions) / cd_music; each input gives "
                "the initial-surface state and a batch-reaction state with a second solution; a check is one verified-checker evaluation "
                "(site balance per site type, charge law per surface, mass action + activity scale per surface species, diffuse-layer balance)")
    ctx.extra["input_distribution"] = {"cases": ncase, "states": len(samples)}
    ctx.trusted += ["translator/leaf.py + translator/c20_gen.py + clang 14 JSON AST (validated each run against reported EDL values)",
                    "independent parser of SURFACE_SPECIES / SURFACE_MASTER_SPECIES (props/c20.py) and the charge / site-count read from species names",
                    "PHREEQC's physical constants (F = 96493.5 C/mol, R = 8.3147 J/K/mol, eps0 = 8.854e-12) are part of the model's relation",
                    "USER_PUNCH read-outs SYS(\"surf\"), SYS(\"aq\"), MOL, LA, EDL, EDL_SPECIES, MU, EPS_R, TK report the state the solver ended in"]
    ctx.notes += ["floating-point rounding is not modelled; the 1e-8 tolerance of the property covers it (observed <= 1e-11)",
                  "runs that end with ERROR (non-convergence) are outside the premises: counted in skipped_runs"]
