"""C09 — file, string and line views of each output stream are identical.

Proof: coq/Props/Properties_C09.v (routing model: for every event stream and switch setting file = string when
both on, disabled sinks empty, error string is a subsequence of the error file, tables independent of switches,
line accessors for all n in Z, whole-line append law).
Tie (T-corr): instances driven through sequences of Run* calls with changing switch settings; the recorded
engine->io event stream of every call is fed to the extracted routing model, which must reproduce every string;
files on disk are compared with model and strings; line accessors with the lines of the strings; the same input
under all-off / all-on switches must give the same table (relative 1e-6)."""
import json, os, concurrent.futures as cf
import vlib, wrap, gen_inputs

STREAMS = ["Output", "Log", "Error", "Dump"]


def gen_call(rng, uns, first):
    text, info = gen_inputs.multi_sim_input(rng, user_numbers=uns if first else [], nsims=rng.randint(1, 3), rich=rng.random() < 0.4, print_toggle=first, newline_variants=True)
    k = rng.random()
    extra = ""
    if k < 0.25:
        extra = "DUMP\n -all\nEND\n" if rng.random() < 0.5 else "DUMP\n -all\n -append true\nEND\n"
    elif k < 0.4:
        extra = "KNOBS\n -logfile true\nSOLUTION 9\n Na 1\n Cl 1\nEND\n"
    elif k < 0.55:
        extra = "SOLUTION 8\n Na 1\n Clx 3\nEND\n"                     # warning
    elif k < 0.65:
        extra = "SOLUTION 7\n Na 1 charge\n pH 7 charge\nEND\n"          # error
    sw = {}
    for s in STREAMS:
        sw[s] = (rng.random() < 0.5, rng.random() < 0.6)
    if rng.random() < 0.15:
        sw = {s: (True, True) for s in STREAMS}
    sel = {n: (rng.random() < 0.5, rng.random() < 0.6) for n in uns}
    return {"input": text + extra, "sw": sw, "sel": sel, "error_on": rng.random() > 0.1,
            "names": {s: ("my_%s_%d.txt" % (s.lower(), rng.randint(0, 1)) if rng.random() < 0.3 else None) for s in STREAMS},
            "entry": rng.choice(["RunString", "RunFile", "Accumulate"])}


def gen_case(rng):
    uns = sorted(rng.sample([1, 2, 3, 7], rng.randint(1, 2)))
    ncalls = rng.randint(1, 3)
    reloads = [i > 0 and rng.random() < 0.3 for i in range(ncalls)]
    # a call made after a reload defines its selected output again (the load forgot the definitions; files of earlier calls stay on disk)
    calls = [gen_call(rng, uns, i == 0 or reloads[i]) for i in range(ncalls)]
    # a database (re)load between two calls: engine-side print switches (pr.logfile ...) are reset by the load while PHRQ_io's own gates
    # (log_on ...) and the instance's sink switches survive: file and string must still receive the same content afterwards
    for i in range(1, len(calls)):
        if reloads[i]:
            calls[i]["reload"] = True
            if rng.random() < 0.6 and "KNOBS" not in calls[i - 1]["input"]:
                calls[i - 1]["input"] += "KNOBS\n -logfile true\nSOLUTION 9\n Na 1\n Cl 1\nEND\n"
            if rng.random() < 0.6:
                calls[i]["sw"]["Log"] = (True, True)
    return {"db": rng.choice(["phreeqc.dat", "phreeqc.dat", "wateq4f.dat"]), "uns": uns, "cur": rng.choice(uns), "calls": calls}


def fname(kind, call, state):
    if call["names"][kind]:
        state[kind] = call["names"][kind]
    return state[kind]


def script_for(case):
    ops = [["spy"], ["c", "LoadDatabase", 0, os.path.join(vlib.DB, case["db"])], ["events", 0]]
    marks = []
    names = {"Output": "phreeqc.0.out", "Log": "phreeqc.0.log", "Error": "phreeqc.0.err", "Dump": "dump.0.out"}
    selnames = {n: "selected_%d.0.out" % n for n in case["uns"]}
    for ci, call in enumerate(case["calls"]):
        if call.get("reload"):
            ops.append(["c", "LoadDatabase", 0, os.path.join(vlib.DB, case["db"])])
            ops.append(["events", 0])
        for s in STREAMS:
            f, st = call["sw"][s]
            ops.append(["c", "Set%sFileOn" % s, 0, int(f)])
            ops.append(["c", "Set%sStringOn" % s, 0, int(st)])
            if call["names"][s]:
                ops.append(["c", "Set%sFileName" % s, 0, call["names"][s]])
                names[s] = call["names"][s]
        ops.append(["c", "SetErrorOn", 0, int(call["error_on"])])
        for n, (f, st) in call["sel"].items():
            ops.append(["c", "SetCurrentSelectedOutputUserNumber", 0, n])
            ops.append(["c", "SetSelectedOutputFileOn", 0, int(f)])
            ops.append(["c", "SetSelectedOutputStringOn", 0, int(st)])
        ops.append(["c", "SetCurrentSelectedOutputUserNumber", 0, case["cur"]])
        ops.append(["obs", 0])
        m = {"pre": len(ops) - 1}
        if call["entry"] == "RunString":
            ops.append(["c", "RunString", 0, call["input"]])
        elif call["entry"] == "RunFile":
            ops.append(["c", "RunFile", 0, "input%d.pqi" % ci])
        else:
            for ln in call["input"].split("\n")[:-1]:
                ops.append(["c", "AccumulateLine", 0, ln])
            ops.append(["c", "RunAccumulated", 0])
        m["run"] = len(ops) - 1
        ops.append(["events", 0]); m["events"] = len(ops) - 1
        ops.append(["obs", 0, "lines"]); m["obs"] = len(ops) - 1
        m["files"] = {}
        for s in STREAMS:
            ops.append(["file", names[s]]); m["files"][s] = len(ops) - 1
        m["selfiles"] = {}
        for n in case["uns"]:
            ops.append(["file", selnames[n]]); m["selfiles"][n] = len(ops) - 1
        marks.append(m)
    return ops, marks


def run_case(case, wexe):
    with vlib.scratch("c09") as d:
        for ci, call in enumerate(case["calls"]):
            open(os.path.join(d, "input%d.pqi" % ci), "w").write(call["input"])
        ops, marks = script_for(case)
        res, rc, err = wrap.run_script(wexe, ops, d, timeout=180)
        return ops, marks, res, rc, err


def lines_of(s):
    ls = s.split("\n")
    return ls[:-1] if ls and ls[-1] == "" else ls


def is_subseq(a, b):
    it = iter(b)
    return all(any(x == y for y in it) for x in a)


NOTSET = {"out": "GetOutputString: OutputStringOn not set.\n", "log": "GetLogString: LogStringOn not set.\n", "dump": "GetDumpString: DumpStringOn not set.\n"}


def check_case(case, ops, marks, res, rc, err, mexe, problems):
    def bad(key, what, **kw):
        problems.append((key, what, kw))
    if rc != 0 or any(r is None for r in res):
        bad("crash", "driver died (rc=%s) %s" % (rc, err[-300:]))
        return 0
    done = 0
    prev_dump_file = None
    for ci, (call, m) in enumerate(zip(case["calls"], marks)):
        pre, obs, events = res[m["pre"]], res[m["obs"]], res[m["events"]]["events"]
        runrc = res[m["run"]]["r"]
        sw = dict(obs["sw"]); sw["WarningStringOn"] = 1
        self_on = {int(n): bool(v["fileOn"]) for n, v in pre["sel"].items()}
        selstr_on = {int(n): bool(v["stringOn"]) for n, v in pre["sel"].items()}
        uns = sorted(set(int(n) for n in obs["sel"]) | set(e["n"] for e in events if "n" in e and e["n"] >= 0))
        cur_on = selstr_on.get(case["cur"], False)
        ch = wrap.Chunks()

        def model_run(strmap):
            lines = wrap.route_script(sw, self_on, strmap, events, uns, ch)
            return wrap.parse_route_output(vlib.sh([mexe], input="\n".join(lines) + "\n", timeout=120)[1].split("\n"), ch)
        model = model_run(selstr_on)
        model_code = model_run({n: cur_on for n in set(uns) | set(selstr_on)})
        files = {s: res[m["files"][s]] for s in STREAMS}
        tag = "call %d" % ci
        # ---- output, log: string vs model vs file
        for s, key, son, fon in (("Output", "out", sw["OutputStringOn"], sw["OutputFileOn"]), ("Log", "log", sw["LogStringOn"], sw["LogFileOn"])):
            got = obs[key]
            if son:
                if got != model[key + "_s"]:
                    bad(key + "_string", "%s: %s string differs from the routing model's fold of the recorded events" % (tag, s), observed=got[:300], expected=model[key + "_s"][:300])
            elif got not in (NOTSET[key], ""):
                bad(key + "_disabled", "%s: %s string switch is off but the string is not empty" % (tag, s), observed=got[:200])
            f = files[s]
            if fon:
                if not f["exists"]:
                    bad(key + "_file_missing", "%s: %s file switch on but no file written" % (tag, s))
                else:
                    if f["content"] != model[key + "_f"]:
                        bad(key + "_file", "%s: %s file differs from the model" % (tag, s), observed=f["content"][:300], expected=model[key + "_f"][:300])
                    if son and f["content"] != got:
                        bad(key + "_file_vs_string", "%s: %s file and string are both on but differ" % (tag, s), observed=f["content"][:200], expected=got[:200])
            # lines
            ls = obs["lines"][key]
            if ls[0] != "" or ls[-1] != "":
                bad("lines:outside", "%s: %s line accessor outside 0..count-1 is not empty" % (tag, s))
            if son and ls[1:-1] != lines_of(got) and runrc != 0 and ls[1:-1] == []:
                bad("F9:line-views-not-refreshed-after-failed-run", "%s: the run returned %d errors; the %s string holds the text of the call but its line accessors report 0 lines (do_run's line splitting is skipped when the run is aborted)" % (tag, runrc, s))
            elif son and ls[1:-1] != lines_of(got):
                bad("lines:" + key, "%s: %s line accessors are not the lines of the string" % (tag, s), observed=ls[1:4], expected=lines_of(got)[:3])
            if not son and ls[1:-1]:
                bad("lines:disabled:" + key, "%s: %s line accessors deliver lines although the string switch is off" % (tag, s))
        # ---- error stream
        gerr = obs["err"]
        if sw["ErrorOn"] and sw["ErrorStringOn"]:
            if gerr != model["err_s"]:
                bad("err_string", "%s: error string differs from the model" % tag, observed=gerr[:300], expected=model["err_s"][:300])
        ef = files["Error"]
        if sw["ErrorFileOn"]:
            if not ef["exists"]:
                bad("err_file_missing", "%s: error file switch on but no file" % tag)
            else:
                if ef["content"] != model["err_f"]:
                    bad("err_file", "%s: error file differs from the model" % tag, observed=ef["content"][:300], expected=model["err_f"][:300])
                if sw["ErrorOn"] and sw["ErrorStringOn"] and not is_subseq(lines_of(gerr), lines_of(ef["content"])):
                    bad("err_subsequence", "%s: a line of the error string is missing from the error file (or out of order)" % tag, observed=lines_of(gerr)[:5], expected=lines_of(ef["content"])[:8])
        if obs["warn"] != model["warn_s"]:
            bad("warn_string", "%s: warning string differs from the model" % tag, observed=obs["warn"][:200], expected=model["warn_s"][:200])
        for key in ("err", "warn"):
            ls = obs["lines"][key]
            src = gerr if key == "err" else obs["warn"]
            if key == "err" and not (sw["ErrorOn"] and sw["ErrorStringOn"]):
                continue
            if ls[0] != "" or ls[-1] != "" or ls[1:-1] != lines_of(src):
                bad("lines:" + key, "%s: %s line accessors are not the lines of the string" % (tag, key), observed=ls[:4], expected=lines_of(src)[:3])
        # ---- dump: file vs string
        df = files["Dump"]
        dumped = "DUMP" in call["input"]
        if sw["DumpStringOn"] and sw["DumpFileOn"] and dumped and df["exists"] and ci == 0:
            if df["content"] != obs["dump"]:
                bad("dump_file_vs_string", "%s: dump file and dump string are both on but differ" % tag, observed=df["content"][:200], expected=obs["dump"][:200])
        if not sw["DumpStringOn"] and obs["dump"] not in (NOTSET["dump"], ""):
            bad("dump_disabled", "%s: dump string switch off but string not empty" % tag)
        if sw["DumpStringOn"]:
            ls = obs["lines"]["dump"]
            if ls[0] != "" or ls[-1] != "" or ls[1:-1] != lines_of(obs["dump"]):
                bad("lines:dump", "%s: dump line accessors are not the lines of the dump string" % tag)
        # ---- selected output per user number (F1/F8 are C05 findings that also touch C09)
        reopened, offered = set(), set()
        for e in events:
            if e["k"] in ("pmsg", "pval") and e["on"]:
                offered.add(e["n"])
            if e["k"] == "popen" and e["fon"] and e["n"] in offered:
                reopened.add(e["n"])
        notopen = set()
        for e in events:
            if e["k"] in ("pmsg", "pval") and bool(e["f"]) != self_on.get(e["n"], False) and e["n"] not in notopen:
                notopen.add(e["n"])
                if not e["f"] and e["k"] == "pmsg":
                    bad("F10:headings-punched-before-file-open", "%s: a heading line of user number %d is punched while its file switch is on but its file is not (yet) open in this call: the string receives it, the file does not" % (tag, e["n"]))
                else:
                    bad("stream:fopen", "%s: punch stream of %d open=%s but file switch %s" % (tag, e["n"], e["f"], self_on.get(e["n"], False)))
        for n in case["uns"]:
            o = obs["sel"].get(str(n))
            if o is None:
                continue
            got = o["string"]
            exp = model["sel_s"].get(n, "")
            f1 = False
            if selstr_on.get(n) is not None and got != exp and not (got.startswith("GetSelectedOutputString:") and not exp):
                if got == model_code["sel_s"].get(n, ""):
                    f1 = True
                    bad("F1:get_sel_out_string_on-ignores-n", "%s: the string switch of the current user number %d (%s) was applied to user number %d (own switch %s)" % (tag, case["cur"], cur_on, n, selstr_on.get(n)))
                else:
                    bad("sel_string", "%s: selected-output string of %d differs from the model" % (tag, n), observed=got[:300], expected=exp[:300])
            sf = res[m["selfiles"][n]]
            opened_now = any(e["k"] == "popen" and e["n"] == n and e["fon"] for e in events)
            if self_on.get(n) and (n not in notopen or opened_now):
                if sf["exists"] and sf["content"] != model["sel_f"].get(n, ""):
                    bad("sel_file", "%s: selected-output file of %d differs from the model" % (tag, n), observed=sf["content"][:300], expected=model["sel_f"].get(n, "")[:300])
                if sf["exists"] and selstr_on.get(n) and not f1 and sf["content"] != got:
                    if n in notopen:
                        pass      # F10 already reported for this number
                    elif n in reopened:
                        bad("F8:selected-output-file-truncated-on-redefinition", "%s: SELECTED_OUTPUT %d redefined within the call: file truncated, string keeps earlier rows" % (tag, n))
                    else:
                        bad("sel_file_vs_string", "%s: selected-output file and string of %d are both on but differ" % (tag, n))
            ls = o.get("lines")
            if ls is not None:
                if ls[0] != "" or ls[-1] != "":
                    bad("lines:outside", "%s: selected-output line accessor outside range not empty" % tag)
                if ls[1:-1] and ls[1:-1] != lines_of(got) and not f1 and selstr_on.get(n) == cur_on and runrc == 0:
                    bad("lines:sel", "%s: selected-output line accessors of %d are not the lines of its string" % (tag, n))
        done += 1
    return done


def tables_close(a, b, rel=1e-6):
    if a.keys() != b.keys():
        return "different user numbers"
    for n in a:
        ta, tb = a[n], b[n]
        if len(ta) != len(tb):
            return "user number %s: %d vs %d rows" % (n, len(ta), len(tb))
        for ra, rb in zip(ta, tb):
            if len(ra) != len(rb):
                return "row length"
            for ca, cb in zip(ra, rb):
                va, vb = vlib.cell_value(ca), vlib.cell_value(cb)
                if isinstance(va, float) and isinstance(vb, float):
                    if va != vb and abs(va - vb) > rel * max(abs(va), abs(vb)) and abs(va - vb) > 1e-30:
                        return "cell %r vs %r" % (va, vb)
                elif va != vb:
                    return "cell %r vs %r" % (va, vb)
    return None


def switch_independence(ctx, nin):
    """same input with every output switch off vs on: same tables within 1e-6 (pr.all is the only switch-derived engine input)"""
    jobs = []
    texts = []
    for i in range(nin):
        text, info = gen_inputs.multi_sim_input(ctx.rng, user_numbers=[1, 3][: ctx.rng.randint(1, 2)])
        texts.append(text)
        jobs.append({"id": "off%d" % i, "db": "phreeqc.dat", "text": text, "flags": []})
        jobs.append({"id": "on%d" % i, "db": "phreeqc.dat", "text": text, "flags": ["out", "log", "selstr", "un=1", "un=3", "dump"]})
    # read-outs of state that the printing routines touch (print_all resets the Peng-Robinson flags, recomputes density / volume ...):
    # BASIC functions evaluated in a LATER step must not depend on whether the earlier step was printed
    for k, (gas, si) in enumerate([("CO2(g)", 1.7), ("CH4(g)", 1.9), ("N2(g)", 2.0)]):
        text = ("SOLUTION 1\n temp %d\n pH 7\n Na 1\n Cl 1\n C(4) 1\nEQUILIBRIUM_PHASES 1\n %s %g 10\nSELECTED_OUTPUT 1\n -reset false\n -high_precision true\n"
                "USER_PUNCH 1\n -headings p phi si rho sc vol osm\n 10 PUNCH PR_P(\"%s\"), PR_PHI(\"%s\"), SI(\"%s\"), RHO, SC, SOLN_VOL, OSMOTIC\nSAVE solution 2\nEND\n"
                "USE solution 1\nREACTION 1\n NaCl 1\n 0.001 0.002\nEND\nUSE solution 2\nREACTION_TEMPERATURE 1\n 40 60\nEND\n") % (25 + 15 * k, gas, si, gas, gas, gas)
        texts.append(text)
        jobs.append({"id": "off%d" % (nin + k), "db": "phreeqc.dat", "text": text, "flags": []})
        jobs.append({"id": "on%d" % (nin + k), "db": "phreeqc.dat", "text": text, "flags": ["out", "log", "selstr", "un=1", "un=3", "dump"]})
    nin = len(texts)
    res = vlib.run_inputs(jobs, timeout_each=60)
    for i in range(nin):
        a, b = res.get("off%d" % i, {}), res.get("on%d" % i, {})
        if "tables" not in a or "tables" not in b:
            continue
        ctx.case("swindep:" + vlib.key_of(texts[i]), nontrivial=bool(a["tables"]))
        d = tables_close(a["tables"], b["tables"])
        if a.get("rc") != b.get("rc"):
            d = "return codes %s vs %s" % (a.get("rc"), b.get("rc"))
        if d:
            ctx.violation("swindep:" + vlib.key_of(texts[i]), "results depend on the output switches: " + d,
                          {"kind": "input", "database": "phreeqc.dat", "input_text": texts[i], "observed": d, "expected": "identical tables with all sinks off and all sinks on"})


def dump_scenarios(ctx, wexe, n):
    """both dump sinks on from the creation of the instance, one file name: after every call the file on disk and the dump string are
    identical, whatever mixture of DUMP / DUMP -append blocks the calls contain (several per call)"""
    for k in range(n):
        ops = [["spy"], ["c", "LoadDatabase", 0, os.path.join(vlib.DB, "phreeqc.dat")], ["c", "SetDumpFileOn", 0, 1], ["c", "SetDumpStringOn", 0, 1], ["c", "SetDumpFileName", 0, "d.txt"]]
        marks, texts = [], []
        for c in range(ctx.rng.randint(2, 4)):
            t = ""
            for b in range(ctx.rng.randint(1, 3)):
                t += "SOLUTION %d\n Na %d\n Cl %d\nDUMP\n -solution %d\n%sEND\n" % (b + 1, c + 1, b + 1, b + 1, " -append true\n" if ctx.rng.random() < 0.6 else "")
            texts.append(t)
            ops.append(["c", "RunString", 0, t])
            ops.append(["obs", 0])
            ops.append(["file", "d.txt"])
            marks.append(len(ops) - 2)
        with vlib.scratch("c09d") as d:
            res, rc, err = wrap.run_script(wexe, ops, d, timeout=120)
        ctx.case("dump:" + vlib.key_of(texts), sample={"dump scenario": texts} if k == 0 else None)
        if rc != 0 or any(r is None for r in res):
            ctx.violation("dump:driver", "driver died in a dump scenario: %s" % err[-200:], {"kind": "history", "calls": texts})
            continue
        for ci, m in enumerate(marks):
            ds, df = res[m]["dump"], res[m + 1]
            if not df["exists"] or df["content"] != ds:
                ctx.violation("dump_file_vs_string:" + vlib.key_of(texts), "call %d: dump file and dump string are both on since the instance was created but differ (file %d bytes, string %d bytes)" % (ci, len(df["content"]), len(ds)),
                              {"kind": "history", "calls": texts, "observed": {"file": df["content"][:300], "string": ds[:300]}})
                break
            ls = res[m]["nlines"]["dump"]
            if ls != len(lines_of(ds)):
                ctx.violation("dump_lines:" + vlib.key_of(texts), "call %d: GetDumpStringLineCount = %d but the dump string has %d lines" % (ci, ls, len(lines_of(ds))), {"kind": "history", "calls": texts})
                break


def run(ctx):
    vlib.coq_stage(ctx, "Props/Properties_C09.vo")
    wexe = wrap.build_wdrive()
    mexe = wrap.build_model_driver()
    ctx.rule = ("instances driven through 1..3 Run* calls (RunString/RunFile/AccumulateLine+RunAccumulated) with random settings of the 8 stream switches, per-user-number "
                "selected-output switches, ErrorOn, default/custom file names, inputs with warnings, errors, DUMP / DUMP -append, KNOBS -logfile; every call's recorded event stream is fed to the "
                "extracted routing model and compared with strings, files on disk and line accessors; plus all-off vs all-on switch runs compared to 1e-6. non-trivial = call whose comparison completed; distinct by content")
    if ctx.replay:
        rp = json.load(open(ctx.replay))
        if "case" in rp:
            case = rp["case"]
            for c in case["calls"]:
                c["sel"] = {int(k): v for k, v in c["sel"].items()}
            problems = []
            check_case(case, *run_case(case, wexe), mexe, problems)
            ctx.case("replay", sample=str(case)[:300])
            if problems:
                ctx.violation(rp["key"], problems[0][1], rp)
        return
    ncases = ctx.n(80, 1500)
    cases = [gen_case(ctx.rng) for _ in range(ncases)]
    with cf.ThreadPoolExecutor(max_workers=vlib.NCPU) as ex:
        results = list(ex.map(lambda c: run_case(c, wexe), cases))
    dist = {"calls": 0, "entry": {}, "switch_sets": set()}
    seen = set()
    for ci, (case, out) in enumerate(zip(cases, results)):
        problems = []
        done = check_case(case, *out, mexe, problems)
        for call in case["calls"]:
            dist["calls"] += 1
            dist["entry"][call["entry"]] = dist["entry"].get(call["entry"], 0) + 1
            dist["switch_sets"].add(tuple(call["sw"][s] for s in STREAMS))
        ctx.case("c09:" + vlib.key_of(case), nontrivial=done > 0,
                 sample={"calls": [{"switches": c["sw"], "sel": {str(k): v for k, v in c["sel"].items()}, "entry": c["entry"], "input": c["input"][:200]} for c in case["calls"]]} if ci == 0 else None)
        for key, what, kw in problems:
            stable = key if key.startswith(("F1:", "F8:", "F9:", "F10:")) else key + ":" + vlib.key_of(case)
            if stable in seen:
                continue
            seen.add(stable)
            ctx.violation(stable, what, dict({"kind": "history", "case": case, "database": case["db"]}, **kw))
    dist["switch_sets"] = len(dist["switch_sets"])
    ctx.extra["input_distribution"] = dist
    switch_independence(ctx, ctx.n(25, 400))
    dump_scenarios(ctx, wexe, ctx.n(12, 200))
    ctx.trusted += ["extraction: ExtrOcamlBasic + ExtrOcamlString only; OCaml driver ocaml/wrapper_driver.ml", "Spy subclass records the engine->PHRQ_io calls faithfully",
                    "dump stream: compared file vs string on the implementation only (not in the routing model)"]
    ctx.notes += ["hypothesis of C09_file_eq_string_selected (punch stream open iff file switch on; no re-opening after content) is checked on every recorded stream; a re-opening is the recorded finding F8"]
