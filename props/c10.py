"""C10 -- captured reaction state can be re-instated without changing behaviour.

Stages (see notes/C10.md):
  1. T-gen: translator/c10_schema.py regenerates coq/Gen/Gen_C10_schemas.v from the current dump_raw / read_raw /
     Serialize / Deserialize sources; Props/Properties_C10.vo is rebuilt (generic round-trip theorem + schema_ok of every
     generated class by vm_compute).
  2. Static report: Coq computes the list of writer items that are not restored faithfully (`all_defects`); each one is a
     keyed finding `schema:<class>:<item>`.
  3. T-corr on the implementation: shipped examples and generated reactant sets are run, DUMP -all is captured, re-read
     (same instance after DELETE -all, and a fresh instance with the same definitions), dumped again (fixed point after
     at most one cycle, no errors), follow-up RUN_CELLS on original vs restored state compared to 1e-7 relative; the
     SOLUTION_MODIFY path (totals, total_h, total_o, cb only); the Coq model reader is run on the real dump text and its
     verdict compared with the implementation's.
"""
import os, sys, re, json, math, difflib, hashlib
import vlib

HERE = os.path.dirname(os.path.abspath(__file__))
sys.path.insert(0, os.path.join(vlib.VERIF, "translator"))
GEN = os.path.join(vlib.COQ, "Gen", "Gen_C10_schemas.v")
EXDIR = os.path.join(vlib.REPO, "phreeqc3-examples")
TOL = 1e-7
_SCHEMAS = {}


# ----------------------------------------------------------------------------- T-gen
def gen():
    import c10_schema
    sc = c10_schema.extract_all(vlib.REPO)
    _SCHEMAS["all"] = sc
    vlib.write_if_changed(GEN, c10_schema.to_coq(sc, vlib.REPO))


def schemas():
    if "all" not in _SCHEMAS:
        import c10_schema
        _SCHEMAS["all"] = c10_schema.extract_all(vlib.REPO)
    return _SCHEMAS["all"]


REPORT_V = """From Coq Require Import String List.
Require Import IPV.C10.Raw IPV.C10.RawSpec IPV.C10.RawLevels IPV.C10.Serial IPV.C10.Copy IPV.C10.Known IPV.Gen.Gen_C10_schemas.
Eval vm_compute in (all_defects schemas_level0 schemas_level1 schemas_level2 ++ copy_defects all_schemas all_serial
                    ++ filter (fun d => negb (existsb (str3_eqb d) known_dump_defects)) (dump_defects key_members all_schemas all_serial))%list.
Eval vm_compute in (classes_not_ok schemas_level0 schemas_level1 schemas_level2).
Eval vm_compute in (map (fun p => (fst (fst p), serial_ok p)) all_serial).
Eval vm_compute in (names_ok schemas_level0 schemas_level1).
"""


def static_report():
    """Coq's own verdict on the regenerated schemas: ([(class,item,why)], [class not ok], [class with Serialize/Deserialize mismatch])"""
    for t in ("Gen/Gen_C10_schemas.vo", "C10/RawLevels.vo", "C10/Serial.vo", "C10/Copy.vo", "C10/Known.vo"):
        if not os.path.exists(os.path.join(vlib.COQ, t)):
            return None
    rc, out = vlib.coq_eval(REPORT_V, timeout=300)
    if rc != 0:
        return None
    blocks = re.split(r"\n\s*=\s", "\n" + out)
    blocks = [b for b in blocks if b.strip()]
    if len(blocks) < 4:
        return None
    defects = re.findall(r'\("([^"]*)",\s*"([^"]*)",\s*"([^"]*)"\)', blocks[0])
    notok = re.findall(r'"([^"]*)"', blocks[1].split(":")[0])
    serial_bad = [c for c, v in re.findall(r'\("([^"]*)",\s*(true|false)\)', blocks[2]) if v == "false"]
    names_ok = "true" in blocks[3].split(":")[0]
    return defects, notok, serial_bad, names_ok


# ----------------------------------------------------------------------------- inputs
def example_table():
    """(example name, database path) from the repo's own test list"""
    tab = {}
    cm = os.path.join(EXDIR, "CMakeLists.txt")
    if os.path.exists(cm):
        for m in re.finditer(r"\.\./examples/(\w+)\s+\S+\s+(\S+\.dat)", open(cm, errors="replace").read()):
            ex, db = m.group(1), m.group(2)
            dbp = os.path.join(vlib.DB, os.path.basename(db)) if "database" in db else os.path.join(EXDIR, os.path.basename(db))
            tab[ex] = dbp
    return tab


def example_text(name):
    t = open(os.path.join(EXDIR, name), errors="replace").read()
    t = re.sub(r"(?m)^(\s*INCLUDE\$\s+)(\S+)", lambda m: m.group(1) + (m.group(2) if os.path.isabs(m.group(2)) else os.path.join(EXDIR, m.group(2))), t)
    t = re.sub(r"(?mi)^\s*DATABASE\s+.*$", "", t)
    return t


QUICK_EXAMPLES = ["ex1", "ex2", "ex2b", "ex3", "ex4", "ex5", "ex6", "ex7", "ex8", "ex9", "ex10", "ex11", "ex13a",
                  "ex14", "ex16", "ex17", "ex18", "ex19", "ex22"]
THOROUGH_EXAMPLES = QUICK_EXAMPLES + ["ex12", "ex12a", "ex13b", "ex13c", "ex15", "ex17b", "ex19b", "ex20a"]

RATES = """RATES
Calcite_k
 -start
 10 si_cc = SI("Calcite")
 20 if (M <= 0 and si_cc < 0) then goto 100
 30 rate = PARM(1) * (1 - 10^si_cc)
 40 moles = rate * TIME
 50 if (moles > M) then moles = M
 100 SAVE moles
 -end
Decay
 -start
 10 moles = PARM(1) * M * TIME
 20 if (moles > M) then moles = M
 30 SAVE moles
 -end
"""


CDMUSIC = """SURFACE_MASTER_SPECIES
 Goe_uni Goe_uniOH-0.5
 Goe_tri Goe_triO-0.5
SURFACE_SPECIES
 Goe_triO-0.5 = Goe_triO-0.5
  -cd_music 0 0 0 0 0
  log_k 0
 Goe_triO-0.5 + H+ = Goe_triOH+0.5
  -cd_music 1 0 0 0 0
  log_k 9.20
 Goe_triO-0.5 + Na+ = Goe_triONa+0.5
  -cd_music 0 1 0 0 0
  log_k -0.60
 Goe_triOH+0.5 + Cl- = Goe_triOHCl-0.5
  -cd_music 0 -1 0 0 0
  log_k -0.45
 Goe_uniOH-0.5 = Goe_uniOH-0.5
  -cd_music 0 0 0 0 0
  log_k 0
 Goe_uniOH-0.5 + H+ = Goe_uniOH2+0.5
  -cd_music 1 0 0 0 0
  log_k 9.20
 Goe_uniOH-0.5 + Na+ = Goe_uniOHNa+0.5
  -cd_music 0 1 0 0 0
  log_k -0.60
 Goe_uniOH2+0.5 + Cl- = Goe_uniOH2Cl-0.5
  -cd_music 0 -1 0 0 0
  log_k -0.45
"""
DEFS = RATES + CDMUSIC


# minimised past failures, run first in every tier (found by seed 6, case 39)
CORPUS_F = """SOLUTION 1 fluoride next to iron
 pH 7
 pe 4
 units mmol/kgw
 Na 10
 Cl 10 charge
 F 0.5
 Fe 0.01
 N(5) 0.2
 C(4) 1
END
"""
CORPUS_V = """SOLUTION 1 case 33
 temp 60
 pH 7.60789
 units mmol/kgw
 Na 172.33
 Cl 172.33 charge
 Ca 14.1999
 C(4) 8.92529
 S(6) 2.44458
 Sr 0.778462
 -water 1.80856
SOLUTION 2 case 33
 temp 40
 pH 7.97571
 pe 2.27326
 units mmol/kgw
 Na 159.384
 Cl 159.384 charge
 Ca 3.19625
 C(4) 8.70447
 Mg 9.42808
 K 2.23526
 Fe(2) 0.0424088
SOLUTION 3 case 33
 temp 10
 pH 7.01096
 pe 2.23918
 units mmol/kgw
 Na 70.6557
 Cl 70.6557 charge
 Ca 16.0122
 K 3.24503
 N(-3) 0.354025
EXCHANGE 1
 X 0.218341
 -equilibrate 1
SURFACE 1
 Goe_uniOH-0.5 1.44255 91.6075 1.25782
 Goe_triO-0.5 2.13631
 -capacitance 0.861479 0.783949
 -cd_music
 -equilibrate 1
EQUILIBRIUM_PHASES 1
 Gypsum 0.2 10
 CO2(g) -3.29694 10
GAS_PHASE 1
 -fixed_pressure
 -pressure 4.38274
 -volume 2.55408
 -temperature 25
 CO2(g) 0.0416044
 N2(g) 0.32193
SOLID_SOLUTIONS 1
 CaSrCO3
  -comp Aragonite 0
  -comp Strontianite 0.01
  -Gugg_nondim 3.43 -1.82
KINETICS 1
 Calcite_k
  -formula CaCO3 1
  -m0 0.0557145
  -parms 7.87035e-07
  -tol 1e-9
 -steps 1000 10 100 100 100 100 10
EQUILIBRIUM_PHASES 2
 Calcite 0 10
 Anhydrite 0 0
KINETICS 2
 Calcite_k
  -formula CaCO3 1
  -m0 0.0627045
  -parms 9.85912e-08
  -tol 1e-9
 Decay
  -formula NaCl 1
  -m0 0.000711582
  -parms 3.23526e-05 0.461807
 -steps 10
 -cvode true
EXCHANGE 3
 X 0.185005
 -equilibrate 3
GAS_PHASE 3
 -fixed_volume
 -volume 4.38826
 -temperature 40
 CO2(g) 0.0580369
 N2(g) 0.44749
KINETICS 3
 Calcite_k
  -formula CaCO3 1
  -m0 0.0386173
  -parms 2.67343e-07
  -tol 1e-9
 Decay
  -formula NaCl 1
  -m0 0.000859517
  -parms 4.09559e-05 0.402363
 -steps 1000 100 1000 100 1000 100 100
 -runge_kutta 1
REACTION_PRESSURE 9
 1 20 in 3 steps
END
RUN_CELLS
 -cells 1 2 3
 -time_step 10
END
"""
CORPUS_L = """SOLUTION 1 long formulas in name/value lists
 pH 7
 units mmol/kgw
 Na 10
 Cl 10 charge
 Ca 1
 C(4) 1
KINETICS 1
 Decay
  -formula Ca0.165Al2.33Si3.67O10(OH)2 1
  -m0 0.001
  -parms 1e-5 0.5
 -steps 10
REACTION 1
 K0.6Mg0.25Al2.3Si3.5O10(OH)2 1
 Ca0.165Al2.33Si3.67O10(OH)2 0.5
 0.01 mmol
END
RUN_CELLS
 -cells 1
 -time_step 10
END
"""
CORPUS = [("corpus:fluoride-iron", CORPUS_F), ("corpus:long-names", CORPUS_L), ("corpus:stale-v_m", CORPUS_V), ("corpus:model-reuse", """SOLUTION 1 case 39
 temp 10
 pH 8.79106
 pe -0.249658
 units mmol/kgw
 Na 280.676
 Cl 280.676 charge
 Ca 6.06407
 C(4) 5.5675
 Mg 7.5954
 S(6) 3.83491
 K 3.01278
 Fe(2) 0.0964831
EXCHANGE 1
 X 0.161199
 -pitzer_exchange_gammas true
 -equilibrate 1
SURFACE 1
 Hfo_w 0.00399177 654.284 1.05594
 Hfo_s 6.55419e-06
 -donnan 1e-08
 -equilibrate 1
EQUILIBRIUM_PHASES 1
 Calcite 0 0
 CO2(g) -2.82261 10
GAS_PHASE 1
 -fixed_volume
 -volume 4.31224
 -temperature 40
 CO2(g) 0.0862822
 N2(g) 0.128593
 CH4(g) 0.0056422
REACTION 1
 NaCl 1.40456
 4.02684 mmol in 4 steps
REACTION_TEMPERATURE 8
 25 60 in 3 steps
END
RUN_CELLS
 -cells 1
 -time_step 1
END
""")]


def fmt(x):
    return "%.6g" % x


def gen_case(rng, k):
    """A structured reactant set touching every entity kind, followed by a reaction history.  Returns
    (defs, body, meta): defs = database additions (RATES ...), body = reactants + history."""
    defs = DEFS
    nsol = rng.choice([1, 2, 2, 3])
    L = []
    S = {}
    meta = {"kinds": set(["solution"]), "iso": False}
    for n in range(1, nsol + 1):
        S[n] = []
        S[n].append("SOLUTION %d case %d" % (n, k))
        S[n].append(" temp %s" % fmt(rng.choice([25, 25, 10, 40, 60])))
        S[n].append(" pH %s" % fmt(rng.uniform(5.5, 9.0)))
        if rng.random() < 0.5:
            S[n].append(" pe %s" % fmt(rng.uniform(-2, 12)))
        S[n].append(" units mmol/kgw")
        na = rng.uniform(0.1, 300)
        S[n].append(" Na %s" % fmt(na))
        S[n].append(" Cl %s charge" % fmt(na))
        if rng.random() < 0.8:
            S[n].append(" Ca %s" % fmt(rng.uniform(0.05, 20)))
        if rng.random() < 0.8:
            S[n].append(" C(4) %s" % fmt(rng.uniform(0.05, 10)))
        if rng.random() < 0.5:
            S[n].append(" Mg %s" % fmt(rng.uniform(0.05, 10)))
        if rng.random() < 0.5:
            S[n].append(" S(6) %s" % fmt(rng.uniform(0.05, 10)))
        if rng.random() < 0.4:
            S[n].append(" K %s" % fmt(rng.uniform(0.05, 5)))
        if rng.random() < 0.3:
            S[n].append(" Sr %s" % fmt(rng.uniform(0.01, 1)))
        if rng.random() < 0.25:
            S[n].append(" Fe(2) %s" % fmt(rng.uniform(0.001, 0.1)))
        if rng.random() < 0.25:
            S[n].append(" Zn %s" % fmt(rng.uniform(0.0001, 0.01)))
        # redox-active elements at moderate pe: several valence states are listed in the dump (Fe(2)/Fe(3), N(-3)/N(0)/N(3)/N(5),
        # Mn(2)/Mn(3)), which is what the element-named SOLUTION_MODIFY path and merge_redox need
        if rng.random() < 0.35:
            S[n].append(" N(5) %s" % fmt(rng.uniform(0.01, 2)))
        if rng.random() < 0.2:
            S[n].append(" N(-3) %s" % fmt(rng.uniform(0.01, 1)))
        if rng.random() < 0.2:
            S[n].append(" Mn %s" % fmt(rng.uniform(0.001, 0.05)))
        if rng.random() < 0.15:
            S[n].append(" F %s" % fmt(rng.uniform(0.01, 0.5)))
        if rng.random() < 0.2:
            S[n].append(" -water %s" % fmt(rng.uniform(0.2, 3)))
        if k % 9 == 4 and n == 1:
            meta["iso"] = True
            S[n].append(" -isotope 13C %s 1.0" % fmt(rng.uniform(-20, 0)))
            S[n].append(" -isotope 34S %s" % fmt(rng.uniform(0, 20)))
    for n in range(1, nsol + 1):
        has_ss = rng.random() < 0.35
        if rng.random() < 0.55:
            meta["kinds"].add("exchange")
            L.append("EXCHANGE %d" % n)
            L.append(" X %s" % fmt(rng.uniform(0.001, 0.5)))
            if rng.random() < 0.3:
                L.append(" -pitzer_exchange_gammas %s" % rng.choice(["true", "false"]))
            L.append(" -equilibrate %d" % n)
        if rng.random() < 0.55:
            meta["kinds"].add("surface")
            L.append("SURFACE %d" % n)
            mode = rng.choice(["ddl", "no_edl", "diffuse", "donnan", "ddl", "cd"])
            if mode == "cd":
                L.append(" Goe_uniOH-0.5 %s %s %s" % (fmt(rng.uniform(1, 4)), fmt(rng.uniform(50, 120)), fmt(rng.uniform(0.1, 2))))
                if rng.random() < 0.7:
                    L.append(" Goe_triO-0.5 %s" % fmt(rng.uniform(1, 3)))
                L.append(" -capacitance %s %s" % (fmt(rng.uniform(0.8, 1.2)), fmt(rng.uniform(0.6, 0.9))))
                L.append(" -cd_music")
            else:
                L.append(" Hfo_w %s %s %s" % (fmt(rng.uniform(1e-4, 5e-3)), fmt(rng.uniform(100, 700)), fmt(rng.uniform(0.05, 2))))
                if rng.random() < 0.6:
                    L.append(" Hfo_s %s" % fmt(rng.uniform(1e-6, 1e-4)))
            if mode == "no_edl":
                L.append(" -no_edl")
            elif mode == "diffuse":
                L.append(" -diffuse_layer %s" % fmt(rng.choice([1e-8, 5e-9])))
            elif mode == "donnan":
                L.append(" -donnan %s" % fmt(rng.choice([1e-8, 2e-9])))
            meta["kinds"].add("surface:" + mode)
            L.append(" -equilibrate %d" % n)
        if rng.random() < 0.6:
            meta["kinds"].add("pp")
            L.append("EQUILIBRIUM_PHASES %d" % n)
            for ph, pr in (("Calcite", 0.8), ("Dolomite", 0.3), ("Gypsum", 0.4), ("Quartz", 0.2)):
                if has_ss and ph in ("Calcite", "Dolomite"):
                    continue        # (a CaCO3 polymorph as pure phase next to the aragonite solid solution does not converge)
                if rng.random() < pr:
                    L.append(" %s %s %s%s" % (ph, fmt(rng.choice([0, 0, 0.2, -0.3])), fmt(rng.choice([0, 0.001, 0.1, 10])),
                                              rng.choice(["", "", " dissolve_only", " precipitate_only"]) if rng.random() < 0.3 else ""))
            if rng.random() < 0.4:
                L.append(" CO2(g) %s 10" % fmt(rng.uniform(-3.5, -1)))
            if rng.random() < 0.15:
                L.append(" Fix_dummy 0 0" if False else " Anhydrite 0 0")
        if rng.random() < 0.45:
            meta["kinds"].add("gas")
            L.append("GAS_PHASE %d" % n)
            if rng.random() < 0.5:
                L.append(" -fixed_pressure")
                L.append(" -pressure %s" % fmt(rng.uniform(0.5, 5)))
                L.append(" -volume %s" % fmt(rng.uniform(0.1, 5)))
            else:
                L.append(" -fixed_volume")
                L.append(" -volume %s" % fmt(rng.uniform(0.1, 5)))
            L.append(" -temperature %s" % fmt(rng.choice([25, 40])))
            L.append(" CO2(g) %s" % fmt(rng.uniform(0.0003, 0.1)))
            if rng.random() < 0.7:
                L.append(" N2(g) %s" % fmt(rng.uniform(0.1, 0.8)))
            if rng.random() < 0.3:
                L.append(" CH4(g) %s" % fmt(rng.uniform(0.0, 0.01)))
        if has_ss:
            meta["kinds"].add("ss")
            if not any(x.startswith(" Sr ") for x in S[n]):
                S[n].append(" Sr %s" % fmt(rng.uniform(0.01, 1)))      # (without Sr the solid solution does not converge)
            L.append("SOLID_SOLUTIONS %d" % n)
            L.append(" CaSrCO3")
            L.append("  -comp Aragonite %s" % fmt(rng.choice([0, 0.001, 0.05])))
            L.append("  -comp Strontianite %s" % fmt(rng.choice([0, 0.0001, 0.01])))
            if rng.random() < 0.4:
                L.append("  -Gugg_nondim 3.43 -1.82")
        if rng.random() < 0.45:
            meta["kinds"].add("kinetics")
            L.append("KINETICS %d" % n)
            L.append(" Calcite_k")
            L.append("  -formula CaCO3 1")
            L.append("  -m0 %s" % fmt(rng.uniform(0.001, 0.1)))
            L.append("  -parms %s" % fmt(rng.uniform(1e-8, 1e-6)))
            L.append("  -tol 1e-9")
            if rng.random() < 0.4:
                L.append(" Decay")
                # (long mineral formulas: the name/value rows of the dump then take the long-name branch of cxxNameDouble::dump_raw)
                L.append("  -formula %s 1" % rng.choice(["NaCl", "NaCl", "Ca0.165Al2.33Si3.67O10(OH)2", "K0.6Mg0.25Al2.3Si3.5O10(OH)2"]))
                L.append("  -m0 %s" % fmt(rng.uniform(0.0001, 0.001)))
                L.append("  -parms %s %s" % (fmt(rng.uniform(1e-6, 1e-4)), fmt(rng.uniform(0, 1))))
            L.append(" -steps %s" % " ".join(fmt(rng.choice([10, 100, 1000])) for _ in range(rng.choice([1, 2, 7]))))
            if rng.random() < 0.3 and not any(x.startswith("SURFACE %d" % n) for x in L):
                L.append(" -cvode true")        # (with a surface in the same cell CVODE needs minutes)
            if rng.random() < 0.3:
                L.append(" -runge_kutta %d" % rng.choice([1, 2, 3, 6]))
    if rng.random() < 0.5 and nsol >= 2:
        meta["kinds"].add("mix")
        L.append("MIX %d" % rng.choice([5, 6]))
        L.append(" 1 %s" % fmt(rng.uniform(0.1, 0.9)))
        L.append(" 2 %s" % fmt(rng.uniform(0.1, 0.9)))
    if rng.random() < 0.6:
        meta["kinds"].add("reaction")
        L.append("REACTION %d" % rng.choice([1, 7]))
        L.append(" NaCl %s" % fmt(rng.uniform(0.5, 2)))
        if rng.random() < 0.4:
            L.append(" CaCO3 0.1")
        if rng.random() < 0.3:
            L.append(" %s 0.01" % rng.choice(["Ca0.165Al2.33Si3.67O10(OH)2", "K0.6Mg0.25Al2.3Si3.5O10(OH)2", "Na0.33Al2.33Si3.67O10(OH)2"]))
        if rng.random() < 0.5:
            L.append(" %s mmol in %d steps" % (fmt(rng.uniform(0.1, 5)), rng.choice([1, 2, 4])))
        else:
            L.append(" %s mmol" % " ".join(fmt(rng.uniform(0.1, 2)) for _ in range(rng.choice([1, 3, 8]))))
    if rng.random() < 0.5:
        meta["kinds"].add("temperature")
        L.append("REACTION_TEMPERATURE %d" % rng.choice([1, 8]))
        L.append(" 25 60 in 3 steps" if rng.random() < 0.5 else " " + " ".join(fmt(rng.uniform(15, 70)) for _ in range(rng.choice([1, 2, 7]))))
    if rng.random() < 0.4:
        meta["kinds"].add("pressure")
        L.append("REACTION_PRESSURE %d" % rng.choice([1, 9]))
        L.append(" 1 20 in 3 steps" if rng.random() < 0.5 else " " + " ".join(fmt(rng.uniform(1, 50)) for _ in range(rng.choice([1, 2, 7]))))
    L.append("END")
    # history: react every cell once and save the results back, sometimes a batch reaction on top
    L.append("RUN_CELLS")
    L.append(" -cells %s" % " ".join(str(n) for n in range(1, nsol + 1)))
    L.append(" -time_step %s" % fmt(rng.choice([1, 10, 100])))
    L.append("END")
    if rng.random() < 0.4:
        L.append("USE solution 1")
        if "reaction" in meta["kinds"] and rng.random() < 0.5:
            L.append("REACTION 3\n NaCl 1\n 0.001 moles")
        L.append("SAVE solution %d" % rng.choice([1, 4]))
        L.append("END")
    meta["kinds"] = sorted(meta["kinds"])
    meta["nsol"] = nsol
    L = [x for n in sorted(S) for x in S[n]] + L
    return defs, "\n".join(L) + "\n", meta


# ----------------------------------------------------------------------------- dump text
HEAD_RE = re.compile(r"^(\w+_RAW)\s+(-?\d+)\s*(.*)$")
KW_CLASS = {}


def split_entities(dump):
    """[(keyword, number, [lines])] of a DUMP text"""
    ents = []
    cur = None
    for ln in dump.split("\n"):
        m = HEAD_RE.match(ln)
        if m:
            cur = (m.group(1), int(m.group(2)), [])
            ents.append(cur)
        elif ln[:1] not in (" ", "\t", ""):
            cur = None                      # a keyword line (USE ... none) ends the entity
        elif cur is not None and ln.strip() and not ln.strip().startswith("#"):
            cur[2].append(ln)
    return ents


def dump_elements(dump):
    els = []
    phases, gases, kin, ss = [], [], [], []
    for kw, n, lines in split_entities(dump):
        mode = None
        for ln in lines:
            s = ln.strip()
            if s.startswith("-"):
                o = s[1:].split()
                mode = o[0] if o else None
                if kw == "EQUILIBRIUM_PHASES_RAW" and mode == "component" and len(o) > 1 and o[1] not in phases:
                    phases.append(o[1])
                if kw == "GAS_PHASE_RAW" and mode == "component" and len(o) > 1 and o[1] not in gases:
                    gases.append(o[1])
                if kw == "KINETICS_RAW" and mode == "component" and len(o) > 1 and o[1] not in kin:
                    kin.append(o[1])
                if kw == "SOLID_SOLUTIONS_RAW" and mode == "component" and len(o) > 1 and o[1] not in ss:
                    ss.append(o[1])
                continue
            if kw == "SOLUTION_RAW" and mode == "totals":
                e = s.split()[0].split("(")[0]
                if e not in els and re.match(r"[A-Z][a-z]?$", e):
                    els.append(e)
    return els, phases, gases, kin, ss


def followup(dump, cells=None, user=97):
    els, phases, gases, kin, ss = dump_elements(dump)
    sols = [n for kw, n, _ in split_entities(dump) if kw == "SOLUTION_RAW" and n >= 0]
    if cells is None:
        cells = sols
        if len(cells) > 8:
            step = len(cells) / 8.0
            cells = [cells[int(i * step)] for i in range(8)]
    L = ["PRINT", " -selected_output true", "SELECTED_OUTPUT %d" % user, " -reset false", " -high_precision true",
         " -solution true", " -ph true", " -temperature true", " -alkalinity true", " -ionic_strength true",
         " -water true", " -charge_balance true"]
    if els:
        L.append(" -totals " + " ".join(els))
    if phases:
        L.append(" -equilibrium_phases " + " ".join(phases))
    if gases:
        L.append(" -gases " + " ".join(gases))
    if kin:
        L.append(" -kinetic_reactants " + " ".join(kin))
    if ss:
        L.append(" -solid_solutions " + " ".join(ss))
    L += ["RUN_CELLS", " -cells " + " ".join(str(c) for c in cells), " -time_step 50", "END"]
    return "\n".join(L) + "\n", cells


DOMAIN = 1e-9      # quantities below 1e-9 mol (molal) are outside the property's stated domain (redox traces, solver noise)


def close(a, b, tol=TOL, floor=0.0):
    if a is None or b is None:
        return a is b or a == b
    if isinstance(a, float) or isinstance(b, float):
        try:
            a = float(a)
            b = float(b)
        except Exception:
            return False
        if math.isnan(a) or math.isnan(b):
            return math.isnan(a) and math.isnan(b)
        if floor == 0.0 and max(abs(a), abs(b)) < DOMAIN:
            return True
        return abs(a - b) <= tol * max(abs(a), abs(b)) + floor
    return a == b


def noise_table(ta, tb):
    """{(row, column): |a-b|} between the original instance and its exact in-memory copy (None when unavailable)"""
    if not ta or not tb or len(ta) != len(tb):
        return None
    out = {}
    for i, (ra, rb) in enumerate(zip(ta, tb)):
        for h in ra:
            if isinstance(ra[h], float) and isinstance(rb.get(h), float):
                out[(i, h)] = abs(ra[h] - rb[h])
    return out


def rel_noise(ta, tb):
    m = 0.0
    for ra, rb in zip(ta, tb):
        for h in ra:
            a, b = ra[h], rb.get(h)
            if isinstance(a, float) and isinstance(b, float) and max(abs(a), abs(b)) >= DOMAIN and not str(h).startswith(("d_", "dk_")) \
                    and h not in ("charge(eq)", "Alk(eq/kgw)"):
                m = max(m, abs(a - b) / max(abs(a), abs(b)))
    return m


def kinetics_floor(d1):
    """{cell number: sum of the -tol (mol) of its kinetic reactants}: the error control of the rate integrator; results of a cell
    with KINETICS are only defined up to it (a start state differing in the 15th digit takes other step sizes)"""
    out = {}
    for kw, n, lines in split_entities(d1):
        if kw == "KINETICS_RAW":
            t = 0.0
            for ln in lines:
                sp = ln.split()
                if len(sp) == 2 and sp[0] == "-tol" and NUM_RE.match(sp[1]):
                    t += float(sp[1])
            out[n] = t
    return out


def first_diff(ta, tb, tol=TOL, noise=None, floors=None):
    """(row, column, a, b) of the first out-of-tolerance cell, or a string for structural differences, or None"""
    if len(ta) != len(tb):
        return "row count %d vs %d" % (len(ta), len(tb))
    for i, (ra, rb) in enumerate(zip(ta, tb)):
        if list(ra.keys()) != list(rb.keys()):
            return "headings differ in row %d" % i
        mu = ra.get("mu")
        for h in ra:
            if isinstance(h, str) and h.startswith(("d_", "dk_")):
                continue
            fl = 3.0 * noise.get((i, h), 0.0) if noise else 0.0
            if floors:
                fl += floors.get(ra.get("soln"), 0.0)
            if h in ("charge(eq)", "Alk(eq/kgw)") and isinstance(mu, float) and isinstance(ra[h], float) and isinstance(rb[h], float):
                # sums with cancellation: relative to the ionic strength (the size of the terms), not to the remainder
                if abs(ra[h] - rb[h]) <= tol * max(abs(ra[h]), abs(rb[h]), abs(mu)) + fl:
                    continue
                return (i, h, ra[h], rb[h])
            if isinstance(ra[h], float) and isinstance(rb[h], float) and fl > 0.0:
                if max(abs(ra[h]), abs(rb[h])) < DOMAIN or abs(ra[h] - rb[h]) <= tol * max(abs(ra[h]), abs(rb[h])) + fl:
                    continue
                return (i, h, ra[h], rb[h])
            if not close(ra[h], rb[h], tol):
                return (i, h, ra[h], rb[h])
    return None


def perturb(d, nd):
    """the dump / SOLUTION_MODIFY text with -total_h (nd == 13) or -total_o (nd == 12) of every solution increased by 1e-9 mol
    (about 100 resp. 1000 spacings of a 14-significant-digit number of that size), printed with 17 digits"""
    k = "total_h" if nd in (13, 11) else "total_o"
    sg = 1.0 if nd in (13, 12) else -1.0        # both directions: the response is one-sided (excess O oxidises, excess H has nothing to reduce)
    return re.sub(r"(-%s\s+)(\S+)" % k, lambda m: m.group(1) + ("%.17g" % (float(m.group(2)) + sg * PERT) if NUM_RE.match(m.group(2)) else m.group(2)), d)


PERT = 1e-9
H_SPACING, O_SPACING = 1e-11, 1e-12     # spacing of 14-significant-digit decimals near 111 (total_h) and 55.5 (total_o)


def only_column_differs(ta, tb, col):
    if not ta or not tb or len(ta) != len(tb):
        return False
    ta2 = [{k: v for k, v in r.items() if k != col} for r in ta]
    tb2 = [{k: v for k, v in r.items() if k != col} for r in tb]
    return first_diff(ta2, tb2, tol=100 * TOL) is None


def truncate_digits(d, nd, keys=("total_h", "total_o")):
    """the dump text with -total_h / -total_o of every solution printed with nd significant digits"""
    for k in keys:
        d = re.sub(r"(-%s\s+)(\S+)" % k, lambda m: m.group(1) + (("%%.%dg" % nd) % float(m.group(2)) if NUM_RE.match(m.group(2)) else m.group(2)), d)
    return d


def compare_tables(ta, tb):
    """first difference between two selected-output tables (lists of dict rows) or None"""
    if len(ta) != len(tb):
        return "row count %d vs %d" % (len(ta), len(tb))
    for i, (ra, rb) in enumerate(zip(ta, tb)):
        if list(ra.keys()) != list(rb.keys()):
            return "headings differ in row %d" % i
        for h in ra:
            if isinstance(h, str) and h.startswith(("d_", "dk_")):
                continue                # deltas of moles (differences of large numbers): the moles themselves are compared
            if not close(ra[h], rb[h]):
                return "row %d column %s: %r vs %r" % (i, h, ra[h], rb[h])
    return None


NUM_RE = re.compile(r"^[-+]?(\d+\.?\d*|\.\d+)([eE][-+]?\d+)?$")


def text_diff(d1, d2):
    """differing lines of two dump texts as [(entity keyword, option in force, line1, line2, numeric_only_last_digits)]"""
    a, b = d1.split("\n"), d2.split("\n")
    out = []
    if len(a) != len(b):
        sm = difflib.SequenceMatcher(a=a, b=b, autojunk=False)
        for tag, i1, i2, j1, j2 in sm.get_opcodes():
            if tag != "equal":
                # entity keyword and option in force where the texts part, plus the name of the first lost / extra row
                kw, opt = "?", "?"
                for x in a[:i1 + 1] if i1 < len(a) else a:
                    m = HEAD_RE.match(x)
                    if m:
                        kw = m.group(1)
                    st = x.strip()
                    if st.startswith("-") and len(st) > 1 and st[1].isalpha():
                        opt = st[1:].split()[0]
                row = (a[i1:i2] or b[j1:j2] or [""])[0].split()
                if row and not row[0].startswith("-"):
                    opt = opt + ":" + row[0]
                out.append((kw, opt, "\n".join(a[i1:i2])[:200], "\n".join(b[j1:j2])[:200], False))
                if len(out) > 5:
                    break
        return out
    kw, opt = "?", "?"
    for x, y in zip(a, b):
        m = HEAD_RE.match(x)
        if m:
            kw = m.group(1)
        s = x.strip()
        if s.startswith("-") and len(s) > 1 and s[1].isalpha():
            opt = s[1:].split()[0]
        if x != y:
            tx, ty = x.split(), y.split()
            tiny = len(tx) == len(ty) and all(
                p == q or (NUM_RE.match(p) and NUM_RE.match(q) and close(float(p), float(q), 1e-12, 1e-300)) for p, q in zip(tx, ty))
            out.append((kw, opt, x, y, tiny))
    return out


def nonconvergence(err):
    e = err or ""
    return ("has not converged" in e) or ("Numerical method failed" in e) or ("Maximum iterations" in e)


def err_signature(err):
    for ln in (err or "").split("\n"):
        if ln.startswith("ERROR:"):
            s = re.sub(r"[-+]?\d[\d.eE+-]*", "#", ln[6:].strip())
            return s[:80]
    return "error"


# ----------------------------------------------------------------------------- model reader on real dump text
def lex_kind(tok):
    if tok in ("0", "1"):
        return "KBool"
    if re.match(r"[-+]?\d+$", tok):
        return "KInt"
    if NUM_RE.match(tok) or tok.lower() in ("nan", "inf", "-inf", "-nan"):
        return "KNum"
    return "KStr"


def coq_str(s):
    return '"' + s.replace('"', '""') + '"'


def coq_line(ln):
    toks = ln.split("#")[0].split()
    if toks and toks[0].startswith("-") and len(toks[0]) > 1 and (toks[0][1].isalpha()):
        name = toks[0][1:]
        rest = toks[1:]
        return "LOpt %s [%s]" % (coq_str(name), "; ".join("Tok %s %s" % (lex_kind(t), coq_str(t)) for t in rest))
    return "LData [%s]" % "; ".join("Tok %s %s" % (lex_kind(t), coq_str(t)) for t in toks)


MODEL_V_HEAD = """From Coq Require Import String List.
Require Import IPV.C10.Raw IPV.C10.RawSpec IPV.C10.RawLevels IPV.Gen.Gen_C10_schemas.
Import ListNotations.
Open Scope string_scope.
Definition L0 := schemas_level0. Definition L1 := schemas_level1. Definition L2 := schemas_level2.
Definition verdict {A} (r : result (list A * list line)) : nat * nat * nat :=
  match r with Ok (evs, rest) => (0, length evs, length rest) | Err _ => (1, 0, 0) | OutOfFuel => (2, 0, 0) end.
Definition run (cls : string) (ls : list line) : nat * nat * nat :=
  match lookup_schema cls L0 with
  | Some s => verdict (read0 s ls)
  | None => match lookup_schema cls L1 with
            | Some s => verdict (read1 L0 s ls)
            | None => match lookup_schema cls L2 with
                      | Some s => verdict (read2 L0 L1 s ls)
                      | None => (3, 0, 0)
                      end
            end
  end.
"""


def model_read(entities, kw2cls, shards=5):
    """entities: [(keyword, n, lines)] -> list of (status, n_events, n_rest) computed by the Coq model reader"""
    if shards > 1 and len(entities) > 40:
        import concurrent.futures as cf
        # balance by number of lines
        order = sorted(range(len(entities)), key=lambda i: -len(entities[i][2]))
        bins = [[] for _ in range(shards)]
        load = [0] * shards
        for i in order:
            b = load.index(min(load))
            bins[b].append(i)
            load[b] += len(entities[i][2]) + 5
        out = [None] * len(entities)
        with cf.ThreadPoolExecutor(max_workers=shards) as ex:
            futs = [(b, ex.submit(model_read, [entities[i] for i in b], kw2cls, 1)) for b in bins if b]
            for b, f in futs:
                res, msg = f.result()
                if res is None:
                    return None, msg
                for i, r in zip(b, res):
                    out[i] = r
        return out, ""
    L = [MODEL_V_HEAD]
    for i, (kw, n, lines) in enumerate(entities):
        cls = kw2cls.get(kw)
        L.append("Definition e%d : list line := [%s]." % (i, ";\n ".join(coq_line(l) for l in lines)))
        L.append("Eval vm_compute in (run %s e%d)." % (coq_str(cls or "?"), i))
    rc, out = vlib.coq_eval("\n".join(L) + "\n", timeout=600)
    if rc != 0:
        return None, out[-1500:]
    res = [tuple(int(x) for x in m) for m in re.findall(r"=\s*\((\d+),\s*(\d+),\s*(\d+)\)", out)]
    if len(res) != len(entities):
        return None, "model output not understood: " + out[-800:]
    return res, ""


def expected_events(lines):
    """number of stores the reader must make for the lines of one entity (option lines with arguments: one per argument
    consumed is not knowable here; we count value-carrying lines instead and compare monotonic properties only)"""
    return sum(1 for l in lines if len(l.split()) >= 2)


# ----------------------------------------------------------------------------- the correspondence
class Case:
    def __init__(self, cid, db, defs, body, kind, meta=None):
        self.id, self.db, self.defs, self.body, self.kind, self.meta = cid, db, defs, body, kind, meta or {}
        self.text = defs + body


def job(cid, db, text, flags=()):
    return {"id": cid, "db": db, "text": text, "flags": list(flags)}


def run_jobs(jobs, timeout_each=30, workers=6):
    """Like vlib.run_inputs (same driver harness/runsel.cpp, same result dicts) but ONE process per job, so that a run
    that does not return costs exactly its own time limit (vlib's batches share a limit)."""
    import concurrent.futures as cf
    exe = vlib.build_harness("runsel", ["runsel.cpp"])
    res = {}
    if not jobs:
        return res
    with vlib.scratch("c10run") as d:
        def one(k):
            j = jobs[k]
            wd = os.path.join(d, "w%05d" % k)
            os.makedirs(wd)
            inp = os.path.join(wd, "in.pqi")
            open(inp, "w").write(j["text"])
            db = j["db"] if os.path.isabs(j["db"]) else os.path.join(vlib.DB, j["db"])
            jf = os.path.join(wd, "jobs.tsv")
            open(jf, "w").write("%d\t%s\t%s\t%s\n" % (k, db, inp, ",".join(j.get("flags", []))))
            # a job without a result (time limit, crash) is run a second time with four times the limit before it is believed: on a
            # loaded machine a slow run must not be reported as "does not return" (a genuine hang or crash reproduces)
            for attempt, limit in enumerate((timeout_each, 4 * timeout_each)):
                rc, so, se = vlib.sh([exe, jf], cwd=wd, timeout=limit)
                for line in so.split("\n"):
                    if line.startswith("{"):
                        try:
                            return json.loads(line)
                        except Exception:
                            pass
            return {"job": str(k), "timeout": rc == 124, "crash": rc != 124, "rc_proc": rc, "stderr": se[-1500:], "attempts": 2}
        with cf.ThreadPoolExecutor(max_workers=workers) as ex:
            for k, r in enumerate(ex.map(one, range(len(jobs)))):
                res[jobs[k]["id"]] = r
    return res


def run_round_trip(ctx, cases, static_defects, kw2cls, timeout_each=25):
    """returns list of findings: dict(key, what, replay)"""
    findings = []
    stats = {"cases": 0, "skipped_error": 0, "skipped_timeout": 0, "d1_eq_d2": 0, "d1_ne_d2_explained": 0,
             "entities": 0, "lines": 0, "followup_cells": 0, "fresh_instance": 0, "modify": 0, "model_entities": 0}
    workers = 6
    # round A: original + dump
    import time
    t0 = time.time()
    A = run_jobs([job(c.id, c.db, c.text + "\nEND\nDUMP\n -all\nEND\n", ["dump"]) for c in cases], timeout_each, workers)
    vlib.log("[C10] round A: %d jobs %.1fs" % (len(cases), time.time() - t0))
    live = []
    for c in cases:
        r = A.get(c.id) or {}
        if r.get("timeout"):
            stats["skipped_timeout"] += 1
            continue
        if r.get("crash") or r.get("rc") != 0 or not r.get("dump"):
            stats["skipped_error"] += 1        # outside the premises: the history itself ends in ERROR
            continue
        c.d1 = r["dump"]
        live.append(c)
    # round B: re-read into the same instance after DELETE -all, dump again; fresh instance for generated cases;
    # follow-up on original and restored; SOLUTION_MODIFY path
    jobs = []
    for c in live:
        c.follow, c.cells = followup(c.d1)
        jobs.append(job(c.id + "/B", c.db, c.text + "\nEND\nDELETE\n -all\nEND\n" + c.d1 + "\nEND\nDUMP\n -all\nEND\n", ["dump"]))
        jobs.append(job(c.id + "/Fo", c.db, c.text + "\nEND\n" + c.follow))
        jobs.append(job(c.id + "/Fr", c.db, c.text + "\nEND\nDELETE\n -all\nEND\n" + c.d1 + "\nEND\n" + c.follow))
        if c.kind == "gen":
            jobs.append(job(c.id + "/Ff", c.db, c.defs + c.d1 + "\nEND\n" + c.follow))
            jobs.append(job(c.id + "/Bf", c.db, c.defs + c.d1 + "\nEND\nDUMP\n -all\nEND\n", ["dump"]))
        jobs.append(job(c.id + "/X", c.db, c.text + "\nEND\n" + c.d1 + "\nEND\nDUMP\n -all\nEND\n", ["dump"]))    # RAW onto the existing state
        c.mode = modify_element_text(c.d1)
        if c.mode:
            fe, _ = followup(c.d1, [c.mode[1]], 95)
            c.fe95 = fe
            jobs.append(job(c.id + "/Eo", c.db, c.text + "\nEND\n" + fe))
            jobs.append(job(c.id + "/Er", c.db, c.text + "\nEND\n" + c.mode[0] + "END\n" + fe))
            jobs.append(job(c.id + "/Ed", c.db, c.text + "\nEND\n" + c.mode[0] + "END\nDUMP\n -all\nEND\n", ["dump"]))
        mod = modify_text(c.d1)
        c.mod = mod
        if mod:
            pert, restore, cell = mod
            fo, _ = followup(c.d1, [cell], 96)
            jobs.append(job(c.id + "/Mo", c.db, c.text + "\nEND\n" + fo))
            jobs.append(job(c.id + "/Mr", c.db, c.text + "\nEND\n" + pert + "END\n" + restore + "END\n" + fo))
    t0 = time.time()
    B = run_jobs(jobs, timeout_each, workers)
    vlib.log("[C10] round B: %d jobs %.1fs" % (len(jobs), time.time() - t0))
    jobs = []
    for c in live:
        rb = B.get(c.id + "/B") or {}
        c.d2 = rb.get("dump")
        if rb.get("rc") == 0 and c.d2:
            jobs.append(job(c.id + "/C", c.db, c.text + "\nEND\nDELETE\n -all\nEND\n" + c.d2 + "\nEND\nDUMP\n -all\nEND\n", ["dump"]))
    t0 = time.time()
    Cc = run_jobs(jobs, timeout_each, workers)
    vlib.log("[C10] round C: %d jobs %.1fs" % (len(jobs), time.time() - t0))

    t0 = time.time()
    # (only where the follow-up returns on the original state at all)
    binc = [c for c in live if (B.get(c.id + "/Fo") or {}).get("rc") == 0]
    BIN = run_bin(binc, timeout_each, workers)
    vlib.log("[C10] in-memory copies (storage bin, serializer): %d cases %.1fs" % (len(binc), time.time() - t0))

    opt_member = {}
    try:
        for sch in schemas():
            for it in sch["items"]:
                if it["k"] == "lines" and it["args"]:
                    opt_member[(sch["cls"], it["opt"])] = re.sub(r"[\[#.].*", "", it["args"][0][0])
                elif it["k"] in ("block", "subs"):
                    opt_member[(sch["cls"], it["opt"])] = it["m"]
    except Exception:
        pass

    def explain(opts):
        """static defects that mention one of these option names"""
        return [d for d in static_defects if d[1].startswith("-") and d[1][1:].lower() in [o.lower() for o in opts]]

    def add(c, key, what, observed, expected, extra=None):
        rep = {"kind": "input", "case": c.id, "database": c.db, "input_text": c.text, "dump_text": getattr(c, "d1", None),
               "observed": observed, "expected": expected, "generator": c.kind, "meta": c.meta}
        if extra:
            rep.update(extra)
        findings.append({"key": key, "what": what, "replay": rep})

    model_todo = []
    pending = []
    history = []
    for c in live:
        stats["cases"] += 1
        ents = split_entities(c.d1)
        stats["entities"] += len(ents)
        stats["lines"] += c.d1.count("\n")
        ctx.case({"kinds": sorted(set(e[0] for e in ents)), "id": c.id if c.kind == "example" else None, "n": len(ents),
                  "h": hashlib.sha256(c.d1.encode()).hexdigest()[:12]},
                 sample={"case": c.id, "entities": sorted(set(e[0] for e in ents)), "dump_lines": c.d1.count("\n")}, nontrivial=len(ents) > 0)
        model_todo.append(c)
        rb = B.get(c.id + "/B") or {}
        if rb.get("timeout") or rb.get("crash"):
            add(c, "reread:%s" % ("timeout" if rb.get("timeout") else "crash"), "re-reading the dump text %s" % ("did not return" if rb.get("timeout") else "crashed"),
                rb.get("stderr", "")[:500], "normal return")
            continue
        c.reread_ok = rb.get("rc") == 0
        if not c.reread_ok:
            err = rb.get("err") or ""
            first = next((l for l in err.split("\n") if l.startswith("ERROR:")), "")
            words = set(re.findall(r"[A-Za-z_]\w*", first.lower()))
            ex = [d for d in static_defects if d[1].startswith("-") and d[1][1:].lower() in words]
            if not ex:
                words = set(re.findall(r"[A-Za-z_]\w*", err[:3000].lower()))
                ex = [d for d in static_defects if d[1].startswith("-") and d[1][1:].lower() in words]
            if ex:
                for d in ex[:1]:
                    add(c, "schema:%s:%s" % (d[0], d[1]), "reading back the DUMP text raises errors (%s %s is %s): %s" % (d[0], d[1], d[2], err_signature(err)),
                        {"errors": rb.get("rc"), "first": err[:600]}, "no errors")
            else:
                add(c, "reread:errors:%s" % err_signature(err), "reading back the DUMP text raises %s error(s): %s" % (rb.get("rc"), err_signature(err)),
                    {"errors": rb.get("rc"), "first": err[:600]}, "no errors")
            continue
        # text fixed point
        c.text_restored = True
        if c.d1 == c.d2:
            stats["d1_eq_d2"] += 1
        else:
            diffs = text_diff(c.d1, c.d2)
            real = [d for d in diffs if not d[4]]
            unexplained = []
            for d in real:
                ex = explain([d[1]])
                if ex:
                    c.lost_items = getattr(c, "lost_items", []) + [ex[0]]
                    add(c, "schema:%s:%s" % (ex[0][0], ex[0][1]), "value written by DUMP is not restored by reading it back (%s %s is %s)" % ex[0],
                        {"first_dump": d[2].strip(), "second_dump": d[3].strip()}, "identical lines")
                else:
                    unexplained.append(d)
            if real and not unexplained:
                stats["d1_ne_d2_explained"] += 1
            if unexplained:
                c.text_restored = False
                d = unexplained[0]
                c.restore_key = "restore:%s:-%s" % (d[0], d[1])
                add(c, "restore:%s:-%s" % (d[0], d[1]), "state is not restored: %s -%s differs between first and second dump" % (d[0], d[1]),
                    {"first_dump": d[2].strip(), "second_dump": d[3].strip(), "n_differing_lines": len(unexplained)}, "identical lines")
        rc_ = Cc.get(c.id + "/C") or {}
        d3 = rc_.get("dump")
        if rc_.get("rc") != 0 or d3 is None:
            add(c, "reread2:errors:%s" % err_signature(rc_.get("err")), "second re-read cycle raises errors", (rc_.get("err") or "")[:600], "no errors")
        elif d3 != c.d2:
            diffs = [d for d in text_diff(c.d2, d3)]
            d = diffs[0] if diffs else ("?", "?", "", "", False)
            add(c, "fixedpoint:%s:-%s" % (d[0], d[1]), "DUMP text is not a fixed point after one cycle: %s -%s" % (d[0], d[1]),
                {"second_dump": d[2].strip(), "third_dump": d[3].strip(), "n": len(diffs)}, "identical text")
        # fresh instance
        if c.kind == "gen":
            bf = B.get(c.id + "/Bf") or {}
            stats["fresh_instance"] += 1
            if bf.get("rc") != 0:
                add(c, "fresh:errors:%s" % err_signature(bf.get("err")), "reading the DUMP text into a fresh instance (same definitions) raises errors",
                    (bf.get("err") or "")[:600], "no errors")
            elif bf.get("dump") != c.d2:
                diffs = text_diff(c.d2, bf.get("dump") or "")
                d = diffs[0] if diffs else ("?", "?", "", "", False)
                add(c, "fresh:%s:-%s" % (d[0], d[1]), "restoring into a fresh instance gives a different state than restoring into the same instance",
                    {"same_instance": d[2].strip(), "fresh_instance": d[3].strip()}, "identical text")
        # in-memory storage-bin copy and binary serialisation copy (harness/c10_bin.cpp): exact copies of the state
        rbn = BIN.get(c.id) or {}
        c.bin_orig = c.bin_copy = c.ser_copy = None
        if rbn.get("timeout") or rbn.get("crash"):
            add(c, "copy:%s" % ("timeout" if rbn.get("timeout") else "crash"), "copying the state through cxxStorageBin / Serializer %s" %
                ("does not return" if rbn.get("timeout") else "crashes"), rbn.get("stderr", "")[:500], "normal return")
        elif rbn.get("rcA") == 0 and "dumpA" in rbn:
            stats["copies"] = stats.get("copies", 0) + 1
            c.bin_text_equal = rbn["dumpA"] == rbn["dumpB"]
            for tag, nm in (("bin", "dumpB"), ("ser", "dumpC")):
                ta, tb = rbn["dumpA"], rbn[nm]
                if tag == "ser":
                    # the binary packing carries the user number but not the free-text description of an entity
                    ta = re.sub(r"(?m)^(\w+_RAW\s+-?\d+).*$", r"\1", ta)
                    tb = re.sub(r"(?m)^(\w+_RAW\s+-?\d+).*$", r"\1", tb)
                if ta != tb:
                    diffs = text_diff(ta, tb)
                    seenp = set()
                    for d in diffs:
                        if (d[0], d[1]) in seenp or len(seenp) >= 6:
                            continue
                        seenp.add((d[0], d[1]))
                        key = "copy:%s:%s:-%s" % (tag, d[0], d[1])
                        mem = opt_member.get((kw2cls.get(d[0]), d[1]))
                        st = [x for x in static_defects if x[0] == kw2cls.get(d[0]) and mem and x[1] == "serialize:" + mem]
                        if tag == "ser" and st:
                            key = "schema:%s:%s" % (st[0][0], st[0][1])
                        add(c, key, "the %s copy of the state differs from the original: %s -%s" %
                            ("cxxStorageBin" if tag == "bin" else "Serializer (binary)", d[0], d[1]),
                            {"original": d[2].strip()[:200], "copy": d[3].strip()[:200], "n_differing_lines": len(diffs)}, "identical RAW text")
            ro = rbn.get("orig") or {}
            if ro.get("rc") == 0 and "97" in (ro.get("tables") or {}):
                c.bin_orig = vlib.table_dicts(ro["tables"]["97"])
                for tag in ("bin", "ser"):
                    rr = rbn.get(tag) or {}
                    if rr.get("rc") != 0 and nonconvergence(rr.get("err")):
                        stats["followup_nonconvergence_on_copy"] = stats.get("followup_nonconvergence_on_copy", 0) + 1
                        continue        # the solver gives up in the fresh instance (other start point): inconclusive for C10
                    if rr.get("rc") != 0 or "97" not in (rr.get("tables") or {}):
                        add(c, "followup:%s:error:%s" % (tag, err_signature(rr.get("err"))), "follow-up RUN_CELLS fails on the %s copy but not on the original" % tag,
                            (rr.get("err") or "")[:600], "same results", {"followup": c.follow})
                        continue
                    trb = vlib.table_dicts(rr["tables"]["97"])
                    if tag == "bin":
                        c.bin_copy = trb
                    else:
                        c.ser_copy = trb
                # (i) the two copies live in equally fresh instances and hold the same numbers: their results must agree (strictly)
                if c.bin_copy is not None and c.ser_copy is not None:
                    d = first_diff(c.bin_copy, c.ser_copy)
                    if d:
                        add(c, "followup:ser-vs-bin:%s" % (d if isinstance(d, str) else d[1]),
                            "follow-up RUN_CELLS differs between the storage-bin copy and the Serializer copy of the same state: %s" %
                            (d if isinstance(d, str) else "row %d column %s: %r vs %r" % d), str(d), "relative difference <= 1e-7", {"followup": c.follow})
                # (ii) original instance (with its history) vs exact copy in a fresh instance: the solver's path depends on the
                # instance's history, so the difference measures the reproducibility ("noise") of each cell; only gross
                # differences (1e-5) are findings here -- a lost member is caught exactly by the RAW text comparison above
                if c.bin_copy is not None:
                    d = first_diff(c.bin_orig, c.bin_copy, tol=100 * TOL)
                    if d:
                        history.append((c, d))
                    else:
                        rn = rel_noise(c.bin_orig, c.bin_copy)
                        stats["max_rel_noise_exact_copy"] = max(stats.get("max_rel_noise_exact_copy", 0.0), rn)
                        if rn > TOL:
                            stats["cases_exact_copy_beyond_1e-7"] = stats.get("cases_exact_copy_beyond_1e-7", 0) + 1
        noise = noise_table(c.bin_orig, c.bin_copy)
        kfl = kinetics_floor(c.d1)
        rn_case = min(rel_noise(c.bin_orig, c.bin_copy), 100 * TOL) if (c.bin_orig and c.bin_copy and len(c.bin_orig) == len(c.bin_copy)) else 0.0
        # follow-up calculations on the text-restored state
        fo, fr = B.get(c.id + "/Fo") or {}, B.get(c.id + "/Fr") or {}
        pairs = [("same-instance", fo, fr, None)]
        if c.kind == "gen":
            pairs.append(("fresh-instance", fo, B.get(c.id + "/Ff") or {}, c.bin_copy))
        for label, o, r, ref in pairs:
            if o.get("timeout") or o.get("rc") != 0 or "97" not in (o.get("tables") or {}):
                continue                                   # follow-up fails on the original too: outside premises
            if r.get("timeout") or r.get("crash"):
                add(c, "followup:%s:no-return" % label, "follow-up RUN_CELLS on the restored state does not return", "", "same results")
                continue
            to = vlib.table_dicts(o["tables"]["97"])
            if r.get("rc") != 0 and nonconvergence(r.get("err")) and getattr(c, "text_restored", False):
                stats["followup_nonconvergence_on_restored"] = stats.get("followup_nonconvergence_on_restored", 0) + 1
                continue            # the solver gives up from a start point that differs in the 15th digit: inconclusive for C10
            if r.get("rc") != 0 or "97" not in (r.get("tables") or {}):
                add(c, "followup:%s:error:%s" % (label, err_signature(r.get("err"))), "follow-up RUN_CELLS fails on the restored state but not on the original",
                    (r.get("err") or "")[:600], "same results", {"followup": c.follow})
                continue
            tr = vlib.table_dicts(r["tables"]["97"])
            stats["followup_cells"] += len(to)
            if ref is not None and len(ref) == len(to):
                # fresh instance + text  vs  fresh instance + exact copy: no history on either side, strict 1e-7
                d = first_diff(ref, tr, floors=kfl)
            else:
                # against the original instance: 1e-7 plus three times the measured irreproducibility of that cell
                d = first_diff(to, tr, noise=noise, floors=kfl)
            if isinstance(d, str):
                add(c, "followup:%s:shape" % label, "follow-up RUN_CELLS differs between original and restored state (%s): %s" % (label, d),
                    d, "same table shape", {"followup": c.follow})
            elif d:
                pre = c.defs if label == "fresh-instance" else c.text + "\nEND\nDELETE\n -all\nEND\n"
                pending.append({"c": c, "label": label, "d": d, "user": "97", "orig": (ref if (ref is not None and len(ref) == len(to)) else to), "rest": tr,
                                "text": lambda nd, pre=pre, c=c: pre + perturb(c.d1, nd) + "\nEND\n" + c.follow,
                                "what": "follow-up RUN_CELLS differs between original and restored state (%s)" % label,
                                "key": "followup:%s:%s" % (label, d[1]), "extra": {"followup": c.follow}})
        # the RAW text read ONTO the existing (identical) state must give the state a read into an empty instance gives
        rx = B.get(c.id + "/X") or {}
        if getattr(c, "reread_ok", False) and c.d2 is not None and not rx.get("timeout"):
            stats["raw_onto_existing"] = stats.get("raw_onto_existing", 0) + 1
            if rx.get("rc") != 0:
                add(c, "onto-existing:errors:%s" % err_signature(rx.get("err")), "reading the DUMP text onto the existing state raises errors",
                    (rx.get("err") or "")[:600], "no errors")
            elif rx.get("dump") != c.d2:
                diffs = [d for d in text_diff(c.d2, rx.get("dump") or "") if not d[4]]
                if diffs:
                    d = diffs[0]
                    add(c, "onto-existing:%s:-%s" % (d[0], d[1]), "reading the DUMP text onto the existing state gives another state than reading it into an empty instance: %s -%s" % (d[0], d[1]),
                        {"into_empty": d[2].strip()[:200], "onto_existing": d[3].strip()[:200], "n": len(diffs)}, "identical text")
        # SOLUTION_MODIFY with the totals given BY ELEMENT NAME (sum over the valence states of the captured state)
        if getattr(c, "mode", None):
            mtxt, mn, msums, multi = c.mode
            eo, er, ed = B.get(c.id + "/Eo") or {}, B.get(c.id + "/Er") or {}, B.get(c.id + "/Ed") or {}
            stats["modify_by_element"] = stats.get("modify_by_element", 0) + 1
            stats["modify_by_element_multivalence_elements"] = stats.get("modify_by_element_multivalence_elements", 0) + multi
            if ed.get("rc") == 0 and ed.get("dump"):
                dual, sums = dual_listing(ed["dump"], mn)
                if dual:
                    add(c, "modify-element:dual-listing", "after SOLUTION_MODIFY %d with -totals by element name the solution lists %s both as element total and by "
                        "valence state (the element is counted twice)" % (mn, ", ".join(dual)),
                        {"elements": dual, "element_sums_after": {e: sums[e] for e in dual}, "element_sums_given": {e: msums.get(e) for e in dual}},
                        "each element either as total or by valence state", {"modify": mtxt})
                elif sums is not None:
                    for e in sorted(msums):
                        if not close(sums.get(e, 0.0), msums[e], 1e-12, 1e-300):
                            add(c, "modify-element:mass", "after SOLUTION_MODIFY %d with -totals by element name the solution holds another amount of %s" % (mn, e),
                                {"element": e, "given": msums[e], "stored": sums.get(e)}, "same moles", {"modify": mtxt})
                            break
            elif ed.get("rc") not in (None, 0):
                add(c, "modify-element:error:%s" % err_signature(ed.get("err")), "SOLUTION_MODIFY with element-named totals raises errors", (ed.get("err") or "")[:600], "no errors",
                    {"modify": mtxt})
            if eo.get("rc") == 0 and "95" in (eo.get("tables") or {}) and not eo.get("timeout"):
                if er.get("rc") != 0 and nonconvergence(er.get("err")):
                    stats["followup_nonconvergence_on_restored"] = stats.get("followup_nonconvergence_on_restored", 0) + 1
                elif er.get("rc") != 0 or "95" not in (er.get("tables") or {}):
                    add(c, "modify-element:followup-error:%s" % err_signature(er.get("err")), "follow-up fails after SOLUTION_MODIFY with element-named totals",
                        (er.get("err") or "")[:600], "same results", {"modify": mtxt})
                else:
                    teo = vlib.table_dicts(eo["tables"]["95"])
                    d = first_diff(teo, vlib.table_dicts(er["tables"]["95"]), tol=TOL + 3 * rn_case, floors=kfl)
                    if isinstance(d, str):
                        add(c, "modify-element:shape", "SOLUTION_MODIFY (element-named totals): %s" % d, d, "same table shape")
                    elif d:
                        pending.append({"c": c, "label": "modify", "d": d, "user": "95", "orig": teo, "rest": vlib.table_dicts(er["tables"]["95"]),
                                        "text": lambda nd, c=c: c.text + "\nEND\n" + perturb(c.mode[0], nd) + "END\n" + c.fe95,
                                        "what": "re-instating the captured totals by ELEMENT name through SOLUTION_MODIFY gives different follow-up results",
                                        "key": "modify-element:%s" % d[1], "extra": {"modify": mtxt}})
        # SOLUTION_MODIFY with totals / total_h / total_o / cb only
        if c.mod:
            mo, mr = B.get(c.id + "/Mo") or {}, B.get(c.id + "/Mr") or {}
            if mo.get("rc") == 0 and "96" in (mo.get("tables") or {}) and not mo.get("timeout"):
                stats["modify"] += 1
                if mr.get("rc") != 0 and nonconvergence(mr.get("err")):
                    stats["followup_nonconvergence_on_restored"] = stats.get("followup_nonconvergence_on_restored", 0) + 1
                elif mr.get("rc") != 0 or "96" not in (mr.get("tables") or {}):
                    add(c, "modify:error:%s" % err_signature(mr.get("err")), "SOLUTION_MODIFY restore path raises errors", (mr.get("err") or "")[:600], "no errors",
                        {"modify": c.mod[0] + "END\n" + c.mod[1]})
                else:
                    tmo = vlib.table_dicts(mo["tables"]["96"])
                    # (both runs happen in the instance that holds the history; allow three times the relative irreproducibility
                    # measured for this case between the original and its exact copy)
                    d = first_diff(tmo, vlib.table_dicts(mr["tables"]["96"]), tol=TOL + 3 * rn_case, floors=kfl)
                    if isinstance(d, str):
                        add(c, "modify:shape", "SOLUTION_MODIFY restore path: %s" % d, d, "same table shape")
                    elif d:
                        fo96, _ = followup(c.d1, [c.mod[2]], 96)
                        pending.append({"c": c, "label": "modify", "d": d, "user": "96", "orig": tmo, "rest": vlib.table_dicts(mr["tables"]["96"]),
                                        "text": lambda nd, c=c, fo96=fo96: c.text + "\nEND\n" + c.mod[0] + "END\n" + perturb(c.mod[1], nd) + "END\n" + fo96,
                                        "what": "restoring totals/total_h/total_o/cb through SOLUTION_MODIFY gives different follow-up results",
                                        "key": "modify:%s" % d[1], "extra": {"modify": c.mod[0] + "END\n" + c.mod[1]}})
    # the original instance and an exact in-memory copy of its state in a fresh instance give grossly different follow-up
    # results: does the instance's own history matter?  (an unrelated simulation between history and follow-up makes the
    # engine rebuild its model instead of re-using the previous one)
    if history:
        dummy = "SOLUTION 32001\n Na 1\n Cl 1\nEND\nDELETE\n -solution 32001\nEND\n"
        H = run_jobs([job("hist%d" % k, c.db, c.text + "\nEND\n" + dummy + c.follow) for k, (c, d) in enumerate(history)], timeout_each, workers)
        for k, (c, d) in enumerate(history):
            desc = d if isinstance(d, str) else "row %d column %s: %r (original instance) vs %r (exact copy in a fresh instance)" % d
            r = H.get("hist%d" % k) or {}
            agrees = False
            try:
                agrees = first_diff(vlib.table_dicts(r["tables"]["97"]), c.bin_copy, tol=100 * TOL) is None
            except Exception:
                pass
            if agrees:
                add(c, "instance:model-reuse",
                    "the same reactant state gives different results in the instance that computed it than in any other instance: after an "
                    "unrelated simulation the original instance agrees with the exact copy, so the engine's re-use of the previous model "
                    "(same_model/quick_setup) carries hidden state: " + desc,
                    {"cell": desc, "with_unrelated_simulation_in_between": "agrees with the exact copy"}, "relative difference <= 1e-7", {"followup": c.follow})
            elif getattr(c, "bin_text_equal", False) and not isinstance(d, str):
                # the StorageBin copy is a member-wise C++ copy and its RAW text equals the original's: the reactants are identical,
                # so only state of the INSTANCE (outside the reactants) can make the results differ -- the same defect family
                # (here the unrelated simulation before the follow-up does not remove it: the hidden state is carried from one
                # cell's calculation to the next inside the follow-up run)
                add(c, "instance:model-reuse",
                    "identical reactants (member-wise copy, identical RAW text) give different follow-up results in the instance that computed "
                    "them than in a fresh instance; state outside the reactants is carried between calculations: " + desc,
                    {"cell": desc, "with_unrelated_simulation_in_between": "still differs"}, "relative difference <= 1e-7", {"followup": c.follow})
            else:
                add(c, "followup:bin:%s" % (d if isinstance(d, str) else d[1]),
                    "follow-up RUN_CELLS differs grossly between the original and its exact in-memory copy: " + desc, str(d),
                    "relative difference <= 1e-5", {"followup": c.follow})
    # numeric follow-up differences: is the 14-significant-digit text of total_h / total_o the cause?  Measure the sensitivity
    # of the differing cell to total_h and to total_o (+1e-9 mol each, 17 digits) and bound what rounding to 14 digits can do.
    if pending:
        dj = []
        alias = {}
        seen = {}
        for k, p in enumerate(pending):
            sig = (p["c"].id, p["user"], p["d"][0], p["d"][1]) if p["label"] != "modify" else (p["c"].id, "modify", p["user"])
            if sig in seen:
                alias[k] = seen[sig]
                continue
            seen[sig] = k
            alias[k] = k
            if len(dj) < 1200:
                for nd in (13, 12, 11, 10):
                    dj.append(job("diag%d/%d" % (k, nd), p["c"].db, p["text"](nd)))
        t0 = time.time()
        D = run_jobs(dj, timeout_each, workers)
        vlib.log("[C10] diagnostics: %d jobs %.1fs" % (len(dj), time.time() - t0))
        for k, p in enumerate(pending):
            i, h, a, b = p["d"]
            devs = []
            for nd in (13, 12, 11, 10):
                r = D.get("diag%d/%d" % (alias[k], nd)) or {}
                try:
                    t = vlib.table_dicts(r["tables"][p["user"]])
                    devs.append(abs(float(t[i][h]) - float(b)))          # effect of +1e-9 mol in total_h resp. total_o
                except Exception:
                    pass
            dev14 = abs(float(a) - float(b)) if isinstance(a, float) and isinstance(b, float) else None
            desc = "row %d column %s: %r (original) vs %r (restored)" % (i, h, a, b)
            cc = p["c"]
            # (a,b) the deviation is within 3x of (sensitivity to total_h) x (half spacing of 14-digit decimals near 111) +
            # the same for total_o, (c) the exact in-memory copy of the same state reproduces the original at 1e-7 in that cell,
            # (d) every value the text carries was restored (second dump identical apart from items Coq classifies as dropped)
            # sensitivity of this cell to total_h / total_o (per mol) times the largest rounding error of a 14-digit decimal
            bound = (max(devs[0], devs[2]) / PERT * H_SPACING / 2 + max(devs[1], devs[3]) / PERT * O_SPACING / 2) if len(devs) == 4 else 0.0
            scaled = bool(dev14 and len(devs) == 4 and dev14 <= 3 * bound)
            copy_ok = False
            try:
                if p["label"] != "modify":
                    copy_ok = close(cc.bin_orig[i][h], cc.bin_copy[i][h], 100 * TOL)
                else:
                    # the SOLUTION_MODIFY runs have their own table (one cell of another solution): no cell of the copy corresponds;
                    # a gross original-vs-copy difference of this case is reported on its own (instance:model-reuse / followup:bin)
                    copy_ok = True
            except Exception:
                copy_ok = False
            text_ok = getattr(cc, "text_restored", False)
            if scaled and copy_ok and text_ok:
                stats["precision_explained"] = stats.get("precision_explained", 0) + 1
                add(p["c"], "precision:dump-text-14-digits",
                    "DUMP prints 14 significant digits; the loss in -total_h/-total_o (~1e-12 mol) changes follow-up results by more than 1e-7 relative: " + desc,
                    {"cell": desc, "deviation_with_14_digits": dev14, "effect_of_+-1e-9_mol_in_total_h_total_o_(h+,o+,h-,o-)": devs, "path": p["label"],
                     "in_memory_copy_agrees_with_original": copy_ok, "text_fully_restored": text_ok},
                    "relative difference <= 1e-7", p["extra"])
            elif getattr(cc, "restore_key", None):
                # the text restore of this very case is already reported as incomplete under its own key: different follow-up
                # results are the consequence, not another finding
                add(cc, cc.restore_key, "the state is not restored from the DUMP text and follow-up results differ: " + desc,
                    {"cell": desc, "path": p["label"]}, "relative difference <= 1e-7", p["extra"])
            elif getattr(cc, "lost_items", None) and dev14 is not None and dev14 <= 100 * TOL * max(abs(float(a)), abs(float(b))):
                # the restored state is known to lack a written value (an item Coq classifies as dropped/broken, reported under
                # its own key with this input); a slight (< 1e-5) follow-up deviation is its consequence, not a new finding
                li = cc.lost_items[0]
                add(cc, "schema:%s:%s" % (li[0], li[1]),
                    "%s %s is not restored from the DUMP text (%s) and follow-up results on the restored state deviate slightly: %s" % (li[0], li[1], li[2], desc),
                    {"cell": desc, "deviation": dev14, "effect_of_+-1e-9_mol_in_total_h_total_o_(h+,o+,h-,o-)": devs, "path": p["label"]}, "relative difference <= 1e-7", p["extra"])
            elif h == "volume" and only_column_differs(p["orig"], p.get("rest"), "volume"):
                # every mole number, pressure, pH ... agrees; only the gas VOLUME printed by punch_gas_phase (= stored v_m x moles for a
                # Peng-Robinson gas phase) differs: the saved GAS_PHASE carries a stale molar volume that one state refreshes and the
                # other does not
                add(cc, "gas-volume:stale-v_m", "follow-up results agree except the reported gas volume (stale molar volume v_m in the saved gas phase): " + desc,
                    {"cell": desc, "path": p["label"], "in_memory_copy_agrees_with_original": copy_ok, "text_fully_restored": text_ok},
                    "relative difference <= 1e-7", p["extra"])
            else:
                add(p["c"], p["key"], p["what"] + ": " + desc,
                    {"cell": desc, "deviation_with_14_digits": dev14, "effect_of_+-1e-9_mol_in_total_h_total_o_(h+,o+,h-,o-)": devs, "scales_with_digits": scaled,
                     "in_memory_copy_agrees_with_original": copy_ok, "text_fully_restored": text_ok}, "relative difference <= 1e-7", p["extra"])
    # model reader vs implementation on the real text
    ents_all = []
    owner = []
    for c in model_todo:
        for e in split_entities(c.d1):
            if len(e[2]) <= 400:
                ents_all.append(e)
                owner.append(c)
    if ents_all:
        t0 = time.time()
        res, msg = model_read(ents_all, kw2cls)
        vlib.log("[C10] model reader on %d entities %.1fs" % (len(ents_all), time.time() - t0))
        if res is None:
            ctx.obligation("model-reader-on-dump-text", False, msg)
        else:
            ctx.obligation("model-reader-on-dump-text", True)
            stats["model_entities"] += len(res)
            bad_by_case = {}
            for (st, nev, nrest), e, c in zip(res, ents_all, owner):
                if st != 0 or nrest != 0:
                    bad_by_case.setdefault(c.id, []).append((e[0], e[1], st, nrest))
            for c in model_todo:
                mbad = bad_by_case.get(c.id)
                ok_impl = getattr(c, "reread_ok", None)
                if ok_impl is None:
                    continue
                if mbad and ok_impl:
                    e = mbad[0]
                    add(c, "model:disagree:%s" % e[0], "the Coq model reader rejects %s %d of a dump the implementation reads back without error" % (e[0], e[1]),
                        {"model": "error" if e[2] else "unread lines", "implementation": "no errors"}, "agreement")
                if (not mbad) and (not ok_impl):
                    add(c, "model:disagree:accepts", "the Coq model reader accepts a dump the implementation cannot read back",
                        {"model": "ok", "implementation": "errors"}, "agreement")
    return findings, stats


def run_bin(cases, timeout_each=60, workers=6):
    """in-memory copies through harness/c10_bin.cpp: {case id: result dict}"""
    import concurrent.futures as cf
    exe = vlib.build_harness("c10_bin", ["c10_bin.cpp"])
    out = {}
    if not cases:
        return out
    with vlib.scratch("c10bin") as d:
        rows = []
        for k, c in enumerate(cases):
            fn = {}
            for nm, txt in (("full", c.text), ("defs", c.defs if c.kind == "gen" else c.text), ("follow", c.follow)):
                fn[nm] = os.path.join(d, "%s%04d.pqi" % (nm, k))
                open(fn[nm], "w").write(txt + "\n")
            rows.append((c, "%d\t%s\t%s\t%s\t%s\n" % (k, c.db, fn["full"], fn["defs"], fn["follow"])))
        def one(k):
            c, row = rows[k]
            wd = os.path.join(d, "w%04d" % k)
            os.makedirs(wd)
            jf = os.path.join(wd, "jobs.tsv")
            open(jf, "w").write(row)
            rc, so, se = vlib.sh([exe, jf], cwd=wd, timeout=timeout_each * 2)
            for line in so.split("\n"):
                if line.startswith("{"):
                    try:
                        return json.loads(line)
                    except Exception:
                        pass
            return {"job": k, "timeout": rc == 124, "crash": rc != 124, "stderr": se[-1000:]}
        with cf.ThreadPoolExecutor(max_workers=workers) as ex:
            for k, r in enumerate(ex.map(one, range(len(rows)))):
                out[cases[k].id] = r
    return out


def modify_text(d1):
    """(perturbation, restoration, cell) through SOLUTION_MODIFY using only totals, total_h, total_o, cb of the first solution"""
    for kw, n, lines in split_entities(d1):
        if kw != "SOLUTION_RAW" or n < 0:
            continue
        vals = {}
        tot = []
        mode = None
        for ln in lines:
            s = ln.split()
            if s[0].startswith("-"):
                mode = s[0][1:]
                if mode in ("total_h", "total_o", "cb") and len(s) > 1:
                    vals[mode] = s[1]
                continue
            if mode == "totals" and len(s) == 2:
                tot.append((s[0], s[1]))
        if len(vals) != 3 or not tot:
            return None
        try:
            pert = ["SOLUTION_MODIFY %d" % n, " -total_h %.15g" % (float(vals["total_h"]) * 1.01), " -total_o %.15g" % (float(vals["total_o"]) * 1.01),
                    " -cb %.15g" % (float(vals["cb"]) + 1e-4), " -totals"]
            pert += ["  %s %.15g" % (e, float(v) * 1.7) for e, v in tot]
        except ValueError:
            return None
        rest = ["SOLUTION_MODIFY %d" % n, " -total_h %s" % vals["total_h"], " -total_o %s" % vals["total_o"], " -cb %s" % vals["cb"], " -totals"]
        rest += ["  %s %s" % (e, v) for e, v in tot]
        return "\n".join(pert) + "\n", "\n".join(rest) + "\n", n
    return None


def solution_totals(d1):
    """{n: ([(name, text value)], {total_h, total_o, cb})} for the solutions of a dump"""
    out = {}
    for kw, n, lines in split_entities(d1):
        if kw != "SOLUTION_RAW" or n < 0:
            continue
        vals, tot, mode = {}, [], None
        for ln in lines:
            s = ln.split()
            if s[0].startswith("-") and len(s[0]) > 1 and s[0][1].isalpha():
                mode = s[0][1:]
                if mode in ("total_h", "total_o", "cb") and len(s) > 1:
                    vals[mode] = s[1]
                continue
            if mode == "totals" and len(s) == 2 and NUM_RE.match(s[1]):
                tot.append((s[0], s[1]))
        out[n] = (tot, vals)
    return out


def element_of(name):
    return name.split("(")[0]


def modify_element_text(d1):
    """SOLUTION_MODIFY that re-instates the captured totals of one solution BY ELEMENT NAME (the sum over the valence states the
    dump lists), total_h, total_o and cb unchanged.  The solution with most elements listed in >= 2 valence states is chosen.
    Returns (text, n, {element: sum}) or None."""
    best = None
    for n, (tot, vals) in solution_totals(d1).items():
        if len(vals) != 3 or not tot:
            continue
        by = {}
        for nm, v in tot:
            by.setdefault(element_of(nm), []).append((nm, float(v)))
        multi = sum(1 for e, l in by.items() if e not in ("H", "O") and len(l) >= 2)
        if best is None or multi > best[0]:
            best = (multi, n, by, vals)
    if best is None:
        return None
    multi, n, by, vals = best
    L = ["SOLUTION_MODIFY %d" % n, " -total_h %s" % vals["total_h"], " -total_o %s" % vals["total_o"], " -cb %s" % vals["cb"], " -totals"]
    sums = {}
    for e in sorted(by):
        if e in ("H", "O"):
            for nm, v in by[e]:
                L.append("  %s %.17g" % (nm, v))          # H(0), O(0): total H and O are separate members
        else:
            sums[e] = sum(v for _, v in by[e])
            L.append("  %s %.17g" % (e, sums[e]))
    return "\n".join(L) + "\n", n, sums, multi


def dual_listing(d, n):
    """elements of solution n of dump d that are listed both as element total and by valence state, and the element sums"""
    st = solution_totals(d).get(n)
    if st is None:
        return None, None
    names = [nm for nm, _ in st[0]]
    dual = sorted({element_of(nm) for nm in names if "(" in nm and element_of(nm) in names and element_of(nm) not in ("H", "O")})
    sums = {}
    for nm, v in st[0]:
        if element_of(nm) not in ("H", "O"):
            sums[element_of(nm)] = sums.get(element_of(nm), 0.0) + float(v)
    return dual, sums


# ----------------------------------------------------------------------------- merge_redox: model vs implementation
ND_KEYS = ["F", "Fe", "Fe(2)", "Fe(3)", "N", "N(-3)", "N(0)", "N(3)", "N(5)", "C", "C(-4)", "C(4)", "Cu", "Cu(1)", "Cu(2)", "Cl", "Ca",
           "S", "S(-2)", "S(6)", "Mn", "Mn(2)", "Mn(3)", "M", "Na", "K", "As(3)", "As(5)", "A", "U(4)", "U(5)", "U(6)", "U", "H(0)", "O(0)", "B", "Br"]

MR_HEAD = """From Coq Require Import String List.
Require Import IPV.C10.MergeRedox.
Import ListNotations.
Open Scope string_scope.
"""


def nd_text(m):
    return ",".join("%s=%d" % kv for kv in m)


def merge_redox_ops(rng, n):
    ops = []
    for k in range(n):
        keys = rng.sample(ND_KEYS, rng.randint(0, 9))
        tgt = [(x, rng.randint(1, 99)) for x in keys]
        # sources aimed at the two branches: element names whose valence states are in the target, and vice versa
        cand = sorted({element_of(x) for x in keys} | set(rng.sample(ND_KEYS, 3)))
        src = [(x, rng.randint(100, 199)) for x in rng.sample(cand, rng.randint(1, min(4, len(cand))))]
        ops.append((tgt, src))
    return ops


def merge_redox_eval(ops):
    """(implementation results, model results) as lists of dicts"""
    exe = vlib.build_harness("c10_nd", ["c10_nd.cpp"])
    with vlib.scratch("c10nd") as d:
        f = os.path.join(d, "ops.tsv")
        open(f, "w").write("".join("%d\t%s\t%s\n" % (k, nd_text(t), nd_text(s)) for k, (t, s) in enumerate(ops)))
        rc, so, se = vlib.sh([exe, f], cwd=d, timeout=60)
    impl = {}
    for line in so.split("\n"):
        if "\t" in line:
            k, r = line.split("\t", 1)
            impl[int(k)] = {kv.rsplit("=", 1)[0]: int(kv.rsplit("=", 1)[1]) for kv in r.split(",") if kv}
    def cl(m):
        return "[" + "; ".join("(%s, %d)" % (coq_str(k), v) for k, v in m) + "]"
    # (the source is a std::map: merge_redox walks it in key order)
    v = MR_HEAD + "".join("Eval vm_compute in (%d, merge_redox %s %s).\n" % (k, cl(t), cl(sorted(s))) for k, (t, s) in enumerate(ops))
    rc2, out = vlib.coq_eval(v, timeout=300)
    model = {}
    if rc2 == 0:
        for blk in re.split(r"\n\s*=\s", "\n" + out):
            m = re.match(r"\((\d+),\s*(.*?)\)\s*:\s*nat \*", blk.strip(), flags=re.S)
            if m:
                model[int(m.group(1))] = {a: int(b) for a, b in re.findall(r'\(\s*"([^"]*)",\s*(\d+)\)', m.group(2))}
    return rc, impl, rc2, model, out


def merge_redox_corr(ctx, ops=None):
    ops = ops if ops is not None else merge_redox_ops(ctx.rng, ctx.n(300, 3000))
    rc, impl, rc2, model, out = merge_redox_eval(ops)
    if rc2 != 0 or len(model) != len(ops):
        ctx.obligation("merge_redox-model-evaluation", False, out[-1200:])
        return
    ctx.obligation("merge_redox-model-evaluation", True)
    nbad = 0
    for k, (t, s) in enumerate(ops):
        ctx.case({"mr": nd_text(t), "s": nd_text(s)}, nontrivial=bool(t))
        if impl.get(k) != model[k]:
            nbad += 1
            if nbad <= 1:
                ctx.violation("merge_redox:model-disagrees",
                              "cxxNameDouble::merge_redox does not do what its Gallina model (proved: an element total removes every valence-state "
                              "entry of that element and nothing else) does: target {%s} merged with {%s}" % (nd_text(t), nd_text(s)),
                              {"kind": "ops", "target": t, "source": s, "observed": impl.get(k), "expected": model[k]})
    ctx.extra["merge_redox_ops"] = {"ops": len(ops), "disagreements": nbad}


# ----------------------------------------------------------------------------- name/value rows: model vs implementation
LONG_NAMES = ["Ca0.165Al2.33Si3.67O10(OH)2", "K0.6Mg0.25Al2.3Si3.5O10(OH)2", "Mg5Al2Si3O10(OH)8", "Na0.33Al2.33Si3.67O10(OH)2",
              "KAl3Si3O10(OH)2", "Ca", "C(4)", "Alkalinity", "Hfo_wOHSO4-2", "Goe_uniOH2Cl-0.5"]


def nd_row_corr(ctx):
    """what the real cxxNameDouble::dump_raw writes for names of every length 1..40 at every indentation 0..6 (and the long mineral
    formulas of the databases) must be the string the Gallina writer [nd_row] gives (proved to tokenise back to [name; value]) and must
    itself split into exactly (name, value)"""
    rng = ctx.rng
    cases = []
    for ind in range(0, 7):
        for ln in list(range(1, 41)):
            nm = "".join(rng.choice("ABCabc0123456789().-_") for _ in range(ln))
            if nm[0] in "-#":
                nm = "X" + nm[1:]
            cases.append((ind, nm, rng.randint(1, 99999)))
        for nm in LONG_NAMES:
            cases.append((ind, nm, rng.randint(1, 9)))
    exe = vlib.build_harness("c10_nd", ["c10_nd.cpp"])
    with vlib.scratch("c10row") as d:
        f = os.path.join(d, "ops.tsv")
        open(f, "w").write("".join("row:%d\t%d\t%s=%d\n" % (k, i, n, v) for k, (i, n, v) in enumerate(cases)))
        rc, so, se = vlib.sh([exe, f], cwd=d, timeout=60)
    impl = {}
    for line in so.split("\n"):
        if line.startswith("row:") and "\t" in line:
            k, r = line.split("\t", 1)
            impl[int(k[4:])] = r
    v = ("From Coq Require Import String List.\nRequire Import IPV.C10.NdRow.\nOpen Scope string_scope.\n"
         + "".join("Eval vm_compute in (%d, nd_row %d %s %s).\n" % (k, i, coq_str(n), coq_str(str(val))) for k, (i, n, val) in enumerate(cases)))
    rc2, out = vlib.coq_eval(v, timeout=300)
    model = {}
    if rc2 == 0:
        for m in re.finditer(r'=\s*\((\d+),\s*"((?:[^"]|"")*)"\)', out):
            model[int(m.group(1))] = m.group(2).replace('""', '"')
    if rc2 != 0 or len(model) != len(cases):
        ctx.obligation("nd_row-model-evaluation", False, out[-1200:])
        return
    ctx.obligation("nd_row-model-evaluation", True)
    nbad = 0
    for k, (i, n, val) in enumerate(cases):
        ctx.case({"row": n, "indent": i}, nontrivial=True)
        got = impl.get(k)
        ok = got is not None and got == model[k] + "|" and got[:-1].split() == [n, str(val)]
        if not ok:
            nbad += 1
            if nbad <= 1:
                ctx.violation("nd_row:writer-disagrees",
                              "cxxNameDouble::dump_raw writes a name/value row that is not what its Gallina model writes (proved to tokenise back to "
                              "[name; value] for names of any length): name %r (%d characters) at indentation %d" % (n, len(n), i),
                              {"kind": "row", "indent": i, "name": n, "value": val, "observed": got, "expected": model[k] + "|"})
    ctx.extra["nd_row_cases"] = {"rows": len(cases), "disagreements": nbad}


# ----------------------------------------------------------------------------- run
def build_cases(ctx):
    cases = []
    tab = example_table()
    names = THOROUGH_EXAMPLES if ctx.thorough else QUICK_EXAMPLES
    for nm in names:
        if nm in tab and os.path.exists(os.path.join(EXDIR, nm)) and os.path.exists(tab[nm]):
            cases.append(Case("example:" + nm, tab[nm], "", example_text(nm), "example"))
    for cid, body in CORPUS:
        cases.append(Case(cid, os.path.join(vlib.DB, "phreeqc.dat"), DEFS, body, "gen", {"corpus": True}))
    ng = ctx.n(40, 400)
    for k in range(ng):
        defs, body, meta = gen_case(ctx.rng, k)
        cases.append(Case("gen:%d:%d" % (ctx.seed, k), os.path.join(vlib.DB, "phreeqc.dat"), defs, body, "gen", meta))
    return cases


def run(ctx):
    ctx.checker_cmd = "make -C /verif/coq -k Props/Properties_C10.vo"
    if ctx.replay:
        return replay(ctx)
    import time
    t0 = time.time()
    ok = vlib.coq_stage(ctx, "Props/Properties_C10.vo", gen=gen)
    vlib.log("[C10] translator + Coq build (includes waiting for the shared coq lock) %.1fs" % (time.time() - t0))
    t0 = time.time()
    rep = static_report()
    vlib.log("[C10] static report %.1fs" % (time.time() - t0))
    static_defects = []
    if rep is None:
        ctx.obligation("static-report(all_defects by vm_compute)", False, "could not evaluate the generated schemas in Coq")
    else:
        static_defects, notok, serial_bad, names_ok = rep
        ctx.obligation("static-report(all_defects by vm_compute)", True)
        ctx.extra["static_defects"] = ["%s %s (%s)" % d for d in static_defects]
        ctx.extra["classes_without_round_trip"] = notok
    try:
        sc = schemas()
    except Exception as ex:
        sc = []
        ctx.notes.append("translator refused: %r" % (ex,))
    kw2cls = {s["keyword"]: s["cls"] for s in sc if s.get("keyword")}
    ctx.extra["classes"] = len(sc)
    ctx.extra["writer_items"] = sum(len(s["items"]) for s in sc)
    merge_redox_corr(ctx)
    nd_row_corr(ctx)
    cases = build_cases(ctx)
    findings, stats = run_round_trip(ctx, cases, static_defects, kw2cls)
    ctx.extra["input_distribution"] = stats
    ctx.rule = ("shipped examples (repo's own example/database table) + generated reactant sets (1-3 solutions, each entity kind with "
                "probability 0.35-0.6, RUN_CELLS history); a case is non-trivial when its DUMP holds at least one entity; every case is "
                "dumped, re-read (same instance after DELETE -all; fresh instance for generated cases), dumped again twice, and followed "
                "up by RUN_CELLS on original and restored state (1e-7 relative)")
    reported = set()
    dyn_keys = set(f["key"] for f in findings)
    # static defects: every one is a finding; those demonstrated on the implementation carry the failing input
    if rep is not None:
        for cls, item, why in static_defects:
            key = "schema:%s:%s" % (cls, item)
            if why == "rows-unreadable":
                # latent: the rows of this block could not be read back, but no reachable state writes any (checked below)
                ctx.notes.append("latent: %s %s rows cannot be read back (reader keeps no opt_save); no dump observed with rows in that block" % (cls, item))
                continue
            if key in dyn_keys:
                continue
            if why == "not-dumped":
                ctx.violation(key, "%s::Serialize carries member %s but dump_raw/read_raw do not (the RAW text loses it)" % (cls, item.split(":")[-1]),
                              {"kind": "obligation", "theorem": ["dump_covers_copy_path"], "class": cls, "item": item, "status": why}, concrete=False)
                continue
            if why == "not-copied":
                ctx.violation(key, "%s::Serialize/Deserialize do not carry member %s that dump_raw writes (binary copies lose it)" % (cls, item.split(":")[-1]),
                              {"kind": "obligation", "theorem": ["copy_path_covers_dump"], "class": cls, "item": item, "status": why}, concrete=False)
                continue
            ctx.violation(key, "%s::dump_raw writes %s but read_raw does not restore it (%s) -- decided by schema_ok on the regenerated schema" % (cls, item, why),
                          {"kind": "obligation", "theorem": ["defects_are_known"], "class": cls, "item": item, "status": why}, concrete=False)
        for c in serial_bad:
            ctx.violation("serial:%s" % c, "%s::Serialize and ::Deserialize do not push/read the same streams in the same order" % c,
                          {"kind": "obligation", "theorem": ["serialize_roundtrip_all_classes"], "class": c}, concrete=False)
        for c in notok:
            if not any(d[0] == c for d in static_defects):
                ctx.violation("schema:%s" % c, "%s: schema_ok fails" % c, {"kind": "obligation", "theorem": ["all_classes_ok"], "class": c}, concrete=False)
    for f in findings:
        if f["key"] in reported:
            continue
        reported.add(f["key"])
        ctx.violation(f["key"], f["what"], f["replay"])
    # latent blocks: do any dumps carry rows there?
    ctx.trusted += ["translator/c10_schema.py + c10_cpp.py (g++ -E, tokenizer, statement parser; not the clang AST)",
                    "token-level abstraction: number printing/parsing (14 significant digits) not modelled; exercised by the text fixed-point check",
                    "Serialize/Deserialize: nested objects and loop bodies are abstract self-delimiting codecs (Section hypothesis dec_enc)"]
    ctx.notes.append("runs whose history ends in ERROR or times out are outside the premises: counted in input_distribution, not flagged")


def replay(ctx):
    obj = json.load(open(ctx.replay))
    if obj.get("kind") == "row":
        nd_row_corr(ctx)
        return
    if obj.get("kind") == "ops":
        merge_redox_corr(ctx, [([tuple(x) for x in obj["target"]], [tuple(x) for x in obj["source"]])])
        return
    if obj.get("kind") != "input":
        # static obligation: rebuild and re-evaluate
        ok = vlib.coq_stage(ctx, "Props/Properties_C10.vo", gen=gen)
        rep = static_report()
        if rep is None:
            ctx.obligation("static-report", False, "")
            return
        for cls, item, why in rep[0]:
            if "schema:%s:%s" % (cls, item) == obj.get("key"):
                ctx.violation(obj["key"], obj.get("what", ""), {k: v for k, v in obj.items() if k not in ("how_to_run",)}, concrete=False)
        return
    rep = static_report() or ([], [], [], True)
    sc = schemas()
    kw2cls = {s["keyword"]: s["cls"] for s in sc if s.get("keyword")}
    text = obj["input_text"]
    defs = ""
    if obj.get("generator") == "gen" and text.startswith(DEFS):
        defs, text = DEFS, text[len(DEFS):]
    c = Case(obj.get("case", "replay"), obj["database"], defs, text, obj.get("generator", "example"), obj.get("meta"))
    findings, stats = run_round_trip(ctx, [c], rep[0], kw2cls)
    for f in findings:
        if f["key"] == obj.get("key"):
            ctx.violation(f["key"], f["what"], f["replay"])
