"""C11 — transport only moves dissolved mass (conservation, exact shifts, bounded mixing).

Stages: (1) T-gen: translator/c11_initmix.py regenerates coq/Gen/Gen_C11_initmix.v from the current
transport.cpp; (2) Coq build of Props/Properties_C11.vo; (3) T-corr: conservative-tracer columns are run
through the implementation and compared per cell and shift (1e-9) with the exact-Q Coq model (verified
checker, `Eval vm_compute`) and with a python Fraction mirror of that model (cross-checked against the
Coq model inside Coq on every run); (4) implementation-side property checks (closed diffusion-only
inventory, exact advective shift, range boundedness, inventory with reactive solids).
"""
import json, os, re, sys
from fractions import Fraction as Fr
import vlib

TRACERS = ["Na", "K", "Cl", "Br", "Li"]
TOL = Fr(1, 10 ** 9)
FLOOR = Fr(1, 10 ** 20)        # amounts below this are outside the relative comparison (MIN_TOTAL = 1e-25 cut-off region)


# ----------------------------------------------------------------------------- python mirror of coq/C11/Transport.v

def fr(x):
    """exact rational of the double that PHREEQC reads from the decimal text x (str) or of a float"""
    return Fr(float(x))


def mixf(cfg):
    """cfg: dict(lens, disps: lists of Fraction; diffc, timest: Fraction; ishift, bcf, bcl: int; corrd: bool)
    returns (nmix, [(m, m1)...], maxmix) -- literal transcription of init_mix, multi_D false"""
    L, A = cfg["lens"], cfg["disps"]
    n = len(L)
    adv = cfg["ishift"] != 0
    corr = Fr(1)
    if cfg["corrd"] and adv:
        if cfg["bcf"] == 3:
            corr += Fr(1, n)
        if cfg["bcl"] == 3:
            corr += Fr(1, n)
    dh = 2 * cfg["diffc"] * cfg["timest"]
    m = [Fr(0)] * (n + 2)
    m1 = [Fr(0)] * (n + 2)
    dav = Fr(0)
    maxmix = Fr(0)
    for i in range(1, n + 1):
        li, ai = L[i - 1], A[i - 1]
        if i < n:
            lj, aj = L[i], A[i]
            if adv:
                if ai != 0:
                    dav = li / ai
                if aj != 0:
                    dav += lj / aj
                if dav != 0:
                    m1[i] = 2 / dav
            m1[i] += dh / (li * li + li * lj)
            m1[i] *= corr
        if i > 1:
            lj, aj = L[i - 2], A[i - 2]
            if adv:
                if ai != 0:
                    dav = li / ai
                if aj != 0:
                    dav += lj / aj
                if dav != 0:
                    m[i] = 2 / dav
            m[i] += dh / (li * li + li * lj)
            m[i] *= corr
        if m[i] + m1[i] > maxmix:
            maxmix = m[i] + m1[i]
    if cfg["bcf"] == 1:
        m[1] = dh / (L[0] * L[0])
        if adv:
            m[1] += A[0] / L[0]
        if m[1] + m1[1] > maxmix:
            maxmix = m[1] + m1[1]
    if cfg["bcl"] == 1:
        m1[n] = dh / (L[n - 1] * L[n - 1])
        if adv:
            m1[n] += A[n - 1] / L[n - 1]
        if m[n] + m1[n] > maxmix:
            maxmix = m[n] + m1[n]
    if maxmix == 0:
        nmix = 0
    else:
        nmix = 1 + (Fr(3, 2) * maxmix).__floor__()
        if adv and (cfg["bcf"] == 1 or cfg["bcl"] == 1) and nmix < 2:
            nmix = 2
        for i in range(1, n + 1):
            m[i] /= nmix
            m1[i] /= nmix
    return nmix, [(m[i], m1[i]) for i in range(1, n + 1)], maxmix


def mix_step(ms, cL, cR, cs):
    n = len(cs)
    out = []
    for i in range(n):
        prev = cL if i == 0 else cs[i - 1]
        nxt = cR if i == n - 1 else cs[i + 1]
        a, b = ms[i]
        out.append(a * prev + (1 - a - b) * cs[i] + b * nxt)
    return out


def one_shift(cfg, nmix, ms, cL, cR, cs):
    pre = nmix // 2 if (cfg["ishift"] == 0 or cfg["bcf"] == 1 or cfg["bcl"] == 1) else 0
    for _ in range(pre):
        cs = mix_step(ms, cL, cR, cs)
    if cfg["ishift"] > 0:
        cs = [cL] + cs[:-1]
    elif cfg["ishift"] < 0:
        cs = cs[1:] + [cR]
    for _ in range(nmix - pre):
        cs = mix_step(ms, cL, cR, cs)
    return cs


# ----------------------------------------------------------------------------- input text

SEL_BLOCK = """SELECTED_OUTPUT 1
 -reset false
 -high_precision true
 -state true
 -solution true
 -step true
USER_PUNCH 1
 -headings %s
 10 PUNCH %s
END
"""


def sel_block(cols):
    """cols: list of (heading, BASIC expression)"""
    return SEL_BLOCK % (" ".join(h for h, _ in cols), ", ".join(e for _, e in cols))


TRACER_COLS = [("m" + t, 'TOTMOLE("%s")' % t) for t in TRACERS] + [("cb", "CHARGE_BALANCE"), ("mH", 'TOTMOLE("H")'), ("mO", 'TOTMOLE("O")')]


def dec(x):
    return repr(float(x))


def tracer_solution(k, conc, ph="7"):
    s = "SOLUTION %d\n pH %s\n units mmol/kgw\n" % (k, ph)
    for t in TRACERS:
        if conc.get(t):
            s += " %s %s\n" % (t, conc[t])
    return s


def transport_block(case, extra=""):
    n = case["n"]
    fl = {1: "forward", -1: "backward", 0: "diffusion_only"}[case["ishift"]]
    bc = {1: "constant", 2: "closed", 3: "flux"}
    s = "TRANSPORT\n -cells %d\n -shifts %d\n" % (n, case["shifts"])
    s += " -lengths %s\n" % " ".join(case["lens"])
    s += " -dispersivities %s\n" % " ".join(case["disps"])
    s += " -diffusion_coefficient %s\n" % case["diffc"]
    s += " -time_step %s\n" % case["timest"]
    s += " -flow_direction %s\n" % fl
    s += " -boundary_conditions %s %s\n" % (bc[case["bcf"]], bc[case["bcl"]])
    s += " -correct_disp %s\n" % ("true" if case["corrd"] else "false")
    s += " -punch_cells 0-%d\n -punch_frequency 1\n -print_frequency 1000000\n -warnings true\n" % (n + 1)
    s += extra
    return s + "END\n"


def tracer_input(case):
    txt = "KNOBS\n -convergence_tolerance 1e-12\nPRINT\n -reset false\n" + sel_block(TRACER_COLS)
    for k in range(case["n"] + 2):
        txt += tracer_solution(k, case["sols"][k])
    txt += "END\n" + transport_block(case)
    return txt


# ----------------------------------------------------------------------------- generator (tracer columns)

DYADIC_LEN = ["0.25", "0.5", "0.75", "1", "1.25", "1.5", "2", "3", "0.125", "0.375"]
DYADIC_DISP = ["0", "0.0625", "0.125", "0.25", "0.5", "0.75", "1", "0.1875"]
DIFFC_DYADIC = "9.31322574615478515625e-10"      # 2^-30 exactly


def rnd_conc(rng):
    r = rng.random()
    if r < 0.25:
        return None
    if r < 0.35:
        return "1"
    return "%.4g" % (10 ** rng.uniform(-3, 1.3))


def gen_case(rng, lattice, maxcells=40, budget=4000):
    """one random column set-up inside the property's domain; `lattice` = dyadic lengths/dispersivities
    and a dyadic diffc*timest (small exact rationals: cheap for the exact-Q Coq model)"""
    r = rng.random()
    n = 1 if r < 0.06 else 2 if r < 0.12 else maxcells if r < 0.17 else rng.randint(3, min(maxcells, 12)) if r < 0.6 else rng.randint(3, maxcells)
    ishift = rng.choice([1, 1, -1, -1, 0, 0])
    bcf, bcl = rng.randint(1, 3), rng.randint(1, 3)
    corrd = rng.random() < 0.4
    equal_len = rng.random() < 0.45
    equal_disp = rng.random() < 0.4
    if lattice:
        lpool, dpool = DYADIC_LEN, DYADIC_DISP
        l0 = rng.choice(lpool)
        lens = [l0 if equal_len else rng.choice(lpool[:8]) for _ in range(n)]
        d0 = rng.choice(dpool)
        disps = [d0 if equal_disp else rng.choice(dpool) for _ in range(n)]
    else:
        l0 = "%.3g" % (10 ** rng.uniform(-2, 0.7))
        lens = [l0 if equal_len else "%.3g" % (float(l0) * rng.uniform(0.4, 2.5)) for _ in range(n)]
        zero_disp = rng.random() < 0.2
        d0 = "0" if zero_disp else "%.3g" % (float(l0) * 10 ** rng.uniform(-2, 0.1))
        disps = [d0 if equal_disp else ("0" if rng.random() < 0.15 else "%.3g" % (float(l0) * 10 ** rng.uniform(-2, 0.1))) for _ in range(n)]
    lmin = min(float(x) for x in lens)
    # diffusion: D*t / lmin^2 in [0, 2.5]
    r = rng.random()
    if ishift != 0 and r < 0.3:
        diffc, timest = ("0.3e-9", "0") if rng.random() < 0.5 else ("0", "3600")
    else:
        if lattice:
            diffc = DIFFC_DYADIC
            k = rng.choice([0.03125, 0.125, 0.25, 0.5, 1, 1.5, 2])
            timest = dec(k * lmin * lmin * 2.0 ** 30)
        else:
            diffc = rng.choice(["0.3e-9", "1e-9", "%.3ge-10" % rng.uniform(1, 90)])
            timest = "%.4g" % (rng.uniform(0.01, 2.5) * lmin * lmin / float(diffc))
    case = dict(n=n, ishift=ishift, bcf=bcf, bcl=bcl, corrd=corrd, lens=lens, disps=disps, diffc=diffc, timest=timest,
                lattice=lattice)
    nmix, _, _ = mixf(case_cfg(case))
    # exact rational arithmetic inside one shift grows with nmix: keep the model evaluation affordable
    if (lattice and (nmix > 12 or n * nmix > 300)) or (not lattice and (nmix > 6 or n * nmix > 150)):
        return gen_case(rng, lattice, maxcells, budget)
    nm = max(1, nmix)
    smax = max(1, min(12, budget // (n * nm)))
    case["shifts"] = rng.randint(1, smax)
    # solutions 0..n+1: a few templates + per-cell noise so that fronts and plateaus both occur
    templ = [{t: rnd_conc(rng) for t in TRACERS} for _ in range(3)]
    sols = []
    for k in range(n + 2):
        if k == 0 or k == n + 1 or rng.random() < 0.5:
            s = {t: rnd_conc(rng) for t in TRACERS}
        else:
            s = dict(templ[rng.randrange(3)])
        sols.append(s)
    case["sols"] = sols
    return case


def case_cfg(case):
    """the configuration init_mix sees: read_transport turns 'closed' into 'flux' when there is advection"""
    bcf, bcl = case["bcf"], case["bcl"]
    if case["ishift"] != 0:
        bcf = 3 if bcf == 2 else bcf
        bcl = 3 if bcl == 2 else bcl
    return dict(lens=[fr(x) for x in case["lens"]], disps=[fr(x) for x in case["disps"]], diffc=fr(case["diffc"]),
                timest=fr(case["timest"]), ishift=case["ishift"], bcf=bcf, bcl=bcl, corrd=case["corrd"])


# ----------------------------------------------------------------------------- reading results

def parse_rows(res):
    """-> (init {soln: row}, steps {step: {soln: row}}) from table 1; rows are dicts heading->value"""
    init, steps, isol = {}, {}, {}
    rows = vlib.table_dicts(res.get("tables", {}).get("1"))
    for r in rows:
        st = r.get("state")
        if st == "i_soln":
            isol[r["soln"]] = r
        elif st == "transp":
            if r["step"] == 0:
                init[r["soln"]] = r
            else:
                steps.setdefault(r["step"], {})[r["soln"]] = r
    return isol, init, steps


def reported_nmix(res):
    m = re.search(r"Calculating transport: (\d+) \(mobile\) cells, (\d+) shifts, (\d+) mixruns", res.get("warn", ""))
    return int(m.group(3)) if m else None


def close(obs, exp, scale=None):
    """the property's comparison: relative 1e-9 (amounts under FLOOR are below the engine's cut-off region)"""
    obs, exp = Fr(obs), Fr(exp)
    if scale is not None:
        return abs(obs - exp) <= TOL * scale
    if abs(exp) < FLOOR:
        return abs(obs) <= 2 * FLOOR
    return abs(obs - exp) <= TOL * abs(exp)


def near_integer(x, eps=Fr(1, 10 ** 9)):
    return abs(x - round(x)) <= eps * max(1, abs(x))


def slack(t):
    """what one speciation may legally change in a saved element total t (float, rounded up): the engine
    accepts a mass-balance row when |residual| <= convergence_tolerance * t (1e-12 here) or
    |residual| <= sqrt(t * MIN_TOTAL) (model.cpp: residuals / check_residuals) and the saved total is the
    species sum; plus rounding."""
    t = abs(t)
    return (max(t * 1e-12, (t * 1e-25) ** 0.5) + t * 1e-14) * 1.000001


def shift_slack(cfg, nmix, ms, after):
    """propagated engine slack for one transport step, per cell (floats): every mix run / the advective
    step ends with a speciation of each cell; convex mixing propagates earlier slack with the same weights."""
    n = len(after)
    e = [0.0] * n
    loc = [abs(float(x)) * 1.000001 for x in after]
    fms = [(float(a) * 1.000001, float(b) * 1.000001) for a, b in ms]
    steps = nmix + (1 if cfg["ishift"] != 0 else 0)
    for _ in range(steps):
        if nmix:
            e = [fms[i][0] * (e[i - 1] if i else 0.0) + e[i] + fms[i][1] * (e[i + 1] if i < n - 1 else 0.0) for i in range(n)]
        loc = [max(loc[max(0, i - 1):i + 2]) for i in range(n)]
        e = [e[i] + slack(loc[i]) for i in range(n)]
    return [Fr(x) for x in e]


def compare_tracer_case(case, res, collect=None):
    """stepwise comparison with the python mirror: the state the implementation reported after shift s-1 is
    pushed through one exact model shift and compared with what it reported after shift s.
    collect (list) receives (column, shift, prev, cL, cR, obs, tol) tuples for the Coq checker."""
    if res.get("timeout") or res.get("crash"):
        return dict(status="engine-timeout" if res.get("timeout") else "engine-crash", detail=res.get("stderr", "")[-300:])
    if res.get("rc", 1) != 0:
        return dict(status="engine-error", detail=res.get("err", "")[-300:])
    cfg = case_cfg(case)
    nmix, ms, maxmix = mixf(cfg)
    rn = reported_nmix(res)
    if rn is None:
        return dict(status="no-nmix", detail=res.get("warn", "")[-300:])
    if rn != nmix:
        if near_integer(Fr(3, 2) * maxmix):
            return dict(status="nmix-rounding-ambiguous", detail="1.5*maxmix=%s" % float(Fr(3, 2) * maxmix))
        return dict(status="mismatch", what="nmix", observed=rn, expected=nmix, detail="maxmix=%s" % float(maxmix))
    isol, init, steps = parse_rows(res)
    n = case["n"]
    cols = ["m" + t for t in TRACERS] + ["cb"]
    if nmix == 0 and case["ishift"] == 0:
        return dict(status="ok-nothing-moves", nmix=0, detail="")
    try:
        obs = {0: {c: [Fr(init[k][c]) for k in range(1, n + 1)] for c in cols}}
        bnd = {c: (Fr((init.get(0) or isol[0])[c]), Fr((init.get(n + 1) or isol[n + 1])[c])) for c in cols}
        for s in range(1, case["shifts"] + 1):
            obs[s] = {c: [Fr(steps[s][k][c]) for k in range(1, n + 1)] for c in cols}
    except KeyError as ex:
        return dict(status="missing-rows", detail=repr(ex))
    worst = Fr(0)
    for s in range(1, case["shifts"] + 1):
        # charge is a signed combination of the ion amounts: its slack is that of the ions
        ion_e = [Fr(0)] * n
        for c in cols:
            prev = obs[s - 1][c]
            exp = one_shift(cfg, nmix, ms, bnd[c][0], bnd[c][1], prev)
            if c != "cb":
                e = shift_slack(cfg, nmix, ms, exp)
                ion_e = [ion_e[i] + e[i] + TOL * abs(exp[i]) for i in range(n)]
                tol = [TOL * abs(exp[i]) + e[i] for i in range(n)]
            else:
                tol = [3 * ion_e[i] + Fr(1, 10 ** 18) for i in range(n)]
            if collect is not None:
                collect.append((c, s, prev, bnd[c][0], bnd[c][1], obs[s][c], tol))
            for i in range(n):
                d = abs(obs[s][c][i] - exp[i])
                if d > tol[i]:
                    return dict(status="mismatch", what="%s cell %d shift %d" % (c, i + 1, s), observed=float(obs[s][c][i]),
                                expected=float(exp[i]), detail="nmix=%d tol=%.3g diff=%.3g" % (nmix, float(tol[i]), float(d)))
                if exp[i] > Fr(1, 10 ** 6):
                    worst = max(worst, d / exp[i])
    return dict(status="ok", nmix=nmix, worst=float(worst), detail="")


# ----------------------------------------------------------------------------- Coq cases

def qc(x):
    x = Fr(x)
    return "(%d # %d)" % (x.numerator, x.denominator) if x.numerator >= 0 else "((%d) # %d)" % (x.numerator, x.denominator)


def qlist(xs):
    return "[" + "; ".join(qc(x) for x in xs) + "]"


def coq_cfg(case):
    cells = "; ".join("mkCell %s %s" % (qc(fr(l)), qc(fr(d))) for l, d in zip(case["lens"], case["disps"]))
    return "(mkCfg [%s] %s %s (%d)%%Z %d%%Z %d%%Z %s)" % (cells, qc(fr(case["diffc"])), qc(fr(case["timest"])), case["ishift"],
                                                       case["bcf"], case["bcl"], "true" if case["corrd"] else "false")


COQ_HEAD = """From Coq Require Import QArith ZArith List.
From IPV.C11 Require Import Transport Checker.
Import ListNotations.
Open Scope Q_scope.
"""


def coq_case_term(case, nmix_reported, items, with_mirror=True):
    """items: tuples from compare_tracer_case(collect=...)"""
    cfg = case_cfg(case)
    nmix, ms, _ = mixf(cfg)
    obs = []
    for (c, s, prev, cL, cR, o, tol) in items:
        mirror = one_shift(cfg, nmix, ms, cL, cR, prev) if with_mirror else []
        obs.append("mkObs %s %s %s %s %s %s" % (qc(cL), qc(cR), qlist(prev), qlist(o), qlist(tol), qlist(mirror)))
    mm = "[" + "; ".join("(%s, %s)" % (qc(a), qc(b)) for a, b in ms) + "]" if with_mirror else "[]"
    return "(check_case %s (%d)%%Z %s [%s])" % (coq_cfg(case), nmix_reported, mm, ";\n  ".join(obs))


def coq_run_cases(terms, shards=6, timeout=900):
    """terms: {key: coq term of type bool}. Evaluates them with vm_compute in `shards` parallel coqc runs.
    returns {key: True/False/None(no answer)} and the list of raw logs of failing shards"""
    import concurrent.futures as cf
    keys = list(terms)
    if not keys:
        return {}, []
    # balance shards by text size (a proxy for cost)
    order = sorted(keys, key=lambda k: -len(terms[k]))
    buckets = [[] for _ in range(max(1, min(shards, len(keys))))]
    sizes = [0] * len(buckets)
    for k in order:
        i = sizes.index(min(sizes))
        buckets[i].append(k)
        sizes[i] += len(terms[k])
    index = {k: n for n, k in enumerate(keys)}

    def one(b):
        txt = COQ_HEAD + "".join("Eval vm_compute in (%d%%nat, %s).\n" % (index[k], terms[k]) for k in b)
        return vlib.coq_eval(txt, timeout=timeout)

    out, logs = {k: None for k in keys}, []
    with cf.ThreadPoolExecutor(max_workers=len(buckets)) as ex:
        for rc, log in ex.map(one, buckets):
            for m in re.finditer(r"=\s*\((\d+)%nat,\s*(true|false)\)", log):
                out[keys[int(m.group(1))]] = (m.group(2) == "true")
            if rc != 0:
                logs.append(log[-1500:])
    return out, logs


def run(ctx):
    raise NotImplementedError
