"""C11 — transport only moves dissolved mass (conservation, exact shifts, bounded mixing).

Stages: (1) T-gen: translator/c11_initmix.py regenerates coq/Gen/Gen_C11_initmix.v from the current
transport.cpp; (2) Coq build of Props/Properties_C11.vo; (3) T-corr: conservative-tracer columns are run
through the implementation and compared per cell and shift (1e-9) with the exact-Q Coq model (verified
checker, `Eval vm_compute`) and with a python Fraction mirror of that model (cross-checked against the
Coq model inside Coq on every run); (4) implementation-side property checks (closed diffusion-only
inventory, exact advective shift, range boundedness, inventory with reactive solids).
"""
import json, math, os, re, sys
from fractions import Fraction as Fr
import vlib

TRACERS = ["Na", "K", "Cl", "Br", "Li"]
TOL = Fr(1, 10 ** 9)


# ----------------------------------------------------------------------------- python mirror of coq/C11/Transport.v

def fr(x):
    """exact rational of the double that PHREEQC reads from the decimal text x (str) or of a float"""
    return Fr(float(x))


def mixf(cfg):
    """cfg: dict(lens, disps: lists of Fraction; diffc, timest: Fraction; ishift, bcf, bcl: int; corrd: bool)
    returns (nmix, [(m, m1)...], maxmix) -- literal transcription of init_mix, multi_D false"""
    L, A = cfg["lens"], cfg["disps"]
    n = len(L)
    adv = cfg["ishift"] != 0
    corr = Fr(1)
    if cfg["corrd"] and adv:
        if cfg["bcf"] == 3:
            corr += Fr(1, n)
        if cfg["bcl"] == 3:
            corr += Fr(1, n)
    dh = 2 * cfg["diffc"] * cfg["timest"]
    m = [Fr(0)] * (n + 2)
    m1 = [Fr(0)] * (n + 2)
    dav = Fr(0)
    maxmix = Fr(0)
    for i in range(1, n + 1):
        li, ai = L[i - 1], A[i - 1]
        if i < n:
            lj, aj = L[i], A[i]
            if adv:
                if ai != 0:
                    dav = li / ai
                if aj != 0:
                    dav += lj / aj
                if dav != 0:
                    m1[i] = 2 / dav
            m1[i] += dh / (li * li + li * lj)
            m1[i] *= corr
        if i > 1:
            lj, aj = L[i - 2], A[i - 2]
            if adv:
                if ai != 0:
                    dav = li / ai
                if aj != 0:
                    dav += lj / aj
                if dav != 0:
                    m[i] = 2 / dav
            m[i] += dh / (li * li + li * lj)
            m[i] *= corr
        if m[i] + m1[i] > maxmix:
            maxmix = m[i] + m1[i]
    if cfg["bcf"] == 1:
        m[1] = dh / (L[0] * L[0])
        if adv:
            m[1] += A[0] / L[0]
        if m[1] + m1[1] > maxmix:
            maxmix = m[1] + m1[1]
    if cfg["bcl"] == 1:
        m1[n] = dh / (L[n - 1] * L[n - 1])
        if adv:
            m1[n] += A[n - 1] / L[n - 1]
        if m[n] + m1[n] > maxmix:
            maxmix = m[n] + m1[n]
    if maxmix == 0:
        nmix = 0
    else:
        nmix = 1 + (Fr(3, 2) * maxmix).__floor__()
        if adv and (cfg["bcf"] == 1 or cfg["bcl"] == 1) and nmix < 2:
            nmix = 2
        for i in range(1, n + 1):
            m[i] /= nmix
            m1[i] /= nmix
    return nmix, [(m[i], m1[i]) for i in range(1, n + 1)], maxmix


def mix_step(ms, cL, cR, cs):
    n = len(cs)
    out = []
    for i in range(n):
        prev = cL if i == 0 else cs[i - 1]
        nxt = cR if i == n - 1 else cs[i + 1]
        a, b = ms[i]
        out.append(a * prev + (1 - a - b) * cs[i] + b * nxt)
    return out


def one_shift(cfg, nmix, ms, cL, cR, cs):
    pre = nmix // 2 if (cfg["ishift"] == 0 or cfg["bcf"] == 1 or cfg["bcl"] == 1) else 0
    for _ in range(pre):
        cs = mix_step(ms, cL, cR, cs)
    if cfg["ishift"] > 0:
        cs = [cL] + cs[:-1]
    elif cfg["ishift"] < 0:
        cs = cs[1:] + [cR]
    for _ in range(nmix - pre):
        cs = mix_step(ms, cL, cR, cs)
    return cs


# ----------------------------------------------------------------------------- input text

SEL_BLOCK = """SELECTED_OUTPUT 1
 -reset false
 -high_precision true
 -state true
 -simulation true
 -solution true
 -step true
USER_PUNCH 1
 -headings %s
 10 PUNCH %s
END
"""


def sel_block(cols):
    """cols: list of (heading, BASIC expression)"""
    return SEL_BLOCK % (" ".join(h for h, _ in cols), ", ".join(e for _, e in cols))


TRACER_COLS = [("m" + t, 'TOTMOLE("%s")' % t) for t in TRACERS] + [("cb", "CHARGE_BALANCE"), ("mH", 'TOTMOLE("H")'), ("mO", 'TOTMOLE("O")')]


def dec(x):
    return repr(float(x))


def tracer_solution(k, conc, ph="7"):
    s = "SOLUTION %d\n pH %s\n units mmol/kgw\n" % (k, ph)
    for t in TRACERS:
        if conc.get(t):
            s += " %s %s\n" % (t, conc[t])
    return s


def transport_block(case, extra=""):
    n = case["n"]
    fl = {1: "forward", -1: "backward", 0: "diffusion_only"}[case["ishift"]]
    bc = {1: "constant", 2: "closed", 3: "flux"}
    s = "TRANSPORT\n -cells %d\n -shifts %d\n" % (n, case["shifts"])
    s += " -lengths %s\n" % " ".join(case["lens"])
    s += " -dispersivities %s\n" % " ".join(case["disps"])
    s += " -diffusion_coefficient %s\n" % case["diffc"]
    s += " -time_step %s\n" % case.get("timest_text", case["timest"])
    s += " -flow_direction %s\n" % fl
    s += " -boundary_conditions %s %s\n" % (bc[case["bcf"]], bc[case["bcl"]])
    s += " -correct_disp %s\n" % ("true" if case["corrd"] else "false")
    s += " -punch_cells 0-%d\n -punch_frequency 1\n -print_frequency 1000000\n -warnings true\n" % case.get("punch_to", n + 1)
    s += extra
    return s + "END\n"


def tracer_input(case):
    txt = "KNOBS\n -convergence_tolerance 1e-12\nPRINT\n -reset false\n" + sel_block(TRACER_COLS)
    for k in range(case["n"] + 2):
        txt += tracer_solution(k, case["sols"][k])
    txt += "END\n" + transport_block(case)
    return txt


# ----------------------------------------------------------------------------- generator (tracer columns)

DYADIC_LEN = ["0.25", "0.5", "0.75", "1", "1.25", "1.5", "2", "3", "0.125", "0.375"]
DYADIC_DISP = ["0", "0.0625", "0.125", "0.25", "0.5", "0.75", "1", "0.1875"]
DIFFC_DYADIC = "9.31322574615478515625e-10"      # 2^-30 exactly


def rnd_conc(rng):
    r = rng.random()
    if r < 0.25:
        return None
    if r < 0.35:
        return "1"
    return "%.4g" % (10 ** rng.uniform(-3, 1.3))


def gen_case(rng, lattice, maxcells=40, budget=4000):
    """one random column set-up inside the property's domain; `lattice` = dyadic lengths/dispersivities
    and a dyadic diffc*timest (small exact rationals: cheap for the exact-Q Coq model)"""
    r = rng.random()
    n = 1 if r < 0.06 else 2 if r < 0.12 else maxcells if r < 0.17 else rng.randint(3, min(maxcells, 12)) if r < 0.6 else rng.randint(3, maxcells)
    ishift = rng.choice([1, 1, -1, -1, 0, 0])
    bcf, bcl = rng.randint(1, 3), rng.randint(1, 3)
    corrd = rng.random() < 0.4
    equal_len = rng.random() < 0.45
    equal_disp = rng.random() < 0.4
    if lattice:
        lpool, dpool = DYADIC_LEN, DYADIC_DISP
        l0 = rng.choice(lpool)
        lens = [l0 if equal_len else rng.choice(lpool[:8]) for _ in range(n)]
        d0 = rng.choice(dpool)
        disps = [d0 if equal_disp else rng.choice(dpool) for _ in range(n)]
    else:
        l0 = "%.3g" % (10 ** rng.uniform(-2, 0.7))
        lens = [l0 if equal_len else "%.3g" % (float(l0) * rng.uniform(0.4, 2.5)) for _ in range(n)]
        zero_disp = rng.random() < 0.2
        d0 = "0" if zero_disp else "%.3g" % (float(l0) * 10 ** rng.uniform(-2, 0.1))
        disps = [d0 if equal_disp else ("0" if rng.random() < 0.15 else "%.3g" % (float(l0) * 10 ** rng.uniform(-2, 0.1))) for _ in range(n)]
    lmin = min(float(x) for x in lens)
    # diffusion: D*t / lmin^2 in [0, 2.5]
    r = rng.random()
    if ishift != 0 and r < 0.3:
        diffc, timest = ("0.3e-9", "0") if rng.random() < 0.5 else ("0", "3600")
    else:
        if lattice:
            diffc = DIFFC_DYADIC
            k = rng.choice([0.03125, 0.125, 0.25, 0.5, 1, 1.5, 2])
            timest = dec(k * lmin * lmin * 2.0 ** 30)
        else:
            diffc = rng.choice(["0.3e-9", "1e-9", "%.3ge-10" % rng.uniform(1, 90)])
            timest = "%.4g" % (rng.uniform(0.01, 2.5) * lmin * lmin / float(diffc))
    case = dict(n=n, ishift=ishift, bcf=bcf, bcl=bcl, corrd=corrd, lens=lens, disps=disps, diffc=diffc, timest=timest,
                lattice=lattice)
    nmix, _, _ = mixf(case_cfg(case))
    # exact rational arithmetic inside one shift grows with nmix: keep the model evaluation affordable
    if (lattice and (nmix > 12 or n * nmix > 300)) or (not lattice and (nmix > 6 or n * nmix > 150)):
        return gen_case(rng, lattice, maxcells, budget)
    nm = max(1, nmix)
    smax = max(1, min(12, budget // (n * nm)))
    case["shifts"] = rng.randint(1, smax)
    # solutions 0..n+1: a few templates + per-cell noise so that fronts and plateaus both occur
    templ = [{t: rnd_conc(rng) for t in TRACERS} for _ in range(3)]
    sols = []
    for k in range(n + 2):
        if k == 0 or k == n + 1 or rng.random() < 0.5:
            s = {t: rnd_conc(rng) for t in TRACERS}
        else:
            s = dict(templ[rng.randrange(3)])
        sols.append(s)
    case["sols"] = sols
    return case


def case_cfg(case):
    """the configuration init_mix sees: read_transport turns 'closed' into 'flux' when there is advection"""
    bcf, bcl = case["bcf"], case["bcl"]
    if case["ishift"] != 0:
        bcf = 3 if bcf == 2 else bcf
        bcl = 3 if bcl == 2 else bcl
    return dict(lens=[fr(x) for x in case["lens"]], disps=[fr(x) for x in case["disps"]], diffc=fr(case["diffc"]),
                timest=fr(case["timest"]), ishift=case["ishift"], bcf=bcf, bcl=bcl, corrd=case["corrd"])


# ----------------------------------------------------------------------------- reading results

def parse_rows(res, sims=None):
    """-> (initial solutions {soln: row}, step-0 rows {soln: row}, steps {step: {soln: row}}) from table 1; rows are dicts
    heading->value. sims = (simulation number of the SOLUTION definitions, number of the TRANSPORT run - the sim column of transport rows is simul_tr) restricts the rows
    (inputs with several TRANSPORT runs)"""
    init, steps, isol = {}, {}, {}
    rows = vlib.table_dicts(res.get("tables", {}).get("1"))
    for r in rows:
        st = r.get("state")
        if st == "i_soln":
            if sims is None or r.get("sim") == sims[0]:
                isol[r["soln"]] = r
        elif st == "transp":
            if sims is not None and r.get("sim") != sims[1]:
                continue
            if r["step"] == 0:
                init[r["soln"]] = r
            else:
                steps.setdefault(r["step"], {})[r["soln"]] = r
    return isol, init, steps


def reported_nmix(res):
    m = re.findall(r"Calculating transport: (\d+) \(mobile\) cells, (\d+) shifts, (\d+) mixruns", res.get("warn", ""))
    return int(m[-1][2]) if m else None


def near_integer(x, eps=Fr(1, 10 ** 9)):
    return abs(x - round(x)) <= eps * max(1, abs(x))


def slack(t):
    """what one speciation may legally change in a saved element total t (float, rounded up): the engine
    accepts a mass-balance row when |residual| <= convergence_tolerance * t (1e-12 here) or
    |residual| <= sqrt(t * MIN_TOTAL) (model.cpp: residuals / check_residuals) and the saved total is the
    species sum; plus rounding."""
    t = abs(t)
    return (max(t * 1e-12, (t * 1e-25) ** 0.5) + t * 1e-14) * 1.000001


def shift_slack(cfg, nmix, ms, after):
    """propagated engine slack for one transport step, per cell (floats): every mix run / the advective
    step ends with a speciation of each cell; convex mixing propagates earlier slack with the same weights."""
    n = len(after)
    e = [0.0] * n
    loc = [abs(float(x)) * 1.000001 for x in after]
    fms = [(float(a) * 1.000001, float(b) * 1.000001) for a, b in ms]
    steps = nmix + (1 if cfg["ishift"] != 0 else 0)
    for _ in range(steps):
        if nmix:
            e = [fms[i][0] * (e[i - 1] if i else 0.0) + e[i] + fms[i][1] * (e[i + 1] if i < n - 1 else 0.0) for i in range(n)]
        loc = [max(loc[max(0, i - 1):i + 2]) for i in range(n)]
        e = [e[i] + slack(loc[i]) for i in range(n)]
    return [Fr(x) for x in e]


def compare_tracer_case(case, res, collect=None, elcols=None):
    """stepwise comparison with the python mirror: the state the implementation reported after shift s-1 is
    pushed through one exact model shift and compared with what it reported after shift s.
    collect (list) receives (column, shift, prev, cL, cR, obs, tol) tuples for the Coq checker."""
    if res.get("timeout") or res.get("crash"):
        return dict(status="engine-timeout" if res.get("timeout") else "engine-crash", detail=res.get("stderr", "")[-300:])
    if res.get("rc", 1) != 0:
        return dict(status="engine-error", detail=res.get("err", "")[-300:])
    cfg = case_cfg(case)
    nmix, ms, maxmix = mixf(cfg)
    rn = reported_nmix(res)
    if rn is None:
        return dict(status="no-nmix", detail=res.get("warn", "")[-300:])
    if rn != nmix:
        if near_integer(Fr(3, 2) * maxmix) and abs(rn - nmix) <= 1:
            return dict(status="nmix-rounding-ambiguous", detail="1.5*maxmix=%s" % float(Fr(3, 2) * maxmix))
        return dict(status="mismatch", what="nmix", observed=rn, expected=nmix, detail="maxmix=%s" % float(maxmix))
    isol, init, steps = parse_rows(res, case.get("sims"))
    n = case["n"]
    cols = list(elcols or ["m" + t for t in TRACERS]) + ["cb"]
    if nmix == 0 and case["ishift"] == 0:
        return dict(status="ok-nothing-moves", nmix=0, detail="")
    try:
        obs = {0: {c: [Fr(init[k][c]) for k in range(1, n + 1)] for c in cols}}
        bnd = {c: (Fr((init.get(0) or isol[0])[c]), Fr((init.get(n + 1) or isol[n + 1])[c])) for c in cols}
        for s in range(1, case["shifts"] + 1):
            obs[s] = {c: [Fr(steps[s][k][c]) for k in range(1, n + 1)] for c in cols}
    except KeyError as ex:
        return dict(status="missing-rows", detail=repr(ex))
    worst = Fr(0)
    for s in range(1, case["shifts"] + 1):
        # charge is a signed combination of the ion amounts: its slack is that of the ions
        ion_e = [Fr(0)] * n
        for c in cols:
            prev = obs[s - 1][c]
            exp = one_shift(cfg, nmix, ms, bnd[c][0], bnd[c][1], prev)
            if c != "cb":
                e = shift_slack(cfg, nmix, ms, exp)
                ion_e = [ion_e[i] + e[i] + TOL * abs(exp[i]) for i in range(n)]
                tol = [TOL * abs(exp[i]) + e[i] for i in range(n)]
            else:
                tol = [3 * ion_e[i] + Fr(1, 10 ** 18) for i in range(n)]
            if collect is not None:
                collect.append((c, s, prev, bnd[c][0], bnd[c][1], obs[s][c], tol))
            for i in range(n):
                d = abs(obs[s][c][i] - exp[i])
                if d > tol[i]:
                    return dict(status="mismatch", what="%s cell %d shift %d" % (c, i + 1, s), observed=float(obs[s][c][i]),
                                expected=float(exp[i]), detail="nmix=%d tol=%.3g diff=%.3g" % (nmix, float(tol[i]), float(d)))
                if exp[i] > Fr(1, 10 ** 6):
                    worst = max(worst, d / exp[i])
    return dict(status="ok", nmix=nmix, worst=float(worst), detail="")


# ----------------------------------------------------------------------------- Coq cases

def qc(x):
    x = Fr(x)
    return "(%d # %d)" % (x.numerator, x.denominator) if x.numerator >= 0 else "((%d) # %d)" % (x.numerator, x.denominator)


def qlist(xs):
    return "[" + "; ".join(qc(x) for x in xs) + "]"


def coq_cfg(case):
    if case.get("coq_cfg"):
        return case["coq_cfg"]
    cells = "; ".join("mkCell %s %s" % (qc(fr(l)), qc(fr(d))) for l, d in zip(case["lens"], case["disps"]))
    return "(mkCfg [%s] %s %s (%d)%%Z %d%%Z %d%%Z %s)" % (cells, qc(fr(case["diffc"])), qc(fr(case["timest"])), case["ishift"],
                                                       case["bcf"], case["bcl"], "true" if case["corrd"] else "false")


COQ_HEAD = """From Coq Require Import QArith ZArith List.
From IPV.C11 Require Import Transport Checker McdMix McdMixProofs Setup.
Import ListNotations.
Open Scope Q_scope.
"""


def coq_case_term(case, nmix_reported, items, with_mirror=True):
    """items: tuples from compare_tracer_case(collect=...)"""
    cfg = case_cfg(case)
    nmix, ms, _ = mixf(cfg)
    obs = []
    for (c, s, prev, cL, cR, o, tol) in items:
        mirror = one_shift(cfg, nmix, ms, cL, cR, prev) if with_mirror else []
        obs.append("mkObs %s %s %s %s %s %s" % (qc(cL), qc(cR), qlist(prev), qlist(o), qlist(tol), qlist(mirror)))
    mm = "[" + "; ".join("(%s, %s)" % (qc(a), qc(b)) for a, b in ms) + "]" if with_mirror else "[]"
    return "(check_case %s (%d)%%Z %s [%s])" % (coq_cfg(case), nmix_reported, mm, ";\n  ".join(obs))


def coq_run_cases(terms, shards=6, timeout=900):
    """terms: {key: coq term of type bool}. Evaluates them with vm_compute in `shards` parallel coqc runs.
    returns {key: True/False/None(no answer)} and the list of raw logs of failing shards"""
    import concurrent.futures as cf
    keys = list(terms)
    if not keys:
        return {}, []
    # balance shards by text size (a proxy for cost)
    order = sorted(keys, key=lambda k: -len(terms[k]))
    buckets = [[] for _ in range(max(1, min(shards, len(keys))))]
    sizes = [0] * len(buckets)
    for k in order:
        i = sizes.index(min(sizes))
        buckets[i].append(k)
        sizes[i] += len(terms[k])
    index = {k: n for n, k in enumerate(keys)}

    def one(b):
        txt = COQ_HEAD + "".join("Eval vm_compute in (%d%%nat, %s).\n" % (index[k], terms[k]) for k in b)
        return vlib.coq_eval(txt, timeout=timeout)

    out, logs = {k: None for k in keys}, []
    with cf.ThreadPoolExecutor(max_workers=len(buckets)) as ex:
        for rc, log in ex.map(one, buckets):
            for m in re.finditer(r"=\s*\((\d+)%nat,\s*(true|false)\)", log):
                out[keys[int(m.group(1))]] = (m.group(2) == "true")
            if rc != 0:
                logs.append(log[-1500:])
    return out, logs


# ----------------------------------------------------------------------------- chemistry-rich columns (implementation-side checks)

RICH_ELS = ["Na", "K", "Ca", "Mg", "Cl", "S", "C", "N"]
RICH_COLS = [("m" + e, 'TOTMOLE("%s")' % e) for e in RICH_ELS] + [("cb", "CHARGE_BALANCE"), ("mH", 'TOTMOLE("H")'),
                                                                  ("mO", 'TOTMOLE("O")'), ("pH", '-LA("H+")'), ("w", 'TOT("water")')]
SYS_ELS = ["Na", "K", "Ca", "Mg", "Cl", "S", "C", "H", "O"]
SYS_COLS = [("s" + e, 'SYS("%s")' % e) for e in SYS_ELS]
# the element-name prefix families of the multi_D negative-concentration repair (see notes/C11.md, finding 1)
PREFIX_FAMILIES = [["mC", "mCa", "mCl"], ["mN", "mNa"]]


def rich_solution(rng, k, water=None, lo=0.5, hi=20.0):
    """charge-balanced solution with mmol-range concentrations (the balancing ion gets `charge`)"""
    cat = {"Na": 1, "K": 1, "Ca": 2, "Mg": 2}
    an = {"Cl": 1, "S(6)": 2, "Alkalinity": 1, "N(5)": 1}
    conc = {}
    for e in list(cat) + list(an):
        if rng.random() < 0.75:
            conc[e] = float("%.4g" % (10 ** rng.uniform(math.log10(lo), math.log10(hi))))
    pos = sum(cat[e] * conc.get(e, 0) for e in cat)
    neg = sum(an[e] * conc.get(e, 0) for e in an)
    if pos >= neg:
        conc["Cl"] = float("%.4g" % (conc.get("Cl", 0) + (pos - neg) + 1.0))
        bal = "Cl"
    else:
        conc["Na"] = float("%.4g" % (conc.get("Na", 0) + (neg - pos) + 1.0))
        bal = "Na"
    t = "SOLUTION %d\n units mmol/kgw\n pH %.2f\n temp 25\n" % (k, rng.uniform(6.3, 8.3))
    for e in list(cat) + list(an):
        if e in conc:
            t += " %s %s%s\n" % (e, dec(conc[e]), " charge" if e == bal else "")
    if water:
        t += " -water %s\n" % water
    return t


def build_input(case):
    txt = "KNOBS\n -convergence_tolerance 1e-12\nPRINT\n -reset false\n" + sel_block(case["cols"])
    txt += "".join(case["soltext"]) + case.get("blocks", "") + "END\n"
    if case.get("keyword") == "ADVECTION":
        n = case["n"]
        txt += "ADVECTION\n -cells %d\n -shifts %d\n -punch_cells 1-%d\n -punch_frequency 1\n -print_frequency 1000000\nEND\n" % (n, case["shifts"], n)
    else:
        txt += transport_block(case, case.get("extra", ""))
    return txt


def column_geometry(rng, n, equal_len, dispersive, nmix_max=6):
    l0 = "%.3g" % (10 ** rng.uniform(-2, 0.5))
    lens = [l0 if equal_len else "%.3g" % (float(l0) * rng.uniform(0.5, 2.0)) for _ in range(n)]
    lmin = min(float(x) for x in lens)
    disps = ["%.3g" % (lmin * 10 ** rng.uniform(-1.5, -0.1)) if dispersive else "0" for _ in range(n)]
    diffc = rng.choice(["0.3e-9", "1e-9", "2.5e-9"])
    timest = "%.4g" % (rng.uniform(0.05, 0.3 * nmix_max) * lmin * lmin / float(diffc))
    return lens, disps, diffc, timest


def gen_rich_dispersive(rng):
    """advective-dispersive / diffusive column with full chemistry, single diffusion coefficient"""
    n = rng.choice([1, 2, 3, 4, 6, 8, 12, 16, 25, 40])
    ishift = rng.choice([1, -1, 0])
    lens, disps, diffc, timest = column_geometry(rng, n, rng.random() < 0.5, ishift != 0, nmix_max=4)
    case = dict(kind="rich", n=n, ishift=ishift, bcf=rng.randint(1, 3), bcl=rng.randint(1, 3), corrd=rng.random() < 0.4,
                lens=lens, disps=disps, diffc=diffc, timest=timest, lattice=False)
    nmix, _, _ = mixf(case_cfg(case))
    if nmix > 6 or n * nmix > 150:
        return gen_rich_dispersive(rng)
    case["shifts"] = rng.randint(1, max(1, min(8, 1500 // (n * max(1, nmix)))))
    case["soltext"] = [rich_solution(rng, k) for k in range(n + 2)]
    case["cols"] = RICH_COLS
    case["elcols"] = ["m" + e for e in RICH_ELS]
    return case


def gen_inventory(rng, mode):
    """closed, diffusion-only column. mode: single (one D, equal lengths) | mcd | implicit | solids | stagnant"""
    n = rng.choice([1, 2, 3, 5, 8, 12, 20, 40]) if mode != "stagnant" else rng.choice([1, 2, 3, 5, 8])
    equal = True if mode in ("single", "solids", "stagnant") else rng.random() < 0.5
    lens, disps, diffc, timest = column_geometry(rng, n, equal, False, nmix_max=5)
    closed2 = rng.choice([2, 3]) if mode in ("single", "solids") else 2
    case = dict(kind="inventory", mode=mode, n=n, ishift=0, bcf=rng.choice([2, closed2]), bcl=closed2, corrd=rng.random() < 0.3,
                lens=lens, disps=["0"] * n, diffc=diffc, timest=timest, lattice=False)
    case["shifts"] = rng.randint(1, max(1, min(8, 300 // n)))
    case["soltext"] = [rich_solution(rng, k) for k in range(n + 2)]
    case["cols"] = RICH_COLS
    case["elcols"] = ["m" + e for e in RICH_ELS] + ["mH", "mO"]
    case["ncell_rows"] = list(range(1, n + 1))
    extra = ""
    if mode in ("mcd", "implicit"):
        extra = " -multi_d true 1e-9 %.2f 0.05 1.0\n" % rng.uniform(0.1, 0.5)
        if mode == "implicit":
            extra += " -implicit true\n"
    if mode == "solids":
        b = ""
        for k in range(1, n + 1):
            if rng.random() < 0.8:
                b += "EQUILIBRIUM_PHASES %d\n Calcite 0 %s\n" % (k, dec(round(rng.uniform(0, 0.01), 5)))
                if rng.random() < 0.3:
                    b += " Gypsum 0 %s\n" % dec(round(rng.uniform(0, 0.005), 5))
            if rng.random() < 0.7:
                b += "EXCHANGE %d\n X %s\n -equilibrate %d\n" % (k, dec(round(rng.uniform(0.001, 0.02), 5)), k)
        case["blocks"] = b
        case["cols"] = SYS_COLS + [("cb", "CHARGE_BALANCE")]
        case["elcols"] = ["s" + e for e in SYS_ELS]
    if mode == "stagnant":
        # one stagnant layer; water of the immobile cells = th_im/th_m kg so that the mobile/immobile mix is conservative
        th_m, th_im = rng.choice([(0.3, 0.1), (0.2, 0.2), (0.25, 0.05)])
        w = dec(th_im / th_m)
        for k in range(1, n + 1):
            case["soltext"].append(rich_solution(rng, k + 1 + n, water=w))
        extra += " -stagnant 1 %s %s %s\n" % (dec(10 ** rng.uniform(-7, -5.5)), dec(th_m), dec(th_im))
        case["ncell_rows"] = list(range(1, n + 1)) + [k + 1 + n for k in range(1, n + 1)]
        case["punch_to"] = 2 * n + 1
    case["extra"] = extra
    return case


def gen_advect(rng):
    """pure advection: ADVECTION keyword, or TRANSPORT without dispersivity and diffusion"""
    n = rng.choice([1, 2, 3, 5, 8, 13, 21, 40])
    kw = rng.choice(["ADVECTION", "TRANSPORT", "TRANSPORT"])
    ishift = 1 if kw == "ADVECTION" else rng.choice([1, -1])
    case = dict(kind="advect", keyword=kw, n=n, ishift=ishift, bcf=rng.choice([2, 3]), bcl=rng.choice([2, 3]), corrd=rng.random() < 0.5,
                lens=["%.3g" % (10 ** rng.uniform(-2, 0.5))] * n, disps=["0"] * n, lattice=False)
    case["diffc"], case["timest"] = rng.choice([("0", "3600"), ("0.3e-9", "0"), ("0", "0")])
    case["shifts"] = rng.randint(1, max(1, min(n + 3, 600 // n)))
    case["soltext"] = [rich_solution(rng, k, lo=0.05) for k in range(n + 2)]
    case["cols"] = RICH_COLS
    case["elcols"] = ["m" + e for e in RICH_ELS] + ["mH", "mO", "w"]
    return case


def first_rows(case, res):
    """(state before the first shift {cell: row}, steps) ; boundary / ADVECTION rows come from the initial solutions"""
    isol, init, steps = parse_rows(res, case.get("sims"))
    if case.get("keyword") == "ADVECTION":
        rows = vlib.table_dicts(res.get("tables", {}).get("1"))
        steps = {}
        for r in rows:
            if r.get("state") == "advect":
                steps.setdefault(r["step"], {})[r["soln"]] = r
        return dict(isol), steps
    start = dict(isol)
    start.update(init)
    return start, steps


def engine_status(res):
    if res.get("timeout"):
        return "engine-timeout"
    if res.get("crash"):
        return "engine-crash"
    if res.get("rc", 1) != 0:
        return "engine-error"
    return None


def rel_close(o, e, scale=None):
    o, e = Fr(o), Fr(e)
    ref = abs(Fr(scale)) if scale is not None else abs(e)
    return abs(o - e) <= TOL * ref + Fr(1, 10 ** 18)


def check_range(case, res):
    """every element amount per kg water (molality) in every cell stays within the range of the initial column
    and boundary solutions (single diffusion coefficient)"""
    st = engine_status(res)
    if st:
        return dict(status=st, detail=res.get("err", "")[-300:])
    start, steps = first_rows(case, res)
    n = case["n"]
    for c in case["elcols"]:
        if c in ("mH", "mO", "w"):
            continue
        try:
            vals = [Fr(start[k][c]) / (Fr(start[k]["w"]) if "w" in start[k] else 1) for k in range(0, n + 2) if k in start]
        except KeyError as ex:
            return dict(status="missing-rows", detail=repr(ex))
        lo, hi = min(vals), max(vals)
        for s in sorted(steps):
            for k in range(1, n + 1):
                if k not in steps[s]:
                    continue
                v = Fr(steps[s][k][c]) / (Fr(steps[s][k]["w"]) if "w" in steps[s][k] else 1)
                if v < lo - TOL * abs(lo) - Fr(1, 10 ** 15) or v > hi + TOL * abs(hi) + Fr(1, 10 ** 15):
                    return dict(status="mismatch", what="range %s cell %d shift %d" % (c, k, s), observed=float(v),
                                expected="[%r, %r]" % (float(lo), float(hi)), detail="")
    return dict(status="ok", detail="")


def check_inventory(case, res):
    """closed diffusion-only column: the inventory of every element (and charge) is constant, relative 1e-9"""
    st = engine_status(res)
    if st:
        return dict(status=st, detail=res.get("err", "")[-300:])
    added = "Negative concentration in MCD" in res.get("warn", "")
    isol, init, steps = parse_rows(res, case.get("sims"))
    cells = case["ncell_rows"]
    if not steps:
        return dict(status="ok-nothing-moves", detail="")
    try:
        t0 = {c: sum(Fr(init[k][c]) for k in cells) for c in case["elcols"] + ["cb"]}
        ion = sum(abs(t0[c]) for c in case["elcols"] if c not in ("mH", "mO", "sH", "sO"))
        worst = (Fr(0), None)
        bad = []
        for s in sorted(steps):
            if any(k not in steps[s] for k in cells):
                continue            # rows of stagnant cells are punched only at the end of a shift
            for c in case["elcols"] + ["cb"]:
                ts = sum(Fr(steps[s][k][c]) for k in cells)
                scale = ion if c == "cb" else abs(t0[c])
                # implicit diffusion keeps every element it tracks at >= min_mol = 1e-13 mol per cell (transport.cpp:
                # diffuse_implicit / add_MCD_moles): a declared absolute floor, allowed for on top of the 1e-9
                floor = Fr(2 * len(cells), 10 ** 13) if case.get("mode") == "implicit" else Fr(0)
                if abs(ts - t0[c]) <= floor:
                    continue
                if scale == 0:
                    bad.append((c, s, float(ts), 0.0))
                    continue
                d = (abs(ts - t0[c]) - floor) / scale
                if d > worst[0]:
                    worst = (d, c)
                if d > TOL:
                    bad.append((c, s, float(ts), float(t0[c])))
    except KeyError as ex:
        return dict(status="missing-rows", detail=repr(ex))
    if bad:
        # is it the known element-name-prefix repair (family sums conserved, members not)?
        fam_ok = False
        badcols = set(b[0] for b in bad)
        for fam in PREFIX_FAMILIES:
            if badcols and badcols <= set(fam) and all(f in t0 for f in fam):
                f0 = sum(t0[f] for f in fam)
                fam_ok = all(abs(sum(Fr(steps[s][k][f]) for k in cells for f in fam) - f0) <= TOL * abs(f0)
                             for s in sorted(steps) if all(k in steps[s] for k in cells))
        c, s, o, e = bad[0]
        return dict(status="mismatch", what="inventory %s after shift %d" % (c, s), observed=o, expected=e,
                    detail="relative %.3g%s" % (abs(o - e) / abs(e) if e else float("inf"),
                                                 "; the engine reports 'Negative concentration in MCD: added ...'" if added else ""),
                    prefix_family=fam_ok, added=added)
    return dict(status="ok-engine-added-mass-below-tolerance" if added else "ok", worst=float(worst[0]), detail="")


def check_exact_shift(case, res):
    """pure advection: the solution in cell i after a shift equals the previous solution of its upstream neighbour"""
    st = engine_status(res)
    if st:
        return dict(status=st, detail=res.get("err", "")[-300:])
    start, steps = first_rows(case, res)
    n = case["n"]
    up = 1 if case["ishift"] > 0 else -1
    prev = start
    for s in range(1, case["shifts"] + 1):
        if s not in steps:
            return dict(status="missing-rows", detail="shift %d" % s)
        cur = dict(steps[s])
        for k in range(1, n + 1):
            src = k - up
            srow = prev.get(src) if 1 <= src <= n else start.get(src)
            if srow is None or k not in cur:
                return dict(status="missing-rows", detail="cell %d shift %d" % (k, s))
            for c in case["elcols"] + ["cb", "pH"]:
                if c == "pH":
                    # pH is compared only between two reaction-state rows (the pH of an initial-solution row is the input value)
                    ok = srow.get("state") == "i_soln" or abs(cur[k][c] - srow[c]) <= 1e-7
                elif c == "cb":
                    ok = rel_close(cur[k][c], srow[c], scale=sum(abs(Fr(srow["m" + e])) for e in RICH_ELS))
                else:
                    ok = rel_close(cur[k][c], srow[c])
                if not ok:
                    return dict(status="mismatch", what="shift: %s cell %d shift %d (source cell %d)" % (c, k, s, src),
                                observed=cur[k][c], expected=srow[c], detail="")
        # boundary rows keep their initial values
        for b in (0, n + 1):
            if b not in cur and b in start:
                cur[b] = start[b]
        prev = cur
    return dict(status="ok", detail="")


# ----------------------------------------------------------------------------- MCD branch of init_mix: number of sub-steps

def mcd_nmix(cfg, dmax, substeps):
    """literal transcription of init_mix, `if (multi_Dflag)`, explicit (not implicit) diffusion, no stagnant zones.
    returns (nmix, maxmix, factor*maxmix)"""
    L, A = cfg["lens"], cfg["disps"]
    n = len(L)
    adv = cfg["ishift"] != 0
    corr = Fr(1)
    if cfg["corrd"] and adv:
        if cfg["bcf"] == 3:
            corr += Fr(1, n)
        if cfg["bcl"] == 3:
            corr += Fr(1, n)
    dt = dmax * cfg["timest"]
    m = [Fr(0)] * (n + 2)
    m1 = [Fr(0)] * (n + 2)
    dav = Fr(0)
    maxmix = Fr(0)
    for i in range(1, n + 1):
        if i < n:
            lav = (L[i] + L[i - 1]) / 2
            mD = dt / (lav * lav)
            if mD > maxmix:
                maxmix = mD
        if adv:
            if i < n:
                if A[i - 1] != 0:
                    dav = L[i - 1] / A[i - 1]
                if A[i] != 0:
                    dav += L[i] / A[i]
                if dav != 0:
                    m1[i] = 2 * corr / dav
            if i > 1:
                if A[i - 1] != 0:
                    dav = L[i - 1] / A[i - 1]
                if A[i - 2] != 0:
                    dav += L[i - 2] / A[i - 2]
                if dav != 0:
                    m[i] = 2 * corr / dav
            if m[i] + m1[i] > maxmix:
                maxmix = m[i] + m1[i]
    if cfg["bcf"] == 1:
        mD = 2 * dt / (L[0] * L[0])
        if mD > maxmix:
            maxmix = mD
        if adv:
            m[1] = 2 * A[0] / L[0] * corr
            if m[1] + m1[1] > maxmix:
                maxmix = m[1] + m1[1]
    if cfg["bcl"] == 1:
        mD = 2 * dt / (L[n - 1] * L[n - 1])
        if mD > maxmix:
            maxmix = mD
        if adv:
            m1[n] = 2 * A[n - 1] / L[n - 1] * corr
            if m[n] + m1[n] > maxmix:
                maxmix = m[n] + m1[n]
    if maxmix == 0:
        return 0, maxmix, Fr(0)
    cb = cfg["bcf"] == 1 or cfg["bcl"] == 1
    f = Fr(9, 4) if cb else Fr(3, 2)
    k = 1 + (f * maxmix).__floor__()
    if adv and cb and k < 2:
        k = 2
    if substeps > 1:
        k = (k * substeps).__ceil__()
    return k, maxmix, f * maxmix


def run_mcd_inputs(jobs, timeout_each=120, workers=6):
    """like vlib.run_inputs but through harness/c11_mcd.cpp, which also reports what init_mix saw (diffc_max, nmix, ...)"""
    import concurrent.futures as cf
    exe = vlib.build_harness("c11_mcd", ["c11_mcd.cpp"])
    res = {}
    if not jobs:
        return res
    dbp = os.path.join(vlib.DB, "phreeqc.dat")
    with vlib.scratch("c11mcd") as d:
        nb = max(1, min(workers * 2, len(jobs)))
        batches = [list(range(len(jobs)))[k::nb] for k in range(nb)]

        def run_batch(bi, idxs):
            out = {}
            todo = list(idxs)
            att = 0
            while todo:
                att += 1
                wd = os.path.join(d, "w%d_%d" % (bi, att))
                os.makedirs(wd, exist_ok=True)
                with open(os.path.join(wd, "jobs.tsv"), "w") as f:
                    for i in todo:
                        fn = os.path.join(wd, "in%05d.pqi" % i)
                        open(fn, "w").write(jobs[i]["text"])
                        f.write("%d\t%s\t%s\t\n" % (i, dbp, fn))
                rc, so, se = vlib.sh([exe, os.path.join(wd, "jobs.tsv")], cwd=wd, timeout=timeout_each * len(todo) + 20)
                done = set()
                for line in so.split("\n"):
                    if line.startswith("{"):
                        try:
                            r = json.loads(line)
                        except Exception:
                            continue
                        out[int(r["job"])] = r
                        done.add(int(r["job"]))
                rest = [i for i in todo if i not in done]
                if not rest:
                    break
                out[rest[0]] = {"timeout": rc == 124, "crash": rc != 124, "stderr": se[-1000:]}
                todo = rest[1:]
            return out

        with cf.ThreadPoolExecutor(max_workers=workers) as ex:
            for o in ex.map(lambda a: run_batch(*a), enumerate(batches)):
                for i, r in o.items():
                    res[jobs[i]["id"]] = r
    return res


def gen_mcd_stability(rng):
    """explicit multicomponent diffusion with UNEQUAL cell lengths: the finest cells at the end / start / middle / anywhere,
    time steps from below the stability limit to far above it, all boundary pairs, with and without advection"""
    n = rng.choice([2, 3, 4, 5, 6, 8, 10, 12])
    where = rng.choice(["end", "end", "start", "middle", "random", "equal"])
    coarse = 10 ** rng.uniform(-1.5, 0.3)
    ratio = rng.choice([0.1, 0.2, 0.3, 0.5])
    nf = rng.choice([1, 2, 2, 3]) if n > 2 else 1
    lens = [coarse * rng.uniform(0.9, 1.1) for _ in range(n)]
    if where == "end":
        idx = list(range(n - nf, n))
    elif where == "start":
        idx = list(range(0, nf))
    elif where == "middle":
        a = max(1, n // 2 - nf // 2)
        idx = list(range(a, min(n - 1, a + nf)))
    elif where == "random":
        idx = rng.sample(range(n), min(n, nf))
    else:
        idx = []
    for k in idx:
        lens[k] = coarse * ratio * rng.uniform(0.95, 1.05)
    lens = ["%.3g" % x for x in lens]
    L = [float(x) for x in lens]
    lavmin = min([(L[k] + L[k + 1]) / 2 for k in range(n - 1)] or [L[0]])
    ishift = rng.choice([0, 0, 0, 1, -1])
    bcs = [2, 2, 3, 1]
    bcf, bcl = rng.choice(bcs), rng.choice(bcs)
    if ishift == 0 and rng.random() < 0.5:
        bcf = bcl = 2
    por = round(rng.uniform(0.1, 0.5), 2)
    dmax_est = 9.31e-9 * por
    F = rng.choice([0.2, 0.6, 0.9, 2.0, 5.0, 12.0, 30.0])       # Fourier number of the finest interface for the whole time step
    timest = "%.4g" % (F * lavmin * lavmin / dmax_est)
    disps = ["%.3g" % (min(L) * 10 ** rng.uniform(-1.5, -0.3)) if ishift != 0 else "0" for _ in range(n)]
    sub = rng.choice([None, None, None, "1.5", "2"])
    case = dict(kind="mcd-stability", mode="mcd", n=n, ishift=ishift, bcf=bcf, bcl=bcl, corrd=rng.random() < 0.3, lens=lens, disps=disps,
                diffc="0.3e-9", timest=timest, lattice=False, where=where, fourier_target=F, substeps=sub or "1")
    case["timest_text"] = timest if sub is None else "%s sec %s" % (timest, sub)
    case["shifts"] = rng.randint(1, 3)
    case["soltext"] = [rich_solution(rng, k) for k in range(n + 2)]
    case["cols"] = RICH_COLS
    case["elcols"] = ["m" + e for e in RICH_ELS] + ["mH", "mO"]
    case["ncell_rows"] = list(range(1, n + 1))
    case["extra"] = " -multi_d true 1e-9 %.2f 0.05 1.0\n" % por
    return case


def check_mcd_nmix(case, res):
    """the number of mixruns init_mix returned for explicit MCD equals the model's (computed from the diffc_max the engine
    had at that moment), hence (theorem mcd_substeps_bound_every_interface) every interface is stable"""
    st = engine_status(res)
    if st:
        return dict(status=st, detail=res.get("err", "")[-300:])
    im = res.get("initmix")
    if not im:
        return dict(status="no-initmix-report", detail=res.get("warn", "")[-200:])
    cfg = case_cfg(case)
    cfg["timest"] = Fr(float.fromhex(im["timest"]))
    dmax = Fr(float.fromhex(im["diffc_max"]))
    sub = Fr(float.fromhex(im["mcd_substeps"]))
    nm, mx, fm = mcd_nmix(cfg, dmax, sub)
    L = cfg["lens"]
    worst = max([dmax * cfg["timest"] / (((L[k] + L[k + 1]) / 2) ** 2) for k in range(len(L) - 1)] or [Fr(0)])
    if im["nmix"] != nm:
        if (near_integer(fm) or (sub > 1 and near_integer(fm * sub))) and abs(im["nmix"] - nm) <= (1 if sub <= 1 else sub.__ceil__() + 1):
            return dict(status="nmix-rounding-ambiguous", detail="")
        return dict(status="mismatch", what="MCD mixruns", observed=im["nmix"], expected=nm,
                    detail="diffc_max=%.6g timest=%.6g: largest interface Fourier number %.4g needs > %.4g sub-steps"
                           % (float(dmax), float(cfg["timest"]), float(worst), float(Fr(3, 2) * worst)),
                    coq=(dmax, sub, im["nmix"]))
    return dict(status="ok", nmix=nm, detail="", coq=(dmax, sub, im["nmix"]))


def coq_mcd_term(case, dmax, sub, reported):
    return "(McdMixProofs.check_mcd_nmix %s %s %s (%d)%%Z)" % (coq_cfg(case), qc(dmax), qc(sub), reported)


# ----------------------------------------------------------------------------- several TRANSPORT runs on one instance (cell set-up)

def fill_setup(dflt, old_cells, mx, prev, given):
    """mirror of coq/C11/Setup.v fill (readtr.cpp: 'Fill in data for lengths / dispersivities'); values are decimal texts"""
    if not given:
        return [dflt] * mx if old_cells < mx else list(prev[:mx])
    return list(given[:mx]) + [given[-1]] * (mx - len(given))


def seq_transport_block(n, shifts, gl, gd, diffc, timest, ishift, bcf, bcl, corrd):
    fl = {1: "forward", -1: "backward", 0: "diffusion_only"}[ishift]
    bc = {1: "constant", 2: "closed", 3: "flux"}
    t = "TRANSPORT\n -cells %d\n -shifts %d\n" % (n, shifts)
    if gl:
        t += " -lengths %s\n" % " ".join(gl)
    if gd:
        t += " -dispersivities %s\n" % " ".join(gd)
    t += " -diffusion_coefficient %s\n -time_step %s\n -flow_direction %s\n" % (diffc, timest, fl)
    t += " -boundary_conditions %s %s\n -correct_disp %s\n" % (bc[bcf], bc[bcl], "true" if corrd else "false")
    t += " -punch_cells 0-%d\n -punch_frequency 1\n -print_frequency 1000000\n -warnings true\nEND\n" % (n + 1)
    return t


def gen_sequence(rng):
    """two TRANSPORT runs on one instance: the second has more / the same number of / fewer cells and gives -lengths and
    -dispersivities fully, partly (last value is repeated) or not at all (defaults 1 m and 0, or the former values are retained)"""
    def given(n, pool, avoid):
        r = rng.random()
        vals = [rng.choice([x for x in pool if x != avoid]) for _ in range(n)]
        if rng.random() < 0.5:
            vals = [vals[0]] * n
        if r < 0.45:
            return []
        if r < 0.7 and n > 1:
            return vals[:rng.randint(1, n - 1)]
        return vals
    n1 = rng.randint(1, 8)
    r = rng.random()
    n2 = rng.randint(n1 + 1, n1 + 5) if r < 0.6 else n1 if r < 0.8 else rng.randint(1, n1)
    gl1 = given(n1, DYADIC_LEN[:8], "1") or ([rng.choice(["0.25", "0.5", "2"])] if rng.random() < 0.8 else [])
    gd1 = given(n1, DYADIC_DISP, "0") or ([rng.choice(["0.125", "0.5"])] if rng.random() < 0.8 else [])
    gl2 = given(n2, DYADIC_LEN[:8], None)
    gd2 = given(n2, DYADIC_DISP, None)
    L1, D1 = fill_setup("1", 0, n1, [], gl1), fill_setup("0", 0, n1, [], gd1)
    L2, D2 = fill_setup("1", n1, n2, L1, gl2), fill_setup("0", n1, n2, D1, gd2)
    ishift = rng.choice([0, 0, 1, -1])
    bcf, bcl = (rng.choice([2, 3]), rng.choice([2, 3])) if rng.random() < 0.6 else (rng.randint(1, 3), rng.randint(1, 3))
    lmin = min(float(x) for x in L2)
    if ishift != 0 and rng.random() < 0.4:
        diffc, timest = "0", "3600"
    else:
        diffc = DIFFC_DYADIC
        timest = dec(rng.choice([0.125, 0.25, 0.5, 1]) * lmin * lmin * 2.0 ** 30)
    case = dict(kind="sequence", n=n2, ishift=ishift, bcf=bcf, bcl=bcl, corrd=rng.random() < 0.3, lens=L2, disps=D2, diffc=diffc,
                timest=timest, lattice=True, sims=(4, 2), n1=n1, gl1=gl1, gd1=gd1, gl2=gl2, gd2=gd2)
    nmix, _, _ = mixf(case_cfg(case))
    if nmix > 8:
        return gen_sequence(rng)
    case["shifts"] = rng.randint(1, 4)
    case["sols1"] = [{t: rnd_conc(rng) for t in TRACERS} for _ in range(n1 + 2)]
    case["sols"] = [{t: rnd_conc(rng) for t in TRACERS} for _ in range(n2 + 2)]
    case["run1"] = dict(shifts=rng.randint(1, 2), diffc=DIFFC_DYADIC, timest=dec(0.25 * min(float(x) for x in L1) ** 2 * 2.0 ** 30),
                        ishift=rng.choice([0, 1]), bcf=3, bcl=3, corrd=False)
    case["elcols"] = ["m" + t for t in TRACERS]
    case["ncell_rows"] = list(range(1, n2 + 1))
    ql = lambda xs: "[" + "; ".join(qc(fr(x)) for x in xs) + "]"
    case["coq_cfg"] = "(setup_cfg %d %d %s %s %s %s %s %s (%d)%%Z %d%%Z %d%%Z %s)" % (
        n1, n2, ql(L1), ql(D1), ql(gl2), ql(gd2), qc(fr(diffc)), qc(fr(timest)), ishift, bcf, bcl, "true" if case["corrd"] else "false")
    return case


def sequence_input(case):
    txt = "KNOBS\n -convergence_tolerance 1e-12\nPRINT\n -reset false\n" + sel_block(TRACER_COLS)
    for k in range(case["n1"] + 2):
        txt += tracer_solution(k, case["sols1"][k])
    r1 = case["run1"]
    txt += "END\n" + seq_transport_block(case["n1"], r1["shifts"], case["gl1"], case["gd1"], r1["diffc"], r1["timest"], r1["ishift"],
                                          r1["bcf"], r1["bcl"], r1["corrd"])
    for k in range(case["n"] + 2):
        txt += tracer_solution(k, case["sols"][k])
    txt += "END\n" + seq_transport_block(case["n"], case["shifts"], case["gl2"], case["gd2"], case["diffc"], case["timest"], case["ishift"],
                                          case["bcf"], case["bcl"], case["corrd"])
    return txt


# the defect found while building this check (notes/C11.md, finding 1); fixed input, stable key
PREFIX_DEFECT_KEY = "multi_D-neg-conc-repair-prefix-match"


def prefix_defect_case():
    cols = [("mCa", 'TOTMOLE("Ca")'), ("mC", 'TOTMOLE("C")'), ("mCl", 'TOTMOLE("Cl")'), ("cb", "CHARGE_BALANCE"),
            ("mH", 'TOTMOLE("H")'), ("mO", 'TOTMOLE("O")')]
    sol = ["", "SOLUTION 1\n units mmol/kgw\n pH 1\n Cl 100 charge\n Ca 1\n C(4) 1\n",
           "SOLUTION 2\n units mmol/kgw\n pH 3\n Cl 1 charge\n C(4) 1\n", ""]
    return dict(kind="inventory", mode="mcd", n=2, ishift=0, bcf=2, bcl=2, corrd=False, lens=["0.1", "0.1"], disps=["0", "0"],
                diffc="0.3e-9", timest="1e6", shifts=2, soltext=sol, cols=cols, elcols=["mC", "mCl", "mH", "mO"],
                ncell_rows=[1, 2], extra=" -multi_d true 1e-9 0.5 0.05 1.0\n", lattice=False, ignore_added_mass_warning=True)
    # Ca is absent from cell 2 and the electro-migration term drives its total negative there; the engine tops it up and says so
    # ("Negative concentration in MCD: added ..."), so Ca itself is not in the list: the defect was that the top-up was
    # silently taken out of element C (name prefix of Ca) instead.


def fine_last_interface_case():
    """fixed corpus case (seeded change C11-b): explicit MCD, closed diffusion-only column whose finest interface is the LAST one;
    the time step needs ~16-21 sub-steps there; with too few the explicit step overshoots and the engine creates mass"""
    cols = [("m" + e, 'TOTMOLE("%s")' % e) for e in ("Na", "Cl", "K", "N")] + [("cb", "CHARGE_BALANCE"), ("mH", 'TOTMOLE("H")'), ("mO", 'TOTMOLE("O")')]
    sol = [""]
    for k in range(1, 7):
        if k <= 4:
            sol.append("SOLUTION %d\n units mmol/kgw\n pH 7\n Na 10\n Cl 10 charge\n" % k)
        elif k == 5:
            sol.append("SOLUTION %d\n units mmol/kgw\n pH 7\n K 2\n N(5) 2 charge\n Na 0.1\n Cl 0.1\n" % k)
        else:
            sol.append("SOLUTION %d\n units mmol/kgw\n pH 7\n K 20\n N(5) 20 charge\n" % k)
    sol.append("")
    return dict(kind="mcd-stability", mode="mcd", n=6, ishift=0, bcf=2, bcl=2, corrd=False, lens=["1", "1", "1", "1", "0.2", "0.2"],
                disps=["0"] * 6, diffc="0.3e-9", timest="2e8", shifts=5, soltext=sol, cols=cols, substeps="1",
                elcols=["mNa", "mCl", "mK", "mN", "mH", "mO"], ncell_rows=[1, 2, 3, 4, 5, 6],
                extra=" -multi_d true 1e-9 0.3 0.05 1.0\n", lattice=False, where="end")


CHECKS = {"tracer": lambda case, res: compare_tracer_case(case, res),
          "rich-model": lambda case, res: compare_tracer_case(case, res, elcols=case["elcols"]),
          "range": check_range, "inventory": check_inventory, "exact-shift": check_exact_shift, "mcd-nmix": check_mcd_nmix}


def case_text(case):
    if case.get("kind") == "sequence":
        return sequence_input(case)
    return tracer_input(case) if case.get("kind", "tracer") == "tracer" else build_input(case)


def slim(case):
    return {k: v for k, v in case.items() if k not in ("sols", "sols1", "soltext", "cols", "coq_cfg")}


REPORTED = {}


def report(ctx, check, case, txt, r, key=None):
    # at most 3 replay files per kind of check: the first failures are the useful ones, the rest is counted in the evidence
    REPORTED[check] = REPORTED.get(check, 0) + 1
    if REPORTED[check] > 3 and key is None:
        return
    what = "%s: %s observed=%r expected=%r %s" % (check, r.get("what", r["status"]), r.get("observed"), r.get("expected"), r.get("detail", ""))
    ctx.violation(key or "%s:%s" % (check, vlib.key_of([check, slim(case), r.get("what")])), what,
                  {"kind": "input", "check": check, "case": case, "input_text": txt, "database": "phreeqc.dat",
                   "observed": r.get("observed"), "expected": r.get("expected"), "detail": r.get("detail", "")})


# ----------------------------------------------------------------------------- T-gen

def gen():
    sys.path.insert(0, os.path.join(vlib.VERIF, "translator"))
    import c11_initmix
    c11_initmix.generate()


# ----------------------------------------------------------------------------- the check

def run(ctx):
    import collections
    if ctx.replay:
        return run_replay(ctx)
    import time
    tm = {}
    t0 = time.time()
    proofs_ok = vlib.coq_stage(ctx, "Props/Properties_C11.vo", gen=gen)
    tm["coq_stage"] = round(time.time() - t0, 1)
    rng = ctx.rng
    stats = collections.Counter()
    # if the proof stage broke, aim more cases at the model tie (section 5 of DESIGN.md)
    boost = 1 if proofs_ok else 3
    nA, nB, nC = ctx.n(20, 150) * boost, ctx.n(6, 40), ctx.n(50, 400) * boost
    nR, nI, nV = ctx.n(24, 150), ctx.n(12, 60), ctx.n(24, 120)
    jobs = []          # (check names, case)
    for i in range(nA):
        jobs.append((["tracer", "range"], gen_case(rng, True), "A"))
    for i in range(nB):
        jobs.append((["tracer", "range"], gen_case(rng, False, maxcells=5, budget=10), "B"))
    for i in range(nC):
        jobs.append((["tracer", "range"], gen_case(rng, False), "C"))
    for i in range(nR):
        jobs.append((["rich-model", "range"], gen_rich_dispersive(rng), "R"))
    for mode in ("single", "mcd", "implicit", "solids", "stagnant"):
        for i in range(nI if mode != "stagnant" else max(4, nI // 2)):
            jobs.append((["inventory"], gen_inventory(rng, mode), "I-" + mode))
    for i in range(nV):
        jobs.append((["exact-shift", "range"], gen_advect(rng), "V"))
    jobs.append((["inventory"], prefix_defect_case(), "known-defect"))
    # two TRANSPORT runs on one instance: cell set-up (defaults for all cells of a grown column, retention, short lists)
    for i in range(ctx.n(30, 200) * boost):
        c = gen_sequence(rng)
        cks = ["tracer", "range"]
        if c["ishift"] == 0 and c["bcf"] != 1 and c["bcl"] != 1 and len(set(c["lens"])) == 1:
            cks.append("inventory")
        jobs.append((cks, c, "Q"))
    # explicit MCD with unequal lengths (sub-step count of init_mix): separate driver that also reports diffc_max / nmix
    nS = ctx.n(40, 300) * boost
    sjobs = []
    for i in range(nS):
        c = gen_mcd_stability(rng)
        cks = ["mcd-nmix"] + (["inventory"] if c["ishift"] == 0 and c["bcf"] == 2 and c["bcl"] == 2 else [])
        sjobs.append((cks, c, "S"))
    sjobs.append((["mcd-nmix", "inventory"], fine_last_interface_case(), "S-corpus"))
    for (_, case, pool) in jobs:
        if pool == "B":
            case["shifts"] = min(case["shifts"], 2)
        case.setdefault("kind", "tracer")
        if case["kind"] == "tracer":
            case["elcols"] = ["m" + t for t in TRACERS]
    texts = [case_text(c) for (_, c, _) in jobs]
    tm["generate"] = round(time.time() - t0 - tm["coq_stage"], 1)
    t1 = time.time()
    res = vlib.run_inputs([{"id": i, "db": "phreeqc.dat", "text": t, "flags": []} for i, t in enumerate(texts)],
                          timeout_each=120, workers=6)
    stexts = [case_text(c) for (_, c, _) in sjobs]
    sres = run_mcd_inputs([{"id": i, "text": t} for i, t in enumerate(stexts)], timeout_each=120, workers=6)
    tm["engine"] = round(time.time() - t1, 1)
    t1 = time.time()
    coq_terms = {}
    for i, (checks, case, pool) in enumerate(sjobs):
        r0 = sres.get(i, {"timeout": True})
        for ck in checks:
            r = CHECKS[ck](case, r0)
            stats["%s/%s/%s" % (pool, ck, r["status"])] += 1
            ctx.case([ck, slim(case)], sample=dict(check=ck, pool=pool, case=slim(case), result={k: v for k, v in r.items() if k in ("status", "nmix", "worst")}),
                     nontrivial=r["status"].startswith("ok"))
            if r["status"] in ("mismatch", "missing-rows", "engine-crash", "no-initmix-report"):
                report(ctx, ck, case, stexts[i], {k: v for k, v in r.items() if k != "coq"},
                       key=("mcd-substeps-fine-last-interface:" + ck) if pool == "S-corpus" else None)
            if ck == "mcd-nmix" and r.get("coq"):
                coq_terms[("S", i)] = coq_mcd_term(case, *r["coq"])
    for i, (checks, case, pool) in enumerate(jobs):
        r0 = res.get(i, {"timeout": True})
        for ck in checks:
            collect = [] if (ck == "tracer" and pool in ("A", "B", "Q")) else None
            if ck == "tracer":
                r = compare_tracer_case(case, r0, collect=collect)
            else:
                r = CHECKS[ck](case, r0)
            stats["%s/%s/%s" % (pool, ck, r["status"])] += 1
            trivial = r["status"] != "ok"
            ctx.case([ck, slim(case)], sample=dict(check=ck, pool=pool, case=slim(case), result={k: v for k, v in r.items() if k in ("status", "nmix", "worst")}),
                     nontrivial=not trivial)
            if r["status"] == "mismatch":
                fam_cols = [c for fam in PREFIX_FAMILIES for c in fam]
                if pool == "known-defect" and any(("inventory %s " % c) in r.get("what", "") for c in fam_cols):
                    report(ctx, ck, case, texts[i], r, key=PREFIX_DEFECT_KEY)
                elif r.get("prefix_family"):
                    # same defect met by a random column: report the minimal corpus case under the stable key
                    report(ctx, ck, prefix_defect_case(), case_text(prefix_defect_case()), r, key=PREFIX_DEFECT_KEY)
                else:
                    report(ctx, ck, case, texts[i], r)
            elif r["status"] in ("missing-rows", "no-nmix", "engine-crash"):
                report(ctx, ck, case, texts[i], r)
            if collect:
                # verified checker: a subset of columns and shifts (first, middle, last)
                shifts = sorted(set([1, case["shifts"], (case["shifts"] + 1) // 2]))
                colsel = ["mNa", "mCl", "cb"] if pool == "A" else ["mNa", "cb"]
                items = [x for x in collect if x[0] in colsel and x[1] in shifts]
                coq_terms[i] = coq_case_term(case, reported_nmix(r0), items)
    tm["compare(python mirror, property checks)"] = round(time.time() - t1, 1)
    t1 = time.time()
    out, logs = coq_run_cases(coq_terms, shards=6, timeout=ctx.n(600, 3000))
    tm["coq_checker"] = round(time.time() - t1, 1)
    ctx.extra["timing_s"] = tm
    for i, v in out.items():
        if isinstance(i, tuple):
            stats["coq-mcd-nmix/%s" % v] += 1
            if v is not True:
                checks, case, pool = sjobs[i[1]]
                report(ctx, "coq-mcd-nmix", case, stexts[i[1]], dict(status="mismatch", what="check_mcd_nmix = %s: the engine's number of MCD mixruns is not the model's" % v,
                                                                     observed=str(v), expected="true", detail=""))
            continue
        stats["coq-checker/%s" % v] += 1
        if v is not True:
            checks, case, pool = jobs[i]
            report(ctx, "coq-checker", case, texts[i], dict(status="mismatch", what="check_case = %s (verified checker / mirror disagreement)" % v,
                                                         observed=str(v), expected="true", detail=(logs[0][-300:] if logs else "")))
    ctx.extra["input_distribution"] = dict(stats)
    ctx.extra["pools"] = {"A": "lattice tracer columns (dyadic lengths/dispersivities, diffc = 2^-30): python mirror + Coq checker",
                          "B": "small general tracer columns: python mirror + Coq checker",
                          "C": "general tracer columns (1..40 cells, decimal inputs): python mirror",
                          "R": "chemistry-rich dispersive/diffusive columns: python mirror for every element + range",
                          "I-*": "closed diffusion-only columns: inventory constancy 1e-9 (single D equal lengths, MCD, implicit, solids via SYS(), stagnant)",
                          "V": "pure advection (ADVECTION / TRANSPORT): exact shift",
                          "Q": "two TRANSPORT runs on one instance (second: more/same/fewer cells; -lengths / -dispersivities given fully, partly or not at all): "
                               "the set-up model (Setup.v: defaults for ALL cells of a grown column, retention, last value repeated) feeds the transport model; "
                               "python mirror + Coq checker (setup_cfg), range, closed equal-length inventory",
                          "S": "explicit MCD, unequal lengths (finest cells at the end/start/middle/anywhere), time steps 0.2..30x the stability "
                               "limit of the finest interface, all boundary pairs, with/without advection, mcd_substeps: mixruns = model (python + Coq "
                               "check_mcd_nmix, diffc_max read from the engine by harness/c11_mcd.cpp); closed diffusion-only ones also inventory 1e-9"}
    ctx.rule = ("random column set-ups inside the property's domain (cells 1..40, equal/unequal lengths, dispersivities incl. 0, diffc, time step, "
                "shifts, forward/backward/diffusion_only, all boundary pairs, correct_disp); a case is non-trivial when the engine ran it and at least "
                "one shift moved something (status ok); model comparison per cell and shift: |obs-exp| <= 1e-9*|exp| + propagated engine slack")
    ctx.trusted += ["python mirror of the Coq model (props/c11.py: mixf/mix_step/one_shift) - cross-checked inside Coq against the model on pools A and B",
                    "tolerance policy (1e-9 relative + the engine's own mass-balance acceptance sqrt(total*1e-25) per speciation) computed in python",
                    "translator/c11_initmix.py (clang JSON AST of Phreeqc::init_mix, both branches -> Gallina leaf expressions and guard shapes; of Phreeqc::multi_D -> the strncmp name tests)",
                    "harness/c11_mcd.cpp (reads diffc_max, nmix, mcd_substeps, timest from the instance right after init_mix)",
                    "python mirror fill_setup of coq/C11/Setup.v (cell set-up of read_transport) - the Coq checker evaluates setup_cfg itself on pool Q",
                    "multi_D: the species fluxes (find_J) are arbitrary data in the bookkeeping theorems; only the explicit branch of fill_m_s / step 3 / the negative-total repair is modelled"]
    ctx.notes += ["floating-point rounding of the engine is not modelled; cases whose 1.5*maxmix is within 1e-9 of an integer are skipped (counted as nmix-rounding-ambiguous)",
                  "multicomponent diffusion: bookkeeping model + inventory checks; implicit diffusion and stagnant zones: inventory checks only",
                  "implicit diffusion keeps every tracked element at >= 1e-13 mol per cell (min_mol): the implicit inventory check allows 2e-13 mol x cells absolutely",
                  "an inventory change is flagged also when the engine announces it ('Negative concentration in MCD: added ...'); only the 8a017ddf corpus case exempts Ca",
                  "init_mix multi_D branch: explicit sub-step estimate modelled (diffc_max from the engine via harness/c11_mcd.cpp); implicit sub-branch only in the regenerated shape"]


def run_replay(ctx):
    obj = json.load(open(ctx.replay))
    if obj.get("kind") != "input":
        # an obligation replay: rebuild the proofs
        vlib.coq_stage(ctx, "Props/Properties_C11.vo", gen=gen)
        return
    case, ck, txt = obj["case"], obj["check"], obj["input_text"]
    if case.get("kind") == "mcd-stability":
        res = run_mcd_inputs([{"id": 0, "text": txt}], timeout_each=300)[0]
    else:
        res = vlib.run_inputs([{"id": 0, "db": obj.get("database", "phreeqc.dat"), "text": txt, "flags": []}], timeout_each=300)[0]
    if ck == "coq-mcd-nmix":
        r = check_mcd_nmix(case, res)
        if r.get("coq"):
            out, logs = coq_run_cases({0: coq_mcd_term(case, *r["coq"])}, shards=1)
            if out[0] is not True:
                r = dict(status="mismatch", what="check_mcd_nmix = %s" % out[0], observed=str(out[0]), expected="true")
    elif ck == "coq-checker":
        col = []
        r = compare_tracer_case(case, res, collect=col)
        if r["status"] == "ok":
            out, logs = coq_run_cases({0: coq_case_term(case, reported_nmix(res), col)}, shards=1)
            if out[0] is not True:
                r = dict(status="mismatch", what="check_case = %s" % out[0], observed=str(out[0]), expected="true")
    else:
        r = CHECKS[ck](case, res)
    ctx.case([ck, slim(case)], sample=dict(check=ck, result=r.get("status")))
    if not r["status"].startswith("ok"):
        report(ctx, ck, case, txt, {k: v for k, v in r.items() if k != "coq"}, key=obj.get("key"))
