"""C03 — Reactant assemblages end in a valid heterogeneous equilibrium state.

Pipeline of `./check C03`:
  1. translator/c03_gen.py regenerates coq/Gen/Gen_C03_model.v from the current sources (T-gen);
  2. Props/Properties_C03.vo is rebuilt: every theorem about the regenerated guards / formulas is re-proved;
  3. correspondence (T-corr, verified checker): random assemblages are run through the real library, the state
     it reports (EQUI, SI, SYS, S_S, SR ...) is decided by the Coq function `case_ok` (proved sound for the
     property predicate `hetero_valid`, theorem check_hetero_sound) evaluated with vm_compute on the exact
     rationals of the reported doubles.
"""
import os, sys, json, re, math, hashlib
from fractions import Fraction
import vlib

HERE = os.path.dirname(os.path.abspath(__file__))
sys.path.insert(0, os.path.join(vlib.VERIF, "translator"))

GEN = os.path.join(vlib.COQ, "Gen", "Gen_C03_model.v")


def gen():
    import importlib
    import c03_cparse, c03_gen
    importlib.reload(c03_cparse)
    importlib.reload(c03_gen)
    text = c03_gen.generate(vlib.REPO)
    vlib.write_if_changed(GEN, text)


# ----------------------------------------------------------------------------- database phases

OPTION_WORDS = {"log_k", "logk", "delta_h", "deltah", "analytic", "analytical_expression", "a_e", "ae", "vm", "t_c", "p_c",
                "omega", "no_check", "check", "add_logk", "add_log_k", "ln_alpha1000", "add_constant", "vm_t"}
ELEM_MAP = {"C": "C(4)", "S": "S(6)", "N": "N(5)"}
ALLOWED = ["Ca", "Mg", "Na", "K", "Fe", "Mn", "Al", "Si", "C", "S", "Cl", "Sr", "Ba", "F", "P", "Zn", "Cd", "Pb", "Cu", "Li", "B", "Br"]
KEYWORDS = ("SOLUTION_MASTER_SPECIES", "SOLUTION_SPECIES", "PHASES", "EXCHANGE_MASTER_SPECIES", "EXCHANGE_SPECIES",
            "SURFACE_MASTER_SPECIES", "SURFACE_SPECIES", "RATES", "END", "PITZER", "SIT", "NAMED_EXPRESSIONS",
            "LLNL_AQUEOUS_MODEL_PARAMETERS", "ISOTOPES", "CALCULATE_VALUES", "ISOTOPE_RATIOS", "ISOTOPE_ALPHAS",
            "MEAN_GAMMAS", "SELECTED_OUTPUT", "USER_PUNCH", "KNOBS", "PRINT", "TITLE")

_phase_cache = {}


_info_cache = {}


def db_info(dbname):
    """masters (element names of SOLUTION_MASTER_SPECIES), names of all PHASES (gases included), whether the database has
    the exchanger X and the Hfo surface, and how total carbonate / sulfate / nitrate are written in it."""
    path = os.path.join(vlib.DB, dbname)
    if path in _info_cache:
        return _info_cache[path]
    masters, names = set(), set()
    block = None
    has_x = has_hfo = False
    prev_name = None
    for raw in open(path, errors="replace"):
        s = raw.split("#")[0].strip()
        if not s:
            continue
        first = s.split()[0]
        if first.upper() in KEYWORDS:
            block = first.upper()
            continue
        if block == "SOLUTION_MASTER_SPECIES":
            masters.add(first)
        elif block == "EXCHANGE_MASTER_SPECIES" and first == "X":
            has_x = True
        elif block == "SURFACE_MASTER_SPECIES" and first == "Hfo_w":
            has_hfo = True
        elif block == "PHASES" and "=" not in s and not first.startswith("-") and first.lower() not in OPTION_WORDS:
            names.add(first)
    emap = {}
    for el, v in (("C", 4), ("S", 6), ("N", 5)):
        for cand in ("%s(%d)" % (el, v), "%s(+%d)" % (el, v)):
            if cand in masters:
                emap[el] = cand
                break
    info = {"masters": masters, "names": names, "has_x": has_x, "has_hfo": has_hfo, "emap": emap,
            "allowed": set(a for a in ALLOWED if a in masters)}
    _info_cache[path] = info
    return info


def db_phases(dbname):
    """[(name, set(elements))] for the non-gas phases of a database whose elements are all in ALLOWED (and in the database)."""
    path = os.path.join(vlib.DB, dbname)
    if path in _phase_cache:
        return _phase_cache[path]
    allowed = db_info(dbname)["allowed"]
    out = []
    inblock = False
    name = None
    for raw in open(path, errors="replace"):
        line = raw.split("#")[0].rstrip()
        s = line.strip()
        if not s:
            continue
        first = s.split()[0]
        if first.upper() in KEYWORDS:
            inblock = first.upper() == "PHASES"
            name = None
            continue
        if not inblock:
            continue
        if first.startswith("-") or first.lower() in OPTION_WORDS:
            continue
        if "=" in s and name is not None:
            lhs = s.split("=")[0]
            els = set()
            for sp in lhs.split(" + "):
                sp = sp.strip()
                sp = re.sub(r"^\d+(\.\d+)?\s*", "", sp)
                sp = re.sub(r"[+-]\d*(\.\d+)?$", "", sp)
                if sp in ("H2O", "H", "e", "O2", "H2"):
                    continue
                els.update(re.findall(r"[A-Z][a-z]?", sp))
            els -= {"H", "O"}
            if not name.endswith("(g)") and els and els <= allowed and "(g)" not in name:
                out.append((name, els))
            name = None
            continue
        if "=" not in s:
            name = first
    _phase_cache[path] = out
    return out


# ----------------------------------------------------------------------------- generator

SS_FAMILIES = {
    "phreeqc.dat": [["Calcite", "Siderite", "Rhodochrosite", "Strontianite", "Smithsonite"], ["Barite", "Celestite", "Anglesite"],
                    ["Calcite", "Strontianite"], ["Aragonite", "Strontianite", "Witherite"]],
    "wateq4f.dat": [["Calcite", "Siderite", "Rhodochrosite", "Strontianite"], ["Barite", "Celestite"], ["Calcite", "Strontianite"]],
}
REACTANTS = ["NaCl", "HCl", "NaOH", "CaCl2", "Na2CO3", "NaHCO3", "MgCl2", "Na2SO4", "KCl", "CO2", "H2SO4"]


def logu(rng, lo, hi):
    return math.exp(rng.uniform(math.log(lo), math.log(hi)))


def fmt(x):
    return repr(float(x))


def gen_case(rng, idx):
    """One random input. Returns dict(db, text, meta) where meta tells the checker what was asked for."""
    # all activity models: ion association (phreeqc.dat, wateq4f.dat), Pitzer (pitzer.dat), SIT (sit.dat), LLNL (llnl.dat)
    r = rng.random()
    db = "phreeqc.dat" if r < 0.42 else ("wateq4f.dat" if r < 0.55 else ("pitzer.dat" if r < 0.73 else ("sit.dat" if r < 0.87 else "llnl.dat")))
    info = db_info(db)
    emap = info["emap"]
    phases = db_phases(db)
    common = [p for p in phases if p[0] in ("Calcite", "Aragonite", "Dolomite", "Gypsum", "Anhydrite", "Quartz", "Chalcedony",
                                            "SiO2(a)", "Gibbsite", "Kaolinite", "Siderite", "Rhodochrosite", "Strontianite",
                                            "Witherite", "Barite", "Celestite", "Fluorite", "Halite", "Goethite", "Fe(OH)3(a)",
                                            "K-feldspar", "Albite", "Hydroxyapatite", "Magnesite", "Brucite", "Talc", "Sepiolite")]
    n = rng.choice([1, 1, 2, 2, 3, 3, 4, 5, 6])
    chosen = {}
    while len(chosen) < n:
        p = rng.choice(common) if (common and rng.random() < 0.6) else rng.choice(phases)
        chosen[p[0]] = p
    # solid solution
    ss = None
    if rng.random() < 0.3:
        fam = rng.choice(SS_FAMILIES.get(db, SS_FAMILIES["phreeqc.dat"]))
        k = 2 if rng.random() < 0.6 else min(3, len(fam))
        comps = rng.sample(fam, k)
        names = {p[0]: p for p in phases}
        if all(c in names for c in comps):
            nonideal = (k == 2 and rng.random() < 0.35)
            ss = {"name": "SSol", "comps": [(c, 0.0 if rng.random() < 0.5 else logu(rng, 1e-5, 1e-2)) for c in comps], "ideal": not nonideal}
            if nonideal:
                ss["gugg"] = (round(rng.uniform(-1.5, 3.0), 2), round(rng.uniform(-1.0, 1.5), 2))
            for c in comps:
                chosen.pop(c, None)
            while not chosen:
                p = rng.choice(common or phases)
                if p[0] not in comps:
                    chosen[p[0]] = p
    elements = set()
    for nm, els in chosen.values():
        elements |= els
    if ss:
        names = {p[0]: p for p in phases}
        for c, _ in ss["comps"]:
            elements |= names[c][1]
    # solution
    temp = rng.choice([25.0, 25.0, round(rng.uniform(5, 60), 1)])
    lines = ["SOLUTION 1", " temp %s" % fmt(temp), " pH %s" % fmt(round(rng.uniform(5.0, 9.0), 2)), " pe %s" % fmt(rng.choice([4.0, 4.0, 8.0, 0.0, 12.0])),
             " units mmol/kgw"]
    brine = db in ("pitzer.dat", "sit.dat") and rng.random() < 0.4
    lines += [" Na %s" % fmt(round(logu(rng, 100, 4000) if brine else logu(rng, 1, 100), 4)),
              " Cl %s charge" % fmt(round(logu(rng, 100, 4000) if brine else logu(rng, 1, 100), 4))]
    insol = set()
    ss_els = set()
    if ss:
        for c, _ in ss["comps"]:
            ss_els |= names[c][1]
    for el in sorted(elements - {"Na", "Cl"}):
        if el in ss_els or rng.random() < 0.7:
            insol.add(el)
            lines.append(" %s %s" % (emap.get(el, el), fmt(round(logu(rng, 0.005, 10), 5))))
    for el in ("Ca", "C", "Mg", "K", "S"):
        if el in info["allowed"] and el not in insol and el not in elements and rng.random() < 0.3:
            lines.append(" %s %s" % (emap.get(el, el), fmt(round(logu(rng, 0.01, 5), 5))))
    # equilibrium phases
    pps = []
    rel_ex = rel_sf = None
    if rng.random() < 0.12 and info["has_x"]:
        rel_ex = rng.choice(sorted(chosen))
    if rng.random() < 0.12 and info["has_hfo"]:
        rel_sf = rng.choice(sorted(chosen))
    lines.append("EQUILIBRIUM_PHASES 1")
    for nm in sorted(chosen):
        target = 0.0 if rng.random() < 0.6 else round(rng.uniform(-1.0, 1.0), 2)
        r = rng.random()
        init = 0.0 if r < 0.3 else (10.0 if r < 0.4 else float(fmt(logu(rng, 1e-4, 1e-1))))
        r = rng.random()
        kind = "normal" if r < 0.65 else ("dissolve_only" if r < 0.82 else "precipitate_only")
        if nm in (rel_ex, rel_sf):
            kind = "normal"
            init = max(init, 0.1) if init < 10 else init
        force = (kind == "normal" and rng.random() < 0.15)
        l = " %s %s %s" % (nm, fmt(target), fmt(init))
        if kind != "normal":
            l += " " + kind
        lines.append(l)
        if force:
            lines.append("  -force_equality true")
        pps.append({"name": nm, "target": target, "init": init, "kind": kind, "force": force})
    if rng.random() < 0.35:
        g = rng.choice([("CO2(g)", round(rng.uniform(-3.5, -1.0), 2)), ("O2(g)", round(rng.uniform(-20, -0.7), 2))])
        if g[0] in info["names"]:
            lines.append(" %s %s 10" % (g[0], fmt(g[1])))
    # exchanger
    exch = None
    r = rng.random()
    if rel_ex is not None:
        per = float(fmt(logu(rng, 1e-3, 0.2)))
        lines += ["EXCHANGE 1", " X %s equilibrium_phase %s" % (rel_ex, fmt(per)), " -equilibrate 1"]
        exch = {"sites": {"X": None}, "mode": "related", "related": {"X": (rel_ex, per)}}
    elif r < 0.35 and info["has_x"]:
        lines.append("EXCHANGE 1")
        if rng.random() < 0.5:
            tot = float(fmt(logu(rng, 1e-4, 0.5)))
            lines.append(" X %s" % fmt(tot))
            lines.append(" -equilibrate 1")
            exch = {"sites": {"X": tot}, "mode": "equilibrate"}
        else:
            tot = Fraction(0)
            for sp, st in rng.sample([("NaX", 1), ("CaX2", 2), ("KX", 1), ("MgX2", 2)], rng.choice([1, 2, 3])):
                a = float(fmt(logu(rng, 1e-4, 0.2)))
                lines.append(" %s %s" % (sp, fmt(a)))
                tot += Fraction(a) * st
            exch = {"sites": {"X": float(tot)}, "sites_exact": {"X": [tot.numerator, tot.denominator]}, "mode": "explicit"}
    # surface
    surf = None
    if rel_sf is not None:
        perw = float(fmt(logu(rng, 1e-3, 0.3)))
        pers = float(fmt(perw * 0.025))
        lines += ["SURFACE 1", " Hfo_wOH %s equilibrium_phase %s 5.34e4" % (rel_sf, fmt(perw)),
                  " Hfo_sOH %s equilibrium_phase %s" % (rel_sf, fmt(pers)), " -equilibrate 1"]
        edl = rng.choice(["ddl", "no_edl"])
        if edl == "no_edl":
            lines.append(" -no_edl")
        surf = {"sites": {"Hfo_w": None, "Hfo_s": None}, "mode": "related", "edl": edl, "related": {"Hfo_w": (rel_sf, perw), "Hfo_s": (rel_sf, pers)}}
    elif rng.random() < 0.3 and info["has_hfo"]:
        lines.append("SURFACE 1")
        w = float(fmt(logu(rng, 1e-5, 1e-2)))
        s = float(fmt(w * rng.choice([0.025, 0.05, 0.1])))
        area = rng.choice([600, 100, 50])
        grams = float(fmt(logu(rng, 0.1, 10)))
        both = rng.random() < 0.7
        lines.append(" Hfo_wOH %s %s %s" % (fmt(w), area, fmt(grams)))
        sites = {"Hfo_w": w}
        if both:
            lines.append(" Hfo_sOH %s" % fmt(s))
            sites["Hfo_s"] = s
        mode = "equilibrate" if rng.random() < 0.7 else "explicit"
        if mode == "equilibrate":
            lines.append(" -equilibrate 1")
        edl = rng.choice(["ddl", "ddl", "no_edl", "diffuse"])
        if edl == "no_edl":
            lines.append(" -no_edl")
        elif edl == "diffuse":
            lines.append(" -diffuse_layer 1e-8")
        surf = {"sites": sites, "mode": mode, "edl": edl}
    if ss:
        lines.append("SOLID_SOLUTIONS 1")
        lines.append(" %s" % ss["name"])
        if ss["ideal"]:
            for c, m in ss["comps"]:
                lines.append("  -comp %s %s" % (c, fmt(m)))
        else:
            lines.append("  -comp1 %s %s" % (ss["comps"][0][0], fmt(ss["comps"][0][1])))
            lines.append("  -comp2 %s %s" % (ss["comps"][1][0], fmt(ss["comps"][1][1])))
            lines.append("  -Gugg_nondim %s %s" % (fmt(ss["gugg"][0]), fmt(ss["gugg"][1])))
    if rng.random() < 0.5:
        lines.append("REACTION 1")
        lines.append(" %s 1" % rng.choice(REACTANTS))
        lines.append(" %s moles" % fmt(float(fmt(logu(rng, 1e-4, 2e-2)))))
    if rng.random() < 0.3:
        lines.append("REACTION_TEMPERATURE 1")
        lines.append(" %s" % fmt(round(rng.uniform(5, 70), 1)))
    hp = rng.random() < 0.5
    if rel_ex is not None or rel_sf is not None:
        hp = True     # mineral-related sites: outside "defined explicitly or by equilibration"; see notes/C03.md (tolerance gap)
    lines += ["SELECTED_OUTPUT 1", " -reset false", " -state true", " -high_precision %s" % ("true" if hp else "false"), "USER_PUNCH 1"]
    heads = []
    exprs = []
    for k, p in enumerate(pps):
        heads += ["eq%d" % k, "si%d" % k]
        exprs += ['EQUI("%s")' % p["name"], 'SI("%s")' % p["name"]]
    if exch:
        heads.append("sysX")
        exprs.append('SYS("X")')
    if surf:
        for k, nm in enumerate(sorted(surf["sites"])):
            heads.append("sys_%s" % nm)
            exprs.append('SYS("%s")' % nm)
    if ss:
        for k, (c, _) in enumerate(ss["comps"]):
            heads += ["ss%d" % k, "sr%d" % k, "ssi%d" % k]
            exprs += ['S_S("%s")' % c, 'SR("%s")' % c, 'SI("%s")' % c]
    lines.append(" -headings " + " ".join(heads))
    ln = 10
    for i in range(0, len(exprs), 6):
        lines.append(" %d PUNCH %s" % (ln, ", ".join(exprs[i:i + 6])))
        ln += 10
    if ss:
        lines += ["SAVE solid_solutions 1", "DUMP", " -solid_solutions 1"]
    # follow-up calculations on the SAME model (same solution, same phase list, new targets / amounts / restrictions):
    # prep() then reuses the equation system (check_same_model -> quick_setup) instead of rebuilding it
    stages = [pps]
    ss_stages = [ss]
    extra_defs = []
    binary = bool(ss) and len(ss["comps"]) == 2
    if rel_ex is None and rel_sf is None and rng.random() < (0.75 if binary else 0.4):
        gas_lines = [l for l in lines if l.startswith(" CO2(g) ") or l.startswith(" O2(g) ")]
        for k in range(rng.choice([1, 1, 2])):
            num = k + 2
            pk = []
            extra_defs.append("EQUILIBRIUM_PHASES %d" % num)
            for p0 in pps:
                r = rng.random()
                target = p0["target"] if r < 0.15 else (0.0 if r < 0.4 else round(rng.uniform(-1.0, 1.0), 2))
                r = rng.random()
                init = p0["init"] if r < 0.3 else (0.0 if r < 0.5 else float(fmt(logu(rng, 1e-4, 1e-1))))
                r = rng.random()
                kind = p0["kind"] if r < 0.5 else ("normal" if r < 0.8 else ("dissolve_only" if r < 0.9 else "precipitate_only"))
                l = " %s %s %s" % (p0["name"], fmt(target), fmt(init))
                if kind != "normal":
                    l += " " + kind
                extra_defs.append(l)
                f2 = (kind == "normal" and rng.random() < 0.12)
                if f2:
                    extra_defs.append("  -force_equality true")
                pk.append({"name": p0["name"], "target": target, "init": init, "kind": kind, "force": f2})
            extra_defs += gas_lines
            stages.append(pk)
            # the solid solution may be REDEFINED for the follow-up calculation: other name (full prep), ideal <-> Guggenheim,
            # other Guggenheim parameters, same end-member phases (they share the per-phase record of the engine)
            s2 = None
            if binary and rng.random() < 0.75:
                ideal2 = (not ss["ideal"]) if rng.random() < 0.7 else ss["ideal"]   # mostly flip ideal <-> Guggenheim
                s2 = {"name": "SSol%d" % num, "num": num, "ideal": ideal2,
                      "comps": [(c, 0.0 if rng.random() < 0.6 else float(fmt(logu(rng, 1e-5, 1e-2)))) for c, _ in ss["comps"]]}
                extra_defs += ["SOLID_SOLUTIONS %d" % num, " %s" % s2["name"]]
                if ideal2:
                    extra_defs += ["  -comp %s %s" % (c, fmt(m)) for c, m in s2["comps"]]
                else:
                    s2["gugg"] = (round(rng.uniform(-1.5, 3.5), 2), round(rng.uniform(-1.9, 1.5), 2))
                    extra_defs += ["  -comp1 %s %s" % (s2["comps"][0][0], fmt(s2["comps"][0][1])),
                                   "  -comp2 %s %s" % (s2["comps"][1][0], fmt(s2["comps"][1][1])),
                                   "  -Gugg_nondim %s %s" % (fmt(s2["gugg"][0]), fmt(s2["gugg"][1]))]
            ss_stages.append(s2)
    # several reaction steps, reversing direction (add then remove a reactant, temperature up and down), with
    # INCREMENTAL_REACTIONS true (each step starts from the previous one) or false (each step starts from the definitions)
    has = lambda kw: any(l == kw for l in lines)
    nsteps, incremental = 1, False
    if rel_ex is None and rel_sf is None and rng.random() < 0.45:
        if not has("REACTION 1") and not has("REACTION_TEMPERATURE 1") and rng.random() < 0.5:
            extra_defs += ["REACTION_TEMPERATURE 1", " %s" % fmt(temp)]
        if has("REACTION 1") or has("REACTION_TEMPERATURE 1") or "REACTION_TEMPERATURE 1" in extra_defs:
            nsteps = rng.choice([2, 2, 3])
            incremental = rng.random() < 0.6
            if has("REACTION 1"):
                k = lines.index("REACTION 1")
                a = float(lines[k + 2].split()[0])
                amts = [a]
                for _ in range(nsteps - 1):
                    if incremental:
                        amts.append(float(fmt((-1 if rng.random() < 0.6 else 1) * a * rng.uniform(0.3, 1.0))))
                    else:
                        amts.append(float(fmt(a * rng.uniform(0.1, 3.0))))
                lines[k + 2] = " " + " ".join(fmt(x) for x in amts) + " moles"
            tl = lines if has("REACTION_TEMPERATURE 1") else (extra_defs if "REACTION_TEMPERATURE 1" in extra_defs else None)
            if tl is not None and (not has("REACTION 1") or rng.random() < 0.6):
                k = tl.index("REACTION_TEMPERATURE 1")
                t0 = float(tl[k + 1].split()[0])
                temps = [t0] + [round(rng.uniform(5, 85), 1) for _ in range(nsteps - 1)]
                tl[k + 1] = " " + " ".join(fmt(x) for x in temps)
            extra_defs.append("INCREMENTAL_REACTIONS %s" % ("true" if incremental else "false"))
    if extra_defs:
        k = lines.index("SELECTED_OUTPUT 1")
        lines[k:k] = extra_defs
    lines.append("END")
    has = lambda kw: any(l == kw for l in lines)
    for num in range(2, len(stages) + 1):
        lines += ["USE solution 1", "USE equilibrium_phases %d" % num]
        if exch:
            lines.append("USE exchange 1")
        if surf:
            lines.append("USE surface 1")
        s2 = ss_stages[num - 1] if num - 1 < len(ss_stages) else None
        if ss:
            lines.append("USE solid_solutions %d" % (num if s2 else 1))
        if has("REACTION 1"):
            lines.append("USE reaction 1")
        if has("REACTION_TEMPERATURE 1"):
            lines.append("USE reaction_temperature 1")
        if s2:
            lines += ["SAVE solid_solutions %d" % num, "DUMP", " -solid_solutions %d" % num]
        lines.append("END")
    return {"id": "c%05d" % idx, "db": db, "text": "\n".join(lines) + "\n", "flags": ["dump"] if ss else [],
            "meta": {"pps": pps, "stages": stages, "ss_stages": ss_stages, "nsteps": nsteps, "incremental": incremental, "exch": exch, "surf": surf, "ss": ss, "hp": hp, "temp": temp}}



# ----------------------------------------------------------------------------- fixed corpus (run first on every check)

def _punch(pps, extra_heads=(), extra_exprs=()):
    heads, exprs = [], []
    for k, p in enumerate(pps):
        heads += ["eq%d" % k, "si%d" % k]
        exprs += ['EQUI("%s")' % p["name"], 'SI("%s")' % p["name"]]
    heads += list(extra_heads)
    exprs += list(extra_exprs)
    out = ["SELECTED_OUTPUT 1", " -reset false", " -state true", "USER_PUNCH 1", " -headings " + " ".join(heads)]
    ln = 10
    for i in range(0, len(exprs), 6):
        out.append(" %d PUNCH %s" % (ln, ", ".join(exprs[i:i + 6])))
        ln += 10
    return "\n".join(out) + "\nEND\n"


def _pp(name, target, init, kind="normal", force=False):
    return {"name": name, "target": float(target), "init": float(init), "kind": kind, "force": force}


def corpus():
    out = []
    # seven-phase assemblage at 35 C (DESIGN.md, C03 probe)
    pps = [_pp("Aragonite", 0, 0.001), _pp("Calcite", 0.2, 0.01), _pp("Chalcedony", 0, 0.02, "precipitate_only"),
           _pp("Dolomite", 0, 0, force=True), _pp("Gypsum", 0, 0), _pp("Quartz", 0, 0.01, "dissolve_only")]
    text = ("SOLUTION 1\n temp 35\n pH 7\n Na 10\n Cl 10 charge\n Ca 1\n C 2\n Si 0.1\nEQUILIBRIUM_PHASES 1\n Calcite 0.2 0.01\n Aragonite 0.0 0.001\n"
            " Quartz 0.0 0.01 dissolve_only\n Chalcedony 0.0 0.02 precipitate_only\n Gypsum 0 0\n Dolomite 0 0\n  -force_equality true\n CO2(g) -2.0 10\n"
            "EXCHANGE 1\n X 0.01\n -equilibrate 1\nSURFACE 1\n Hfo_wOH 0.001 600 1\n Hfo_sOH 0.00005\n -equilibrate 1\n"
            "SOLID_SOLUTIONS 1\n CaSrBa\n  -comp Strontianite 0.001\n  -comp Witherite 0.002\n")
    text = text.replace("SOLUTION 1\n", "SOLUTION 1\n Sr 0.01\n Ba 0.01\n")
    meta = {"pps": pps, "exch": {"sites": {"X": 0.01}, "mode": "equilibrate"},
            "surf": {"sites": {"Hfo_s": 0.00005, "Hfo_w": 0.001}, "mode": "equilibrate", "edl": "ddl"},
            "ss": {"name": "CaSrBa", "comps": [("Strontianite", 0.001), ("Witherite", 0.002)], "ideal": True}, "hp": False, "temp": 35.0}
    text += "SAVE solid_solutions 1\n"
    text += _punch(pps, ["sysX", "sys_Hfo_s", "sys_Hfo_w", "ss0", "sr0", "ssi0", "ss1", "sr1", "ssi1"],
                   ['SYS("X")', 'SYS("Hfo_s")', 'SYS("Hfo_w")', 'S_S("Strontianite")', 'SR("Strontianite")', 'SI("Strontianite")',
                    'S_S("Witherite")', 'SR("Witherite")', 'SI("Witherite")']).replace("END\n", "DUMP\n -solid_solutions 1\nEND\n")
    out.append({"id": "corpus-seven-phases", "db": "phreeqc.dat", "text": text, "flags": ["dump"], "meta": meta})
    # Guggenheim binary solid solution (ex10-like) at 35 C
    pps = [_pp("Gypsum", 0, 0)]
    text = ("SOLUTION 1\n temp 35\n pH 7.5\n Na 10\n Cl 10 charge\n Ca 2\n C(4) 3\n Sr 0.5\n S(6) 1\nEQUILIBRIUM_PHASES 1\n Gypsum 0 0\n"
            "SOLID_SOLUTIONS 1\n SSol\n  -comp1 Calcite 0.001\n  -comp2 Strontianite 0.0005\n  -Gugg_nondim 2.5 0.5\nSAVE solid_solutions 1\n")
    meta = {"pps": pps, "exch": None, "surf": None,
            "ss": {"name": "SSol", "comps": [("Calcite", 0.001), ("Strontianite", 0.0005)], "ideal": False, "gugg": (2.5, 0.5)}, "hp": False, "temp": 35.0}
    text += _punch(pps, ["ss0", "sr0", "ssi0", "ss1", "sr1", "ssi1"],
                   ['S_S("Calcite")', 'SR("Calcite")', 'SI("Calcite")', 'S_S("Strontianite")', 'SR("Strontianite")', 'SI("Strontianite")']
                   ).replace("END\n", "DUMP\n -solid_solutions 1\nEND\n")
    out.append({"id": "corpus-guggenheim", "db": "phreeqc.dat", "text": text, "flags": ["dump"], "meta": meta})
    # explicit exchanger + acid added
    pps = [_pp("Calcite", 0, 0.05), _pp("Gypsum", 0, 0)]
    text = ("SOLUTION 1\n pH 7.5\n Na 5\n Cl 5 charge\n Ca 2\n C(4) 3\n S(6) 1\nEQUILIBRIUM_PHASES 1\n Calcite 0 0.05\n Gypsum 0 0\n"
            "EXCHANGE 1\n CaX2 0.05\n NaX 0.02\nREACTION 1\n H2SO4 1\n 0.01 moles\n")
    meta = {"pps": pps, "exch": {"sites": {"X": 0.12}, "sites_exact": {"X": [3, 25]}, "mode": "explicit"}, "surf": None, "ss": None, "hp": False, "temp": 25.0}
    text += _punch(pps, ["sysX"], ['SYS("X")'])
    out.append({"id": "corpus-explicit-exchange", "db": "phreeqc.dat", "text": text, "flags": [], "meta": meta})
    # model reuse: three reaction calculations on the same solution and phase list with different targets / amounts /
    # restrictions and no initial-solution calculation in between (prep() takes the quick_setup() path)
    st1 = [_pp("Calcite", 0, 1), _pp("Gypsum", 0, 1)]
    st2 = [_pp("Calcite", 0.5, 1), _pp("Gypsum", -0.3, 1)]
    st3 = [_pp("Calcite", -0.25, 0.002, "dissolve_only"), _pp("Gypsum", 0.2, 0)]
    text = ("SOLUTION 1\n temp 25\n pH 7\n Na 10\n Cl 10 charge\n Ca 1\n C(4) 2\n S(6) 1\n"
            "EQUILIBRIUM_PHASES 1\n Calcite 0 1\n Gypsum 0 1\n CO2(g) -2 10\n"
            "EQUILIBRIUM_PHASES 2\n Calcite 0.5 1\n Gypsum -0.3 1\n CO2(g) -2 10\n"
            "EQUILIBRIUM_PHASES 3\n Calcite -0.25 0.002 dissolve_only\n Gypsum 0.2 0\n CO2(g) -2.5 10\n")
    meta = {"pps": st1, "stages": [st1, st2, st3], "exch": None, "surf": None, "ss": None, "hp": False, "temp": 25.0}
    text += _punch(st1) + "USE solution 1\nUSE equilibrium_phases 2\nEND\nUSE solution 1\nUSE equilibrium_phases 3\nEND\n"
    out.append({"id": "corpus-model-reuse", "db": "phreeqc.dat", "text": text, "flags": [], "meta": meta})
    # solid solution redefined between calculations on one instance: Guggenheim -> ideal -> Guggenheim (other parameters),
    # same end-member phases, different names (full prep each time)
    pg = [_pp("Gypsum", 0, 0)]
    ssA = {"name": "CaSr_gugg", "num": 1, "comps": [("Aragonite", 0.0), ("Strontianite", 0.0)], "ideal": False, "gugg": (3.43, -1.82)}
    ssB = {"name": "CaSr_ideal", "num": 2, "comps": [("Aragonite", 0.0), ("Strontianite", 0.0)], "ideal": True}
    ssC = {"name": "CaSr_gugg2", "num": 3, "comps": [("Aragonite", 0.0), ("Strontianite", 0.0)], "ideal": False, "gugg": (1.2, 0.4)}
    text = ("SOLUTION 1\n units mmol/kgw\n temp 25\n pH 8.3\n Ca 2\n Sr 20\n Na 20\n C(4) 12\n S(6) 1\n Cl 40 charge\n"
            "EQUILIBRIUM_PHASES 1\n Gypsum 0 0\n"
            "SOLID_SOLUTIONS 1\n CaSr_gugg\n  -comp1 Aragonite 0\n  -comp2 Strontianite 0\n  -Gugg_nondim 3.43 -1.82\n"
            "SOLID_SOLUTIONS 2\n CaSr_ideal\n  -comp Aragonite 0\n  -comp Strontianite 0\n"
            "SOLID_SOLUTIONS 3\n CaSr_gugg2\n  -comp1 Aragonite 0\n  -comp2 Strontianite 0\n  -Gugg_nondim 1.2 0.4\n"
            "SAVE solid_solutions 1\n")
    meta = {"pps": pg, "stages": [pg, pg, pg], "ss_stages": [ssA, ssB, ssC], "exch": None, "surf": None, "ss": ssA, "hp": False, "temp": 25.0}
    text += _punch(pg, ["ss0", "sr0", "ssi0", "ss1", "sr1", "ssi1"],
                   ['S_S("Aragonite")', 'SR("Aragonite")', 'SI("Aragonite")', 'S_S("Strontianite")', 'SR("Strontianite")', 'SI("Strontianite")']
                   ).replace("END\n", "DUMP\n -solid_solutions 1\nEND\n")
    for k in (2, 3):
        text += "USE solution 1\nUSE equilibrium_phases 1\nUSE solid_solutions %d\nSAVE solid_solutions %d\nDUMP\n -solid_solutions %d\nEND\n" % (k, k, k)
    out.append({"id": "corpus-ss-redefined", "db": "phreeqc.dat", "text": text, "flags": ["dump"], "meta": meta})
    # restrictions under the other activity models (model() dispatches to model_pz / model_sit): an undersaturated
    # precipitate_only mineral must keep its amount, a dissolve_only one may dissolve, an unrestricted one equilibrates
    for dbn in ("pitzer.dat", "sit.dat", "llnl.dat"):
        pr = [_pp("Gypsum", 0, 0.5, "dissolve_only"), _pp("Halite", 0, 1, "precipitate_only"), _pp("Sylvite", 0, 0.2, "precipitate_only")]
        if dbn == "llnl.dat":
            pr.append(_pp("Calcite", 0.1, 0.05))
        else:
            pr.append(_pp("Calcite", 0.1, 0.05, force=True))
        pr.sort(key=lambda p: p["name"])
        text = "SOLUTION 1\n temp 25\n pH 7\n units mol/kgw\n Na 0.1\n Cl 0.1 charge\n K 0.01\n Ca 0.001\nEQUILIBRIUM_PHASES 1\n"
        for p in pr:
            text += " %s %r %r%s\n" % (p["name"], p["target"], p["init"], "" if p["kind"] == "normal" else " " + p["kind"])
            if p["force"]:
                text += "  -force_equality true\n"
        meta = {"pps": pr, "exch": None, "surf": None, "ss": None, "hp": False, "temp": 25.0}
        text += _punch(pr)
        out.append({"id": "corpus-restrictions-" + dbn, "db": dbn, "text": text, "flags": [], "meta": meta})
    # -force_equality with too little of the phase: the unchanged library ends these with an ERROR (outside the premises; then
    # nothing is judged); a run that COMPLETES must have the phase at its target
    pf = [_pp("Calcite", 0, 1e-5, force=True)]
    text = "SOLUTION 1\n temp 25\n pH 7\n Na 1\n Cl 1 charge\nEQUILIBRIUM_PHASES 1\n Calcite 0 1e-05\n  -force_equality true\n"
    meta = {"pps": pf, "exch": None, "surf": None, "ss": None, "hp": False, "temp": 25.0}
    out.append({"id": "corpus-force-too-little", "db": "phreeqc.dat", "text": text + _punch(pf), "flags": [], "meta": meta})
    pf = [_pp("Calcite", 0, 1), _pp("Gypsum", 0, 1e-3, force=True)]
    text = ("SOLUTION 1\n temp 40\n pH 7\n Na 100\n Cl 100 charge\nEQUILIBRIUM_PHASES 1\n Calcite 0 1\n Gypsum 0 0.001\n  -force_equality true\n")
    meta = {"pps": pf, "exch": None, "surf": None, "ss": None, "hp": False, "temp": 40.0}
    out.append({"id": "corpus-force-too-little-gypsum", "db": "phreeqc.dat", "text": text + _punch(pf), "flags": [], "meta": meta})
    pf = [_pp("Calcite", 0, 1e-3, force=True)]
    text = ("SOLUTION 1\n temp 25\n pH 7\n Na 1\n Cl 1 charge\nREACTION 1\n HCl 1\n 0.0002 0.0005 0.003 0.006 moles\n"
            "EQUILIBRIUM_PHASES 1\n Calcite 0 0.001\n  -force_equality true\nINCREMENTAL_REACTIONS false\n")
    meta = {"pps": pf, "stages": [pf], "nsteps": 4, "incremental": False, "exch": None, "surf": None, "ss": None, "hp": False, "temp": 25.0}
    out.append({"id": "corpus-force-exhausted-in-steps", "db": "phreeqc.dat", "text": text + _punch(pf), "flags": [], "meta": meta})
    # finding F-C03-4: a force_equality phase with plenty of material next to a competing phase of the same elements
    pf = [_pp("Aragonite", 0, 0.03, force=True), _pp("Calcite", 0, 0)]
    text = ("SOLUTION 1\n pH 7\n Na 10\n Cl 10 charge\n Ca 1\n C(4) 1\nEQUILIBRIUM_PHASES 1\n Aragonite 0 0.03\n  -force_equality true\n Calcite 0 0\n")
    meta = {"pps": pf, "exch": None, "surf": None, "ss": None, "hp": False, "temp": 25.0}
    out.append({"id": "corpus-F-C03-4", "db": "phreeqc.dat", "text": text + _punch(pf), "flags": [], "meta": meta})
    # finding F-C03-3: a force_equality phase that starts with exactly 0 mol in an undersaturated solution
    pf = [_pp("Calcite", 0, 0, force=True)]
    text = "SOLUTION 1\n pH 7\n Na 1\n Cl 1 charge\n Ca 0.1\n C(4) 0.1\nEQUILIBRIUM_PHASES 1\n Calcite 0 0\n  -force_equality true\n"
    meta = {"pps": pf, "exch": None, "surf": None, "ss": None, "hp": False, "temp": 25.0}
    out.append({"id": "corpus-F-C03-3", "db": "phreeqc.dat", "text": text + _punch(pf), "flags": [], "meta": meta})
    # several reaction steps with INCREMENTAL_REACTIONS true: every step starts from the previous one, and the restrictions
    # refer to the amounts at the START of each step (CO2 added then removed; temperature 25 -> 5 -> 90 C)
    pc = [_pp("Calcite", 0, 0.01, "dissolve_only"), _pp("Gypsum", 0, 0.002, "precipitate_only")]
    text = ("SOLUTION 1\n temp 25\n pH 7 charge\n Na 1\n Cl 1\n Ca 1\n S(6) 1\nREACTION 1\n CO2 1\n 0.004 -0.004 moles\n"
            "EQUILIBRIUM_PHASES 1\n Calcite 0 0.01 dissolve_only\n Gypsum 0 0.002 precipitate_only\nINCREMENTAL_REACTIONS true\n")
    meta = {"pps": pc, "stages": [pc], "nsteps": 2, "incremental": True, "exch": None, "surf": None, "ss": None, "hp": False, "temp": 25.0}
    out.append({"id": "corpus-steps-co2", "db": "phreeqc.dat", "text": text + _punch(pc), "flags": [], "meta": meta})
    text = ("SOLUTION 1\n temp 25\n pH 6 charge\n Na 1\n Cl 1\n C(4) 5\n Ca 1\n S(6) 1\nREACTION_TEMPERATURE 1\n 25 5 90\n"
            "EQUILIBRIUM_PHASES 1\n Calcite 0 0.01 dissolve_only\n Gypsum 0 0.002 precipitate_only\nINCREMENTAL_REACTIONS true\n")
    meta = {"pps": pc, "stages": [pc], "nsteps": 3, "incremental": True, "exch": None, "surf": None, "ss": None, "hp": False, "temp": 25.0}
    out.append({"id": "corpus-steps-temperature", "db": "phreeqc.dat", "text": text + _punch(pc), "flags": [], "meta": meta})
    # finding F-C03-2: a phase whose element is absent keeps the reaction written for an EARLIER model (minimised from the
    # thorough run): Vivianite (P) dissolves a little in calculation 1; calculation 2 uses the P-free solution again with
    # Vivianite precipitate_only (so no P is added): its whole amount is lost
    sa = [_pp("Hematite", 0, 0), _pp("Vivianite", 0.88, 0.00016)]
    sb = [_pp("Hematite", 0, 10), _pp("Vivianite", 0, 0.00016, "precipitate_only")]
    text = ("SOLUTION 1\n Fe 0.09319\nEQUILIBRIUM_PHASES 1\n Hematite 0 0\n Vivianite 0.88 0.00016\n"
            "EQUILIBRIUM_PHASES 2\n Hematite 0 10\n Vivianite 0 0.00016 precipitate_only\n")
    meta = {"pps": sa, "stages": [sa, sb], "exch": None, "surf": None, "ss": None, "hp": False, "temp": 25.0}
    text += _punch(sa) + "USE solution 1\nUSE equilibrium_phases 2\nEND\n"
    out.append({"id": "corpus-F-C03-2", "db": "phreeqc.dat", "text": text, "flags": [], "meta": meta})
    # finding F-C03-1: precipitate_only phase next to a diffuse-layer surface (minimised from seed 0)
    pps = [_pp("Goethite", 0.75, 0.0005, "precipitate_only")]
    text = ("SOLUTION 1\n Cl 10 charge\n Fe 0.5\nEQUILIBRIUM_PHASES 1\n Goethite 0.75 0.0005 precipitate_only\n"
            "SURFACE 1\n Hfo_wOH 0.0005 600 0.3\n -diffuse_layer 1e-8\n")
    meta = {"pps": pps, "exch": None, "surf": {"sites": {"Hfo_w": 0.0005}, "mode": "explicit", "edl": "diffuse"}, "ss": None, "hp": False, "temp": 25.0}
    text += _punch(pps, ["sys_Hfo_w"], ['SYS("Hfo_w")'])
    out.append({"id": "corpus-F-C03-1", "db": "phreeqc.dat", "text": text, "flags": [], "meta": meta})
    return out

# ----------------------------------------------------------------------------- observation -> Coq case

KIND = {"normal": "KNormal", "dissolve_only": "KDissolve", "precipitate_only": "KPrecip", "force_equality": "KForce"}


def kind_of(p):
    """-force_equality is a restriction of its own: the phase must end AT its target (or the run must end with an error)"""
    return "force_equality" if (p.get("force") and p["kind"] == "normal") else p["kind"]


def q(x):
    return vlib.coq_Q(x)


def parse_dump_ss(dump, num=1):
    """SOLID_SOLUTIONS_RAW block with user number `num` of a DUMP string (first occurrence) ->
    {"comps": {name: {...}}, "a0":.., "a1":.., "xb1":.., "xb2":.., "miscibility":.., "ss_in":..} (first solid solution of the
    assemblage only) or None."""
    if not dump or "SOLID_SOLUTIONS_RAW" not in dump:
        return None
    block = None
    for chunk in dump.split("SOLID_SOLUTIONS_RAW")[1:]:
        head = chunk.split("\n", 1)[0].split()
        if head and head[0] == str(num):
            block = chunk
            break
    if block is None:
        return None
    out = {"comps": {}}
    cur = None
    started = False
    for raw in block.split("\n")[1:]:
        t = raw.split("#")[0].split()
        if not t:
            continue
        if not t[0].startswith("-"):
            break
        k = t[0][1:]
        if k == "solid_solution":
            if started:
                break
            started = True
            continue
        if k == "component" and len(t) > 1:
            cur = out["comps"].setdefault(t[1], {})
            continue
        if len(t) == 2:
            try:
                v = float(t[1])
            except ValueError:
                continue
            if k in ("moles", "fraction_x", "log10_lambda", "log10_fraction_x") and cur is not None and k not in cur:
                cur[k] = v
            elif k in ("a0", "a1", "xb1", "xb2", "miscibility", "ss_in", "total_moles") and k not in out:
                out[k] = v
                cur = None if k == "a0" else cur
    return out


def _num(v):
    return isinstance(v, float) and math.isfinite(v)


def ss_observations(ssm, row, d, label=""):
    """Coq terms (SS list, SSX list, absent list) and message items for one solid solution in one reaction row;
    d: its stored state from DUMP (or None)."""
    sss, ssx, ssabs, items = [], [], [], []
    comps = []
    obs = []
    for k, (c, _) in enumerate(ssm["comps"]):
        m, a = row.get("ss%d" % k), row.get("sr%d" % k)
        if not (_num(m) and _num(a)):
            return None
        comps.append("(%s, %s)" % (q(m), q(a)))
        obs.append((c + label, m, a))
    sss.append("SS %s [%s]" % ("true" if ssm["ideal"] else "false", "; ".join(comps)))
    items.append(("ss", ssm["ideal"], obs))
    if d and d.get("ss_in") == 1.0 and all(k in d for k in ("a0", "a1")):
        xs = []
        okc = True
        for k, (c, _) in enumerate(ssm["comps"]):
            dc = d["comps"].get(c) or {}
            si = row.get("ssi%d" % k)
            m = row.get("ss%d" % k)
            if not (_num(si) and _num(m) and all(_num(dc.get(f)) for f in ("fraction_x", "log10_lambda", "log10_fraction_x"))) or si < -90:
                okc = False
                break
            xs.append((c + label, m, si, dc["fraction_x"], dc["log10_fraction_x"], dc["log10_lambda"]))
        if okc and xs:
            gap = False
            if not ssm["ideal"] and d.get("miscibility") == 1.0 and len(xs) == 2 and _num(d.get("xb1")) and _num(d.get("xb2")):
                gap = d["xb1"] - 1e-9 <= xs[1][3] <= d["xb2"] + 1e-9
            ssx.append("SSX %s %s %s %s [%s]" % ("true" if ssm["ideal"] else "false", "true" if gap else "false", q(d["a0"]), q(d["a1"]),
                                                "; ".join("SSXC %s %s %s %s %s" % tuple(q(v) for v in x[1:]) for x in xs)))
            items.append(("ssx", ssm["ideal"], gap, d["a0"], d["a1"], xs))
    if d and d.get("ss_in") == 0.0:
        stored = [c.get("moles") for c in d["comps"].values()]
        if stored and all(_num(v) for v in stored):
            tot = sum(Fraction(v) for v in stored)
            ssabs.append(q(tot))
            items.append(("ssabs", float(tot)))
    return sss, ssx, ssabs, items


def build_case(meta, row, init_rows=None, dump=None, more_rows=()):
    """(coq term, python-side list of item descriptions for messages) or None if the row lacks a value.
    row: the selected-output row of the reaction step; init_rows: {"i_exch": row, "i_surf": row} of the initial
    exchange / surface equilibrations (site totals are checked there as well)."""
    pps, exs, sfs, sss = [], [], [], []
    items = []
    init_rows = init_rows or {}
    eqmol = {p["name"]: row.get("eq%d" % k) for k, p in enumerate(meta["pps"])}
    for k, p in enumerate(meta["pps"]):
        m, s = row.get("eq%d" % k), row.get("si%d" % k)
        if not isinstance(m, float) or not isinstance(s, float) or not (math.isfinite(m) and math.isfinite(s)):
            return None
        pps.append("PP %s %s %s %s %s" % (KIND[kind_of(p)], q(p["target"]), q(p["init"]), q(m), q(s)))
        items.append(("pp", p["name"], kind_of(p), p["target"], p["init"], m, s))
    # follow-up calculations (model reused): the phases of each later stage, and the site totals again
    prev_ref = meta.get("site_ref_prev") or []
    rows_seq = [row] + list(more_rows)
    for idx2, (stage, r2) in enumerate(zip((meta.get("stages") or [])[1:], more_rows), start=1):
        for k, p in enumerate(stage):
            m, s = r2.get("eq%d" % k), r2.get("si%d" % k)
            if not (_num(m) and _num(s)):
                return None
            pps.append("PP %s %s %s %s %s" % (KIND[kind_of(p)], q(p["target"]), q(p["init"]), q(m), q(s)))
            items.append(("pp", p["name"] + p.get("label", " [follow-up calculation]"), kind_of(p), p["target"], p["init"], m, s))
        for what, mkey, dest in (("exch", "exch", exs), ("surf", "surf", sfs)):
            mm = meta[mkey]
            if not mm or mm.get("mode") == "related":
                continue
            for nm in sorted(mm["sites"]):
                col = "sysX" if what == "exch" else "sys_%s" % nm
                f = r2.get(col)
                if not _num(f):
                    return None
                d0 = mm["sites"][nm]
                dq = q(Fraction(*mm["sites_exact"][nm])) if "sites_exact" in mm else q(d0)
                i0 = (init_rows.get("i_exch" if what == "exch" else "i_surf") or {}).get(col)
                if idx2 < len(prev_ref) and prev_ref[idx2]:
                    i0 = rows_seq[idx2 - 1].get(col)   # INCREMENTAL_REACTIONS: this step starts from the reactant saved by the previous step
                if _num(i0) and i0 > 0:
                    d0, dq = i0, q(i0)      # the sites of the stored (equilibrated) reactant this calculation starts from
                dest.append("SITE %s %s" % (dq, q(f)))
                items.append((what, nm + " [follow-up calculation]", d0, f))
    for what, mkey, dest, irow in (("exch", "exch", exs, init_rows.get("i_exch")), ("surf", "surf", sfs, init_rows.get("i_surf"))):
        mm = meta[mkey]
        if not mm:
            continue
        for nm in sorted(mm["sites"]):
            col = "sysX" if what == "exch" else "sys_%s" % nm
            f = row.get(col)
            if not _num(f):
                return None
            if mm.get("mode") == "related":
                ph, per = mm["related"][nm]
                mol = eqmol.get(ph)
                if not _num(mol):
                    return None
                if mol <= 0:
                    continue             # the mineral carrying the sites is gone: no sites are defined
                dfr = Fraction(per) * Fraction(mol)   # sites defined = sites per mole * amount of the mineral
                dest.append("SITE %s %s" % (q(dfr), q(f)))
                items.append((what, nm + " (per mole of %s)" % ph, float(dfr), f))
                ini = [p["init"] for p in meta["pps"] if p["name"] == ph]
                if irow is not None and _num(irow.get(col)) and ini and ini[0] > 0:
                    dfi = Fraction(per) * Fraction(ini[0])
                    dest.append("SITE %s %s" % (q(dfi), q(irow[col])))
                    items.append((what, nm + " (initial equilibration, per mole of %s)" % ph, float(dfi), irow[col]))
                continue
            d = mm["sites"][nm]
            dq = q(Fraction(*mm["sites_exact"][nm])) if "sites_exact" in mm else q(d)
            if irow is not None and _num(irow.get(col)) and irow[col] > 0:
                # two calculations: the initial equilibration must reproduce the defined sites, and the reaction step must
                # keep the sites of the stored reactant it starts from (= what the initial calculation saved)
                dest.append("SITE %s %s" % (dq, q(irow[col])))
                items.append((what, nm + " (initial equilibration)", d, irow[col]))
                dest.append("SITE %s %s" % (q(irow[col]), q(f)))
                items.append((what, nm + " (reaction step, vs the stored reactant)", irow[col], f))
            else:
                dest.append("SITE %s %s" % (dq, q(f)))
                items.append((what, nm, d, f))
    ssx, ssabs = [], []
    ss_stages = meta.get("ss_stages") or [meta["ss"]]
    rows_all = [row] + list(more_rows)
    for st, ssm in enumerate(ss_stages[:len(rows_all)]):
        redefined = ssm is not None and st > 0
        ssm = ssm or meta["ss"]
        if not ssm:
            continue
        r = ss_observations(ssm, rows_all[st], parse_dump_ss(dump, ssm.get("num", 1)) if ((st == 0 or redefined) and not ssm.get("nodump")) else None,
                            " [follow-up calculation]" if st > 0 else "")
        if r is None:
            return None
        sss += r[0]
        ssx += r[1]
        ssabs += r[2]
        items += r[3]
    term = "CASE [%s] [%s] [%s] [%s] [%s] [%s]" % ("; ".join(pps), "; ".join(exs), "; ".join(sfs), "; ".join(sss), "; ".join(ssx), "; ".join(ssabs))
    return term, items


def py_verdict(items):
    """Floating-point replica of the checker, used only to word the message of a violation."""
    bad = []
    for it in items:
        if it[0] == "pp":
            _, nm, kind, t, i, m, s = it
            ok = m >= 0
            if kind == "normal":
                ok = ok and ((abs(s - t) <= 1e-6) if m > 0 else (m == 0 and s <= t + 1e-6))
            elif kind == "dissolve_only":
                ok = ok and m <= i and (m <= 0 or s >= t - 1e-6) and (m >= i or s <= t + 1e-6)
            elif kind == "force_equality":
                ok = ok and abs(s - t) <= 1e-6
            else:
                ok = ok and m >= i and s <= t + 1e-6 and (m <= i or s >= t - 1e-6)
            if not ok:
                bad.append(("pp:" + kind, "phase %s (%s): target SI %r, initial %r mol -> %r mol at SI %r" % (nm, kind, t, i, m, s), it))
        elif it[0] in ("exch", "surf"):
            _, nm, d, f = it
            if abs(f - d) > 1e-8 * d:
                bad.append((it[0], "%s %s: defined %r, sum of occupied equivalents %r" % (it[0], nm, d, f)))
        elif it[0] == "ssabs":
            if it[1] > 1e-12:
                bad.append(("ssabs", "solid solution left out of the equations (ss_in = 0) although it holds %r mol" % it[1]))
        elif it[0] == "ssx":
            _, ideal, gap, a0, a1, xs = it
            tot = sum(x[1] for x in xs)
            msgs = []
            if any(x[3] < 0 for x in xs) or abs(sum(x[3] for x in xs) - 1) > 1e-9:
                msgs.append("stored mole fractions %r are not a point of the simplex" % [x[3] for x in xs])
            if not gap and any(abs(x[3] * tot - x[1]) > 1e-9 * tot for x in xs):
                msgs.append("stored mole fractions %r differ from n_i/n %r" % ([x[3] for x in xs], [x[1] / tot for x in xs]))
            if any(abs(x[2] - (x[4] + x[5])) > 1e-6 for x in xs):
                msgs.append("SI differs from log10(x)+log10(lambda): " + "; ".join("%s SI=%r log10x=%r log10lambda=%r" % (x[0], x[2], x[4], x[5]) for x in xs))
            if ideal and any(x[5] != 0 for x in xs):
                msgs.append("ideal solution with log10 lambda %r" % [x[5] for x in xs])
            if not ideal and len(xs) == 2:
                L = math.log(10.0)
                g1 = xs[1][3] ** 2 * (a0 - a1 * (3 - 4 * xs[1][3]))
                g2 = xs[0][3] ** 2 * (a0 + a1 * (4 * xs[1][3] - 1))
                if abs(xs[0][5] * L - g1) > 1e-9 or abs(xs[1][5] * L - g2) > 1e-9:
                    msgs.append("stored ln lambda (%r, %r) differ from the Guggenheim expressions (%r, %r)" % (xs[0][5] * L, xs[1][5] * L, g1, g2))
            for mm in msgs:
                bad.append(("ssx", "solid solution: " + mm))
        else:
            _, ideal, obs = it
            tot = sum(m for _, m, _ in obs)
            if any(m < 0 for _, m, _ in obs):
                bad.append(("ss", "solid solution: negative amount %r" % (obs,)))
            elif ideal and tot > 0 and any(abs(a * tot - m) > 1e-6 * m for _, m, a in obs):
                bad.append(("ss", "ideal solid solution: activity differs from mole fraction: " + "; ".join(
                    "%s x=%r a=%r" % (c, m / tot, a) for c, m, a in obs)))
            elif ideal and tot <= 0 and sum(a for _, _, a in obs) > 1 + 1e-6:
                bad.append(("ss", "ideal solid solution absent but sum of activities %r > 1" % sum(a for _, _, a in obs)))
    return bad


F1_KEY = "C03:precipitate_only+diffuse_layer:precipitated-amount-made-inert-by-repeated-model-calls"
F2_KEY = "C03:precipitate_only+element-absent:stale-phase-reaction-of-earlier-model:amount-lost"
F3_KEY = "C03:force_equality:phase-starting-at-exactly-0-mol-undersaturated:completes-off-target-without-error"
F4_KEY = "C03:force_equality:phase-consumed-by-competing-phase-of-same-elements:completes-off-target-after-retries"


def finding_key(job, meta, bad, items_all=()):
    """Stable identity of a failure.  One class is recognised by its configuration and signature (see notes/C03.md,
    finding F-C03-1); everything else is keyed by the input itself."""
    surf = meta.get("surf")
    if surf and surf.get("edl") in ("diffuse", "donnan") and bad and all(b[0] == "pp:precipitate_only" and len(b) > 2 for b in bad):
        # signature of F-C03-1 only: the phase PRECIPITATED in this step (amount above the initial one, so the restriction itself
        # is respected) and ends UNDERSATURATED; a precipitate_only phase that lost material is a different failure
        if all(b[2][5] > b[2][4] and b[2][6] < b[2][3] for b in bad):
            return F1_KEY
    # signature of F-C03-3 only: every failing item is a force_equality phase that STARTS the step with exactly 0 mol, stays
    # at 0 mol and ends BELOW its target (a forced phase that had material and ran out is a different failure)
    if bad and all(b[0] == "pp:force_equality" and len(b) > 2 and b[2][4] == 0 and b[2][5] == 0 and b[2][6] < b[2][3] for b in bad):
        return F3_KEY
    # signature of F-C03-4 only: every failing item is a force_equality phase that HAD material, ends at 0 mol below its target,
    # and the same calculation has another phase made of exactly the same elements (a competing polymorph, e.g. Aragonite
    # forced next to Calcite) that ends present
    if bad and all(b[0] == "pp:force_equality" and len(b) > 2 and b[2][4] > 0 and b[2][5] == 0 and b[2][6] < b[2][3] for b in bad):
        els = {n: e for n, e in db_phases(job["db"])}
        okc = True
        for b in bad:
            nm = b[2][1]
            base, lab = (nm.split(" [", 1) + [""])[:2]
            comp = [it for it in items_all if it[0] == "pp" and it[1] != nm and (it[1].split(" [", 1) + [""])[1] == lab
                    and els.get(it[1].split(" [", 1)[0]) == els.get(base) and els.get(base) and it[5] > 0]
            okc = okc and bool(comp)
        if okc:
            return F4_KEY
    # signature of F-C03-2 only: in a LATER calculation of a run a precipitate_only phase whose element is not in the
    # system (SI reported as -99.99 / -999: "Element not present") ends below its initial amount
    if bad and len((meta.get("stages") or [1])) > 1 and all(
            b[0] == "pp:precipitate_only" and len(b) > 2 and "follow-up calculation" in b[2][1]
            and b[2][5] < b[2][4] and b[2][6] <= -99.0 for b in bad):
        return F2_KEY
    return "input:" + hashlib.sha256((job["db"] + "\n" + job["text"]).encode()).hexdigest()[:16]


def coq_check(terms):
    """[bool] for a list of CASE terms, decided by case_ok under vm_compute."""
    out = []
    CH = 40
    for i in range(0, len(terms), CH):
        chunk = terms[i:i + CH]
        v = ["From Coq Require Import QArith List.", "Require Import IPV.C03.Spec.", "Import ListNotations.", "Open Scope Q_scope."]
        v.append("Definition cases : list hcase := [\n %s\n]." % ";\n ".join(chunk))
        v.append("Eval vm_compute in (map case_ok cases).")
        rc, txt = vlib.coq_eval("\n".join(v) + "\n", timeout=600)
        m = re.search(r"=\s*\[(.*?)\]\s*:\s*list bool", txt, flags=re.S)
        if rc != 0 or not m:
            raise RuntimeError("coq evaluation of the checker failed: " + txt[-1500:])
        vals = [x.strip() for x in m.group(1).split(";") if x.strip()]
        if len(vals) != len(chunk):
            raise RuntimeError("coq evaluation returned %d verdicts for %d cases" % (len(vals), len(chunk)))
        out += [x == "true" for x in vals]
    return out


def rows_by_state(res):
    tabs = res.get("tables") or {}
    t = tabs.get("1")
    if not t:
        return None, {}
    rows = vlib.table_dicts(t)
    react = [r for r in rows if r.get("state") == "react"]
    init = {}
    for r in rows:
        if r.get("state") in ("i_exch", "i_surf"):
            init[r["state"]] = r
    return react, init


def flatten_steps(meta, react):
    """meta with one `stages` / `ss_stages` entry per selected-output row (calculation x reaction step).  The reference
    amount of dissolve_only / precipitate_only in a step is the amount at the START of that step: the definition for the
    first step of a calculation and for every step when INCREMENTAL_REACTIONS is false, the end of the previous step otherwise."""
    nsteps = meta.get("nsteps", 1)
    stages = meta.get("stages") or [meta["pps"]]
    ss_stages = meta.get("ss_stages") or [meta["ss"]] * len(stages)
    if nsteps == 1:
        return meta
    flat, ssf, prevref = [], [], []
    r = 0
    for si, stage in enumerate(stages):
        for t in range(nsteps):
            if r >= len(react):
                break
            lab = " [%sstep %d]" % ("follow-up calculation, " if si > 0 else "", t + 1)
            pk = []
            for k, p in enumerate(stage):
                p2 = dict(p)
                p2["label"] = lab
                if meta.get("incremental") and t > 0:
                    prev = react[r - 1].get("eq%d" % k)
                    if _num(prev):
                        p2["init"] = prev
                pk.append(p2)
            flat.append(pk)
            prevref.append(bool(meta.get("incremental")) and t > 0)
            ssm = ss_stages[si] if si < len(ss_stages) else None
            base = ssm if ssm is not None else (meta["ss"] if (si == 0) else None)
            if base is not None:
                b2 = dict(base)
                if t < nsteps - 1:
                    b2["nodump"] = True
                ssf.append(b2)
            else:
                ssf.append(None)
            r += 1
    m2 = dict(meta)
    m2["stages"] = flat
    m2["ss_stages"] = ssf
    m2["pps"] = flat[0]
    m2["site_ref_prev"] = prevref
    return m2


def evaluate(ctx, jobs):
    res = vlib.run_inputs(jobs, timeout_each=30, workers=min(6, vlib.NCPU))
    stats = {"run": 0, "error": 0, "timeout": 0, "no_row": 0, "checked": 0, "with_stored_ss": 0, "model_reused": 0, "ss_redefined": 0, "partial": 0, "multi_step": 0, "incremental": 0}
    terms, keep = [], []
    for j in jobs:
        r = res.get(j["id"]) or {}
        stats["run"] += 1
        if r.get("timeout") or r.get("crash"):
            stats["timeout"] += 1
            continue
        nst = len(j["meta"].get("stages") or [1]) * j["meta"].get("nsteps", 1)
        if "dberr" in r:
            stats["error"] += 1
            continue
        react, init_rows = rows_by_state(r)
        if r.get("rc", 1) != 0:
            # a calculation ended with ERROR: it is outside the premises, but the calculations of the same run that
            # completed before it are not (the failing one leaves no row)
            if nst > 1 and react and len(react) < nst:
                stats["partial"] += 1
                j = dict(j)
                j["meta_full"] = j["meta"]
                if j["meta"].get("nsteps", 1) == 1:
                    m2 = dict(j["meta"])
                    m2["stages"] = m2["stages"][:len(react)]
                    if m2.get("ss_stages"):
                        m2["ss_stages"] = m2["ss_stages"][:len(react)]
                    j["meta"] = m2
                nst = len(react)
            else:
                stats["error"] += 1          # run ended with ERROR: outside the premises of the property
                continue
        if not react or len(react) != nst:
            stats["no_row"] += 1
            continue
        row = react[0]
        if j["meta"].get("nsteps", 1) > 1:
            j = dict(j)
            j.setdefault("meta_full", j["meta"])
            j["meta"] = flatten_steps(j["meta"], react)
        bc = build_case(j["meta"], row, init_rows, r.get("dump"), react[1:])
        if bc is None:
            stats["no_row"] += 1
            continue
        terms.append(bc[0])
        keep.append((j, bc[1], row))
    verdicts = coq_check(terms) if terms else []
    for (j, items, row), ok in zip(keep, verdicts):
        stats["checked"] += 1
        stats["with_stored_ss"] += any(it[0] == "ssx" for it in items)
        stats["model_reused"] += len(j.get("meta_full", j["meta"]).get("stages") or [1]) > 1
        stats["multi_step"] += j["meta"].get("nsteps", 1) > 1
        stats["incremental"] += bool(j["meta"].get("nsteps", 1) > 1 and j["meta"].get("incremental"))
        stats["ss_redefined"] += any(x is not None for x in (j.get("meta_full", j["meta"]).get("ss_stages") or [None])[1:])
        m = j["meta"]
        fp = [j["db"], len(m["pps"]), sorted(p["kind"] for p in m["pps"]), (m["exch"] or {}).get("mode"), (m["surf"] or {}).get("mode"), bool(m["ss"]),
              len(m.get("stages") or [1]), [it[5] > 0 for it in items if it[0] == "pp"]]
        ctx.case(fp, nontrivial=any(it[0] != "pp" or it[5] > 0 for it in items), sample={"database": j["db"], "input": j["text"][:600], "reported": {k: v for k, v in row.items() if isinstance(v, float)}})
        if not ok:
            bad = py_verdict(items) or [("?", "case rejected by the verified checker")]
            key = finding_key(j, m, bad, items)
            ctx.violation(key, "C03 violated: " + " | ".join(b[1] for b in bad),
                          {"kind": "input", "database": j["db"], "input_text": j["text"], "meta": j.get("meta_full", m),
                           "observed": {k: (v if not isinstance(v, float) else repr(v)) for k, v in row.items()},
                           "expected": "each mineral present with |SI-target|<=1e-6 or absent (0 mol) with SI<=target+1e-6; restrictions respected; "
                                       "site totals within 1e-8; ideal solid-solution activities = mole fractions"})
    return stats


def run(ctx):
    ctx.trusted += ["translator/c03_cparse.py + c03_gen.py (tokenizer/recursive-descent transliteration of the C++ guards into the Syntax.v AST)",
                    "harness/runsel.cpp, props/c03.py (input generator, reading of the selected-output table)",
                    "libm `log` is the natural logarithm (hypothesis libm_ok of the theorems)",
                    "oracle: the Newton/simplex solver (ineq, cl1, reset) is not modelled; theorems speak about the state in which model() returns OK"]
    ctx.notes += ["theorems are about the regenerated convergence tests (residuals/check_residuals/model tail), not about cl1/ineq finding the state",
                  "gases listed under EQUILIBRIUM_PHASES are excluded from the 1e-6 SI test (target applies to partial pressure, SI to fugacity)",
                  "non-ideal solid solutions: only non-negativity of amounts is decided by the verified checker"]
    if ctx.replay:
        rp = json.load(open(ctx.replay))
        if rp.get("kind") == "input":
            job = {"id": "replay", "db": rp["database"], "text": rp["input_text"], "flags": ["dump"] if "\nDUMP" in rp["input_text"] else [], "meta": rp["meta"]}
            st = evaluate(ctx, [job])
            ctx.extra["replay_stats"] = st
            ctx.rule = "replay of one recorded input"
            return
    ok = vlib.coq_stage(ctx, "Props/Properties_C03.vo", gen=gen, extra_targets=["C03/Examples.vo"])
    n = ctx.n(80, 2000)
    if not ok:
        n = max(n, 240)       # a proof about the regenerated code broke: search harder for a concrete failing input
    jobs = corpus() + [gen_case(ctx.rng, i) for i in range(n)]
    stats = {"run": 0, "error": 0, "timeout": 0, "no_row": 0, "checked": 0, "with_stored_ss": 0, "model_reused": 0, "ss_redefined": 0, "partial": 0, "multi_step": 0, "incremental": 0}
    B = 400
    for i in range(0, len(jobs), B):
        st = evaluate(ctx, jobs[i:i + B])
        for k in stats:
            stats[k] += st[k]
    ctx.rule = ("random SOLUTION (5-60 C, pH 5-9) + EQUILIBRIUM_PHASES with 1..6 non-gas minerals drawn from the PHASES block of phreeqc.dat / wateq4f.dat "
                "(targets 0 or in [-1,1], initial amounts 0 / 1e-4..1e-1 / 10 mol, dissolve_only / precipitate_only / force_equality), optional gas, "
                "EXCHANGE (explicit or equilibrated), SURFACE Hfo (explicit or equilibrated; ddl / no_edl / diffuse layer), ideal and Guggenheim solid "
                "solutions, optional REACTION and REACTION_TEMPERATURE; a case counts when the run completes without error; fingerprint = database, "
                "number and kinds of phases, which reactants exist, which phases end up present")
    ctx.extra["input_distribution"] = stats
    if stats["checked"] < max(3, n // 2):
        ctx.obligation("correspondence-volume", False, "only %d of %d generated inputs completed without error: %r" % (stats["checked"], n, stats))
