"""C14 — numbered solutions / reactants behave as a keyed store under definition, SAVE, COPY, DELETE,
*_MODIFY, *_MIX, RUN_CELLS and USE; the component list covers every element of every reactant.

Pipeline (see notes/C14.md):
  1. T-gen: translator/c14_gen.py regenerates coq/Gen/Gen_C14.v from the current sources (clang AST of
     Rxn_copy, Rxn_copies, delete_entities, copy_entities, read_copy, list_components).
  2. Coq: Props/Properties_C14.vo (theorems about the pipeline interpreted from the regenerated tables;
     `tables_ok tables = true` is discharged by vm_compute).
  3. T-corr: random histories of simulations are run on the implementation in ONE IPhreeqc instance
     (harness/c14_drive.cpp, a `DUMP -all` observation after every step) and on the executable Coq
     model (C14/Exec.v, evaluated by vm_compute in a generated cases.v); compared after every step:
     key sets, content identity classes, frame, *_MODIFY line diffs, the DUMP made inside the
     simulation (copy -> dump -> delete), error behaviour for missing reactants, component list.
     Twin histories replace every RUN_CELLS by the explicit USE.../SAVE... form and must give
     byte-identical dumps.
"""
import os, sys, json, re, hashlib, copy as _copy
import vlib

sys.path.insert(0, os.path.join(vlib.VERIF, "translator"))

# (Coq constructor, keyword, DUMP header, option / USE / COPY name)
KINDS = [
    ("KSol", "SOLUTION", "solution"),
    ("KPP", "EQUILIBRIUM_PHASES", "equilibrium_phases"),
    ("KExch", "EXCHANGE", "exchange"),
    ("KSurf", "SURFACE", "surface"),
    ("KSS", "SOLID_SOLUTIONS", "solid_solutions"),
    ("KGas", "GAS_PHASE", "gas_phase"),
    ("KKin", "KINETICS", "kinetics"),
    ("KMix", "MIX", "mix"),
    ("KRxn", "REACTION", "reaction"),
    ("KTemp", "REACTION_TEMPERATURE", "reaction_temperature"),
    ("KPres", "REACTION_PRESSURE", "reaction_pressure"),
]
KIDX = {k[0]: i for i, k in enumerate(KINDS)}
KW = {k[0]: k[1] for k in KINDS}
OPT = {k[0]: k[2] for k in KINDS}
HDR2K = {k[1] + "_RAW": k[0] for k in KINDS}
SAVABLE = ["KSol", "KPP", "KExch", "KSurf", "KGas", "KSS"]
DEFERRED = ["KSol", "KPP", "KExch", "KSurf", "KSS", "KGas", "KKin"]     # range copies made in tidy_*, after all input is read
REACTANT = ["KSol", "KRxn", "KPP", "KExch", "KSurf", "KGas", "KSS", "KKin"]
ELS = ["Na", "K", "Ca", "Mg", "Sr", "Cl", "C", "S", "N", "F", "B", "P", "Si", "Fe", "Ba", "Br", "Pb", "Cd", "Cu"]
# element symbols that are a proper prefix of other element symbols of phreeqc.dat (C/Ca/Cl/Cd/Cu, N/Na, S/Si/Sr,
# F/Fe, B/Ba/Br, P/Pb): SOLUTION_MODIFY -totals / -activities by such a name must leave the longer ones alone
PREFIX_ELS = {"C": ["Ca", "Cl", "Cd", "Cu"], "N": ["Na"], "S": ["Si", "Sr"], "F": ["Fe"], "B": ["Ba", "Br"], "P": ["Pb"]}
PHASES = {"Calcite": ["Ca", "C"], "Gypsum": ["Ca", "S"], "Strontianite": ["Sr", "C"], "Celestite": ["Sr", "S"],
          "Dolomite": ["Ca", "Mg", "C"], "Aragonite": ["Ca", "C"], "CO2(g)": ["C"], "N2(g)": ["N"],
          "Sepiolite": ["Mg", "Si"], "Sepiolite(d)": ["Mg", "Si"]}
SALTS = [("Na", 1, "Cl", 1), ("K", 1, "Cl", 1), ("Ca", 1, "Cl", 2), ("Mg", 1, "Cl", 2), ("Sr", 1, "Cl", 2), ("Na", 2, "S(6)", 1),
         ("Ba", 1, "Cl", 2), ("Na", 1, "Br", 1), ("Na", 1, "F", 1), ("Fe", 1, "Cl", 2), ("Ca", 1, "Cl", 2), ("Na", 1, "Cl", 1)]
EXTRA_SOL = [("Si", 0.2), ("C(4)", 0.5), ("Sr", 0.05), ("Ba", 0.02), ("Pb", 0.001), ("Cd", 0.001), ("Cu", 0.001), ("Br", 0.05)]
RATES = "RATES\nc14rate\n-start\n10 SAVE 1e-9*TIME\n-end\nc14rate2\n-start\n10 SAVE 2e-9*TIME\n-end\n"


# ----------------------------------------------------------------------------- T-gen

def gen():
    import c14_gen
    txt = c14_gen.generate(vlib.REPO)
    vlib.write_if_changed(os.path.join(vlib.COQ, "Gen", "Gen_C14.v"), txt)


# ----------------------------------------------------------------------------- history generator

class Gen:
    """generates one history (list of step dicts); keeps a light mirror of which (kind, number)
    exist and of the template each entry came from, only to choose sensible operations."""

    def __init__(self, rng, hid, focus=None):
        self.rng = rng
        self.hid = hid
        self.next_id = 100 + 1000 * hid
        self.mirror = {k[0]: {} for k in KINDS}
        self.focus = focus or {}
        self.stats = {}

    def fresh(self):
        self.next_id += 1
        return self.next_id

    def count(self, what):
        self.stats[what] = self.stats.get(what, 0) + 1

    # ---- numbers
    def num(self, kind, allow_neg=False):
        r = self.rng
        if kind == "KKin":
            return r.randint(30, 34)
        if kind == "KMix":
            return r.randint(40, 43)
        if allow_neg and r.random() < 0.08:
            return r.randint(-5, -3)
        return r.randint(0, 12)

    def rng_range(self, kind, allow_neg=False):
        a = self.num(kind, allow_neg)
        if self.rng.random() < 0.45:
            hi = {"KKin": 34, "KMix": 43}.get(kind, 12)
            b = min(hi, a + self.rng.randint(1, 3)) if a >= 0 else min(-3, a + self.rng.randint(1, 2))
            return a, max(a, b)
        return a, a

    def existing(self, kind, lo=None, hi=None):
        ks = sorted(n for n in self.mirror[kind] if (lo is None or n >= lo) and (hi is None or n <= hi))
        return ks

    # ---- definitions
    def definition(self, kind):
        r = self.rng
        did = self.fresh()
        n, n_end = self.rng_range(kind)
        if kind in ("KPP", "KExch", "KSurf", "KSS", "KGas", "KRxn", "KTemp", "KPres") and r.random() < 0.5 and self.existing("KSol", 0, 12):
            n = r.choice(self.existing("KSol", 0, 12))      # a reactant of an existing cell
            n_end = min(12, n + (r.randint(1, 2) if r.random() < 0.3 else 0))
        u = (did % 997) / 997.0            # unique-ish fraction making the text (and so the content) distinct
        tmpl = {"def": did}
        hdr = "%s %d%s" % (KW[kind], n, "-%d" % n_end if n_end > n else "")
        if kind == "KSol":
            cat, nc, an, na = r.choice(SALTS)
            c = round(0.5 + 3 * u, 6)
            if cat == "Fe":
                c = round(0.02 + 0.05 * u, 6)
            body = " temp %s\n %s %.6f\n %s %.6f\n" % (round(20 + 10 * u, 4), cat, c * nc, an, c * na)
            els = {cat, an.split("(")[0]}
            for e, amt in r.sample(EXTRA_SOL, r.choice([0, 0, 1, 1, 2])):
                if e.split("(")[0] not in els:
                    body += " %s %.6f\n" % (e, amt * (0.5 + u))
                    els.add(e.split("(")[0])
            tmpl["els"] = sorted(els)
        elif kind == "KPP":
            phs = [r.choice(["Calcite", "Gypsum", "Strontianite", "Celestite", "Dolomite"])]
            if r.random() < 0.35:
                phs += r.choice([["Sepiolite", "Sepiolite(d)"], ["Sepiolite(d)"], ["Gypsum"], ["Calcite", "Celestite"]])
            phs = list(dict.fromkeys(phs))
            tmpl["phases"] = phs
            body = "".join(" %s 0 %.6f\n" % (ph, 0.01 + 0.05 * u + 0.003 * j) for j, ph in enumerate(phs))
        elif kind == "KExch":
            sps = r.sample(["NaX", "KX", "CaX2", "MgX2"], r.choice([1, 1, 2]))
            body = "".join(" %s %.6f\n" % (sp, 0.01 + 0.05 * u + 0.002 * j) for j, sp in enumerate(sps))
            tmpl["comps"] = list(sps)
        elif kind == "KSurf":
            body = " Hfo_w %.6f 600 1\n" % (0.0005 + 0.001 * u)
            if r.random() < 0.3:
                body += " Hfo_s %.6f\n" % (0.00005 + 0.0001 * u)
        elif kind == "KSS":
            body = " CaSr\n -comp Calcite %.6f\n -comp Strontianite %.6f\n" % (0.01 + 0.05 * u, 0.001 + 0.005 * u)
        elif kind == "KGas":
            body = " -fixed_pressure\n -pressure 1\n -volume 1\n CO2(g) %.6f\n" % (0.001 + 0.01 * u)
            tmpl["comps"] = ["CO2(g)"]
            if r.random() < 0.3:
                body += " N2(g) %.6f\n" % (0.5 + 0.3 * u)
                tmpl["comps"].append("N2(g)")
        elif kind == "KKin":
            body = "c14rate\n -formula NaCl 1\n -m %.6f\n -m0 %.6f\n" % (1 + u, 1 + u)
            tmpl["comps"] = ["c14rate"]
            if r.random() < 0.4:
                # a second component whose name has the first one as a prefix
                body += "c14rate2\n -formula KCl 1\n -m %.6f\n -m0 %.6f\n" % (2 + u, 2 + u)
                tmpl["comps"].append("c14rate2")
            body += " -steps 10 in 1\n"
        elif kind == "KMix":
            sols = self.existing("KSol", 0) or [1]
            a = r.choice(sols)
            b = r.choice(sols)
            tmpl["nums"] = [a, b] if a != b else [a]
            body = " %d %.6f\n" % (a, 0.3 + 0.4 * u) + (" %d %.6f\n" % (b, 0.7 - 0.4 * u) if a != b else "")
        elif kind == "KRxn":
            f = r.choice(["NaCl", "KCl", "CaCl2"])
            body = " %s 1\n %.8f moles\n" % (f, 0.0005 + 0.002 * u)
            raw = " -reactant_list\n  %s 1\n -steps\n  %.8f\n -count_steps 0\n -equal_increments 0\n -units Mol\n" % (f, 0.0005 + 0.002 * u)
        elif kind == "KTemp":
            body = " %.4f\n" % (22 + 12 * u)
            raw = " -count_temps 1\n -equal_increments 0\n -temps\n  %.4f\n" % (22 + 12 * u)
        else:
            body = " %.4f\n" % (1 + 4 * u)
            raw = " -count 0\n -equal_increments 0\n -pressures\n  %.4f\n" % (1 + 4 * u)
        if kind == "KMix":
            raw = body
        if kind in ("KRxn", "KTemp", "KPres", "KMix") and r.random() < 0.4:
            # the *_RAW data block: stored by Utilities::Rxn_read_raw (m[n] = entity; Rxn_copies)
            hdr = hdr.replace(KW[kind], KW[kind] + "_RAW", 1)
            body = raw
            self.count("define_raw:" + kind)
        self.count("define:" + kind)
        return {"op": "def", "kind": kind, "n": n, "n_end": n_end, "id": did, "text": hdr + "\n" + body, "tmpl": tmpl}

    MODS = {
        "KSol": [("-temp", lambda u: round(15 + 20 * u, 4)), ("-pressure", lambda u: round(1 + 3 * u, 4)),
                 ("-density", lambda u: round(1 + 0.02 * u, 6)), ("-potential", lambda u: round(0.01 + 0.1 * u, 5))],
        "KGas": [("-volume", lambda u: round(1 + 2 * u, 4)), ("-total_p", lambda u: round(1 + u, 4))],
        "KKin": [("-step_divide", lambda u: round(2 + 5 * u, 3)), ("-bad_step_max", lambda u: 100 + int(300 * u))],
        "KSurf": [("-thickness", lambda u: float("%.3e" % (1e-8 * (1 + u)))), ("-DDL_viscosity", lambda u: round(0.5 + 0.4 * u, 4))],
        "KRxn": [("-count_steps", lambda u: 2 + int(5 * u))],
    }

    def modification(self):
        r = self.rng
        kinds = [k for k in ["KSol", "KSol", "KSol", "KPP", "KGas", "KKin", "KSurf", "KRxn", "KSS", "KExch"] if self.mirror[k]]
        if not kinds:
            return None
        kind = r.choice(kinds)
        mid = self.fresh()
        u = (mid % 991) / 991.0
        if r.random() < 0.12:
            n = self.num(kind)                 # possibly absent: warning, no change
        else:
            n = r.choice(self.existing(kind))
        tm = self.mirror[kind].get(n, {})
        sel, extra = [], {}
        if kind == "KSol" and r.random() < 0.55:
            # element totals / master activities by name; prefer a symbol that is a proper prefix of an
            # element the solution holds (C with Ca/Cl, N with Na, S with Sr/Si, F with Fe, B with Ba/Br, P with Pb)
            els = tm.get("els") or ["Na", "Cl", "Ca"]
            hits = [p for p, longer in PREFIX_ELS.items() if any(e in els for e in longer)]
            x = r.random()
            if hits and x < 0.55:
                name = r.choice(hits)
            elif x < 0.75:
                name = r.choice(list(PREFIX_ELS))
            elif x < 0.9:
                name = r.choice(els + ["K", "Mg", "Si", "Sr", "Ba", "Br", "Fe", "Pb", "Cd", "Cu", "Na", "Ca", "Cl"])
            else:
                name = r.choice(["C(4)", "S(6)", "N(5)", "N(-3)", "Fe(2)", "C(-4)"])
            if r.random() < 0.7:
                section, val = "-totals", float("%.6e" % (1e-4 + 9e-4 * u))
            else:
                section, val = "-activities", round(-6 + 3 * u, 5)
            field = name
            extra = {"section": section}
            text = "%s_MODIFY %d\n %s\n   %s %s\n" % (KW[kind], n, section, name, val)
            if section == "-totals":
                if n in self.mirror[kind]:
                    self.mirror[kind][n] = dict(tm, els=sorted(set(els) | {name.split("(")[0]}))
        else:
            if kind == "KPP":
                ph = r.choice(tm.get("phases") or ["Calcite"])
                sel = [("-component", ph)]
                field, val = r.choice([("-moles", round(0.02 + 0.1 * u, 6)), ("-si", round(-0.5 + u, 4))])
            elif kind == "KSS":
                sel = [("-solid_solution", "CaSr")]
                if r.random() < 0.5:
                    field, val = "-tk", round(290 + 20 * u, 3)
                else:
                    sel.append(("-component", r.choice(["Calcite", "Strontianite"])))
                    field, val = "-moles", round(0.01 + 0.05 * u, 6)
            elif kind == "KExch" and r.random() < 0.5:
                # component-level (repaired in /repo ff29f6e9; the fixed history `finding2` stays as a regression case)
                sel = [("-component", r.choice(tm.get("comps") or ["NaX"]))]
                field, val = "-la", round(-1 + 2 * u, 5)
            elif kind == "KExch":
                field, val = "-exchange_gammas", r.choice([0, 1])
            elif kind == "KGas" and r.random() < 0.4:
                sel = [("-component", r.choice(tm.get("comps") or ["CO2(g)"]))]
                field, val = "-moles", float("%.6e" % (1e-4 + 1e-3 * u))
            elif kind == "KKin" and r.random() < 0.5:
                sel = [("-component", r.choice(tm.get("comps") or ["c14rate"]))]
                field, val = r.choice([("-m", round(0.5 + u, 6)), ("-tol", float("%.3e" % (1e-8 * (1 + 8 * u))))])
            elif kind == "KSurf" and r.random() < 0.4:
                sel = [("-component", "Hfo_w")]
                field, val = "-la", round(0.1 + u, 5)
            else:
                field, f = r.choice(self.MODS[kind])
                val = f(u)
            text = "%s_MODIFY %d\n" % (KW[kind], n)
            for d, (o, a) in enumerate(sel):
                text += " " * (d + 1) + "%s %s\n" % (o, a)
            text += " " * (len(sel) + 1) + "%s %s\n" % (field, val)
        self.count("modify:" + kind + (":" + extra["section"] if extra else (":component" if sel else "")))
        m = {"op": "mod", "kind": kind, "n": n, "id": mid, "field": field, "value": val, "text": text, "sel": sel}
        m.update(extra)
        return m

    # ---- USE / SAVE
    def reaction(self):
        r = self.rng
        use, save = [], []
        sols = self.existing("KSol", 0, 12)
        mixes = [m for m in self.existing("KMix") if all(x in self.mirror["KSol"] for x in self.mirror["KMix"][m].get("nums", []))]
        if not sols:
            return None
        if mixes and r.random() < 0.15:
            use.append(("KMix", r.choice(mixes)))
        else:
            use.append(("KSol", r.choice(sols)))
        extra = [k for k in ["KPP", "KExch", "KGas", "KSS", "KSurf"] if self.existing(k, 0, 12)]
        r.shuffle(extra)
        for k in extra[:r.choice([0, 1, 1, 2])]:
            if k == "KSurf" and r.random() < 0.5:
                continue
            use.append((k, r.choice(self.existing(k, 0, 12))))
        for k in ["KRxn", "KTemp", "KPres"]:
            if self.existing(k, 0, 12) and r.random() < (0.6 if k == "KRxn" else 0.2):
                use.append((k, r.choice(self.existing(k, 0, 12))))
        a, b = self.rng_range("KSol")
        save.append(("KSol", a, b))
        for k, _ in use:
            if k in SAVABLE and k != "KSol" and r.random() < 0.6:
                a, b = self.rng_range(k)
                save.append((k, a, b))
        if r.random() < 0.1:
            # SAVE of a kind that was not used: nothing is written
            k = r.choice([x for x in SAVABLE if x != "KSol"])
            if k not in [u[0] for u in use]:
                a, b = self.rng_range(k)
                save.append((k, a, b))
        self.count("react")
        return {"use": use, "save": save, "missing": False}

    def missing_reaction(self):
        r = self.rng
        sols = self.existing("KSol", 0, 12)
        kind = r.choice(["KSol", "KPP", "KExch", "KSurf", "KGas", "KSS", "KRxn", "KTemp", "KPres", "KMix"])
        absent = [n for n in range(0, 14) if n not in self.mirror[kind]]
        if kind == "KMix":
            absent = [n for n in range(40, 46) if n not in self.mirror[kind]]
        n = r.choice(absent)
        if kind == "KMix":
            use = [(kind, n)]
        elif kind == "KSol":
            others = [(k, r.choice(self.existing(k, 0, 12))) for k in ["KRxn", "KPP", "KTemp", "KPres"] if self.existing(k, 0, 12)]
            if others:
                use = [(kind, n), r.choice(others)]
            else:
                kind = "KRxn"
                n = r.choice([x for x in range(0, 14) if x not in self.mirror[kind]])
                use = [("KSol", r.choice(sols)), (kind, n)]
        else:
            use = [("KSol", r.choice(sols)), (kind, n)]
        a = self.num("KSol")
        self.count("react:missing")
        return {"use": use, "save": [("KSol", a, a)], "missing": True}

    def cells(self):
        r = self.rng
        sols = self.existing("KSol", 0, 12)
        if not sols:
            return []
        rich = [n for n in sols if any(n in self.mirror[k] for k in ("KPP", "KExch", "KSurf", "KSS", "KGas", "KRxn"))]
        c = set(r.sample(sols, min(len(sols), r.choice([1, 1, 2]))))
        if rich and r.random() < 0.7:
            c.add(r.choice(rich))               # a cell that has more than a solution
        if r.random() < 0.2:
            c.add(r.randint(0, 13))           # maybe a cell with no solution: skipped
        if r.random() < 0.05:
            c.add(-4)
        self.count("run_cells")
        return sorted(c)

    MIXKW = {"KSol": "SOLUTION_MIX", "KPP": "EQUILIBRIUM_PHASES_MIX", "KExch": "EXCHANGE_MIX", "KGas": "GAS_PHASE_MIX"}

    def mix(self):
        r = self.rng
        kinds = [k for k in ["KSol", "KSol", "KSol", "KPP", "KExch", "KGas"] if self.existing(k, 0, 12)]
        if not kinds:
            return None
        kind = r.choice(kinds)
        have = self.existing(kind, 0, 12)
        mid = self.fresh()
        u = (mid % 983) / 983.0
        a = r.choice(have)
        b = r.choice(have)
        n, n_end = self.rng_range(kind)
        nums = [a, b] if a != b else [a]
        body = " %d %.6f\n" % (a, 0.3 + 0.4 * u) + (" %d %.6f\n" % (b, 0.7 - 0.4 * u) if a != b else "")
        text = "%s %d%s\n%s" % (self.MIXKW[kind], n, "-%d" % n_end if n_end > n else "", body)
        self.count("mix:" + kind)
        return {"kind": kind, "n": n, "n_end": n_end, "id": mid, "nums": nums, "text": text, "tmpl": dict(self.mirror[kind][a])}

    def copy_line(self):
        r = self.rng
        if r.random() < 0.25:
            src = r.choice(self.existing("KSol", 0, 12) or [1]) if r.random() < 0.8 else r.randint(0, 12)
            lo, hi = self.rng_range("KSol", allow_neg=False)
            self.count("copy:cell")
            return {"cell": True, "src": src, "lo": lo, "hi": hi}
        kind = r.choice([k[0] for k in KINDS])
        ex = self.existing(kind)
        src = r.choice(ex) if ex and r.random() < 0.85 else self.num(kind, allow_neg=True)
        lo, hi = self.rng_range(kind, allow_neg=True)
        self.count("copy:" + kind)
        return {"cell": False, "kind": kind, "src": src, "lo": lo, "hi": hi}

    def delete_opts(self):
        r = self.rng
        opts = []
        x = r.random()
        if x < 0.06:
            opts.append({"o": "all"})
        for _ in range(r.choice([1, 1, 2])):
            y = r.random()
            if y < 0.25:
                rs = [list(self.rng_range("KSol")) for _ in range(r.choice([1, 1, 2]))]
                if r.random() < 0.05:
                    rs = []
                opts.append({"o": "cell", "rs": rs})
            else:
                kind = r.choice([k[0] for k in KINDS])
                rs = []
                for _ in range(r.choice([0, 1, 1, 1, 2]) if r.random() < 0.9 else 0):
                    a, b = self.rng_range(kind, allow_neg=True)
                    if r.random() < 0.1:
                        a, b = b, a                 # reversed range "7-5": still 5..7
                    rs.append([a, b])
                if r.random() < 0.7 and self.existing(kind):
                    e = r.choice(self.existing(kind))
                    rs.append([e, e])
                opts.append({"o": "kind", "kind": kind, "rs": rs})
        self.count("delete")
        return opts

    # ---- one simulation
    def step(self, first=False):
        r = self.rng
        st = {"reads": [], "react": None, "cells": [], "mixes": [], "copies": [], "delete": None, "dump": r.random() < 0.35}
        w = dict(define=3.0, modify=1.2, react=1.5, cells=1.0, mix=0.5, copy=2.0, delete=1.5)
        w.update(self.focus)
        if first:
            parts = ["define"]
        elif r.random() < 0.04 and self.existing("KSol", 0, 12):
            # USE of a missing reactant: the run stops.  Such a simulation contains nothing else (an
            # aborted run leaves pending COPY / DELETE requests and unspeciated definitions behind).
            st["react"] = self.missing_reaction()
            st["dump"] = False
            return st
        else:
            names = list(w)
            parts = set()
            for _ in range(r.choice([1, 1, 2, 2, 3])):
                parts.add(r.choices(names, [w[n] for n in names])[0])
        defined_here = set()
        if "define" in parts:
            kinds = [k[0] for k in KINDS]
            wk = [4, 2, 1.2, 0.8, 0.8, 1, 0.7, 0.7, 1.2, 0.6, 0.6]
            for _ in range(r.choice([3, 4, 5]) if first else r.choice([1, 1, 2, 3])):
                k = "KSol" if first and not st["reads"] else r.choices(kinds, wk)[0]
                d = self.definition(k)
                if k in DEFERRED and any((k, i) in defined_here for i in range(d["n"], d["n_end"] + 1)):
                    continue      # see FINDING "range-copy-deferred": kept out of the random histories
                st["reads"].append(d)
                defined_here.update((k, i) for i in range(d["n"], d["n_end"] + 1))
        if "modify" in parts:
            for _ in range(r.choice([1, 1, 2])):
                m = self.modification()
                if m and (m["kind"], m["n"]) not in defined_here:
                    # never two modifications of one entry in a step (the diff check looks at one)
                    if not any(x["op"] == "mod" and (x["kind"], x["n"]) == (m["kind"], m["n"]) for x in st["reads"]):
                        st["reads"].append(m)
        apply_reads(self.mirror, st)
        if "react" in parts:
            st["react"] = self.reaction()
        apply_react(self.mirror, st)
        if "cells" in parts:
            st["cells"] = self.cells()
        apply_cells(self.mirror, st)
        if "mix" in parts:
            m = self.mix()
            if m:
                st["mixes"] = [m]
        apply_mixes(self.mirror, st)
        if "copy" in parts:
            st["copies"] = [self.copy_line() for _ in range(r.choice([1, 1, 2, 3]))]
        apply_copies(self.mirror, st)
        if "delete" in parts:
            st["delete"] = self.delete_opts()
        apply_delete(self.mirror, st)
        return st

    def history(self, nsteps):
        return [self.step(first=(i == 0)) for i in range(nsteps)]


# mirror updates (key sets + templates only; used for generation and for building the twin history)

def _copies(m, n, n_end):
    if n in m:
        for j in range(n + 1, n_end + 1):
            m[j] = dict(m[n])


def apply_reads(mir, st):
    for x in st["reads"]:
        if x["op"] == "def":
            mir[x["kind"]][x["n"]] = dict(x["tmpl"])
            _copies(mir[x["kind"]], x["n"], x["n_end"])


def apply_react(mir, st):
    rc = st["react"]
    if not rc or rc["missing"]:
        return
    used = dict(rc["use"])
    if not any(k not in ("KSol",) for k in used) or not ("KSol" in used or "KMix" in used):
        return          # USE of a solution alone is not a reaction: nothing is saved
    for k, a, b in rc["save"]:
        if k == "KSol" and ("KSol" in used or "KMix" in used):
            mir[k][a] = {"calc": True}
            _copies(mir[k], a, b)
        elif k != "KSol" and k in used and used[k] in mir[k]:
            mir[k][a] = dict(mir[k][used[k]])
            _copies(mir[k], a, b)
        elif k != "KSol":
            _copies(mir[k], a, b)       # SAVE of an unused kind: the range copy of saver() still runs


def cell_parts(mir, n):
    """(use list, save list) of RUN_CELLS on cell n according to the mirror; None when the cell is skipped"""
    if n < 0 or (n not in mir["KSol"] and n not in mir["KMix"]):
        return None
    use = [("KMix", n)] if n in mir["KMix"] else [("KSol", n)]
    save = [("KSol", n, n)]
    for k in ["KPP", "KExch", "KSurf", "KGas", "KSS"]:
        if n in mir[k]:
            use.append((k, n))
            save.append((k, n, n))
    for k in ["KRxn", "KTemp", "KPres"]:
        if n in mir[k]:
            use.append((k, n))
    return use, save


def apply_cells(mir, st):
    for n in st["cells"]:
        p = cell_parts(mir, n)
        if p:
            mir["KSol"][n] = {"calc": True}


def apply_mixes(mir, st):
    for m in st["mixes"]:
        mir[m["kind"]][m["n"]] = dict(m.get("tmpl") or {"calc": True})
        _copies(mir[m["kind"]], m["n"], m["n_end"])


def apply_copies(mir, st):
    for c in st["copies"]:
        kinds = [k[0] for k in KINDS] if c["cell"] else [c["kind"]]
        for k in kinds:
            if c["src"] in mir[k]:
                if c["lo"] < 0 <= c["hi"]:
                    continue
                for i in range(c["lo"], c["hi"] + 1):
                    if i != c["src"]:
                        mir[k][i] = dict(mir[k][c["src"]])


def expand(rs):
    out = []
    for a, b in rs:
        out.extend(range(min(a, b), max(a, b) + 1))
    return out


def apply_delete(mir, st):
    if st["delete"] is None:
        return
    req = {k[0]: None for k in KINDS}         # None: not defined; []: all; [..]: numbers
    cell = None
    for o in st["delete"]:
        if o["o"] == "all":
            req = {k: [] for k in req}
        elif o["o"] == "kind":
            req[o["kind"]] = (req[o["kind"]] or []) + expand(o["rs"])
        else:
            cell = (cell or []) + expand(o["rs"])
    if cell is not None:
        if not cell:
            req = {k: [] for k in req}
        else:
            for k in req:
                if req[k] is not None and not req[k]:
                    continue
                req[k] = (req[k] or []) + cell
    for k, ns in req.items():
        if ns is None:
            continue
        if not ns:
            mir[k].clear()
        else:
            for n in ns:
                mir[k].pop(n, None)


# ----------------------------------------------------------------------------- rendering a step

USE_ALL = ["solution", "mix", "equilibrium_phases", "exchange", "surface", "gas_phase", "solid_solutions", "kinetics",
           "reaction", "reaction_temperature", "reaction_pressure"]


def rng_txt(a, b):
    return "%d" % a if a == b else "%d-%d" % (a, b)


def step_text(st, rng=None):
    """PHREEQC input of one simulation.  Blocks are emitted in a shuffled order (the order of the
    definitions / modifications among themselves and of the COPY lines among themselves is kept)."""
    blocks = []
    for x in st["reads"]:
        blocks.append(("read", x["text"]))
    used = dict((OPT[k], n) for k, n in (st["react"]["use"] if st["react"] else []))
    use_lines = ""
    for nm in USE_ALL:
        use_lines += "USE %s %s\n" % (nm, used[nm] if nm in used else "none")
    if st["react"]:
        for k, a, b in st["react"]["save"]:
            use_lines += "SAVE %s %s\n" % (OPT[k], rng_txt(a, b))
    blocks.append(("use", use_lines))
    if st["cells"]:
        blocks.append(("cells", "RUN_CELLS\n -cells %s\n" % " ".join(str(c) for c in st["cells"])))
    for m in st["mixes"]:
        blocks.append(("mix", m["text"]))
    for c in st["copies"]:
        blocks.append(("copy", "COPY %s %d %s\n" % ("cell" if c["cell"] else OPT[c["kind"]], c["src"], rng_txt(c["lo"], c["hi"]))))
    if st["delete"] is not None:
        t = "DELETE\n"
        for o in st["delete"]:
            if o["o"] == "all":
                t += " -all\n"
            elif o["o"] == "cell":
                t += " -cell %s\n" % " ".join(rng_txt(a, b) if a <= b else "%d-%d" % (a, b) for a, b in o["rs"])
            else:
                t += " -%s %s\n" % (OPT[o["kind"]], " ".join("%d-%d" % (a, b) if a != b else "%d" % a for a, b in o["rs"]))
        blocks.append(("delete", t))
    if st["dump"]:
        blocks.append(("dump", "DUMP\n -all\n"))
    order = st.get("order")
    if order is None:
        idx = list(range(len(blocks)))
        if rng is not None:
            # shuffle, then restore relative order inside the "read" and "copy" groups
            rng.shuffle(idx)
            for grp in ("read", "copy"):
                pos = [p for p, i in enumerate(idx) if blocks[i][0] == grp]
                vals = sorted(idx[p] for p in pos)
                for p, v in zip(pos, vals):
                    idx[p] = v
            # a definition read after "USE <kind> none" would switch the automatic use back on
            ui = [i for i in idx if blocks[i][0] == "use"][0]
            last_read = max([p for p, i in enumerate(idx) if blocks[i][0] == "read"] + [-1])
            if idx.index(ui) < last_read:
                idx.remove(ui)
                idx.insert(last_read, ui)
        st["order"] = idx
        order = idx
    return "".join(blocks[i][1] for i in order) + "END\n"


def zc(n):
    return "(%d)" % n if n < 0 else "%d" % n


def step_coq(st):
    reads = []
    for x in st["reads"]:
        if x["op"] == "def":
            reads.append("RDefine %s %s %s %d" % (x["kind"], zc(x["n"]), zc(x["n_end"]), x["id"]))
        else:
            reads.append("RModify %s %s %d" % (x["kind"], zc(x["n"]), x["id"]))
    if st["react"]:
        u = "; ".join("(%s, %s)" % (k, zc(n)) for k, n in st["react"]["use"])
        s = "; ".join("(%s, %s, %s)" % (k, zc(a), zc(b)) for k, a, b in st["react"]["save"])
        react = "(Some ([%s], [%s]))" % (u, s)
    else:
        react = "None"
    cells = "[%s]" % "; ".join(zc(c) for c in st["cells"])
    mixes = "[%s]" % "; ".join("(%s, %s, %s, (%d, [%s]))" % (m["kind"], zc(m["n"]), zc(m["n_end"]), m["id"], "; ".join(zc(x) for x in m["nums"])) for m in st["mixes"])
    copies = []
    for c in st["copies"]:
        if c["cell"]:
            copies.append("COCell %s %s %s" % (zc(c["src"]), zc(c["lo"]), zc(c["hi"])))
        else:
            copies.append("COKind %s %s %s %s" % (c["kind"], zc(c["src"]), zc(c["lo"]), zc(c["hi"])))
    if st["delete"] is None:
        dele = "None"
    else:
        ds = []
        for o in st["delete"]:
            rs = "[%s]" % "; ".join("(%s, %s)" % (zc(a), zc(b)) for a, b in o.get("rs", []))
            if o["o"] == "all":
                ds.append("DOAll")
            elif o["o"] == "cell":
                ds.append("DOCell %s" % rs)
            else:
                ds.append("DOKind %s %s" % (o["kind"], rs))
        dele = "(Some [%s])" % "; ".join(ds)
    return "mk %d [%s] %s %s %s [%s] %s" % (st.get("tag", 0), "; ".join(reads), react, cells, mixes, "; ".join(copies), dele)


def twin_of(hist):
    """the same history with every RUN_CELLS replaced by the explicit USE ... / SAVE ... simulations
    (one per cell, ascending), built with the mirror.  Returns (twin steps, map twin index -> original index)."""
    mir = {k[0]: {} for k in KINDS}
    out, back = [], []
    for i, st in enumerate(hist):
        if not st["cells"]:
            s2 = _copy.deepcopy(st)
            out.append(s2); back.append(i)
            for f in (apply_reads, apply_react, apply_cells, apply_mixes, apply_copies, apply_delete):
                f(mir, st)
            continue
        # split: reads+react first, then one explicit simulation per cell, then the rest
        head = _copy.deepcopy(st)
        head.update(cells=[], mixes=[], copies=[], delete=None, dump=False)
        head.pop("order", None)
        out.append(head); back.append(None)
        apply_reads(mir, st); apply_react(mir, st)
        for n in st["cells"]:
            p = cell_parts(mir, n)
            if p and len(p[0]) > 1:
                out.append({"reads": [], "react": {"use": p[0], "save": p[1], "missing": False}, "cells": [], "mixes": [],
                            "copies": [], "delete": None, "dump": False})
                back.append(None)
                mir["KSol"][n] = {"calc": True}
            elif p:
                # a cell holding only a solution: USE solution n alone is not a reaction, RUN_CELLS recalculates
                out.append({"reads": [], "react": None, "cells": [n], "mixes": [], "copies": [], "delete": None, "dump": False})
                back.append(None)
                mir["KSol"][n] = {"calc": True}
        tail = _copy.deepcopy(st)
        tail.update(reads=[], react=None, cells=[])
        tail.pop("order", None)
        out.append(tail); back.append(i)
        apply_mixes(mir, st); apply_copies(mir, st); apply_delete(mir, st)
    return out, back


# ----------------------------------------------------------------------------- running both sides

def run_impl(hists, timeout=300):
    """hists: {hid: [step, ...]} -> {hid: [result-json per step]}"""
    exe = vlib.build_harness("c14_drive", ["c14_drive.cpp"])
    ids = list(hists)
    res = {}
    nw = max(1, min(6, len(ids)))
    chunks = [ids[i::nw] for i in range(nw)]
    import concurrent.futures as cf

    def work(chunk):
        out = {}
        with vlib.scratch("c14") as d:
            p = os.path.join(d, "h.txt")
            with open(p, "w") as f:
                for hid in chunk:
                    f.write("@@HISTORY %s %s\n" % (hid, os.path.join(vlib.DB, "phreeqc.dat")))
                    f.write("@@STEP -\n" + RATES + "END\n")
                    for st in hists[hid]:
                        f.write("@@STEP obs\n" + st["_text"])
                f.write("@@END\n")
            rc, so, se = vlib.sh([exe, p], cwd=d, timeout=timeout)
            for line in so.split("\n"):
                if line.startswith("{"):
                    try:
                        r = json.loads(line)
                    except Exception:
                        continue
                    out.setdefault(r["h"], []).append(r)
            out["_rc"] = rc
        return out

    with cf.ThreadPoolExecutor(max_workers=nw) as ex:
        for o in ex.map(work, chunks):
            o.pop("_rc", None)
            res.update(o)
    # drop the RATES pre-step
    return {h: [r for r in rs if r.get("s", 0) >= 1] for h, rs in res.items()}


def run_model(hists, timeout=240):
    """{hid: steps} -> {hid: [(store, dumpstore, stopped) per step]}; store: {(kind, n): (num, id)}.
    The histories are sharded into cases files of at most 20 (one `Eval vm_compute` each, so every printed term
    stays small); a shard that does not finish in time is split and retried, a single history that does not
    finish is an infrastructure error naming it."""
    ids = list(hists)
    import concurrent.futures as cf
    shard = 20
    chunks = [ids[i:i + shard] for i in range(0, len(ids), shard)]

    def work(chunk):
        v = ["From Coq Require Import ZArith List.", "From IPV.C14 Require Import Store Exec.", "Import ListNotations.", "Open Scope Z_scope."]
        for hid in chunk:
            v.append("Eval vm_compute in x_show [\n  %s ]." % ";\n  ".join(step_coq(s) for s in hists[hid]))
        rc, out = vlib.coq_eval("\n".join(v) + "\n", timeout=timeout)
        if rc == 124:
            if len(chunk) == 1:
                raise RuntimeError("model evaluation of history %s did not finish within %d s:\n%s" % (chunk[0], timeout, v[-1][:1500]))
            h = len(chunk) // 2
            res = work(chunk[:h])
            res.update(work(chunk[h:]))
            return res
        if rc != 0:
            err = [l for l in out.split("\n") if "Error" in l or l.startswith("File ")]
            raise RuntimeError("model evaluation failed (coqc rc %d): %s" % (rc, "\n".join(err[:6]) or out[:1500]))
        parts = re.split(r"^\s*=\s", out, flags=re.M)[1:]
        if len(parts) != len(chunk):
            raise RuntimeError("model evaluation: %d results for %d histories; output starts: %s" % (len(parts), len(chunk), out[:600]))
        res = {}
        for hid, ptxt in zip(chunk, parts):
            body = " ".join(ptxt.split())                 # the printer wraps lines anywhere
            body = body.split(" : list")[0]
            try:
                data = json.loads(body.replace(";", ","))
            except ValueError as ex:
                raise RuntimeError("model output of history %s not parsable (%s): %s" % (hid, ex, body[:600]))
            steps = []
            for st, du, stop in data:
                steps.append((dec_store(st), dec_store(du), bool(stop[0])))
            if len(steps) != len(hists[hid]):
                raise RuntimeError("model output of history %s has %d steps for %d simulations" % (hid, len(steps), len(hists[hid])))
            res[hid] = steps
        return res

    res = {}
    with cf.ThreadPoolExecutor(max_workers=max(1, min(6, len(chunks)))) as ex:
        for o in ex.map(work, chunks):
            res.update(o)
    return res


def dec_store(flat):
    d = {}
    for i in range(0, len(flat), 4):
        k, key, num, cid = flat[i:i + 4]
        d[(KINDS[k][0], key)] = (num, cid)
    return d


HDR = re.compile(r"^([A-Z_]+_RAW)\s+(-?\d+)\s*(.*)$")


def parse_dump(d):
    """dump string -> ({(kind, n): [lines]}, [duplicates])"""
    out, dup, cur = {}, [], None
    for l in d.split("\n"):
        m = HDR.match(l)
        if m and m.group(1) in HDR2K:
            cur = (HDR2K[m.group(1)], int(m.group(2)))
            if cur in out:
                dup.append(cur)
            out[cur] = []
        elif l.startswith("USE "):
            cur = None
        elif cur is not None and l.strip():
            out[cur].append(l.rstrip())
    return out, dup


def norm_block(kind, lines):
    """drop workspace data that GetComponentCount()/list_components itself rewrites inside the stored
    entity (KINETICS -totals is filled by calc_dummy_kinetic_reaction_tally)"""
    if kind == "KSol":
        # the saved -density is whatever the last density calculation left behind (it is only refreshed
        # when results are printed): not a function of the reactants used, see notes/C14.md
        return [l for l in lines if l.split()[:1] != ["-density"]]
    if kind != "KKin":
        return lines
    out, skip = [], False
    for l in lines:
        s = l.strip()
        if s.startswith("-") or s.startswith("#"):
            skip = s.split()[0] == "-totals"
        elif skip:
            continue
        out.append(l)
    return out


def drop_derived(kind, lines):
    """for the *_MODIFY line diff: EQUILIBRIUM_PHASES -eltList is recomputed from the phases whenever the
    assemblage is read (after an EQUILIBRIUM_PHASES_MIX it holds scaled coefficients until then)"""
    if kind != "KPP":
        return lines
    out, skip = [], False
    for l in lines:
        s = l.strip()
        if s.startswith("-") or s.startswith("#"):
            skip = s.split()[0] == "-eltList"
        elif skip:
            continue
        out.append(l)
    return out


def fp_of(kind, lines):
    return hashlib.sha1((kind + "\n" + "\n".join(norm_block(kind, lines))).encode()).hexdigest()[:16]


ELT_LINE = re.compile(r"^\s+([A-Z][a-z]?)(\([-+\d]+\))?\s+(-?[\d.]+(?:[eE][-+]?\d+)?)\s*$")


def block_elements(kind, lines):
    """(must, may): elements certainly present in the entity (non-zero amount) / elements that may
    legitimately be listed for it"""
    must, may = set(), set()
    if kind not in REACTANT:
        return must, may
    section, comp = "", None
    for l in lines:
        s = l.strip()
        if s.startswith("#"):
            continue
        toks = s.split()
        if s.startswith("-"):
            section = toks[0]
            if toks[0] in ("-component", "-comp") and len(toks) > 1:
                comp = toks[1]
                for e in PHASES.get(comp, []):
                    may.add(e)
            elif toks[0] == "-moles" and comp is not None and kind in ("KGas", "KSS") and len(toks) > 1:
                try:
                    if float(toks[1]) > 0:
                        must.update(e for e in PHASES.get(comp, []) if e in ELS)
                except ValueError:
                    pass
            continue
        m = ELT_LINE.match(l)
        if m and m.group(1) in ELS:
            may.add(m.group(1))
            if section in ("-totals", "-eltList") and float(m.group(3)) != 0.0:
                must.add(m.group(1))
            continue
        if toks and section in ("-reactant_list", "-namecoef"):
            for e in re.findall(r"[A-Z][a-z]?", toks[0]):
                if e in ELS:
                    must.add(e); may.add(e)
    return must, may


class Mismatch(Exception):
    def __init__(self, cat, step, what, observed=None, expected=None):
        Exception.__init__(self, what)
        self.cat, self.step, self.what, self.observed, self.expected = cat, step, what, observed, expected


NOT_FOUND = re.compile(r"not found", re.I)


def compare(hist, impl, model, stats):
    """raises Mismatch at the first step where the implementation departs from the model.
    Returns the number of steps compared (a history is abandoned, not flagged, at a numerical failure)."""
    id2fp, fp2id = {}, {}
    prev_blocks, prev_model = {}, {}
    calc_since_wipe = False
    if len(impl) < len(hist):
        raise Mismatch("harness", len(impl), "the driver returned %d of %d steps (crash or hang)" % (len(impl), len(hist)))
    for i, st in enumerate(hist):
        r = impl[i]
        mstore, mdump, mstop = model[i]
        err = r.get("err", "") or ""
        # ---- errors
        if mstop:
            if r["rc"] == 0 or not NOT_FOUND.search(err):
                raise Mismatch("missing-not-reported", i, "USE of a missing reactant did not stop the run with a 'not found' error",
                               observed={"rc": r["rc"], "err": err[:300]}, expected="rc != 0, '... not found.'")
        elif r["rc"] != 0:
            if NOT_FOUND.search(err):
                raise Mismatch("unexpected-not-found", i, "the implementation reports a missing reactant that the model has",
                               observed=err[:300], expected="no error")
            stats["numerical_failures"] = stats.get("numerical_failures", 0) + 1
            return i
        if r.get("after_rc", 0) != 0:
            raise Mismatch("observation-failed", i, "DUMP -all after the step failed", observed=r.get("after_rc"))
        if st["react"] and not st["react"]["missing"] or st["cells"]:
            calc_since_wipe = True
        # ---- store after the step
        blocks, dup = parse_dump(r.get("after", ""))
        check_store(i, "after the simulation", blocks, dup, mstore, id2fp, fp2id, prev_blocks, prev_model, st, stats)
        # ---- the DUMP made inside the simulation sees the store after COPY and before DELETE
        if st["dump"] and not mstop:
            b2, dup2 = parse_dump(r.get("dump", ""))
            check_store(i, "at DUMP time inside the simulation", b2, dup2, mdump, id2fp, fp2id, None, None, st, stats)
        # ---- components
        comps = set(r.get("comps", []))
        must, may = set(), set()
        for (k, n), lines in blocks.items():
            a, b = block_elements(k, lines)
            must |= a; may |= b
        if not must <= comps:
            raise Mismatch("components-missing", i, "component list lacks elements of stored reactants: %s" % sorted(must - comps),
                           observed=sorted(comps), expected=sorted(must))
        if not any(n < 0 for (_k, n) in mstore) and not calc_since_wipe:
            extra = {c for c in comps if c in ELS} - may
            if extra:
                raise Mismatch("components-stale", i, "component list has elements of no stored reactant: %s" % sorted(extra),
                               observed=sorted(comps), expected=sorted(may))
        if st["delete"] and all(o["o"] == "all" or (o["o"] == "cell" and not o["rs"]) for o in st["delete"]):
            calc_since_wipe = False            # every map was cleared, the engine's scratch entries (-1, -2) included
        prev_blocks, prev_model = blocks, mstore
        stats["steps_compared"] = stats.get("steps_compared", 0) + 1
    return len(hist)


def check_store(i, where, blocks, dup, mstore, id2fp, fp2id, prev_blocks, prev_model, st, stats):
    if dup:
        raise Mismatch("duplicate-number", i, "%s the dump shows two entities with the same number: %s" % (where, dup[:4]), observed=dup[:4])
    mkeys = {k for k in mstore if k[1] >= 0}
    ikeys = set(blocks)
    if mkeys != ikeys:
        raise Mismatch("key-set", i, "%s: entities present differ; only in implementation %s, only in model %s" %
                       (where, sorted(ikeys - mkeys)[:6], sorted(mkeys - ikeys)[:6]),
                       observed=sorted(ikeys - mkeys)[:10], expected=sorted(mkeys - ikeys)[:10])
    for key in sorted(mkeys):
        num, cid = mstore[key]
        fp = fp_of(key[0], blocks[key])
        # same content identifier => same text (content-identical copies, ranges, frame)
        if cid in id2fp and id2fp[cid][0] != fp:
            okey = id2fp[cid][1]
            raise Mismatch("content-differs", i, "%s: %s %d should have the same content as %s %d had at step %d, but the dumps differ" %
                           (where, key[0], key[1], okey[0], okey[1], id2fp[cid][2]),
                           observed=diff_lines(norm_block(key[0], id2fp[cid][3]), norm_block(key[0], blocks[key]))[:8], expected="identical blocks")
        if cid not in id2fp:
            id2fp[cid] = (fp, key, i, blocks[key])
        # different definition texts => different dumps (a redefinition / modification must be visible)
        if fp in fp2id and fp2id[fp] != cid:
            a, b = fp2id[fp], cid
            if a < 10 ** 8 and b < 10 ** 8:          # both are definition identifiers chosen by the generator
                raise Mismatch("content-same", i, "%s: %s %d should differ from an entity defined by another text but the dumps are identical" % (where, key[0], key[1]))
            stats["soft_same_fp"] = stats.get("soft_same_fp", 0) + 1
        fp2id.setdefault(fp, cid)
    # *_MODIFY: only the named quantities of the named entry change: every other (path, name, value) entry of
    # its DUMP block is byte-identical (checked when nothing else in the simulation can touch that entry)
    if prev_blocks is not None and not st["react"] and not st["cells"] and not st["mixes"]:
        for x in st["reads"]:
            if x["op"] != "mod":
                continue
            key = (x["kind"], x["n"])
            if key not in prev_model or key not in prev_blocks or key not in blocks:
                continue
            if any(y["op"] == "def" and y["kind"] == x["kind"] and y["n"] <= x["n"] <= y["n_end"] for y in st["reads"]):
                continue
            if any((c["cell"] or c["kind"] == x["kind"]) and c["lo"] <= x["n"] <= c["hi"] for c in st["copies"]):
                continue
            if mstore.get(key, (0, 0))[1] != expected_mod_id(x, prev_model[key][1]):
                raise Mismatch("harness", i, "internal: model content id of a modified entry is not modify(d, base)")
            before = entries(drop_derived(x["kind"], prev_blocks[key]))
            after = entries(drop_derived(x["kind"], blocks[key]))
            changed = sorted({k for k, _v in list((before - after).elements()) + list((after - before).elements())})
            bad = [k for k in changed if not mod_allows(x, k, before)]
            if bad:
                show = lambda c: ["%s = %s" % (" / ".join(k), v) for (k, v), _n in c.items() if k in bad]
                raise Mismatch("modify-touches-other", i,
                               "%s_MODIFY %d %s %s changed quantities it does not name: %s" %
                               (KW[x["kind"]], x["n"], " ".join("%s %s" % tuple(p) for p in x.get("sel", [])) or x.get("section", ""), x["field"],
                                [" / ".join(k) for k in bad[:5]]),
                               observed={"before": show(before)[:8], "after": show(after)[:8]}, expected="only the named quantity changes")
            tkey = mod_target(x)
            newv = [v for (k, v), _n in after.items() if k == tkey]
            ok = False
            for v in newv:
                try:
                    ok = ok or abs(float(v) - float(x["value"])) <= 1e-9 * max(1.0, abs(float(x["value"])))
                except ValueError:
                    ok = ok or v == str(x["value"])
            if not ok:
                raise Mismatch("modify-not-applied", i, "%s_MODIFY %d: %s is not %s afterwards" % (KW[x["kind"]], x["n"], " / ".join(tkey), x["value"]),
                               observed=newv[:4], expected=x["value"])
            stats["modify_checked"] = stats.get("modify_checked", 0) + 1
            if x.get("section"):
                stats["modify_totals_checked"] = stats.get("modify_totals_checked", 0) + 1


SELECTORS = ("-component", "-comp", "-solid_solution", "-charge_component")


def entries(lines):
    """DUMP block -> multiset of ((path..., name), value): the path is the chain of enclosing option lines
    (by indentation; `-component X` style lines keep their argument), so that every stored quantity has
    an address that does not depend on the order in which components are written"""
    from collections import Counter
    out, stack = Counter(), []
    for l in lines:
        s = l.strip()
        if not s or s.startswith("#"):
            continue
        ind = len(l) - len(l.lstrip())
        while stack and stack[-1][0] >= ind:
            stack.pop()
        toks = s.split()
        path = tuple(lbl for _i, lbl in stack)
        if s.startswith("-") and not re.match(r"^-[\d.]", s):
            if toks[0] in SELECTORS and len(toks) > 1:
                label, val = toks[0] + " " + toks[1], ""
            else:
                label, val = toks[0], " ".join(toks[1:])
            out[(path + (label,), val)] += 1
            stack.append((ind, label))
        else:
            out[(path + (toks[0],), " ".join(toks[1:]))] += 1
    return out


def mod_target(x):
    if x.get("section"):
        return (x["section"], x["field"])
    return tuple("%s %s" % tuple(p) for p in x.get("sel", [])) + (x["field"],)


def mod_allows(x, k, before):
    """may entry address k change when modification x is applied?"""
    if k[-1] == "-new_def":
        return True                    # read_raw(check=false) clears new_def (SURFACE)
    if x.get("section"):
        # an element total replaces the valence-state totals of THAT element (and vice versa) and rescales
        # its master activities; nothing else
        elt = x["field"].split("(")[0]
        secs = ("-totals", "-activities") if x["section"] == "-totals" else ("-activities",)
        return len(k) == 2 and k[0] in secs and (k[1] == elt or k[1].startswith(elt + "("))
    sel = tuple("%s %s" % tuple(p) for p in x.get("sel", []))
    if k == sel + (x["field"],):
        return True
    if sel and k[:len(sel)] == sel and not any(kk[:len(sel)] == sel for kk, _v in before):
        return True                    # the named component did not exist: it is created
    return False


P61 = 2305843009213693951


def hlist(l):
    h = 17
    for x in l:
        h = (h * 1000003 + x + 7) % P61
    return h


def expected_mod_id(x, base):
    return hlist([1, KIDX[x["kind"]], x["id"], base])


def diff_lines(a, b):
    import difflib
    return [l for l in difflib.unified_diff(a, b, lineterm="", n=0) if not l.startswith(("---", "+++", "@@"))]


def diff_multiset(a, b):
    from collections import Counter
    ca, cb = Counter(a), Counter(b)
    return ["-" + l for l in (ca - cb).elements()] + ["+" + l for l in (cb - ca).elements()]


def compare_twin(hist, impl, twin, timpl, back, stats):
    """RUN_CELLS n  versus  USE <every reactant numbered n> ; SAVE ... n : identical stores"""
    for ti, oi in enumerate(back):
        if oi is None or ti >= len(timpl) or oi >= len(impl):
            continue
        a, b = impl[oi], timpl[ti]
        if a.get("rc") != 0 or b.get("rc") != 0:
            return
        ba, _ = parse_dump(a.get("after", ""))
        bb, _ = parse_dump(b.get("after", ""))
        ba = {k: norm_block(k[0], v) for k, v in ba.items()}
        bb = {k: norm_block(k[0], v) for k, v in bb.items()}
        if ba != bb:
            keys = sorted(set(ba) ^ set(bb)) or sorted(k for k in ba if ba[k] != bb.get(k))
            k0 = keys[0]
            raise Mismatch("runcells-vs-use-save", oi, "RUN_CELLS and the explicit USE/SAVE form give different stores, e.g. %s %d" % k0,
                           observed=diff_lines(bb.get(k0, []), ba.get(k0, []))[:8], expected="identical dumps")
        stats["twin_steps"] = stats.get("twin_steps", 0) + 1


# ----------------------------------------------------------------------------- the check

def prepare(hist, rng):
    for i, st in enumerate(hist):
        st["tag"] = i + 1              # every simulation is its own calculation context (see Store.v: react)
        st["_text"] = step_text(st, rng)


def strip(hist):
    return [{k: v for k, v in st.items() if k != "_text"} for st in hist]


def examine(hists, twins, stats):
    """run implementation and model on all histories; returns list of (hid, Mismatch)"""
    allh = dict(hists)
    for hid, (tw, back) in twins.items():
        allh[hid + "t"] = tw
    impl = run_impl(allh)
    model = run_model(hists)
    bad = []
    for hid, hist in hists.items():
        try:
            compare(hist, impl.get(hid, []), model[hid], stats)
            if hid in twins:
                compare_twin(hist, impl.get(hid, []), twins[hid][0], impl.get(hid + "t", []), twins[hid][1], stats)
        except Mismatch as m:
            bad.append((hid, m))
    return bad


def still_fails(hist, cat, rng_dummy=None):
    st = {}
    h = {"x": hist}
    tw = {}
    if cat == "runcells-vs-use-save":
        t, back = twin_of(hist)
        prepare(t, None)
        tw = {"x": (t, back)}
    try:
        bad = examine(h, tw, st)
    except Exception:
        return None
    for _hid, m in bad:
        if m.cat == cat:
            return m
    return None


def minimise(hist, m, budget=10):
    """truncate after the failing step, then drop earlier steps one at a time while the same category still fails"""
    cur = hist[:m.step + 1]
    best = m
    k = len(cur) - 2
    while k >= 0 and budget > 0:
        cand = cur[:k] + cur[k + 1:]
        budget -= 1
        r = still_fails(cand, m.cat)
        if r is not None:
            cur, best = cand[:r.step + 1], r
            k = min(k, len(cur) - 1)
        k -= 1
    return cur, best


def report(ctx, hist, m):
    text = "\n".join(st["_text"] for st in hist)
    key = "C14:%s:%s" % (m.cat, hashlib.sha256(text.encode()).hexdigest()[:12])
    ctx.violation(key, "[%s] step %d: %s" % (m.cat, m.step, m.what),
                  {"kind": "ops", "database": "phreeqc.dat", "category": m.cat, "failing_step": m.step,
                   "ops": strip(hist), "input_text": [st["_text"] for st in hist],
                   "note": "each element of input_text is one RunString on the same IPhreeqc instance (after a RATES pre-step); a DUMP -all observation follows every step",
                   "observed": m.observed, "expected": m.expected})


NONE_LINES = "".join("USE %s none\n" % k for k in USE_ALL)


def finding_histories():
    """fixed histories for the two findings of the unchanged tree (notes/C14.md), run together with the
    random ones.

    range-copy-deferred: for SOLUTION, EQUILIBRIUM_PHASES, EXCHANGE, SURFACE, SOLID_SOLUTIONS, GAS_PHASE and
    KINETICS the copies of `KEYWORD n-m` are made in tidy_* / initial_* after ALL input of the simulation has
    been read, in ascending order of n: SOLUTION 2-4 followed by SOLUTION 0-3 leaves no solution 4 at all.

    exchange-modify-component: cxxExchange::read_raw looks the component of `-component NaX` up with
    Find_comp(), which compares the name with the ELEMENT names of the components' totals (Na, X), never
    with the formula; no component is found, a fresh one holding only the given fields is appended and
    Sort_comps() lets it replace the stored one: the component's totals are lost."""
    def d(kind, n, n_end, did, body):
        hdr = "%s %d-%d\n" % (KW[kind], n, n_end)
        return {"op": "def", "kind": kind, "n": n, "n_end": n_end, "id": did, "text": hdr + body, "tmpl": {"def": did}}
    blank = {"react": None, "cells": [], "mixes": [], "copies": [], "delete": None, "dump": False}
    h1 = [dict(blank, reads=[d("KSol", 2, 4, 9001, " Mg 1\n Cl 2\n"), d("KSol", 0, 3, 9002, " Ca 2\n Cl 4\n")], order=[0, 1, 2])]
    ex = {"op": "def", "kind": "KExch", "n": 1, "n_end": 1, "id": 9003, "text": "EXCHANGE 1\n NaX 0.01\n CaX2 0.02\n", "tmpl": {"def": 9003}}
    md = {"op": "mod", "kind": "KExch", "n": 1, "id": 9004, "field": "-la", "value": 0.5, "sel": [("-component", "NaX")],
          "text": "EXCHANGE_MODIFY 1\n -component NaX\n  -la 0.5\n"}
    h2 = [dict(blank, reads=[ex], order=[0, 1]), dict(blank, reads=[md], order=[0, 1])]
    prepare(h1, None)
    prepare(h2, None)
    return {"finding1": (h1, "C14:range-copy-deferred",
                         "overlapping number ranges defined in one simulation are not successive writes: after `SOLUTION 2-4` then "
                         "`SOLUTION 0-3` solution 4 does not exist"),
            "finding2": (h2, "C14:exchange-modify-component",
                         "EXCHANGE_MODIFY of a component loses that component's totals: after `EXCHANGE 1; NaX 0.01; CaX2 0.02` the block "
                         "`EXCHANGE_MODIFY 1; -component NaX; -la 0.5` leaves component NaX without Na and X")}


def report_findings(ctx, fh, bad, stats):
    for hid, m in bad:
        if hid not in fh:
            continue
        hist, key, text = fh[hid]
        ctx.violation(key, "%s (%s)" % (text, m.what),
                      {"kind": "ops", "database": "phreeqc.dat", "category": m.cat, "failing_step": m.step, "ops": strip(hist),
                       "input_text": [x["_text"] for x in hist], "observed": m.observed, "expected": m.expected})
        stats["%s_probe_mismatch" % hid] = 1


def run(ctx):
    ok = vlib.coq_stage(ctx, "Props/Properties_C14.vo", gen=gen, extra_targets=["C14/Exec.vo", "C14/Examples.vo"])
    ctx.checker_cmd = "cd /verif/coq && make -k Props/Properties_C14.vo   (after props/c14.py:gen() regenerated Gen/Gen_C14.v)"
    stats = {}
    if ctx.replay:
        obj = json.load(open(ctx.replay))
        if obj.get("kind") != "ops":
            ctx.notes.append("replay of an obligation failure: re-run of the Coq stage only")
            return
        hist = obj["ops"]
        for st, t in zip(hist, obj["input_text"]):
            st["_text"] = t
        cat = obj.get("category")
        m = still_fails(hist, cat)
        ctx.case("replay", sample={"category": cat, "still_fails": m is not None})
        if m is not None:
            ctx.violation(obj.get("key", "C14:%s:replay" % cat), obj.get("what", m.what),
                          {"kind": "ops", "database": "phreeqc.dat", "category": cat, "failing_step": m.step, "ops": strip(hist),
                           "input_text": [st["_text"] for st in hist], "observed": m.observed, "expected": m.expected})
        return
    # a failed obligation names a region: look harder there
    focus, nh, ns = {}, ctx.n(40, 400), 12
    if not ok:
        failed = " ".join(d for _n, o, d in ctx.obligations if not o)
        if re.search(r"delete", failed):
            focus.update(delete=5.0)
        if re.search(r"copy|copies|read_copy", failed):
            focus.update(copy=5.0, define=4.0, react=2.0)
        if re.search(r"components", failed):
            focus.update(define=5.0, delete=3.0)
        nh = ctx.n(120, 600)
    hists, twins = {}, {}
    dist = {}
    for h in range(nh):
        g = Gen(ctx.rng, h, focus)
        hist = g.history(ctx.rng.randint(8, ns + 4))
        prepare(hist, ctx.rng)
        hid = "h%d" % h
        hists[hid] = hist
        if any(st["cells"] for st in hist):
            t, back = twin_of(hist)
            prepare(t, None)
            twins[hid] = (t, back)
        for k, v in g.stats.items():
            dist[k] = dist.get(k, 0) + v
    fh = finding_histories()
    allh = dict(hists)
    allh.update({k: v[0] for k, v in fh.items()})
    bad = examine(allh, twins, stats)
    report_findings(ctx, fh, bad, stats)
    bad = [(h, m) for h, m in bad if h not in fh]
    for hid, hist in hists.items():
        for i, st in enumerate(hist):
            kinds = sorted(set([x["op"] + ":" + x["kind"] for x in st["reads"]] + (["react"] if st["react"] else []) + (["cells"] if st["cells"] else [])
                               + (["mix"] if st["mixes"] else []) + (["copy"] if st["copies"] else []) + (["delete"] if st["delete"] is not None else [])))
            ctx.case(hashlib.sha1(st["_text"].encode()).hexdigest()[:16],
                     sample={"history": hid, "step": i, "input": st["_text"][:400]} if (hid == "h0" and i < 3) else None,
                     nontrivial=len(kinds) > 0)
    seen = set()
    for hid, m in bad[:6]:
        if m.cat in seen:
            continue
        seen.add(m.cat)
        try:
            mh, mm = minimise(hists[hid], m)
        except Exception:
            mh, mm = hists[hid][:m.step + 1], m
        report(ctx, mh, mm)
    ctx.rule = ("random histories of 8-16 simulations (each one RunString on ONE IPhreeqc instance): definitions of the 11 entity kinds with "
                "number ranges, *_MODIFY, USE/SAVE batch reactions (10% with a missing reactant), RUN_CELLS, SOLUTION_MIX, COPY <kind>/cell "
                "(absent sources, negative targets), DELETE (-kind numbers/ranges/none, -cell, -all), optional DUMP inside the simulation, keyword "
                "blocks shuffled; after every step DUMP -all is parsed and compared with the Coq model run by vm_compute; a case = one simulation; "
                "non-trivial = it contains at least one store operation")
    ctx.extra["input_distribution"] = dist
    ctx.extra["correspondence"] = dict(stats, histories=nh, twin_histories=len(twins), mismatching_histories=len(bad))
    ctx.trusted += ["translator/c14_gen.py (clang 14 JSON AST -> tables; name -> kind maps for Rxn_*_map / Get_* / copy_* / KEY_*)",
                    "harness/c14_drive.cpp, the DUMP -all parser and the block fingerprinting in props/c14.py",
                    "oracles (Section variables): modify, react, mixf (chemistry), elements; content identifiers in C14/Exec.v are 61-bit hashes"]
    ctx.notes += ["model executes hand_prims (specified behaviour); theorems are about gen_prims tables = hand_prims under tables_ok",
                  "histories abandoned at a numerical failure of the engine: %d" % stats.get("numerical_failures", 0),
                  "kinetics is excluded from USE / RUN_CELLS (saved through entry -2); entries with negative numbers are not shown by DUMP"]
