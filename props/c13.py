"""C13 — instance registry and C/C++/Fortran bindings behave as one consistent API.

Proof: coq/Props/Properties_C13.v: (T-gen) the forwarding tables regenerated from src/IPhreeqcLib.cpp and
src/IPhreeqc_interface_F.cpp satisfy wrapper_ok / fwrapper_ok (same-named method, arguments in order, documented
result translation, documented invalid-instance result, exactly the documented n-1 shifts) and cover every public
prototype; generic lemma capi_forwards; registry model: ids never reused, dead ids are no-ops, double destroy,
frame, bindings agree, set/get store laws, defaults embed the id.
Tie (T-corr): random create/destroy/set/get sequences over several instances through the three bindings on the
real library vs the Coq model evaluated by vm_compute (check_trace = [])."""
import json, os, re
import vlib, wrap
from translator import c13_fwd

SW = [("OutputFile", "OutputFileOn"), ("OutputString", "OutputStringOn"), ("LogFile", "LogFileOn"), ("LogString", "LogStringOn"),
      ("ErrorFile", "ErrorFileOn"), ("ErrorString", "ErrorStringOn"), ("ErrorOn", "ErrorOn"), ("DumpFile", "DumpFileOn"), ("DumpString", "DumpStringOn")]
NM = [("NOutput", "OutputFileName"), ("NLog", "LogFileName"), ("NError", "ErrorFileName"), ("NDump", "DumpFileName")]
NAMES = ["a.out", "x", "dir/file name.txt", "", None, "phreeqc.0.out", "q" * 70, "sel_1.txt"]
CAP = 24


def gen():
    vlib.write_if_changed(os.path.join(vlib.COQ, "Gen", "Gen_C13.v"), c13_fwd.generate(vlib.REPO))


def oint(v):
    """observed value -> Coq out term; a value of an unexpected type becomes a term the model cannot match (a disagreement, not a decode crash)"""
    if isinstance(v, bool) or isinstance(v, int):
        return "OInt (%d)" % v
    if isinstance(v, str):
        return "OStr %s" % cqs(v)
    if isinstance(v, dict) and "buf" in v:
        return "OPad %s (%d)" % (cqs(v["buf"][:CAP]), v.get("len", -1))
    return "OVoid"


def cqs(s):
    return '"' + s.replace('"', '""') + '"'


def gen_sequence(rng, n):
    """returns list of (coq_call_term, driver_op, decoder) ; decoder maps driver result -> coq out term"""
    seq = []
    issued = 0
    live = []
    loaded = set()
    mindb = os.path.join(vlib.DB, "minimum.dat")

    last = [None]

    def pick_id():
        # stay on the instance of the previous call about half of the time: set / switch-number / get chains on ONE instance are what
        # exercises the per-user-number stores (a value set at user number 0 must be read back at user number 0)
        if last[0] is not None and last[0] in live and rng.random() < 0.45:
            return last[0]
        i = pick_id0()
        last[0] = i
        return i

    def pick_id0():
        k = rng.random()
        if live and k < 0.7:
            return rng.choice(live)
        if k < 0.8 and issued:
            return rng.randrange(issued)                 # possibly destroyed
        return rng.choice([-1, -7, issued, issued + 3, 10**6, -2**31])

    def emit(i, b, ic, name, arg):
        _emit(seq, i, b, ic, name, arg)

    def chain():
        """set / switch-number / read-back chain of the per-user-number stores on ONE live instance (user number 0 included)"""
        i = rng.choice(live)
        nums = rng.sample([0, 0, 1, 2, 7, 100], 2)
        for n_ in nums:
            b = rng.choice("CFM")
            emit(i, b, "SetCur (%d)" % n_, "SetCurrentSelectedOutputUserNumber", n_)
            for which in rng.sample(["File", "String", "Name"], rng.randint(1, 3)):
                b = rng.choice("CFM")
                if which == "Name":
                    v = rng.choice([x for x in NAMES if x])
                    emit(i, b, "SetSelName (Some %s)" % cqs(v), "SetSelectedOutputFileName", ("str", v))
                else:
                    v = rng.choice([1, 1, 0])
                    emit(i, b, "SetSel%s %s" % (which, "true" if v else "false"), "SetSelectedOutput%sOn" % which, v)
        for n_ in nums + [rng.choice([0, 3])]:
            b = rng.choice("CFM")
            emit(i, b, "SetCur (%d)" % n_, "SetCurrentSelectedOutputUserNumber", n_)
            for which in ["File", "String", "Name"]:
                b = rng.choice("CFM")
                if which == "Name":
                    emit(i, b, "GetSelName", "GetSelectedOutputFileName", "strget")
                else:
                    emit(i, b, "GetSel" + which, "GetSelectedOutput%sOn" % which, None)

    for _ in range(n):
        k = rng.random()
        if live and rng.random() < 0.06:
            chain()
            continue
        if k < 0.12 or not issued:
            # created through the C API or by constructing the C++ object: one registry, one id sequence
            seq.append(("Create", [rng.choice(["create", "create", "createM"])], lambda r: "OInt %d" % r["id"]))
            live.append(issued)
            issued += 1
            continue
        if k < 0.2:
            i = pick_id()
            # a live instance is destroyed through the C API or by deleting the C++ object (the destructor, not DestroyIPhreeqc, is then
            # what removes it from the registry): afterwards the id must be dead for every binding -- probed at once, with a C call on
            # the same id right before the destruction (a lookup cache must not keep the dead object reachable)
            probe = i in live and rng.random() < 0.5
            if probe:
                emit(i, "C", "GetSw OutputFile", "GetOutputFileOn", None)
            seq.append(("Destroy (%d)" % i, ["destroyM" if (i in live and rng.random() < 0.4) else "destroy", i], lambda r: oint(r["r"])))
            if probe:
                emit(i, rng.choice("CF"), "GetSw OutputFile", "GetOutputFileOn", None)
                emit(i, "C", "SetSw LogFile true", "SetLogFileOn", 1)
            if i in live:
                live.remove(i)
                loaded.discard(i)
            continue
        i = pick_id()
        b = rng.choice("CCFM")
        if b == "M" and i not in live:
            b = "C"
        kind = rng.random()
        if i in live and kind < 0.10:
            # a successful database load (resets per-user-number switches and the current number) / a run defining SELECTED_OUTPUT numbers
            if i not in loaded or rng.random() < 0.3:
                loaded.add(i)
                call = "%s (%d) Load%s" % ({"C": "CCall", "M": "MCall", "F": "FCall"}[b], i, " %d" % CAP if b == "F" else "")
                op = {"C": ["c", "LoadDatabase", i, mindb], "M": ["m", "LoadDatabase", i, mindb], "F": ["f", "LoadDatabaseF", i, mindb]}[b]
            else:
                ns = sorted(rng.sample([1, 2, 3, 5, 40], rng.randint(1, 3)))
                text = "".join("SELECTED_OUTPUT %d\n -reset false\n -pH true\n" % n for n in ns) + "SOLUTION 1\nEND\n"
                call = "%s (%d) (RunDefines [%s])%s" % ({"C": "CCall", "M": "MCall", "F": "FCall"}[b], i, "; ".join(str(n) for n in ns), " %d" % CAP if b == "F" else "")
                op = {"C": ["c", "RunString", i, text], "M": ["m", "RunString", i, text], "F": ["f", "RunStringF", i, text]}[b]
            seq.append((call, op, lambda r: oint(r["r"])))
            continue
        if kind < 0.3:
            s, fn = rng.choice(SW)
            if rng.random() < 0.5:
                v = rng.choice([0, 1, 1, 2, -1])
                ic, name, arg = "SetSw %s %s" % (s, "true" if v != 0 else "false"), "Set" + fn, v
            else:
                ic, name, arg = "GetSw %s" % s, "Get" + fn, None
        elif kind < 0.55:
            s, fn = rng.choice(NM)
            if rng.random() < 0.5:
                v = rng.choice(NAMES)
                if b == "F" and v is None:
                    v = ""
                ic, name, arg = "SetName %s %s" % (s, "None" if v is None else "(Some %s)" % cqs(v)), "Set" + fn, ("str", v)
            else:
                ic, name, arg = "GetName %s" % s, "Get" + fn, "strget"
        elif kind < 0.7:
            if rng.random() < 0.6:
                v = rng.choice([0, 0, 1, 2, 3, 7, 100, -1, -5, 2**31 - 1])
                ic, name, arg = "SetCur (%d)" % v, "SetCurrentSelectedOutputUserNumber", v
            else:
                ic, name, arg = "GetCur", "GetCurrentSelectedOutputUserNumber", None
        elif kind < 0.85:
            which = rng.choice(["File", "String"])
            if rng.random() < 0.5:
                v = rng.choice([0, 1, 5])
                ic, name, arg = "SetSel%s %s" % (which, "true" if v else "false"), "SetSelectedOutput%sOn" % which, v
            else:
                ic, name, arg = "GetSel" + which, "GetSelectedOutput%sOn" % which, None
        elif kind < 0.97:
            if rng.random() < 0.5:
                v = rng.choice(NAMES)
                if b == "F" and v is None:
                    v = ""
                ic, name, arg = "SetSelName %s" % ("None" if v is None else "(Some %s)" % cqs(v)), "SetSelectedOutputFileName", ("str", v)
            else:
                ic, name, arg = "GetSelName", "GetSelectedOutputFileName", "strget"
        else:
            ic, name, arg, b = "GetId", "GetId", None, "M"
            if i not in live:
                continue
        emit(i, b, ic, name, arg)
    return seq


def _emit(seq, i, b, ic, name, arg):
    if True:
        # driver op + decoder
        if b == "C":
            call = "CCall (%d) (%s)" % (i, ic)
            op = ["c", name, i] + ([] if arg in (None, "strget") else [arg[1] if isinstance(arg, tuple) else arg])
            dec = (lambda r: "OStr %s" % cqs(r["r"])) if arg == "strget" else (lambda r: oint(r["r"]))
        elif b == "M":
            call = "MCall (%d) (%s)" % (i, ic)
            op = ["m", name, i] + ([] if arg in (None, "strget") else [arg[1] if isinstance(arg, tuple) else arg])

            def dec(r, arg=arg):
                v = r["r"]
                if v == "notlive":
                    return "ONotLive"
                if v is None:
                    return "OVoid"
                if isinstance(v, str):
                    return "OStr %s" % cqs(v)
                return "OInt (%d)" % v
        else:
            call = "FCall (%d) (%s) %d" % (i, ic, CAP)
            if arg == "strget":
                op = ["f", name + "F", i, CAP]
                dec = lambda r: "OPad %s (%d)" % (cqs(r["r"]["buf"][:CAP]), r["r"]["len"])
            else:
                op = ["f", name + "F", i] + ([] if arg is None else [arg[1] if isinstance(arg, tuple) else arg])
                dec = lambda r: oint(r["r"])
        seq.append((call, op, dec))


def run_sequences(ctx, wexe, seqs):
    """run every sequence in its own driver process; returns list of (calls, observed terms | None)"""
    import concurrent.futures as cf

    def one(seq):
        with vlib.scratch("c13") as d:
            os.makedirs(os.path.join(d, "dir"), exist_ok=True)     # "dir/file name.txt" is one of the file names set: it must be openable by a run
            res, rc, err = wrap.run_script(wexe, [s[1] for s in seq], d, timeout=120)
        if rc != 0 or any(r is None or "unknown" in r or "exception" in r for r in res):
            return None, (rc, err[-300:], [r for r in res if r is None or "unknown" in (r or {}) or "exception" in (r or {})][:2])
        try:
            return [s[2](r) for s, r in zip(seq, res)], None
        except Exception as ex:
            return None, ("decode", repr(ex), res[:3])
    with cf.ThreadPoolExecutor(max_workers=vlib.NCPU) as ex:
        return list(ex.map(one, seqs))


def coq_check(seqs, obs):
    """one cases.v: for each sequence the list of mismatching indices"""
    L = ["From Coq Require Import List ZArith String.", "From IPV.Wrapper Require Import Registry.", "Import ListNotations.",
         "Local Open Scope Z_scope.", "Local Open Scope string_scope.", ""]
    for k, (seq, o) in enumerate(zip(seqs, obs)):
        L.append("Definition calls%d : list call := [%s]." % (k, "; ".join(s[0] for s in seq)))
        L.append("Definition obs%d : list out := [%s]." % (k, "; ".join(o)))
    L.append("Eval vm_compute in [%s]." % "; ".join("check_trace calls%d obs%d" % (k, k) for k in range(len(seqs))))
    rc, out = vlib.coq_eval("\n".join(L) + "\n", timeout=600)
    if rc != 0:
        return None, out
    m = re.search(r"=\s*(\[.*?\])\s*:\s*list \(list nat\)", out, flags=re.S)
    if not m:
        return None, out
    body = m.group(1)
    groups = re.findall(r"\[([^\[\]]*)\]", body[1:-1]) if body.strip() != "[]" else []
    res = []
    for g in groups:
        res.append([int(x) for x in re.findall(r"\d+", g)])
    return res, out


def shrink(seq, wexe):
    """greedy removal of calls while the disagreement persists"""
    cur = list(seq)
    o0, _ = run_sequences(None, wexe, [cur])[0]
    last0 = o0[-1] if o0 else None

    def bad(s):
        # the SAME disagreement must persist: the last call (the one that disagreed) still disagrees and no earlier call does
        # (removing e.g. the Load of an instance creates a different, artificial disagreement)
        o, e = run_sequences(None, wexe, [s])[0]
        if o is None or o[-1] != last0:
            return False                      # the library must still answer the last call as it did originally
        r, _ = coq_check([s], [o])
        return r is not None and r[0] == [len(s) - 1]
    i = 0
    while i < len(cur) - 1 and len(cur) > 1:
        t = cur[:i] + cur[i + 1:]
        # keep Create calls that later ids depend on: ids are positional, so only remove non-Create calls
        if cur[i][0] != "Create" and bad(t):
            cur = t
        else:
            i += 1
    return cur


def run(ctx):
    ok = vlib.coq_stage(ctx, "Props/Properties_C13.vo", gen=gen)
    wexe = wrap.build_wdrive()
    ctx.rule = ("random sequences (length 5..120) of Create / Destroy / Set* / Get* calls over up to ~8 instances, ids drawn from live, destroyed, never-issued and negative values, "
                "each call through the C function, the C++ method or the Fortran-binding function; NULL, empty and long file names; negative and large user numbers; "
                "compared call by call with the Coq registry model (check_trace by vm_compute). non-trivial = sequence with >= 2 instances and a destroy; distinct by content")
    if ctx.replay:
        rp = json.load(open(ctx.replay))
        ctx.case("replay", sample=rp.get("calls", [])[:10])
        if rp.get("kind") == "ops" and "ops" in rp:
            with vlib.scratch("c13") as d:
                res, rc, err = wrap.run_script(wexe, rp["ops"], d)
            if json.dumps(res, sort_keys=True) != json.dumps(rp.get("expected_impl"), sort_keys=True) or True:
                ctx.violation(rp["key"], rp["what"], rp)
        return
    nseq = ctx.n(120, 3000)
    seqs = [gen_sequence(ctx.rng, ctx.rng.choice([5, 12, 30, 60, 120])) for _ in range(nseq)]
    # corpus: double destroy, negative id, set on dead id, F padding of a long name
    seqs.insert(0, gen_fixed())
    results = run_sequences(ctx, wexe, seqs)
    good = [(s, o) for s, (o, e) in zip(seqs, results) if o is not None]
    for s, (o, e) in zip(seqs, results):
        if o is None:
            ctx.violation("driver:" + vlib.key_of([x[0] for x in s]), "driver failed on a call sequence: %r" % (e,), {"kind": "ops", "ops": [x[1] for x in s], "calls": [x[0] for x in s]})
    kinds = {"C": 0, "M": 0, "F": 0, "Create": 0, "Destroy": 0}
    for shard in range(0, len(good), 60):
        part = good[shard:shard + 60]
        mism, raw = coq_check([p[0] for p in part], [p[1] for p in part])
        if mism is None:
            ctx.obligation("model-evaluation(cases.v)", False, raw[-1500:])
            break
        for (s, o), mm in zip(part, mism):
            for c in s:
                kinds[c[0][0] if c[0][0] in "CMF" and c[0] not in ("Create",) and not c[0].startswith("Destroy") else ("Create" if c[0] == "Create" else "Destroy")] += 1
            ncreate = sum(1 for c in s if c[0] == "Create")
            ctx.case("seq:" + vlib.key_of([c[0] for c in s]), nontrivial=ncreate >= 2 and any(c[0].startswith("Destroy") for c in s),
                     sample={"calls": [c[0] for c in s[:14]]} if len(ctx.samples) < 2 else None)
            if mm:
                # calls after the first disagreement are irrelevant: cut there, then shrink (only the first few sequences: each shrink
                # step costs a driver run and a coqc call)
                small = s[:mm[0] + 1]
                nshrunk = ctx.extra.get("c13_shrunk", 0)
                if nshrunk < 3:
                    ctx.extra["c13_shrunk"] = nshrunk + 1
                    small = shrink(small, wexe)
                o2, _ = run_sequences(ctx, wexe, [small])[0]
                ctx.violation("trace:" + vlib.key_of([c[0] for c in small]),
                              "the library and the proved registry/set-get model disagree at call #%d of a sequence (after shrinking: %d calls)" % (mm[0], len(small)),
                              {"kind": "ops", "calls": [c[0] for c in small], "ops": [c[1] for c in small], "observed": o2, "expected": "check_trace = [] (model outputs)"})
    ctx.extra["input_distribution"] = kinds
    content_bindings(ctx, wexe)
    dead_id_bindings(ctx, wexe)
    twin_differential(ctx, wexe)
    ctx.trusted += ["translator/c13_fwd.py (token-level transliteration of the wrappers into shape records; anything unrecognised becomes ROther/FROther and fails wrapper_ok)",
                    "the documented-behaviour table doc_bad / shifted in coq/Wrapper/Fwd.v was transcribed by hand from IPhreeqc.h and IPhreeqc_interface.F90",
                    "model evaluated inside Coq by vm_compute (no extraction for this property)"]
    ctx.notes += ["Fortran: only the compiled *F C layer is executed (no Fortran compiler in the sandbox)"]


LINE_FAMS = ["Output", "Log", "Error", "Warning", "Dump", "SelectedOutput"]


def content_bindings(ctx, wexe):
    """On an instance with real content: every index-taking accessor of the three bindings agrees (F = C with the
    documented n-1 shift, blank padding and length report; C = C++ method)."""
    import gen_inputs
    for rep in range(ctx.n(6, 60)):
        text, info = gen_inputs.multi_sim_input(ctx.rng, user_numbers=[1, 5])
        text += "KNOBS\n -logfile true\nSOLUTION 8\n Na 1\n Clx 3\nEND\nDUMP\n -all\nEND\n"
        text += "SELECTED_OUTPUT 7\n -file named_by_input_7.sel\n -reset false\n -pH true\nSOLUTION 9\n K 1\nEND\n"
        cap = ctx.rng.choice([10, 40, 200])
        ops = [["spy"], ["c", "LoadDatabase", 0, os.path.join(vlib.DB, "phreeqc.dat")]]
        for fam in ("Output", "Log", "Dump"):
            ops.append(["c", "Set%sStringOn" % fam, 0, 1])
        for n in (1, 5):
            ops += [["c", "SetCurrentSelectedOutputUserNumber", 0, n], ["c", "SetSelectedOutputStringOn", 0, 1]]
        ops.append(["c", "SetCurrentSelectedOutputUserNumber", 0, ctx.rng.choice([1, 5])])
        ops.append(["c", "RunString", 0, text])
        i0 = len(ops)
        for fam in LINE_FAMS:
            ops.append(["c", "Get%sStringLineCount" % fam, 0])
        ops.append(["c", "GetComponentCount", 0])
        ops.append(["c", "GetSelectedOutputCount", 0])
        ops.append(["c", "GetSelectedOutputRowCount", 0])
        ops.append(["f", "GetSelectedOutputRowCountF", 0])
        for n in (1, 5, 7):
            ops += [["c", "SetCurrentSelectedOutputUserNumber", 0, n], ["c", "GetSelectedOutputFileName", 0], ["m", "GetSelectedOutputFileName", 0], ["f", "GetSelectedOutputFileNameF", 0, 40]]
        with vlib.scratch("c13b") as d:
            res, rc, err = wrap.run_script(wexe, ops, d)
            if rc != 0 or any(r is None for r in res):
                ctx.violation("content:driver", "driver failed: %s" % err[-200:], {"kind": "ops", "ops": ops})
                return
            if res[i0 - 1]["r"] != 0:
                # the generated input did not run to the end (an ERROR in one of its simulations): the later definitions do not exist; not judged
                ctx.extra["content_inputs_skipped_error"] = ctx.extra.get("content_inputs_skipped_error", 0) + 1
                continue
            # documented defaults embed the user number and the instance id: selected_<n>.<id>.out (no -file, no SetSelectedOutputFileName)
            for k, n in enumerate((1, 5, 7)):
                base = i0 + 10 + 4 * k
                want = "selected_%d.0.out" % n if n != 7 else "named_by_input_7.sel"     # a -file name given in the input is the name reported
                got = (res[base + 1]["r"], res[base + 2]["r"], res[base + 3]["r"]["buf"][:40].rstrip(" "))
                if any(g != want for g in got):
                    ctx.violation("content:default-sel-file-name", "after a run that defines SELECTED_OUTPUT %d (no -file) its default file name is %r (C, C++, F), documented default %r" % (n, got, want),
                                  {"kind": "input", "input_text": text, "observed": got, "expected": want})
                    return
            counts = {fam: res[i0 + k]["r"] for k, fam in enumerate(LINE_FAMS)}
            ncomp, nsel = res[i0 + 6]["r"], res[i0 + 7]["r"]
            rows, rowsF = res[i0 + 8]["r"], res[i0 + 9]["r"]
            ops2 = list(ops)
            probes = []
            for fam in LINE_FAMS:
                for n in sorted(set([-1, 0, 1, counts[fam] - 1, counts[fam], counts[fam] + 1, ctx.rng.randint(0, max(0, counts[fam]))])):
                    probes.append(("Get%sStringLine" % fam, n))
            for n in range(-1, ncomp + 2):
                probes.append(("GetComponent", n))
            for name, n in probes:
                ops2 += [["c", name, 0, n], ["m", name, 0, n], ["f", name + "F", 0, n + 1, cap]]
            for n in range(-1, nsel + 2):
                ops2 += [["c", "GetNthSelectedOutputUserNumber", 0, n], ["m", "GetNthSelectedOutputUserNumber", 0, n], ["f", "GetNthSelectedOutputUserNumberF", 0, n + 1]]
            res2, rc, err = wrap.run_script(wexe, ops2, d)
        ctx.case("content:" + vlib.key_of(text), sample={"accessor probes": len(probes), "line counts": counts} if rep == 0 else None)
        if rowsF != max(0, rows - 1):
            ctx.violation("content:rowcountF", "GetSelectedOutputRowCountF = %d but GetSelectedOutputRowCount = %d (documented: rows minus the heading row)" % (rowsF, rows),
                          {"kind": "input", "input_text": text, "observed": rowsF, "expected": max(0, rows - 1)})
        k = len(ops)
        for name, n in probes:
            c, m, f = res2[k]["r"], res2[k + 1]["r"], res2[k + 2]["r"]
            k += 3
            want = (c[:cap] + " " * max(0, cap - len(c)))[:cap]
            if m != c:
                ctx.violation("content:C-vs-C++:" + name, "%s(%d): C function returns %r, C++ method %r" % (name, n, c[:80], m[:80] if isinstance(m, str) else m), {"kind": "input", "input_text": text, "call": [name, n]})
                return
            if f["buf"][:cap] != want or f["len"] != len(c):
                ctx.violation("content:F-vs-C:" + name, "%sF(n=%d) is not %s(n-1=%d) blank-padded to the buffer with the length reported: got %r len %d, expected %r len %d" % (name, n + 1, name, n, f["buf"][:cap][:60], f["len"], want[:60], len(c)),
                              {"kind": "input", "input_text": text, "call": [name + "F", n + 1], "observed": f, "expected": {"buf": want, "len": len(c)}})
                return
        for n in range(-1, nsel + 2):
            c, m, f = res2[k]["r"], res2[k + 1]["r"], res2[k + 2]["r"]
            k += 3
            if not (c == f and (m == c or (m == -3 and c == -3))):
                ctx.violation("content:nth", "GetNthSelectedOutputUserNumber(%d): C %r, C++ %r, F(n+1) %r" % (n, c, m, f), {"kind": "input", "input_text": text})
                return


SHIFTED = {"GetComponent", "GetDumpStringLine", "GetErrorStringLine", "GetLogStringLine", "GetOutputStringLine", "GetSelectedOutputStringLine", "GetWarningStringLine", "GetNthSelectedOutputUserNumber"}
STRING_GETTERS_N = ["GetComponent", "GetDumpStringLine", "GetErrorStringLine", "GetLogStringLine", "GetOutputStringLine", "GetSelectedOutputStringLine", "GetWarningStringLine"]
INT_GETTERS = ["GetComponentCount", "GetCurrentSelectedOutputUserNumber", "GetDumpFileOn", "GetDumpStringLineCount", "GetDumpStringOn", "GetErrorFileOn", "GetErrorOn", "GetErrorStringLineCount",
               "GetErrorStringOn", "GetLogFileOn", "GetLogStringLineCount", "GetLogStringOn", "GetOutputFileOn", "GetOutputStringLineCount", "GetOutputStringOn", "GetSelectedOutputColumnCount",
               "GetSelectedOutputCount", "GetSelectedOutputFileOn", "GetSelectedOutputStringLineCount", "GetSelectedOutputStringOn", "GetWarningStringLineCount"]
SWITCH_SETTERS = ["SetDumpFileOn", "SetDumpStringOn", "SetErrorFileOn", "SetErrorOn", "SetErrorStringOn", "SetLogFileOn", "SetLogStringOn", "SetOutputFileOn", "SetOutputStringOn",
                  "SetSelectedOutputFileOn", "SetSelectedOutputStringOn"]
NAME_SETTERS = ["SetDumpFileName", "SetErrorFileName", "SetLogFileName", "SetOutputFileName", "SetSelectedOutputFileName"]


def twin_differential(ctx, wexe):
    """the same random call history through the C functions, the C++ methods and the Fortran-binding functions on three instances
    (separate processes, all with id 0): every returned value agrees up to the documented conversions and the final observation of
    the three instances is identical."""
    import gen_inputs
    for rep in range(ctx.n(10, 150)):
        text, info = gen_inputs.multi_sim_input(ctx.rng, user_numbers=[1, 2], nsims=ctx.rng.randint(1, 2))
        hist = [("LoadDatabase", os.path.join(vlib.DB, "phreeqc.dat"))]
        for _ in range(ctx.rng.randint(6, 30)):
            k = ctx.rng.random()
            if k < 0.2:
                hist.append((ctx.rng.choice(SWITCH_SETTERS), ctx.rng.choice([0, 1, 1, 7])))
            elif k < 0.3:
                hist.append((ctx.rng.choice(NAME_SETTERS), ctx.rng.choice(["t_a.txt", "t_b.txt", ""])))
            elif k < 0.4:
                hist.append(("SetCurrentSelectedOutputUserNumber", ctx.rng.choice([1, 2, 3, -1])))
            elif k < 0.5:
                for ln in text.split("\n")[:-1]:
                    hist.append(("AccumulateLine", ln))
                hist.append(("RunAccumulated",))
            elif k < 0.6:
                hist.append(("RunString", text if ctx.rng.random() < 0.8 else "SOLUTION 1\n Na 1\n Clx 2 charge\nEND\n"))
            elif k < 0.65:
                hist.append(("RunFile", "twin.pqi"))
            elif k < 0.7:
                hist.append(("ClearAccumulatedLines",))
            elif k < 0.78:
                hist.append((ctx.rng.choice(["AddError", "AddWarning"]), ctx.rng.choice(["msg one\n", "x", ""])))
            elif k < 0.9:
                hist.append((ctx.rng.choice(INT_GETTERS),))
            else:
                hist.append((ctx.rng.choice(STRING_GETTERS_N), ctx.rng.choice([-1, 0, 1, 2, 5])))
        cap = 60
        outs = {}
        for b in ("c", "m", "f"):
            ops = [["spy"]]
            for h in hist:
                name, args = h[0], list(h[1:])
                if b == "f":
                    fname = name + "F"
                    if name in SHIFTED:
                        args = [args[0] + 1]
                    if name in STRING_GETTERS_N:
                        args = args + [cap]
                    ops.append(["f", fname, 0] + args)
                else:
                    ops.append([b, name, 0] + args)
            ops.append(["obs", 0, "lines"])
            with vlib.scratch("c13t") as d:
                open(os.path.join(d, "twin.pqi"), "w").write(text)
                res, rc, err = wrap.run_script(wexe, ops, d, timeout=180)
            outs[b] = (res, rc, err)
        ctx.case("twin:" + vlib.key_of(hist), sample={"history": [h[0] for h in hist][:20]} if rep == 0 else None)
        if any(o[1] != 0 or any(r is None for r in o[0]) for o in outs.values()):
            ctx.violation("twin:driver:" + vlib.key_of(hist), "driver died in a twin history: %s" % [o[2][-150:] for o in outs.values()], {"kind": "history", "history": hist})
            continue
        rep_obj = {"kind": "history", "history": [list(h) for h in hist], "input_text": text}
        for i, h in enumerate(hist):
            c, m, f = outs["c"][0][i + 1], outs["m"][0][i + 1], outs["f"][0][i + 1]
            if "unknown" in c or "unknown" in m or "unknown" in f:
                continue
            name = h[0]
            if name in SWITCH_SETTERS or name in NAME_SETTERS or name in ("ClearAccumulatedLines",):
                continue
            if name in STRING_GETTERS_N:
                if "econds" in c["r"] or "econds" in str(m["r"]) or (c["r"] and set(c["r"]) == {"-"}):
                    continue            # elapsed-time banner and its dashed frame
                want = (c["r"][:cap] + " " * max(0, cap - len(c["r"])))[:cap]
                if m["r"] != c["r"] or f["r"]["buf"][:cap] != want or f["r"]["len"] != len(c["r"]):
                    ctx.violation("twin:" + name, "%s%r after the same history: C %r, C++ %r, F %r" % (name, h[1:], c["r"][:60], str(m["r"])[:60], f["r"]), rep_obj)
                    break
            else:
                cv, mv, fv = c["r"], m["r"], f["r"]
                if name == "AccumulateLine" or name == "SetCurrentSelectedOutputUserNumber":
                    mv = cv if mv in (0, None) or mv == cv else mv          # VRESULT -> IPQ_RESULT is the identity on the values
                if isinstance(mv, bool):
                    mv = int(mv)
                if not (cv == fv and (mv == cv or mv is None)):
                    ctx.violation("twin:" + name, "%s%r after the same history returns C %r, C++ %r, F %r" % (name, h[1:], cv, mv, fv), rep_obj)
                    break
        else:
            import props.c07 as c07
            oc, om, of = (c07.norm(outs[b][0][-1]) for b in ("c", "m", "f"))      # elapsed-time banner masked
            if json.dumps(oc, sort_keys=True) != json.dumps(om, sort_keys=True) or json.dumps(oc, sort_keys=True) != json.dumps(of, sort_keys=True):
                d = c07.diff_obs(oc, om) or c07.diff_obs(oc, of)
                ctx.violation("twin:state:" + vlib.key_of(hist), "the same history through C, C++ and F leaves different instance states: %s" % d, rep_obj)


def dead_id_bindings(ctx, wexe):
    """every no-argument integer function of the C API and its Fortran-binding twin, called with ids that are not live (never issued,
    negative, destroyed, destroyed twice): the binding adds nothing to the C result — in particular the invalid-instance result survives"""
    inc = os.path.join(vlib.CACHE, "gen" + vlib.REPO_TAG, "dispatch.inc")
    txt = open(inc).read()
    cnames = set(re.findall(r'^C0\["([A-Za-z]+)"\] = \[\]\(int id\) -> std::string \{ return jint', txt, flags=re.M))
    fnames = set(re.findall(r'^F0\["([A-Za-z]+)F"\] = \[\]\(int id\) -> std::string \{ return jint', txt, flags=re.M))
    names = sorted(n for n in cnames & fnames if not n.startswith(("Create", "Destroy", "Run", "Clear", "Output")))
    ops = [["create"], ["create"], ["destroy", 1], ["destroy", 1], ["c", "LoadDatabase", 0, os.path.join(vlib.DB, "minimum.dat")]]
    probes = []
    for n in names:
        for i in (1, 5, -1, -7, 10**6):
            ops.append(["c", n, i]); ops.append(["f", n + "F", i]); probes.append((n, i, len(ops) - 2))
    with vlib.scratch("c13d") as d:
        res, rc, err = wrap.run_script(wexe, ops, d)
    if rc != 0 or any(r is None for r in res):
        ctx.violation("deadid:driver", "driver failed: %s" % err[-200:], {"kind": "ops", "ops": ops})
        return
    for n, i, k in probes:
        c, f = res[k].get("r"), res[k + 1].get("r")
        ctx.case("deadid:%s:%d" % (n, i), nontrivial=True)
        if c != f:
            ctx.violation("deadid:%s" % n, "%sF(%d) returns %r but %s(%d) returns %r for an id that is not live: the Fortran binding must pass the invalid-instance result through" % (n, i, f, n, i, c),
                          {"kind": "ops", "ops": ops[:5] + [["c", n, i], ["f", n + "F", i]], "observed": f, "expected": c})
            break


def gen_fixed():
    s = []
    s.append(("Create", ["create"], lambda r: "OInt %d" % r["id"]))
    s.append(("Create", ["create"], lambda r: "OInt %d" % r["id"]))
    s.append(("Destroy (0)", ["destroy", 0], lambda r: oint(r["r"])))
    s.append(("Destroy (0)", ["destroy", 0], lambda r: oint(r["r"])))
    s.append(("Destroy (-1)", ["destroy", -1], lambda r: oint(r["r"])))
    s.append(("CCall (0) (SetSw OutputFile true)", ["c", "SetOutputFileOn", 0, 1], lambda r: oint(r["r"])))
    s.append(("CCall (0) (GetName NOutput)", ["c", "GetOutputFileName", 0], lambda r: "OStr %s" % cqs(r["r"])))
    s.append(("Create", ["create"], lambda r: "OInt %d" % r["id"]))
    s.append(("FCall (2) (GetName NDump) %d" % CAP, ["f", "GetDumpFileNameF", 2, CAP], lambda r: "OPad %s (%d)" % (cqs(r["r"]["buf"][:CAP]), r["r"]["len"])))
    s.append(("CCall (1) (SetName NLog (Some %s))" % cqs("q" * 70), ["c", "SetLogFileName", 1, "q" * 70], lambda r: oint(r["r"])))
    s.append(("FCall (1) (GetName NLog) %d" % CAP, ["f", "GetLogFileNameF", 1, CAP], lambda r: "OPad %s (%d)" % (cqs(r["r"]["buf"][:CAP]), r["r"]["len"])))
    s.append(("CCall (1) (SetCur (-3))", ["c", "SetCurrentSelectedOutputUserNumber", 1, -3], lambda r: oint(r["r"])))
    s.append(("CCall (1) GetCur", ["c", "GetCurrentSelectedOutputUserNumber", 1], lambda r: oint(r["r"])))
    return s
