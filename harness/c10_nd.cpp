// c10_nd: calls the real cxxNameDouble::merge_redox (NameDouble.cxx) on maps given on stdin-like file.
//   c10_nd <ops-file>
// one op per line:  <id> \t k1=v1,k2=v2,...  \t  s1=w1,s2=w2,...      (target map, source map; values are integers)
// output per op:    <id> \t k=v,k=v,...   (the target after target.merge_redox(source), in key order)
#include "vcommon.hpp"
#include "NameDouble.h"
#include <iostream>

static void parse(const std::string &s, cxxNameDouble &m) {
  size_t i = 0;
  while (i < s.size()) {
    size_t j = s.find(',', i);
    if (j == std::string::npos) j = s.size();
    std::string kv = s.substr(i, j - i);
    size_t e = kv.rfind('=');
    if (e != std::string::npos) m[kv.substr(0, e)] = atof(kv.c_str() + e + 1);
    i = j + 1;
  }
}

int main(int argc, char **argv) {
  if (argc < 2) return 2;
  std::ifstream f(argv[1]);
  std::string line;
  while (std::getline(f, line)) {
    if (line.empty()) continue;
    size_t a = line.find('\t'), b = line.find('\t', a + 1);
    if (a == std::string::npos || b == std::string::npos) continue;
    if (line.compare(0, 4, "row:") == 0) {
      // row:<id> \t <indent> \t <name>=<integer value>   -> the text cxxNameDouble::dump_raw writes, '|' for '\n'
      cxxNameDouble one;
      parse(line.substr(b + 1), one);
      std::ostringstream oss;
      one.dump_raw(oss, (unsigned int) atoi(line.substr(a + 1, b - a - 1).c_str()));
      std::string txt = oss.str();
      for (size_t q = 0; q < txt.size(); ++q) if (txt[q] == '\n') txt[q] = '|';
      std::cout << line.substr(0, a) << "\t" << txt << std::endl;
      continue;
    }
    cxxNameDouble t, s;
    parse(line.substr(a + 1, b - a - 1), t);
    parse(line.substr(b + 1), s);
    t.merge_redox(s);
    std::cout << line.substr(0, a) << "\t";
    bool first = true;
    for (cxxNameDouble::const_iterator it = t.begin(); it != t.end(); ++it) {
      std::cout << (first ? "" : ",") << it->first << "=" << (long) it->second;
      first = false;
    }
    std::cout << std::endl;
  }
  return 0;
}
