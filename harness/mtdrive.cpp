// mtdrive: N threads, each creating / loading / running / destroying its own instances through the C API,
// compared byte for byte with a sequential reference of the same workloads.
//   mtdrive <database> <nthreads> <reps> <workload1.pqi> [workload2.pqi ...]
// prints one JSON object: ids handed out, per-(thread,rep) mismatches against the sequential reference, repeat check.
#include "vcommon.hpp"
#include "IPhreeqc.h"
#include <pthread.h>
#include <iostream>
#include <sstream>
#include <map>
#include <set>
#include <sched.h>

static std::vector<std::string> W;       // workload texts
static std::vector<std::string> REF;     // sequential reference observation per workload
static std::string DB;
static int REPS = 1, NT = 1;

static std::string mask(const std::string &s) {
  std::istringstream is(s); std::string line, out;
  while (std::getline(is, line)) {
    if (line.find("econds") != std::string::npos) continue;
    bool dashes = !line.empty(); for (char c : line) if (c != '-') { dashes = false; break; }
    if (dashes) continue;
    out += line; out += "\n";
  }
  return out;
}

static std::string observe(int id, const std::string &text, int *rc_load, int *rc_run) {
  SetOutputStringOn(id, 1); SetLogStringOn(id, 1); SetDumpStringOn(id, 1); SetErrorStringOn(id, 1);
  *rc_load = LoadDatabase(id, DB.c_str());
  for (int n : {1, 2, 3}) { SetCurrentSelectedOutputUserNumber(id, n); SetSelectedOutputStringOn(id, 1); }
  SetCurrentSelectedOutputUserNumber(id, 1);
  *rc_run = RunString(id, text.c_str());
  std::ostringstream o;
  o << "rc=" << *rc_load << "," << *rc_run << "\nOUT:" << mask(GetOutputString(id)) << "\nLOG:" << mask(GetLogString(id)) << "\nERR:" << GetErrorString(id)
    << "\nWARN:" << GetWarningString(id) << "\nDUMP:" << GetDumpString(id);
  int cnt = GetSelectedOutputCount(id);
  for (int k = 0; k < cnt; ++k) {
    int n = GetNthSelectedOutputUserNumber(id, k);
    SetCurrentSelectedOutputUserNumber(id, n);
    o << "\nSEL" << n << ":" << GetSelectedOutputString(id) << "\nTABLE" << n << ":";
    int R = GetSelectedOutputRowCount(id), C = GetSelectedOutputColumnCount(id);
    for (int r = 0; r < R; ++r) { for (int c = 0; c < C; ++c) { VAR v; VarInit(&v); GetSelectedOutputValue(id, r, c, &v); o << jvar(v) << ","; VarClear(&v); } o << ";"; }
  }
  o << "\nCOMPS:";
  int nc = GetComponentCount(id);
  for (int i = 0; i < nc; ++i) o << GetComponent(id, i) << ",";
  return o.str();
}

struct Res { std::vector<int> ids; std::vector<std::string> mism; };
static std::vector<Res> RES;

static void *worker(void *arg) {
  long t = (long)arg;
  for (int r = 0; r < REPS; ++r) {
    size_t w = (size_t)(t + r) % W.size();
    int id = CreateIPhreeqc();
    RES[t].ids.push_back(id);
    if (id < 0) { RES[t].mism.push_back("create failed"); continue; }
    if ((t + r) % 3 == 0) sched_yield();
    int a, b;
    std::string o = observe(id, W[w], &a, &b);
    if (o != REF[w]) {
      size_t k = 0; while (k < o.size() && k < REF[w].size() && o[k] == REF[w][k]) ++k;
      std::ostringstream m;
      m << "{\"thread\":" << t << ",\"rep\":" << r << ",\"workload\":" << w << ",\"at\":" << k << ",\"got\":" << jstr(o.substr(k > 40 ? k - 40 : 0, 160)) << ",\"ref\":" << jstr(REF[w].substr(k > 40 ? k - 40 : 0, 160)) << "}";
      RES[t].mism.push_back(m.str());
    }
    if (DestroyIPhreeqc(id) != IPQ_OK) RES[t].mism.push_back("{\"destroy_failed\":" + std::to_string(id) + "}");
  }
  return 0;
}

int main(int argc, char **argv) {
  if (argc < 5) { fprintf(stderr, "usage: mtdrive db nthreads reps workloads...\n"); return 2; }
  DB = argv[1]; NT = atoi(argv[2]); REPS = atoi(argv[3]);
  for (int i = 4; i < argc; ++i) W.push_back(slurp(argv[i]));
  // sequential reference, twice (repeatability on fresh instances within one process)
  std::vector<std::string> ref2;
  std::string repeat_diff = "null";
  for (int pass = 0; pass < 2; ++pass)
    for (size_t w = 0; w < W.size(); ++w) {
      int id = CreateIPhreeqc(); int a, b;
      std::string o = observe(id, W[w], &a, &b);
      DestroyIPhreeqc(id);
      if (pass == 0) REF.push_back(o); else if (o != REF[w]) repeat_diff = std::to_string(w);
    }
  RES.resize(NT);
  std::vector<pthread_t> th(NT);
  for (long t = 0; t < NT; ++t) pthread_create(&th[t], 0, worker, (void *)t);
  for (long t = 0; t < NT; ++t) pthread_join(th[t], 0);
  std::ostringstream o;
  o << "{\"repeat_diff\":" << repeat_diff << ",\"ids\":[";
  bool first = true; std::set<int> seen; bool dup = false;
  for (int t = 0; t < NT; ++t) for (int id : RES[t].ids) { o << (first ? "" : ",") << id; first = false; if (!seen.insert(id).second) dup = true; }
  o << "],\"duplicate_ids\":" << (dup ? 1 : 0) << ",\"mismatches\":[";
  first = true;
  for (int t = 0; t < NT; ++t) for (auto &m : RES[t].mism) { o << (first ? "" : ",") << m; first = false; }
  o << "],\"ref_hash\":[";
  for (size_t w = 0; w < REF.size(); ++w) { size_t h = std::hash<std::string>()(REF[w]); o << (w ? "," : "") << "\"" << h << "\""; }
  o << "]}";
  std::cout << o.str() << std::endl;
  return 0;
}
