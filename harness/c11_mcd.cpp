// c11_mcd: runsel-like driver for C11 that additionally reports what Phreeqc::init_mix saw and returned:
// at the moment transport() prints "Calculating transport: ..." (directly after init_mix, before the first shift)
// the engine's diffc_max, nmix, mcd_substeps, max_mixf, implicit flag are read from the instance.
//   c11_mcd <jobs-file>     (same jobs format and same JSON as harness/runsel.cpp, plus "initmix":{...})
#include "spy.hpp"      // standard headers + access to internals (private/protected opened for the harness TU only)
#include <iostream>
#include <set>

class Mcd : public IPhreeqc {
public:
  std::string info;
  virtual void warning_msg(const char *s) {
    if (s && strstr(s, "Calculating") && strstr(s, "transport")) {
      std::ostringstream o;
      Phreeqc *p = PhreeqcPtr;
      o << "{\"diffc_max\":\"" << hexd(p->diffc_max) << "\",\"nmix\":" << p->nmix << ",\"mcd_substeps\":\"" << hexd(p->mcd_substeps)
        << "\",\"max_mixf\":\"" << hexd(p->max_mixf) << "\",\"implicit\":" << (p->implicit ? 1 : 0) << ",\"multi_D\":" << (p->multi_Dflag ? 1 : 0)
        << ",\"count_cells\":" << p->count_cells << ",\"ishift\":" << p->ishift << ",\"bcon_first\":" << p->bcon_first << ",\"bcon_last\":" << p->bcon_last
        << ",\"timest\":\"" << hexd(p->timest) << "\",\"count_stag\":" << p->stag_data.count_stag << "}";
      info = o.str();
    }
    IPhreeqc::warning_msg(s);
  }
};

static std::vector<std::string> split(const std::string &s, char c) {
  std::vector<std::string> v; std::string cur;
  for (char ch : s) { if (ch == c) { v.push_back(cur); cur.clear(); } else cur += ch; }
  v.push_back(cur); return v;
}

int main(int argc, char **argv) {
  if (argc < 2) { fprintf(stderr, "usage: c11_mcd jobs\n"); return 2; }
  std::ifstream jf(argv[1]);
  std::string line;
  while (std::getline(jf, line)) {
    if (line.empty()) continue;
    std::vector<std::string> f = split(line, '\t');
    if (f.size() < 3) continue;
    std::string id = f[0], db = f[1], inp = f[2];
    Mcd ip;
    std::ostringstream o;
    o << "{\"job\":" << jstr(id);
    if (ip.LoadDatabase(db.c_str()) != 0) { o << ",\"dberr\":" << jstr(ip.GetErrorString()) << "}"; std::cout << o.str() << std::endl; continue; }
    int rc = ip.RunFile(inp.c_str());
    o << ",\"rc\":" << rc << ",\"err\":" << jstr(ip.GetErrorString()) << ",\"warn\":" << jstr(ip.GetWarningString());
    o << ",\"initmix\":" << (ip.info.empty() ? std::string("null") : ip.info);
    o << ",\"tables\":{";
    int cnt = ip.GetSelectedOutputCount();
    for (int k = 0; k < cnt; ++k) {
      int n = ip.GetNthSelectedOutputUserNumber(k);
      ip.SetCurrentSelectedOutputUserNumber(n);
      if (k) o << ",";
      o << "\"" << n << "\":[";
      int R = ip.GetSelectedOutputRowCount(), C = ip.GetSelectedOutputColumnCount();
      for (int r = 0; r < R; ++r) {
        o << (r ? ",[" : "[");
        for (int c = 0; c < C; ++c) {
          VAR v; VarInit(&v);
          ip.GetSelectedOutputValue(r, c, &v);
          o << (c ? "," : "") << jvar(v);
          VarClear(&v);
        }
        o << "]";
      }
      o << "]";
    }
    o << "}}";
    std::cout << o.str() << std::endl;
  }
  return 0;
}
