// isodrive: sequential isolation between instances of one process.
//   isodrive <db1> <input1.pqi> [<db2> <input2.pqi> ...]
// creates one instance per pair (all alive at the same time), loads and runs them in the given order, and prints one JSON
// object with the complete observation of the LAST instance (every string, table, component list). The same last pair run
// alone in a fresh process must give the same observation: what an instance computes may not depend on what OTHER instances
// of the process loaded or computed before.
#include "vcommon.hpp"
#include "IPhreeqc.h"
#include <iostream>
#include <sstream>

static std::string mask(const std::string &s) {
  std::istringstream is(s); std::string line, out;
  while (std::getline(is, line)) {
    if (line.find("econds") != std::string::npos) continue;
    bool dashes = !line.empty(); for (char c : line) if (c != '-') { dashes = false; break; }
    if (dashes) continue;
    out += line; out += "\n";
  }
  return out;
}

static std::string observe(int id, const std::string &db, const std::string &text) {
  SetOutputStringOn(id, 1); SetLogStringOn(id, 1); SetDumpStringOn(id, 1); SetErrorStringOn(id, 1);
  int a = LoadDatabase(id, db.c_str());
  for (int n : {1, 2, 3}) { SetCurrentSelectedOutputUserNumber(id, n); SetSelectedOutputStringOn(id, 1); }
  SetCurrentSelectedOutputUserNumber(id, 1);
  int b = RunString(id, text.c_str());
  std::ostringstream o;
  o << "rc=" << a << "," << b << "\nOUT:" << mask(GetOutputString(id)) << "\nERR:" << GetErrorString(id) << "\nWARN:" << GetWarningString(id) << "\nDUMP:" << GetDumpString(id);
  int cnt = GetSelectedOutputCount(id);
  for (int k = 0; k < cnt; ++k) {
    int n = GetNthSelectedOutputUserNumber(id, k);
    SetCurrentSelectedOutputUserNumber(id, n);
    o << "\nSEL" << n << ":" << GetSelectedOutputString(id) << "\nTABLE" << n << ":";
    int R = GetSelectedOutputRowCount(id), C = GetSelectedOutputColumnCount(id);
    for (int r = 0; r < R; ++r) { for (int c = 0; c < C; ++c) { VAR v; VarInit(&v); GetSelectedOutputValue(id, r, c, &v); o << jvar(v) << ","; VarClear(&v); } o << ";"; }
  }
  o << "\nCOMPS:";
  int nc = GetComponentCount(id);
  for (int i = 0; i < nc; ++i) o << GetComponent(id, i) << ",";
  return o.str();
}

int main(int argc, char **argv) {
  // --recycle: each instance is destroyed before the next is created (the allocator hands its storage to the successor:
  // a member that no constructor / init() sets would continue the dead instance's value)
  bool recycle = argc > 1 && std::string(argv[1]) == "--recycle";
  if (recycle) { --argc; ++argv; }
  if (argc < 3 || (argc - 1) % 2) { fprintf(stderr, "usage: isodrive [--recycle] db input [db input ...]\n"); return 2; }
  int n = (argc - 1) / 2;
  std::vector<int> ids;
  std::string last;
  if (recycle) {
    for (int k = 0; k < n; ++k) { int id = CreateIPhreeqc(); last = observe(id, argv[1 + 2 * k], slurp(argv[2 + 2 * k])); DestroyIPhreeqc(id); }
  } else {
    for (int k = 0; k < n; ++k) ids.push_back(CreateIPhreeqc());
    for (int k = 0; k < n; ++k) last = observe(ids[k], argv[1 + 2 * k], slurp(argv[2 + 2 * k]));
    for (int id : ids) DestroyIPhreeqc(id);
  }
  std::cout << "{\"n\":" << n << ",\"last\":" << jstr(last) << "}" << std::endl;
  return 0;
}
