// c10_bin: in-memory / binary copies of the reaction state (property C10).
//   c10_bin <jobs-file>
// jobs-file: one job per line, tab separated:
//   <jobid> \t <database> \t <full input file> \t <definitions input file> \t <follow-up input file>
// For every job:
//   A : fresh instance, database, run <full input>                      (the original state)
//   B : fresh instance, database, run <definitions>, DELETE -all, then  cxxStorageBin copy  A -> B
//       (Phreeqc::phreeqc2cxxStorageBin / cxxStorageBin2phreeqc)
//   C : fresh instance, database, run <definitions>, DELETE -all, then  Serializer copy     A -> C
//       (Serializer::Serialize / Deserialize; MIX and REACTION, which the Serializer does not pack, come through a bin)
//   the RAW text of all three states (cxxStorageBin::dump_raw) and the selected output of the follow-up input run
//   on A, B and C are printed as one line of JSON.
// Engine internals are reached by subclassing IPhreeqc (PhreeqcPtr is protected); nothing in /repo is changed.
#include "vcommon.hpp"
#include "IPhreeqc.hpp"
#include "Phreeqc.h"
#include "StorageBin.h"
#include "Serializer.h"
#include "Solution.h"
#include "Exchange.h"
#include "GasPhase.h"
#include "cxxKinetics.h"
#include "PPassemblage.h"
#include "SSassemblage.h"
#include "Surface.h"
#include "cxxMix.h"
#include "Reaction.h"
#include "Temperature.h"
#include "Pressure.h"
#include <iostream>
#include <map>
#include <set>

class Spy : public IPhreeqc {
public:
  Phreeqc *P() { return this->PhreeqcPtr; }
};

static std::vector<std::string> split(const std::string &s, char c) {
  std::vector<std::string> v; std::string cur;
  for (char ch : s) { if (ch == c) { v.push_back(cur); cur.clear(); } else cur += ch; }
  v.push_back(cur); return v;
}

static std::string tables(IPhreeqc *ip) {
  std::ostringstream o;
  o << "{";
  int cnt = ip->GetSelectedOutputCount();
  for (int k = 0; k < cnt; ++k) {
    int n = ip->GetNthSelectedOutputUserNumber(k);
    ip->SetCurrentSelectedOutputUserNumber(n);
    if (k) o << ",";
    o << "\"" << n << "\":[";
    int R = ip->GetSelectedOutputRowCount(), C = ip->GetSelectedOutputColumnCount();
    for (int r = 0; r < R; ++r) {
      o << (r ? ",[" : "[");
      for (int c = 0; c < C; ++c) {
        VAR v; VarInit(&v);
        ip->GetSelectedOutputValue(r, c, &v);
        o << (c ? "," : "") << jvar(v);
        VarClear(&v);
      }
      o << "]";
    }
    o << "]";
  }
  o << "}";
  return o.str();
}

static std::string raw_text(Spy *s) {
  cxxStorageBin sb;
  s->P()->phreeqc2cxxStorageBin(sb);
  std::ostringstream oss;
  sb.dump_raw(oss, 0);
  return oss.str();
}

static void range_of(cxxStorageBin &sb, int &lo, int &hi) {
  lo = 1; hi = 0; bool first = true;
#define RNG(M) for (auto &kv : sb.M()) { if (first) { lo = hi = kv.first; first = false; } if (kv.first < lo) lo = kv.first; if (kv.first > hi) hi = kv.first; }
  RNG(Get_Solutions) RNG(Get_Exchangers) RNG(Get_GasPhases) RNG(Get_Kinetics) RNG(Get_PPassemblages)
  RNG(Get_SSassemblages) RNG(Get_Surfaces) RNG(Get_Temperatures) RNG(Get_Pressures)
#undef RNG
}

static Spy *fresh(const std::string &db, const std::string &defs, std::string &err) {
  Spy *s = new Spy();
  if (s->LoadDatabase(db.c_str()) != 0) { err = s->GetErrorString(); delete s; return 0; }
  if (s->RunFile(defs.c_str()) != 0) { err = s->GetErrorString(); delete s; return 0; }
  if (s->RunString("DELETE\n -all\nEND\n") != 0) { err = s->GetErrorString(); delete s; return 0; }
  return s;
}

int main(int argc, char **argv) {
  if (argc < 2) { fprintf(stderr, "usage: c10_bin jobs\n"); return 2; }
  std::ifstream jf(argv[1]);
  std::string line;
  while (std::getline(jf, line)) {
    if (line.empty()) continue;
    std::vector<std::string> f = split(line, '\t');
    if (f.size() < 5) continue;
    std::string id = f[0], db = f[1], full = f[2], defs = f[3], follow = f[4];
    std::ostringstream o;
    o << "{\"job\":" << jstr(id);
    Spy *A = new Spy();
    if (A->LoadDatabase(db.c_str()) != 0) { o << ",\"dberr\":" << jstr(A->GetErrorString()) << "}"; std::cout << o.str() << std::endl; delete A; continue; }
    int rcA = A->RunFile(full.c_str());
    o << ",\"rcA\":" << rcA << ",\"errA\":" << jstr(A->GetErrorString());
    if (rcA != 0) { o << "}"; std::cout << o.str() << std::endl; delete A; continue; }
    std::string e;
    Spy *B = fresh(db, defs, e);
    Spy *C = fresh(db, defs, e);
    if (!B || !C) { o << ",\"fresh_err\":" << jstr(e) << "}"; std::cout << o.str() << std::endl; delete A; delete B; delete C; continue; }
    // storage-bin copy
    cxxStorageBin sb;
    A->P()->phreeqc2cxxStorageBin(sb);
    B->P()->cxxStorageBin2phreeqc(sb);
    // serializer copy
    int lo, hi;
    range_of(sb, lo, hi);
    size_t ni = 0, nd = 0;
    {
      Serializer ser;
      ser.Serialize(*A->P(), lo, hi, true, true);
      ni = ser.GetInts().size(); nd = ser.GetDoubles().size();
      // simulate the transfer: copies of the three buffers
      std::vector<int> ints(ser.GetInts());
      std::vector<double> doubles(ser.GetDoubles());
      Serializer de;
      de.Deserialize(*C->P(), ser.GetDictionary(), ints, doubles);
      cxxStorageBin sb2;
      for (auto &kv : sb.Get_Mixes()) sb2.Set_Mix(kv.first, &kv.second);
      for (auto &kv : sb.Get_Reactions()) sb2.Set_Reaction(kv.first, &kv.second);
      C->P()->cxxStorageBin2phreeqc(sb2);
    }
    o << ",\"ints\":" << ni << ",\"doubles\":" << nd << ",\"lo\":" << lo << ",\"hi\":" << hi;
    o << ",\"dumpA\":" << jstr(raw_text(A)) << ",\"dumpB\":" << jstr(raw_text(B)) << ",\"dumpC\":" << jstr(raw_text(C));
    Spy *S[3] = {A, B, C};
    const char *nm[3] = {"orig", "bin", "ser"};
    for (int k = 0; k < 3; ++k) {
      int rc = S[k]->RunFile(follow.c_str());
      o << ",\"" << nm[k] << "\":{\"rc\":" << rc << ",\"err\":" << jstr(S[k]->GetErrorString()) << ",\"tables\":" << tables(S[k]) << "}";
    }
    o << "}";
    std::cout << o.str() << std::endl;
    delete A; delete B; delete C;
  }
  return 0;
}
