// c18_inv: observation driver for property C18 (inverse modelling).
//   c18_inv <jobs-file>       jobs-file: <jobid> \t <database path> \t <input file path> [\t oracle]
// A fresh IPhreeqc instance per job.  The driver subclasses IPhreeqc and overrides the virtual
// PHRQ_io callback fpunchf(name, format, double): punch_model() calls it with name "Sum_resid" as the
// first cell of every reported model, while the solution vector of that model (inv_delta1), the
// range vectors (min_delta / max_delta), the constraint matrix (my_array) and the search
// book-keeping lists (good / bad / minimal) are still alive.  They are copied out *exactly*
// (C99 hex floats).  Nothing in /repo is changed; private members are reached with
// "#define private public" in this translation unit only.
// One line of JSON per job on stdout.
#include "vcommon.hpp"
#include <iostream>
#include <map>
#include <set>
#include <list>
#include <vector>
#include <string>
#include <sstream>
#include <fstream>
#include <algorithm>
#include <cmath>
#include <cassert>
#include <cstdarg>
#include <memory>
#include <iterator>
#include <functional>
#include <numeric>
#include <limits>
#include <iomanip>
#include <stdexcept>
#include <typeinfo>
#include <utility>
#include <deque>
#include <stack>
#include <queue>
#include <locale>
#include <ctime>
#include <cfloat>
#include <climits>
#include <cerrno>
#include <csetjmp>
#include <cstddef>
#include <cctype>
#define private public
#define protected public
#include "IPhreeqc.hpp"
#include "Phreeqc.h"
#include "Solution.h"
#undef private
#undef protected

static std::string hx(double d) { return "\"" + hexd(d) + "\""; }
// FNV-1a over the bytes of a vector of doubles (identity of a solver vector)
static std::string vhash(const std::vector<double> &v, size_t n) {
  uint64_t h = 1469598103934665603ull;
  for (size_t i = 0; i < n && i < v.size(); i++) {
    unsigned char b[8]; memcpy(b, &v[i], 8);
    for (int k = 0; k < 8; k++) { h ^= b[k]; h *= 1099511628211ull; }
  }
  char buf[32]; snprintf(buf, sizeof buf, "\"%016llx\"", (unsigned long long)h);
  return buf;
}

class Spy : public IPhreeqc {
public:
  std::ostringstream models;   // JSON array body
  int nmodels;
  bool problem_done;
  std::ostringstream problem;
  Spy() : nmodels(0), problem_done(false), oracle_done(false), want_oracle(false), want_x(false), shrink_masks(0), shrink_mismatches(0) {}

  class inverse *current() {
    Phreeqc *p = this->PhreeqcPtr;
    for (int n = 0; n < p->count_inverse; n++)
      if (p->inverse[n].new_def == TRUE) return &p->inverse[n];
    return 0;
  }

  void dump_problem(class inverse *inv) {
    Phreeqc *p = this->PhreeqcPtr;
    std::ostringstream &o = problem;
    o << "{\"n_user\":" << inv->n_user << ",\"count_solns\":" << inv->count_solns
      << ",\"minimal\":" << inv->minimal << ",\"range\":" << inv->range << ",\"mp\":" << inv->mp
      << ",\"range_max\":" << hx(inv->range_max) << ",\"tolerance\":" << hx(inv->tolerance)
      << ",\"mp_tolerance\":" << hx(inv->mp_tolerance) << ",\"toler\":" << hx(p->toler) << ",\"gfw_water\":" << hx(p->gfw_water)
      << ",\"water_uncertainty\":" << hx(inv->water_uncertainty) << ",\"mineral_water\":" << inv->mineral_water
      << ",\"carbon\":" << inv->carbon << ",\"count_redox_rxns\":" << inv->count_redox_rxns
      << ",\"n_isotopes\":" << inv->isotopes.size() << ",\"n_isotope_unknowns\":" << inv->isotope_unknowns.size();
    o << ",\"solns\":[";
    for (size_t i = 0; i < inv->count_solns; i++) {
      cxxSolution *s = Utilities::Rxn_find(p->Rxn_solution_map, inv->solns[i]);
      o << (i ? "," : "") << "{\"n_user\":" << inv->solns[i] << ",\"force\":" << (inv->force_solns[i] ? 1 : 0);
      if (s) {
        o << ",\"alk\":" << hx(s->Get_total_alkalinity()) << ",\"mass_water\":" << hx(s->Get_mass_water())
          << ",\"ph\":" << hx(s->Get_ph()) << ",\"cb\":" << hx(s->Get_cb()) << ",\"totals\":{";
        bool first = true;
        for (cxxNameDouble::iterator it = s->Get_totals().begin(); it != s->Get_totals().end(); ++it) {
          o << (first ? "" : ",") << jstr(it->first) << ":" << hx(it->second);
          first = false;
        }
        o << "},\"isotopes\":{";
        first = true;
        for (std::map<std::string, cxxSolutionIsotope>::iterator it = s->Get_isotopes().begin(); it != s->Get_isotopes().end(); ++it) {
          o << (first ? "" : ",") << jstr(it->first) << ":[" << hx(it->second.Get_ratio()) << "," << hx(it->second.Get_x_ratio_uncertainty()) << "]";
          first = false;
        }
        o << "}";
      }
      o << ",\"ph_unc\":" << hx(i < inv->ph_uncertainties.size() ? inv->ph_uncertainties[i] : 0.0);
      o << "}";
    }
    o << "],\"elts\":[";
    for (size_t j = 0; j < inv->elts.size(); j++) {
      class master *m = inv->elts[j].master;
      o << (j ? "," : "") << "{\"name\":" << jstr(m->elt->name) << ",\"species\":" << jstr(m->s->name) << ",\"row\":" << m->in
        << ",\"eminus\":" << (m->s == p->s_eminus ? 1 : 0) << ",\"z\":" << hx(m->s->z) << ",\"alk\":" << hx(m->s->alk)
        << ",\"primary\":" << (m->s->primary != NULL ? 1 : 0) << ",\"unc\":[";
      for (size_t i = 0; i < inv->elts[j].uncertainties.size(); i++) o << (i ? "," : "") << hx(inv->elts[j].uncertainties[i]);
      o << "]}";
    }
    o << "],\"phases\":[";
    for (size_t i = 0; i < inv->phases.size(); i++) {
      o << (i ? "," : "") << "{\"name\":" << jstr(inv->phases[i].phase->name) << ",\"formula\":" << jstr(inv->phases[i].phase->formula)
        << ",\"constraint\":" << inv->phases[i].constraint << ",\"force\":" << inv->phases[i].force
        << ",\"n_iso\":" << inv->phases[i].isotopes.size() << "}";
    }
    o << "]";
    // layout
    o << ",\"layout\":{\"col_phases\":" << p->col_phases << ",\"col_redox\":" << p->col_redox << ",\"col_epsilon\":" << p->col_epsilon
      << ",\"col_ph\":" << p->col_ph << ",\"col_water\":" << p->col_water << ",\"col_isotopes\":" << p->col_isotopes
      << ",\"col_phase_isotopes\":" << p->col_phase_isotopes << ",\"count_unknowns\":" << p->count_unknowns
      << ",\"row_mb\":" << p->row_mb << ",\"row_fract\":" << p->row_fract << ",\"row_charge\":" << p->row_charge
      << ",\"row_carbon\":" << p->row_carbon << ",\"row_isotopes\":" << p->row_isotopes << ",\"row_epsilon\":" << p->row_epsilon
      << ",\"row_water\":" << p->row_water << ",\"count_rows\":" << p->count_rows << ",\"max_column_count\":" << p->max_column_count << "}";
    o << ",\"col_name\":[";
    for (size_t i = 0; i < p->count_unknowns; i++) o << (i ? "," : "") << jstr(p->col_name[i] ? p->col_name[i] : "");
    o << "],\"row_name\":[";
    for (size_t i = 0; i < p->count_rows; i++) o << (i ? "," : "") << jstr(p->row_name[i] ? p->row_name[i] : "");
    o << "]";
    // sign constraints as set up (delta vector) and the matrix (sparse, rows row_mb .. count_rows)
    o << ",\"delta\":[";
    for (size_t i = 0; i < p->count_unknowns; i++) o << (i ? "," : "") << hx(p->delta[i]);
    o << "],\"array\":[";
    bool first = true;
    for (size_t r = p->row_mb; r < p->count_rows; r++)
      for (size_t c = 0; c <= p->count_unknowns; c++) {
        double v = p->my_array[r * p->max_column_count + c];
        if (v != 0.0) { o << (first ? "" : ",") << "[" << r << "," << c << "," << hx(v) << "]"; first = false; }
      }
    o << "]}";
  }

  void snapshot() {
    Phreeqc *p = this->PhreeqcPtr;
    class inverse *inv = current();
    if (!inv) return;
    if (!problem_done) { dump_problem(inv); problem_done = true; }
    std::ostringstream &o = models;
    o << (nmodels ? "," : "") << "{\"x\":[";
    for (size_t i = 0; i < p->count_unknowns; i++) o << (i ? "," : "") << hx(p->inv_delta1[i]);
    o << "],\"min\":[";
    for (size_t i = 0; i < p->col_redox; i++) o << (i ? "," : "") << hx(p->min_delta[i]);
    o << "],\"max\":[";
    for (size_t i = 0; i < p->col_redox; i++) o << (i ? "," : "") << hx(p->max_delta[i]);
    o << "],\"xhash\":" << vhash(p->inv_delta1, p->count_unknowns) << ",\"error\":" << hx(p->error) << ",\"scaled_error\":" << hx(p->scaled_error) << ",\"max_pct\":" << hx(p->max_pct)
      << ",\"count_calls\":" << p->count_calls;
    o << ",\"good\":[";
    for (int i = 0; i < p->count_good; i++) o << (i ? "," : "") << p->good[i];
    o << "],\"bad\":[";
    for (int i = 0; i < p->count_bad; i++) o << (i ? "," : "") << p->bad[i];
    o << "],\"minimal\":[";
    for (int i = 0; i < p->count_minimal; i++) o << (i ? "," : "") << p->minimal[i];
    o << "]";
    if (inv->range == TRUE && p->count_good > 0) range_replay(inv, p->good[p->count_good - 1], o);
    o << "}";
    nmodels++;
  }

  // ---- range replay.  SPECIFICATION of -range: for every solution fraction / phase transfer x_i that is in the reported model
  // (or forced), min_i and max_i are the optima of   minimise |x_i - (-/+ range_max)|   over the constraint system of the model
  // (same rows, the columns of the model plus the forced ones), computed with the engine's own shrink() and cl1() (iteration limit
  // 200 as in range()).  The LPs are built here from my_array / delta, independently of Phreeqc::range(); the driver then
  // compares bit for bit with what range() stored in min_delta / max_delta.  Identical => range() asks the right question and any
  // value outside [min,max] is cl1's answer; different => range() itself is wrong.  With big=true the same LPs are solved with the
  // iteration limit of solve_with_mask (100000) for diagnosis.
  void one_range_lp(class inverse *inv, unsigned long cur_bits, size_t i, int f, int maxit, double &val, int &kode_out, int &iter_out) {
    Phreeqc *p = this->PhreeqcPtr;
    int k = (int)p->row_mb, l = (int)(p->row_epsilon - p->row_mb), m = (int)(p->count_rows - p->row_epsilon), n = (int)p->count_unknowns;
    size_t mc = p->max_column_count, mr = p->max_row_count;
    std::copy(p->my_array.begin(), p->my_array.begin() + mc * mr, p->array1.begin());
    std::copy(p->delta.begin(), p->delta.begin() + mc, p->delta2.begin());
    std::fill(p->inv_res.begin(), p->inv_res.begin() + mr, 0.0);
    for (int j = 0; j < k; j++) std::fill(p->array1.begin() + j * mc, p->array1.begin() + (j + 1) * mc, 0.0);
    p->array1[i] = 1.0;
    p->array1[n] = (f < 0) ? -fabs(inv->range_max) : fabs(inv->range_max);
    p->shrink(inv, &p->array1[0], &p->array1[0], &k, &l, &m, &n, cur_bits, &p->delta2[0], &p->col_back[0], &p->row_back[0]);
    int kode = 1, iter = maxit;
    double err2 = 0;
    p->cl1(k, l, m, n, (int)p->nklmd, (int)p->n2d, &p->array1[0], &kode, p->toler, &iter, &p->delta2[0], &p->inv_res[0], &err2,
           &p->inv_cu[0], &p->inv_iu[0], &p->inv_is[0], TRUE);
    int j = 0;
    for (; j < n; j++) if ((size_t)p->col_back[j] == i) break;
    val = p->delta2[j];
    kode_out = kode; iter_out = iter;
  }
  void range_replay(class inverse *inv, unsigned long model_bits, std::ostringstream &o) {
    Phreeqc *p = this->PhreeqcPtr;
    size_t ns = inv->count_solns, nph = inv->phases.size();
    unsigned long cur = model_bits;
    for (size_t i = 0; i < nph; i++) if (inv->phases[i].force == TRUE) cur |= 1ul << i;
    for (size_t i = 0; i < ns; i++) if (inv->force_solns[i]) cur |= 1ul << (nph + i);
    int calls = p->count_calls;
    std::vector<double> rmin(ns + nph, 0.0), rmax(ns + nph, 0.0), bmin(ns + nph, 0.0), bmax(ns + nph, 0.0);
    std::ostringstream kodes;
    bool first = true;
    try {
      for (size_t i = 0; i < ns + nph; i++) {
        if (i + 1 == ns) { rmin[i] = rmax[i] = bmin[i] = bmax[i] = 1.0; continue; }
        bool in = (i < ns) ? ((cur >> (nph + i)) & 1ul) : ((cur >> (i - ns)) & 1ul);
        if (!in) continue;
        for (int f = -1; f < 2; f += 2) {
          double v, vb; int kd, it, kdb, itb;
          one_range_lp(inv, cur, i, f, 200, v, kd, it);
          one_range_lp(inv, cur, i, f, 100000, vb, kdb, itb);
          (f < 0 ? rmin[i] : rmax[i]) = v;
          (f < 0 ? bmin[i] : bmax[i]) = vb;
          kodes << (first ? "" : ",") << "[" << i << "," << f << "," << kd << "," << it << "," << kdb << "," << itb << "]";
          first = false;
        }
      }
    } catch (...) { kodes << (first ? "" : ",") << "[-1,0,-1,0,-1,0]"; }
    p->count_calls = calls;
    o << ",\"rmin\":[";
    for (size_t i = 0; i < ns + nph; i++) o << (i ? "," : "") << hx(rmin[i]);
    o << "],\"rmax\":[";
    for (size_t i = 0; i < ns + nph; i++) o << (i ? "," : "") << hx(rmax[i]);
    o << "],\"bmin\":[";
    for (size_t i = 0; i < ns + nph; i++) o << (i ? "," : "") << hx(bmin[i]);
    o << "],\"bmax\":[";
    for (size_t i = 0; i < ns + nph; i++) o << (i ? "," : "") << hx(bmax[i]);
    o << "],\"rkode\":[" << kodes.str() << "]";
  }

  // ---- oracle tabulation: called from the heading hook, i.e. after setup_inverse() and before
  // solve_inverse().  For every mask that contains the final-solution bit, solve_with_mask() is
  // called exactly as solve_inverse()/minimal_solve() call it and (kode==0, support) is recorded,
  // support being extracted with the same equal(inv_delta1[..],0,TOL) tests the search uses.

  // ---- shrink check.  SPECIFICATION of shrink() (the routine that prepares the tableau of a sub-model for cl1), written here from
  // its contract, independently of Phreeqc::shrink():
  //   columns kept = all unknowns except: the column (and isotope columns) of every phase whose bit is 0; for every initial solution
  //   whose bit is 0 its fraction, all its epsilons, its pH and isotope columns; every epsilon..last column that is identically zero;
  //   the right-hand side is always kept.  Kept columns are compacted in order, and the SIGN CONSTRAINT of a kept column travels with it
  //   (delta'[new] = delta[old]); nothing else touches the sign vector.  Rows: an optimisation row is dropped when its kept entries are
  //   all (bitwise) zero, an equality / inequality row when all are within toler of zero; kept rows are compacted in order.
  // For every mask of the oracle table the engine's shrink() output (sizes, col_back, row_back, sign vector, tableau entries) is compared
  // bit for bit with this specification.
  std::ostringstream shrink_bad; int shrink_masks, shrink_mismatches;
  void shrink_check(class inverse *inv, unsigned long mask) {
    Phreeqc *p = this->PhreeqcPtr;
    size_t mc = p->max_column_count, mr = p->max_row_count;
    size_t nph = inv->phases.size(), ns = inv->count_solns, n0 = p->count_unknowns;
    int k0 = (int)p->row_mb, l0 = (int)(p->row_epsilon - p->row_mb), m0 = (int)(p->count_rows - p->row_epsilon);
    int rows0 = k0 + l0 + m0;
    // --- specification
    std::vector<int> keep(n0 + 1, 1);
    size_t niso = inv->isotopes.size(), nisu = inv->isotope_unknowns.size();
    for (size_t i = 0; i < nph; i++) if (!((mask >> i) & 1ul)) {
      keep[p->col_phases + i] = 0;
      for (size_t j = 0; j < niso; j++) keep[p->col_phase_isotopes + i * niso + j] = 0;
    }
    for (size_t i = 0; i + 1 < ns; i++) if (!((mask >> (nph + i)) & 1ul)) {
      keep[i] = 0;
      for (size_t j = 0; j < inv->elts.size(); j++) keep[p->col_epsilon + j * ns + i] = 0;
      if (inv->carbon == TRUE) keep[p->col_ph + i] = 0;
      for (size_t j = 0; j < nisu; j++) keep[p->col_isotopes + i * nisu + j] = 0;
    }
    for (size_t c = p->col_epsilon; c < n0; c++) if (keep[c]) {
      bool allzero = true;
      for (int r = 0; r < rows0; r++) if (p->my_array[(size_t)r * mc + c] != 0) { allzero = false; break; }
      if (allzero) keep[c] = 0;
    }
    std::vector<int> cb; std::vector<double> dl;
    for (size_t c = 0; c <= n0; c++) if (keep[c]) { cb.push_back((int)c); dl.push_back(p->delta[c]); }
    int n1 = (int)cb.size() - 1;
    std::vector<int> rb; int k1 = 0, l1 = 0, m1 = 0;
    for (int r = 0; r < rows0; r++) {
      bool drop = true;
      for (int c = 0; c < n1; c++) {
        double v = p->my_array[(size_t)r * mc + cb[c]];
        if (r < k0) { uint64_t u; memcpy(&u, &v, 8); if (u != 0) { drop = false; break; } }
        else if (fabs(v) > p->toler) { drop = false; break; }
      }
      if (drop) continue;
      rb.push_back(r);
      if (r < k0) k1++; else if (r < k0 + l0) l1++; else m1++;
    }
    // --- engine
    std::copy(p->my_array.begin(), p->my_array.begin() + mc * mr, p->array1.begin());
    std::copy(p->delta.begin(), p->delta.begin() + mc, p->delta2.begin());
    int k = k0, l = l0, m = m0, n = (int)n0;
    p->shrink(inv, &p->my_array[0], &p->array1[0], &k, &l, &m, &n, mask, &p->delta2[0], &p->col_back[0], &p->row_back[0]);
    // --- compare
    std::ostringstream d;
    if (k != k1 || l != l1 || m != m1 || n != n1) d << "sizes (k,l,m,n) engine " << k << "," << l << "," << m << "," << n << " specification " << k1 << "," << l1 << "," << m1 << "," << n1;
    else {
      for (int c = 0; c <= n1 && d.str().empty(); c++) if (p->col_back[c] != cb[c]) d << "col_back[" << c << "] engine " << p->col_back[c] << " specification " << cb[c];
      for (int c = 0; c < n1 && d.str().empty(); c++) {
        if (memcmp(&p->delta2[c], &dl[c], 8) != 0)
          d << "sign constraint of column " << (p->col_name[cb[c]] ? p->col_name[cb[c]] : "?") << " handed to cl1 is " << p->delta2[c] << ", setup_inverse declared " << dl[c];
      }
      for (int r = 0; r < k1 + l1 + m1 && d.str().empty(); r++) {
        if (p->row_back[r] != rb[r]) { d << "row_back[" << r << "] engine " << p->row_back[r] << " specification " << rb[r]; break; }
        for (int c = 0; c <= n1; c++) {
          double want = p->my_array[(size_t)rb[r] * mc + cb[c]];
          if (memcmp(&p->array1[(size_t)r * mc + c], &want, 8) != 0) { d << "tableau entry (" << r << "," << c << ") engine " << p->array1[(size_t)r * mc + c] << " specification " << want; break; }
        }
      }
    }
    shrink_masks++;
    if (!d.str().empty()) {
      if (shrink_mismatches < 5) shrink_bad << (shrink_mismatches ? "," : "") << "{\"mask\":" << mask << ",\"what\":" << jstr(d.str()) << "}";
      shrink_mismatches++;
    }
  }
  std::ostringstream oracle; bool oracle_done; std::string oracle_note;
  void tabulate() {
    Phreeqc *p = this->PhreeqcPtr;
    class inverse *inv = current();
    oracle_done = true;
    if (!inv) { oracle_note = "no current inverse"; return; }
    size_t nph = inv->phases.size(), ns = inv->count_solns, nb = nph + ns;
    if (nb > 13 || nb < 2) { oracle_note = "too many bits"; return; }
    size_t n = p->count_unknowns;
    p->klmd = p->max_row_count - 2; p->nklmd = n + p->klmd; p->n2d = n + 2;
    p->inv_cu.assign(2 * p->nklmd, 0.0); p->inv_iu.resize(2 * p->nklmd); p->inv_is.resize(p->klmd);
    p->col_back.resize(p->max_column_count); p->row_back.resize(p->max_row_count);
    int calls = p->count_calls;
    unsigned long top = 1ul << (nb - 1);
    bool first = true;
    try {
      for (unsigned long mask = 0; mask < (1ul << nb); mask++) {
        if (!(mask & top)) continue;
        shrink_check(inv, mask);
        int rc = p->solve_with_mask(inv, mask);
        unsigned long sup = 0;
        for (size_t i = 0; i < ns; i++) if (p->equal(p->inv_delta1[i], 0.0, TOL) == FALSE) sup |= 1ul << (i + nph);
        for (size_t i = 0; i < nph; i++) if (p->equal(p->inv_delta1[i + ns], 0.0, TOL) == FALSE) sup |= 1ul << i;
        oracle << (first ? "" : ",") << "[" << mask << "," << (rc == OK ? 1 : 0) << "," << sup << "," << vhash(p->inv_delta1, n);
        if (want_x) { oracle << ",["; for (size_t i = 0; i < n; i++) oracle << (i ? "," : "") << hx(p->inv_delta1[i]); oracle << "]"; }
        oracle << "]";
        first = false;
      }
    } catch (...) { oracle_note = "exception in solve_with_mask"; }
    p->count_calls = calls;
  }
  virtual void punch_msg(const char *str) {
    if (str && this->PhreeqcPtr->state == INVERSE && strstr(str, "Sum_resid")) {
      if (!problem_done) { class inverse *inv = current(); if (inv) { dump_problem(inv); problem_done = true; } }
      if (!oracle_done && want_oracle) tabulate();
    }
    IPhreeqc::punch_msg(str);
  }
  bool want_oracle, want_x;

  virtual void fpunchf(const char *name, const char *format, double d) {
    if (name && strcmp(name, "Sum_resid") == 0 && this->PhreeqcPtr->state == INVERSE) snapshot();
    IPhreeqc::fpunchf(name, format, d);
  }
};

static std::vector<std::string> split(const std::string &s, char c) {
  std::vector<std::string> v; std::string cur;
  for (char ch : s) { if (ch == c) { v.push_back(cur); cur.clear(); } else cur += ch; }
  v.push_back(cur); return v;
}

int main(int argc, char **argv) {
  if (argc < 2) { fprintf(stderr, "usage: c18_inv jobs\n"); return 2; }
  std::ifstream jf(argv[1]);
  std::string line;
  while (std::getline(jf, line)) {
    if (line.empty()) continue;
    std::vector<std::string> f = split(line, '\t');
    if (f.size() < 3) continue;
    std::string id = f[0], db = f[1], inp = f[2];
    std::ostringstream o;
    o << "{\"job\":" << jstr(id);
    Spy *ip = new Spy();
    ip->want_oracle = f.size() > 3 && f[3].find("oracle") != std::string::npos;
    ip->want_x = f.size() > 3 && f[3].find("oraclex") != std::string::npos;
    int n = ip->LoadDatabase(db.c_str());
    if (n != 0) { o << ",\"dberr\":" << jstr(ip->GetErrorString()) << "}"; std::cout << o.str() << std::endl; delete ip; continue; }
    ip->SetOutputStringOn(true);
    ip->SetCurrentSelectedOutputUserNumber(1);
    ip->SetSelectedOutputStringOn(true);
    int rc = ip->RunFile(inp.c_str());
    o << ",\"rc\":" << rc << ",\"err\":" << jstr(ip->GetErrorString()) << ",\"warn\":" << jstr(ip->GetWarningString());
    int cnt = ip->GetSelectedOutputCount();
    o << ",\"table_rows\":{";
    for (int k = 0; k < cnt; ++k) {
      int nu = ip->GetNthSelectedOutputUserNumber(k);
      ip->SetCurrentSelectedOutputUserNumber(nu);
      o << (k ? "," : "") << "\"" << nu << "\":" << ip->GetSelectedOutputRowCount();
    }
    o << "},\"selstr\":{";
    for (int k = 0; k < cnt; ++k) {
      int nu = ip->GetNthSelectedOutputUserNumber(k);
      ip->SetCurrentSelectedOutputUserNumber(nu);
      o << (k ? "," : "") << "\"" << nu << "\":" << jstr(ip->GetSelectedOutputString());
    }
    o << "}";
    // last row of table 1 (to show what F7 leaves there)
    o << ",\"out\":" << jstr(ip->GetOutputString());
    o << ",\"problem\":" << (ip->problem_done ? ip->problem.str() : std::string("null"));
    o << ",\"models\":[" << ip->models.str() << "]";
    o << ",\"oracle\":[" << ip->oracle.str() << "],\"oracle_note\":" << jstr(ip->oracle_note);
    o << ",\"shrink\":{\"masks\":" << ip->shrink_masks << ",\"mismatches\":" << ip->shrink_mismatches << ",\"first\":[" << ip->shrink_bad.str() << "]}";
    o << "}";
    std::cout << o.str() << std::endl;
    delete ip;
  }
  return 0;
}
