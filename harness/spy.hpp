// Spy: a subclass of IPhreeqc that records the engine -> PHRQ_io call stream (top-level calls only)
// before delegating to the real implementation. No change to /repo is needed.
#ifndef SPY_HPP
#define SPY_HPP
#include <map>
#include <list>
#include <set>
#include <string>
#include <vector>
#include <sstream>
#include <fstream>
#include <iostream>
#include <memory>
#include <cstdarg>
#include <cassert>
#include <cmath>
#include <algorithm>
#include <functional>
#include <stdexcept>
#include <limits>
#include <iomanip>
#include <typeinfo>
#include <cstring>
#include <cstdlib>
#include <cstdio>
#include <ctime>
#include <cfloat>
#include <climits>
#include <cctype>
#include <cerrno>
#include <csetjmp>
#include <cstddef>
#include <utility>
#include <iterator>
#include <numeric>
#include <valarray>
#include <complex>
#include <deque>
#include <stack>
#include <queue>
// harness-local access to internals (standard headers are all included above)
#define private public
#define protected public
#include "IPhreeqc.hpp"
#include "Phreeqc.h"
#include "CSelectedOutput.hxx"
#include "SelectedOutput.h"
#include "UserPunch.h"
#undef private
#undef protected
#include "vcommon.hpp"

class Spy : public IPhreeqc {
public:
  std::vector<std::string> events;   // JSON objects
  int depth;
  bool recording;
  Spy() : depth(0), recording(true) {}
  struct Guard { int &d; Guard(int &x) : d(x) { ++d; } ~Guard() { --d; } };
  int cur_n() const { return PhreeqcPtr->current_selected_output ? PhreeqcPtr->current_selected_output->Get_n_user() : -999; }
  bool fopen_() const { return punch_ostream != NULL; }
  std::set<int> known_tables;
  // do_run creates the table/string of a user number when it first sees it (no virtual call): detect it
  void sync_tables() {
    for (std::map<int, CSelectedOutput*>::iterator it = SelectedOutputMap.begin(); it != SelectedOutputMap.end(); ++it)
      if (!known_tables.count(it->first)) {
        known_tables.insert(it->first);
        std::ostringstream o; o << "{\"k\":\"newtable\",\"n\":" << it->first << "}";
        events.push_back(o.str());
      }
    for (std::set<int>::iterator it = known_tables.begin(); it != known_tables.end();)
      if (SelectedOutputMap.find(*it) == SelectedOutputMap.end()) known_tables.erase(it++); else ++it;
  }
  void rec(const std::string &s) { if (recording && depth == 0) { sync_tables(); events.push_back(s); } }

  virtual void output_msg(const char *str) {
    rec(std::string("{\"k\":\"out\",\"on\":") + (output_on ? "1" : "0") + ",\"s\":" + jstr(str) + "}");
    Guard g(depth); IPhreeqc::output_msg(str);
  }
  virtual void log_msg(const char *str) {
    rec(std::string("{\"k\":\"log\",\"on\":") + (log_on ? "1" : "0") + ",\"s\":" + jstr(str) + "}");
    Guard g(depth); IPhreeqc::log_msg(str);
  }
  virtual void error_msg(const char *str, bool stop = false) {
    rec(std::string("{\"k\":\"err\",\"stop\":") + (stop ? "1" : "0") + ",\"oon\":" + (output_on ? "1" : "0") + ",\"lon\":" + (log_on ? "1" : "0") + ",\"s\":" + jstr(str) + "}");
    Guard g(depth); IPhreeqc::error_msg(str, stop);
  }
  virtual void warning_msg(const char *str) {
    rec(std::string("{\"k\":\"warn\",\"oon\":") + (output_on ? "1" : "0") + ",\"lon\":" + (log_on ? "1" : "0") + ",\"s\":" + jstr(str) + "}");
    Guard g(depth); IPhreeqc::warning_msg(str);
  }
  virtual void punch_msg(const char *str) {
    std::ostringstream o;
    o << "{\"k\":\"pmsg\",\"n\":" << cur_n() << ",\"on\":" << (punch_on ? 1 : 0) << ",\"f\":" << (fopen_() ? 1 : 0) << ",\"prp\":" << (PhreeqcPtr->pr.punch ? 1 : 0) << ",\"s\":" << jstr(str) << "}";
    rec(o.str());
    Guard g(depth); IPhreeqc::punch_msg(str);
  }
  template <class T> std::string fmt_text(const char *format, T v) {
    std::string s; PHRQ_io::fpunchf_helper(&s, format, v); return s;
  }
  virtual void fpunchf(const char *name, const char *format, double d) {
    std::ostringstream o;
    o << "{\"k\":\"pval\",\"n\":" << cur_n() << ",\"on\":" << (punch_on ? 1 : 0) << ",\"f\":" << (fopen_() ? 1 : 0) << ",\"name\":" << jstr(name)
      << ",\"fmt\":" << jstr(format) << ",\"v\":{\"d\":\"" << hexd(d) << "\"},\"text\":" << jstr(fmt_text(format, d)) << "}";
    rec(o.str());
    Guard g(depth); IPhreeqc::fpunchf(name, format, d);
  }
  virtual void fpunchf(const char *name, const char *format, char *s) {
    std::ostringstream o;
    o << "{\"k\":\"pval\",\"n\":" << cur_n() << ",\"on\":" << (punch_on ? 1 : 0) << ",\"f\":" << (fopen_() ? 1 : 0) << ",\"name\":" << jstr(name)
      << ",\"fmt\":" << jstr(format) << ",\"v\":{\"s\":" << jstr(s) << "},\"text\":" << jstr(fmt_text(format, s)) << "}";
    rec(o.str());
    Guard g(depth); IPhreeqc::fpunchf(name, format, s);
  }
  virtual void fpunchf(const char *name, const char *format, int i) {
    std::ostringstream o;
    o << "{\"k\":\"pval\",\"n\":" << cur_n() << ",\"on\":" << (punch_on ? 1 : 0) << ",\"f\":" << (fopen_() ? 1 : 0) << ",\"name\":" << jstr(name)
      << ",\"fmt\":" << jstr(format) << ",\"v\":{\"l\":" << i << "},\"text\":" << jstr(fmt_text(format, i)) << "}";
    rec(o.str());
    Guard g(depth); IPhreeqc::fpunchf(name, format, i);
  }
  virtual void fpunchf_end_row(const char *format) {
    std::ostringstream o;
    o << "{\"k\":\"endrow\",\"n\":" << cur_n() << ",\"has\":" << (SelectedOutputMap.find(cur_n()) != SelectedOutputMap.end() ? 1 : 0) << ",\"pending\":[";
    if (PhreeqcPtr->current_selected_output && PhreeqcPtr->current_user_punch && SelectedOutputMap.find(cur_n()) != SelectedOutputMap.end()) {
      const std::vector<std::string> &h = PhreeqcPtr->current_user_punch->Get_headings();
      bool first = true;
      if (PhreeqcPtr->n_user_punch_index >= 0)
        for (size_t i = (size_t)PhreeqcPtr->n_user_punch_index; i < h.size(); ++i) { o << (first ? "" : ",") << jstr(h[i]); first = false; }
    }
    o << "]}";
    rec(o.str());
    Guard g(depth); IPhreeqc::fpunchf_end_row(format);
  }
  virtual bool punch_open(const char *file_name, std::ios_base::openmode mode, int n_user) {
    std::ostringstream o;
    o << "{\"k\":\"popen\",\"n\":" << n_user << ",\"fon\":" << (get_sel_out_file_on(n_user) ? 1 : 0) << ",\"name\":" << jstr(file_name) << "}";
    rec(o.str());
    Guard g(depth); return IPhreeqc::punch_open(file_name, mode, n_user);
  }
  virtual bool output_open(const char *file_name, std::ios_base::openmode mode) {
    rec(std::string("{\"k\":\"oopen\",\"name\":") + jstr(file_name) + "}");
    Guard g(depth); return IPhreeqc::output_open(file_name, mode);
  }
};
#endif
